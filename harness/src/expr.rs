//! C15: expression programs over a register file of `ir::Expr`, through the public API.
use crate::run::in_child;
use hpbf::{ir::Expr, CellType};
use hpbf::verif::{HashMap as VMap, HashSet as VSet};
use std::collections::HashMap;

fn parts_text<C: CellType>(e: &Expr<C>) -> String {
    let parts = e.verif_parts();
    if parts.is_empty() {
        return "0".into();
    }
    parts
        .iter()
        .map(|(c, vs)| format!("{}:{}", c.into_u64(), vs.iter().map(|v| v.to_string()).collect::<Vec<_>>().join(",")))
        .collect::<Vec<_>>()
        .join("+")
}

fn vals_text<C: CellType>(e: &Expr<C>, envs: &[Vec<C>]) -> String {
    envs.iter()
        .map(|env| e.evaluate(|v| env[((v + 3).rem_euclid(7)) as usize]).into_u64().to_string())
        .collect::<Vec<_>>()
        .join(",")
}

fn full<C: CellType>(e: &Expr<C>, envs: &[Vec<C>]) -> String {
    format!("E{}@{}", parts_text(e), vals_text(e, envs))
}

fn opt_expr<C: CellType>(e: Option<Expr<C>>, envs: &[Vec<C>]) -> String {
    match e {
        Some(e) => full(&e, envs),
        None => "none".into(),
    }
}

fn parse_map(s: &str) -> Vec<(isize, usize)> {
    s.split(',')
        .filter(|x| !x.is_empty())
        .map(|kv| {
            let (k, v) = kv.split_once('=').unwrap();
            (k.parse().unwrap(), v.parse().unwrap())
        })
        .collect()
}

fn run_w<C: CellType>(prog: &str, envs_s: &str) -> String {
    let envs: Vec<Vec<C>> = envs_s
        .split('/')
        .map(|e| e.split(',').map(|x| C::from_u64(x.parse::<u64>().unwrap())).collect())
        .collect();
    let mut regs: Vec<Expr<C>> = (0..8).map(|_| Expr::val(C::ZERO)).collect();
    let mut out = Vec::new();
    for op in prog.split(';').filter(|x| !x.is_empty()) {
        let f: Vec<&str> = op.split(':').collect();
        let r = |i: usize| -> usize { f[i].parse().unwrap() };
        let iv = |i: usize| -> isize { f[i].parse().unwrap() };
        let res = match f[0] {
            "val" => {
                regs[r(1)] = Expr::val(C::from_u64(f[2].parse::<u64>().unwrap()));
                full(&regs[r(1)], &envs)
            }
            "var" => {
                regs[r(1)] = Expr::var(iv(2));
                full(&regs[r(1)], &envs)
            }
            "add" => {
                let e = regs[r(2)].add(&regs[r(3)]);
                regs[r(1)] = e;
                full(&regs[r(1)], &envs)
            }
            "mul" => {
                let e = regs[r(2)].mul(&regs[r(3)]);
                regs[r(1)] = e;
                full(&regs[r(1)], &envs)
            }
            "neg" => {
                let e = regs[r(2)].neg();
                regs[r(1)] = e;
                full(&regs[r(1)], &envs)
            }
            "half" => match regs[r(2)].half() {
                Some(e) => {
                    regs[r(1)] = e;
                    full(&regs[r(1)], &envs)
                }
                None => "none".into(),
            },
            "norm" => {
                let e = regs[r(2)].clone().normalize();
                regs[r(1)] = e;
                full(&regs[r(1)], &envs)
            }
            "sym" => {
                let map: HashMap<isize, usize> = parse_map(f.get(4).copied().unwrap_or("")).into_iter().collect();
                let idmode = f[3] == "id";
                let e = regs[r(2)].symb_evaluate(|v| match map.get(&v) {
                    Some(&k) => Some(regs[k].clone()),
                    None => {
                        if idmode {
                            Some(Expr::var(v))
                        } else {
                            None
                        }
                    }
                });
                match e {
                    Some(e) => {
                        regs[r(1)] = e;
                        full(&regs[r(1)], &envs)
                    }
                    None => "none".into(),
                }
            }
            "const" => match regs[r(1)].constant() {
                Some(c) => c.into_u64().to_string(),
                None => "none".into(),
            },
            "incof" => opt_expr(regs[r(1)].inc_of(iv(2)), &envs),
            "pincof" => match regs[r(1)].prod_inc_of(iv(2)) {
                Some((e, m)) => format!("{}*{}", full(&e, &envs), m.into_u64()),
                None => "none".into(),
            },
            "cincof" => match regs[r(1)].const_inc_of(iv(2)) {
                Some(c) => c.into_u64().to_string(),
                None => "none".into(),
            },
            "prodof" => opt_expr(regs[r(1)].prod_of(iv(2)), &envs),
            // the same decompositions with the result kept in a register (s<op>:dst:src:var)
            "sincof" => {
                let e = regs[r(2)].inc_of(iv(3));
                if let Some(x) = &e {
                    regs[r(1)] = x.clone();
                }
                opt_expr(e, &envs)
            }
            "spincof" => match regs[r(2)].prod_inc_of(iv(3)) {
                Some((e, m)) => {
                    regs[r(1)] = e.clone();
                    format!("{}*{}", full(&e, &envs), m.into_u64())
                }
                None => "none".into(),
            },
            "sprodof" => {
                let e = regs[r(2)].prod_of(iv(3));
                if let Some(x) = &e {
                    regs[r(1)] = x.clone();
                }
                opt_expr(e, &envs)
            }
            "cpart" => regs[r(1)].constant_part().into_u64().to_string(),
            "ident" => match regs[r(1)].identity() {
                Some(v) => v.to_string(),
                None => "none".into(),
            },
            "opc" => regs[r(1)].op_count().to_string(),
            "addc" => regs[r(1)].add_count().to_string(),
            "zero" => (if regs[r(1)].is_zero() { "1" } else { "0" }).to_string(),
            "vars" => regs[r(1)].variables().map(|v| v.to_string()).collect::<Vec<_>>().join(","),
            "split" => {
                let mut cset = VSet::new();
                for c in f[2].split(',').filter(|x| !x.is_empty()) {
                    cset.insert(c.parse::<isize>().unwrap());
                }
                let mut lmap = VMap::new();
                for (v, k) in parse_map(f.get(3).copied().unwrap_or("")) {
                    lmap.insert(v, regs[k].clone());
                }
                let (c, o, l) = regs[r(1)].split_along(&cset, &lmap);
                let ls: Vec<String> = l.iter().map(|(a, b)| format!("{}~{}", full(a, &envs), full(b, &envs))).collect();
                format!("{}|{}|{}", full(&c, &envs), full(&o, &envs), ls.join("&"))
            }
            k => format!("ERR op {k}"),
        };
        out.push(res);
    }
    out.join(" ; ")
}

/// expr|w|prog|envs
pub fn run(f: &[&str]) -> String {
    let w: u32 = f[0].parse().unwrap();
    let prog = f[1].to_string();
    let envs = f[2].to_string();
    in_child(10000, move || match w {
        8 => run_w::<u8>(&prog, &envs),
        16 => run_w::<u16>(&prog, &envs),
        32 => run_w::<u32>(&prog, &envs),
        64 => run_w::<u64>(&prog, &envs),
        _ => "ERR width".into(),
    })
}

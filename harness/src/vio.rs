//! Logging / fault-injecting `Read` and `Write` objects sharing one event log.
use std::cell::RefCell;
use std::io::{self, Read, Write};
use std::rc::Rc;

#[derive(Clone, Debug)]
pub enum Ev {
    In(u8),
    Eof,
    InFail,
    Out(u8),
    OutFail(u8),
}

pub type Log = Rc<RefCell<Vec<Ev>>>;

/// When >= 0, every event is also written immediately to this file descriptor (used for runs
/// that are expected not to return, so that the parent sees the events produced so far).
pub static STREAM_FD: std::sync::atomic::AtomicI32 = std::sync::atomic::AtomicI32::new(-1);

fn ev_text(e: &Ev) -> String {
    match e {
        Ev::In(b) => format!("I:{b:02x}"),
        Ev::Eof => "I:eof".to_string(),
        Ev::InFail => "I:!".to_string(),
        Ev::Out(b) => format!("O:{b:02x}"),
        Ev::OutFail(b) => format!("O!:{b:02x}"),
    }
}

fn record(log: &Log, e: Ev) {
    let fd = STREAM_FD.load(std::sync::atomic::Ordering::Relaxed);
    if fd >= 0 {
        let t = format!("{} ", ev_text(&e));
        unsafe {
            libc::write(fd, t.as_ptr() as *const _, t.len());
        }
    }
    log.borrow_mut().push(e);
}

#[derive(Clone, Debug)]
pub struct Env {
    pub input: Vec<u8>,
    pub in_absent: bool,
    pub in_fail_at: Option<usize>,
    pub out_present: bool,
    pub out_fail_at: Option<usize>,
}

pub fn hex_bytes(h: &str) -> Vec<u8> {
    (0..h.len() / 2)
        .map(|i| u8::from_str_radix(&h[2 * i..2 * i + 2], 16).unwrap())
        .collect()
}

impl Env {
    /// env := <input-hex>,<absent 0/1>,<in_fail_at or ->,<out_present 0/1>,<out_fail_at or ->
    pub fn parse(s: &str) -> Env {
        let f: Vec<&str> = s.split(',').collect();
        assert!(f.len() == 5, "bad env {s}");
        let on = |x: &str| if x == "-" { None } else { Some(x.parse().unwrap()) };
        Env {
            input: hex_bytes(f[0]),
            in_absent: f[1] == "1",
            in_fail_at: on(f[2]),
            out_present: f[3] == "1",
            out_fail_at: on(f[4]),
        }
    }
}

pub struct LogRead {
    pub data: Vec<u8>,
    pub pos: usize,
    pub requests: usize,
    pub fail_at: Option<usize>,
    pub log: Log,
}

impl Read for LogRead {
    fn read(&mut self, buf: &mut [u8]) -> io::Result<usize> {
        if buf.is_empty() {
            return Ok(0);
        }
        let idx = self.requests;
        self.requests += 1;
        if self.fail_at == Some(idx) {
            record(&self.log, Ev::InFail);
            return Err(io::Error::new(io::ErrorKind::Other, "injected input failure"));
        }
        if self.pos < self.data.len() {
            buf[0] = self.data[self.pos];
            self.pos += 1;
            record(&self.log, Ev::In(buf[0]));
            Ok(1)
        } else {
            record(&self.log, Ev::Eof);
            Ok(0)
        }
    }
}

pub struct LogWrite {
    pub count: usize,
    pub fail_at: Option<usize>,
    pub log: Log,
}

impl Write for LogWrite {
    fn write(&mut self, buf: &[u8]) -> io::Result<usize> {
        if buf.is_empty() {
            return Ok(0);
        }
        let idx = self.count;
        self.count += 1;
        if self.fail_at == Some(idx) {
            record(&self.log, Ev::OutFail(buf[0]));
            // alternate the two refusal styles: full sink (Ok(0)) and error
            return if idx % 2 == 0 { Ok(0) } else { Err(io::Error::new(io::ErrorKind::Other, "injected output failure")) };
        }
        record(&self.log, Ev::Out(buf[0]));
        Ok(1)
    }
    fn flush(&mut self) -> io::Result<()> {
        Ok(())
    }
}

pub fn make_io(env: &Env) -> (Option<Box<dyn Read>>, Option<Box<dyn Write>>, Log) {
    let log: Log = Rc::new(RefCell::new(Vec::new()));
    let r: Option<Box<dyn Read>> = if env.in_absent {
        None
    } else {
        Some(Box::new(LogRead { data: env.input.clone(), pos: 0, requests: 0, fail_at: env.in_fail_at, log: log.clone() }))
    };
    let w: Option<Box<dyn Write>> = if env.out_present {
        Some(Box::new(LogWrite { count: 0, fail_at: env.out_fail_at, log: log.clone() }))
    } else {
        None
    };
    (r, w, log)
}

pub fn trace_string(log: &Log) -> String {
    let l = log.borrow();
    if l.is_empty() {
        return "-".into();
    }
    l.iter()
        .map(ev_text)
        .collect::<Vec<_>>()
        .join(" ")
}

//! C14: the public `CellType` methods at the four widths.
use hpbf::CellType;

fn opt<C: CellType>(v: Option<C>) -> String {
    match v {
        Some(x) => x.into_u64().to_string(),
        None => "none".to_string(),
    }
}

fn run_w<C: CellType>(func: &str, a: u128, b: u128) -> String {
    // operands arrive as non-negative integers (or as i64/i16 for the signed conversions)
    let ca = C::from_u64(a as u64);
    let cb = C::from_u64(b as u64);
    match func {
        "add" => ca.wrapping_add(cb).into_u64().to_string(),
        "mul" => ca.wrapping_mul(cb).into_u64().to_string(),
        "neg" => ca.wrapping_neg().into_u64().to_string(),
        "and" => ca.bitand(cb).into_u64().to_string(),
        "shr" => ca.wrapping_shr(b as u32).into_u64().to_string(),
        "shl" => ca.wrapping_shl(b as u32).into_u64().to_string(),
        "tz" => ca.trailing_zeros().to_string(),
        "odd" => ca.is_odd().to_string(),
        "pow" => ca.wrapping_pow(cb).into_u64().to_string(),
        "inv" => opt(ca.wrapping_inv()),
        "div" => opt(ca.wrapping_div(cb)),
        "from_u64" => C::from_u64(a as u64).into_u64().to_string(),
        "into_u64" => ca.into_u64().to_string(),
        "into_i64" => ca.into_i64().to_string(),
        "from_u8" => C::from_u8(a as u8).into_u64().to_string(),
        "into_u8" => ca.into_u8().to_string(),
        _ => format!("ERR unknown fn {func}"),
    }
}

pub fn run(f: &[&str]) -> String {
    if f.len() != 4 {
        return "ERR bad cell line".into();
    }
    let w: u32 = f[0].parse().unwrap();
    let func = f[1];
    if func == "from_i16" {
        let v: i16 = f[2].parse().unwrap();
        return match w {
            8 => <u8 as CellType>::from_i16(v).into_u64().to_string(),
            16 => <u16 as CellType>::from_i16(v).into_u64().to_string(),
            32 => <u32 as CellType>::from_i16(v).into_u64().to_string(),
            64 => <u64 as CellType>::from_i16(v).into_u64().to_string(),
            _ => "ERR width".into(),
        };
    }
    let a: u128 = f[2].parse().unwrap();
    let b: u128 = f[3].parse().unwrap();
    if func == "try_into_i16" {
        let r = match w {
            8 => <u8 as CellType>::from_u64(a as u64).try_into_i16(),
            16 => <u16 as CellType>::from_u64(a as u64).try_into_i16(),
            32 => <u32 as CellType>::from_u64(a as u64).try_into_i16(),
            64 => <u64 as CellType>::from_u64(a as u64).try_into_i16(),
            _ => return "ERR width".into(),
        };
        return match r {
            Some(x) => x.to_string(),
            None => "none".into(),
        };
    }
    match w {
        8 => run_w::<u8>(func, a, b),
        16 => run_w::<u16>(func, a, b),
        32 => run_w::<u32>(func, a, b),
        64 => run_w::<u64>(func, a, b),
        _ => "ERR width".into(),
    }
}

//! Global allocator with switchable fault/guard modes (C06, C10, C17).
//!  MODE 0: system allocator.
//!  MODE 1: the k-th allocation request of any kind (`alloc`, `alloc_zeroed`, `realloc`) made while
//!          armed returns null (FAIL_AT = k, 0-based); for `realloc` the old block stays valid.
//!  MODE 2/3: every allocation made while armed is placed flush against a PROT_NONE page on
//!            the left (2) or on the right (3); freed blocks are unmapped.
//!  MODE 4: "arena": every request is served by bumping through a static zero-initialised arena
//!          (never reused), so that the process keeps allocating after its address-space limit
//!          has been lowered to 0 and only *direct* kernel requests (mmap) are refused.
use std::alloc::{GlobalAlloc, Layout, System};
use std::sync::atomic::{AtomicBool, AtomicI64, AtomicUsize, Ordering};

pub static MODE: AtomicUsize = AtomicUsize::new(0);
pub static FAIL_AT: AtomicI64 = AtomicI64::new(-1);
pub static ZEROED_COUNT: AtomicI64 = AtomicI64::new(0);
pub static GUARDED_ALLOCS: AtomicUsize = AtomicUsize::new(0);

const PG: usize = 4096;
const SLOTS: usize = 4096;
static LOCK: AtomicBool = AtomicBool::new(false);
static mut TABLE: [(usize, usize, usize); SLOTS] = [(0, 0, 0); SLOTS]; // (user ptr, map base, map len)

fn lock() {
    while LOCK.compare_exchange_weak(false, true, Ordering::Acquire, Ordering::Relaxed).is_err() {
        std::hint::spin_loop();
    }
}
fn unlock() {
    LOCK.store(false, Ordering::Release);
}

/// counts one request; true when it is the one to refuse
fn refuse() -> bool {
    let n = ZEROED_COUNT.fetch_add(1, Ordering::Relaxed);
    n == FAIL_AT.load(Ordering::Relaxed)
}

pub struct VAlloc;

const ARENA_SIZE: usize = 64 << 20;
static mut ARENA: [u8; ARENA_SIZE] = [0; ARENA_SIZE];
static ARENA_NEXT: AtomicUsize = AtomicUsize::new(0);

fn arena_base() -> usize {
    unsafe { std::ptr::addr_of!(ARENA) as usize }
}
fn in_arena(ptr: *mut u8) -> bool {
    (ptr as usize).wrapping_sub(arena_base()) < ARENA_SIZE
}
fn arena_alloc(layout: Layout) -> *mut u8 {
    loop {
        let cur = ARENA_NEXT.load(Ordering::SeqCst);
        let start = (arena_base() + cur + layout.align() - 1) / layout.align() * layout.align() - arena_base();
        let end = start + layout.size().max(1);
        if end > ARENA_SIZE {
            return std::ptr::null_mut();
        }
        if ARENA_NEXT.compare_exchange(cur, end, Ordering::SeqCst, Ordering::SeqCst).is_ok() {
            return (arena_base() + start) as *mut u8;
        }
    }
}

unsafe fn guarded_alloc(layout: Layout, right: bool) -> *mut u8 {
    let size = layout.size().max(1);
    let align = layout.align();
    let body = (size + PG - 1) / PG * PG;
    let total = body + 2 * PG;
    let base = libc::mmap(std::ptr::null_mut(), total, libc::PROT_READ | libc::PROT_WRITE,
        libc::MAP_PRIVATE | libc::MAP_ANONYMOUS, -1, 0);
    if base == libc::MAP_FAILED {
        return std::ptr::null_mut();
    }
    let base = base as usize;
    libc::mprotect(base as *mut _, PG, libc::PROT_NONE);
    libc::mprotect((base + PG + body) as *mut _, PG, libc::PROT_NONE);
    let user = if right {
        let off = (body - size) / align * align;
        base + PG + off
    } else {
        base + PG
    };
    lock();
    let mut stored = false;
    for slot in TABLE.iter_mut() {
        if slot.0 == 0 {
            *slot = (user, base, total);
            stored = true;
            break;
        }
    }
    unlock();
    if !stored {
        libc::munmap(base as *mut _, total);
        return std::ptr::null_mut();
    }
    GUARDED_ALLOCS.fetch_add(1, Ordering::Relaxed);
    user as *mut u8
}

unsafe fn guarded_free(ptr: *mut u8) -> bool {
    let p = ptr as usize;
    lock();
    let mut found = None;
    for slot in TABLE.iter_mut() {
        if slot.0 == p {
            found = Some((slot.1, slot.2));
            *slot = (0, 0, 0);
            break;
        }
    }
    unlock();
    if let Some((base, total)) = found {
        libc::munmap(base as *mut _, total);
        true
    } else {
        false
    }
}

unsafe impl GlobalAlloc for VAlloc {
    unsafe fn alloc(&self, layout: Layout) -> *mut u8 {
        match MODE.load(Ordering::Relaxed) {
            2 => guarded_alloc(layout, false),
            3 => guarded_alloc(layout, true),
            4 => arena_alloc(layout),
            1 => {
                if refuse() {
                    return std::ptr::null_mut();
                }
                System.alloc(layout)
            }
            _ => System.alloc(layout),
        }
    }
    unsafe fn alloc_zeroed(&self, layout: Layout) -> *mut u8 {
        match MODE.load(Ordering::Relaxed) {
            1 => {
                if refuse() {
                    return std::ptr::null_mut();
                }
                System.alloc_zeroed(layout)
            }
            4 => arena_alloc(layout), // the arena is zero and never reused
            2 => guarded_alloc(layout, false), // fresh anonymous mappings are zero
            3 => guarded_alloc(layout, true),
            _ => System.alloc_zeroed(layout),
        }
    }
    unsafe fn dealloc(&self, ptr: *mut u8, layout: Layout) {
        if in_arena(ptr) {
            return;
        }
        if !guarded_free(ptr) {
            System.dealloc(ptr, layout)
        }
    }
    unsafe fn realloc(&self, ptr: *mut u8, layout: Layout, new_size: usize) -> *mut u8 {
        let mode = MODE.load(Ordering::Relaxed);
        let new_layout = Layout::from_size_align_unchecked(new_size, layout.align());
        let in_table = {
            let p = ptr as usize;
            lock();
            let f = TABLE.iter().any(|s| s.0 == p);
            unlock();
            f
        };
        if mode >= 2 || in_table || in_arena(ptr) {
            let np = self.alloc(new_layout);
            if !np.is_null() {
                std::ptr::copy_nonoverlapping(ptr, np, layout.size().min(new_size));
                self.dealloc(ptr, layout);
            }
            np
        } else {
            if mode == 1 && refuse() {
                return std::ptr::null_mut();
            }
            System.realloc(ptr, layout, new_size)
        }
    }
}

//! C09 / C17: histories on `runtime::Memory`.
use crate::run::in_child;
use hpbf::{runtime::Memory, CellType};
use std::collections::BTreeMap;

#[derive(Clone, Debug)]
enum Op {
    Mov(isize),
    Read(isize),
    Write(isize, u64),
    Acc(isize, isize),
    Check(isize),
    /// the probe of the checked engines: test a cell and request a range only when it is not accessible
    Probe(isize, isize, isize),
}

fn parse_ops(s: &str) -> Vec<Op> {
    s.split(';')
        .filter(|x| !x.is_empty())
        .map(|x| {
            let f: Vec<&str> = x.split(':').collect();
            match f[0] {
                "m" => Op::Mov(f[1].parse().unwrap()),
                "r" => Op::Read(f[1].parse().unwrap()),
                "w" => Op::Write(f[1].parse().unwrap(), f[2].parse().unwrap()),
                "a" => Op::Acc(f[1].parse().unwrap(), f[2].parse().unwrap()),
                "c" => Op::Check(f[1].parse().unwrap()),
                "p" => Op::Probe(f[1].parse().unwrap(), f[2].parse().unwrap(), f[3].parse().unwrap()),
                k => panic!("bad op {k}"),
            }
        })
        .collect()
}

/// Runs the history; returns `<obs...> | <facts>` where facts report the growth contract
/// (needed_below <= added_below, needed_above <= new_size - size - added_below, contents and
/// logical pointer preserved), purity of reads, and agreement with a map oracle.
fn run_w<C: CellType>(ops: &[Op]) -> String {
    let mut mem = Memory::<C>::new();
    let mut oracle: BTreeMap<i128, u64> = BTreeMap::new();
    let mut pos: i128 = 0;
    let mut obs = Vec::new();
    let mut facts = Vec::new();
    let mut growths = 0;
    for (i, op) in ops.iter().enumerate() {
        let (size0, off0) = mem.verif_raw();
        match op {
            Op::Mov(d) => {
                mem.mov(*d);
                pos += *d as i128;
                obs.push("-".to_string());
            }
            Op::Read(o) => {
                let v = mem.read(*o).into_u64();
                if mem.verif_raw() != (size0, off0) {
                    facts.push(format!("read-not-pure@{i}"));
                }
                let want = oracle.get(&(pos + *o as i128)).copied().unwrap_or(0);
                if v != want {
                    facts.push(format!("oracle-read@{i}:got{v}want{want}"));
                }
                obs.push(format!("r={v}"));
            }
            Op::Check(o) => {
                let b = mem.check(*o);
                obs.push(format!("c={}", if b { 1 } else { 0 }));
            }
            Op::Write(o, v) => {
                mem.write(*o, C::from_u64(*v));
                oracle.insert(pos + *o as i128, C::from_u64(*v).into_u64());
                obs.push("-".to_string());
            }
            Op::Acc(a, b) => {
                mem.make_accessible(*a, *b);
                obs.push("-".to_string());
            }
            Op::Probe(c, a, b) => {
                let hit = mem.check(*c);
                if !hit {
                    mem.make_accessible(*a, *b);
                    if !mem.check(*c) {
                        facts.push(format!("probed-cell-not-accessible-after-request@{i}"));
                    }
                }
                obs.push(format!("p={}", if hit { 1 } else { 0 }));
            }
        }
        let (size1, off1) = mem.verif_raw();
        if size1 != size0 {
            growths += 1;
            // contract: where did the request lie relative to the old buffer?
            let (a, b) = match op {
                Op::Acc(a, b) | Op::Probe(_, a, b) => (*a as i128, *b as i128),
                Op::Write(o, _) => (*o as i128, *o as i128 + 1),
                _ => {
                    facts.push(format!("growth-by-nongrowing-op@{i}"));
                    (0, 0)
                }
            };
            let so = off0 as isize as i128;
            let nb = if so + a < 0 { -(so + a) } else { 0 };
            let na = if so + b > size0 as i128 { so + b - size0 as i128 } else { 0 };
            let added_below = off1.wrapping_sub(off0) as isize as i128;
            let added = size1 as i128 - size0 as i128;
            if !(added_below >= nb && added - added_below >= na && added_below >= 0 && added > 0) {
                facts.push(format!("contract@{i}:size{size0}->{size1},nb{nb},na{na},added_below{added_below}"));
            }
            // contents and logical pointer preserved
            for (k, v) in oracle.iter() {
                let rel = *k - pos;
                if rel.abs() < (1 << 40) {
                    let got = mem.read(rel as isize).into_u64();
                    if got != *v {
                        facts.push(format!("lost-cell@{i}:cell{k}got{got}want{v}"));
                        break;
                    }
                }
            }
            // requested range accessible
            let mut k = a;
            while k < b {
                if !mem.check(k as isize) {
                    facts.push(format!("not-accessible@{i}:offset{k}"));
                    break;
                }
                k += ((b - a) / 16).max(1);
            }
            if b > a && !mem.check((b - 1) as isize) {
                facts.push(format!("not-accessible@{i}:offset{}", b - 1));
            }
        } else if let Op::Acc(a, b) = op {
            if b > a && (!mem.check(*a) || !mem.check(*b - 1)) {
                facts.push(format!("not-accessible@{i}"));
            }
        }
    }
    let (size, _) = mem.verif_raw();
    format!("{} | growths={} size={} {}", obs.join(" "), growths, size, if facts.is_empty() { "facts:ok".to_string() } else { format!("facts:{}", facts.join(",")) })
}

/// tape|w|ops
pub fn run(f: &[&str]) -> String {
    let w: u32 = f[0].parse().unwrap();
    let ops = parse_ops(f[1]);
    in_child(10000, move || match w {
        8 => run_w::<u8>(&ops),
        16 => run_w::<u16>(&ops),
        32 => run_w::<u32>(&ops),
        64 => run_w::<u64>(&ops),
        _ => "ERR width".into(),
    })
}

fn run_fail_w<C: CellType>(ops: &[Op], k: i64) -> String {
    use std::sync::atomic::Ordering;
    let mut mem = Memory::<C>::new();
    crate::alloc::ZEROED_COUNT.store(0, Ordering::Relaxed);
    crate::alloc::FAIL_AT.store(k, Ordering::Relaxed);
    crate::alloc::MODE.store(1, Ordering::Relaxed);
    let mut done = 0;
    for op in ops {
        match op {
            Op::Mov(d) => mem.mov(*d),
            Op::Read(o) => {
                mem.read(*o);
            }
            Op::Check(o) => {
                mem.check(*o);
            }
            Op::Write(o, v) => mem.write(*o, C::from_u64(*v)),
            Op::Acc(a, b) => mem.make_accessible(*a, *b),
            Op::Probe(c, a, b) => {
                if !mem.check(*c) {
                    mem.make_accessible(*a, *b);
                }
            }
        }
        done += 1;
    }
    crate::alloc::MODE.store(0, Ordering::Relaxed);
    let n = crate::alloc::ZEROED_COUNT.load(Ordering::Relaxed);
    format!("completed ops={done} zeroed_requests={n}")
}

/// tapefail|w|k|ops : the k-th allocation request (alloc, alloc_zeroed or realloc) fails
pub fn run_fail(f: &[&str]) -> String {
    let w: u32 = f[0].parse().unwrap();
    let k: i64 = f[1].parse().unwrap();
    let ops = parse_ops(f[2]);
    in_child(10000, move || match w {
        8 => run_fail_w::<u8>(&ops, k),
        16 => run_fail_w::<u16>(&ops, k),
        32 => run_fail_w::<u32>(&ops, k),
        64 => run_fail_w::<u64>(&ops, k),
        _ => "ERR width".into(),
    })
}

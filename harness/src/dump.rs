//! Text serialisation of IR and bytecode (same grammar as ocaml/driver.ml) and parsers
//! for hand-built IR / bytecode.
use hpbf::{bc, ir, CellType};

pub fn expr_text<C: CellType>(e: &ir::Expr<C>, out: &mut String) {
    let parts = e.verif_parts();
    out.push_str(&parts.len().to_string());
    for (c, vs) in parts {
        out.push_str(&format!(" {} {}", c.into_u64(), vs.len()));
        for v in vs {
            out.push_str(&format!(" {v}"));
        }
    }
}

pub fn block_text<C: CellType>(b: &ir::Block<C>, out: &mut String) {
    out.push_str(&format!("{{ {}", b.shift));
    for i in &b.insts {
        match i {
            ir::Instr::Output { src } => out.push_str(&format!(" o {src}")),
            ir::Instr::Input { dst } => out.push_str(&format!(" i {dst}")),
            ir::Instr::Calc { calcs } => {
                out.push_str(&format!(" c {}", calcs.len()));
                for (v, e) in calcs.iter() {
                    out.push_str(&format!(" {v} "));
                    expr_text(e, out);
                }
            }
            ir::Instr::Loop { cond, block, once } => {
                out.push_str(&format!(" l {cond} {} ", if *once { 1 } else { 0 }));
                block_text(block, out);
            }
            ir::Instr::If { cond, block } => {
                out.push_str(&format!(" f {cond} "));
                block_text(block, out);
            }
        }
    }
    out.push_str(" }");
}

fn loc_text<C: CellType>(l: &bc::Loc<C>) -> String {
    match l {
        bc::Loc::Mem(k) => format!("m {k}"),
        bc::Loc::MemZero(k) => format!("mz {k}"),
        bc::Loc::Tmp(t) => format!("t {t}"),
        bc::Loc::Imm(c) => format!("# {}", c.into_u64()),
    }
}

pub fn bc_text<C: CellType>(p: &bc::Program<C>) -> String {
    let mut out = format!("{} {} {} {}", p.temps, p.min_accessed, p.max_accessed, p.insts.len());
    for (i, inst) in p.insts.iter().enumerate() {
        let live = p.live.get(i).copied().map(|x| x as i64).unwrap_or(-1);
        out.push_str(&format!(" {live} "));
        match inst {
            bc::Instr::Noop => out.push('n'),
            bc::Instr::Scan(c, s) => out.push_str(&format!("s {c} {s}")),
            bc::Instr::Mov(s) => out.push_str(&format!("m {s}")),
            bc::Instr::Inp(d) => out.push_str(&format!("i {d}")),
            bc::Instr::Out(s) => out.push_str(&format!("o {s}")),
            bc::Instr::BrZ(c, o) => out.push_str(&format!("z {c} {o}")),
            bc::Instr::BrNZ(c, o) => out.push_str(&format!("nz {c} {o}")),
            bc::Instr::Add(d, a, b) => out.push_str(&format!("a {} {} {}", loc_text(d), loc_text(a), loc_text(b))),
            bc::Instr::Sub(d, a, b) => out.push_str(&format!("u {} {} {}", loc_text(d), loc_text(a), loc_text(b))),
            bc::Instr::Mul(d, a, b) => out.push_str(&format!("x {} {} {}", loc_text(d), loc_text(a), loc_text(b))),
            bc::Instr::Copy(d, a) => out.push_str(&format!("c {} {}", loc_text(d), loc_text(a))),
        }
    }
    out
}

pub struct Toks<'a> {
    it: std::str::SplitWhitespace<'a>,
}

impl<'a> Toks<'a> {
    pub fn new(s: &'a str) -> Self {
        Toks { it: s.split_whitespace() }
    }
    pub fn tok(&mut self) -> &'a str {
        self.it.next().expect("eof tokens")
    }
    pub fn int(&mut self) -> i128 {
        self.tok().parse().expect("int")
    }
}

/// Build an expression through the public API only (val/var/mul/add).
pub fn parse_expr<C: CellType>(t: &mut Toks) -> ir::Expr<C> {
    let np = t.int();
    let mut e = ir::Expr::<C>::val(C::ZERO);
    for _ in 0..np {
        let c = C::from_u64(t.int() as u64);
        let nv = t.int();
        let mut p = ir::Expr::<C>::val(c);
        let mut vars = Vec::new();
        for _ in 0..nv {
            vars.push(t.int() as isize);
        }
        // var(v).mul(acc) appends v to acc's variable list, so the given order is kept
        let mut m: Option<ir::Expr<C>> = None;
        for v in vars.iter() {
            m = Some(match m {
                None => ir::Expr::var(*v),
                Some(acc) => ir::Expr::var(*v).mul(acc),
            });
        }
        if let Some(m) = m {
            p = m.mul(p);
        }
        e = e.add(p);
    }
    e
}

pub fn parse_block<C: CellType>(t: &mut Toks) -> ir::Block<C> {
    assert_eq!(t.tok(), "{");
    let shift = t.int() as isize;
    let mut insts = Vec::new();
    loop {
        match t.tok() {
            "}" => break,
            "o" => insts.push(ir::Instr::Output { src: t.int() as isize }),
            "i" => insts.push(ir::Instr::Input { dst: t.int() as isize }),
            "c" => {
                let n = t.int();
                let mut calcs = hpbf::verif::SmallVec::new();
                for _ in 0..n {
                    let v = t.int() as isize;
                    let e = parse_expr::<C>(t);
                    calcs.push((v, e));
                }
                insts.push(ir::Instr::Calc { calcs });
            }
            "l" => {
                let cond = t.int() as isize;
                let once = t.tok() == "1";
                let block = parse_block::<C>(t);
                insts.push(ir::Instr::Loop { cond, block, once });
            }
            "f" => {
                let cond = t.int() as isize;
                let block = parse_block::<C>(t);
                insts.push(ir::Instr::If { cond, block });
            }
            x => panic!("bad inst token {x}"),
        }
    }
    ir::Block { shift, insts }
}

fn parse_loc<C: CellType>(t: &mut Toks) -> bc::Loc<C> {
    match t.tok() {
        "m" => bc::Loc::Mem(t.int() as isize),
        "mz" => bc::Loc::MemZero(t.int() as isize),
        "t" => bc::Loc::Tmp(t.int() as usize),
        "#" => bc::Loc::Imm(C::from_u64(t.int() as u64)),
        x => panic!("bad loc {x}"),
    }
}

pub fn parse_bc<C: CellType>(t: &mut Toks) -> bc::Program<C> {
    let temps = t.int() as usize;
    let min_accessed = t.int() as isize;
    let max_accessed = t.int() as isize;
    let n = t.int();
    let mut live = Vec::new();
    let mut insts = Vec::new();
    for _ in 0..n {
        live.push(t.int() as u16);
        let i = match t.tok() {
            "n" => bc::Instr::Noop,
            "s" => bc::Instr::Scan(t.int() as isize, t.int() as isize),
            "m" => bc::Instr::Mov(t.int() as isize),
            "i" => bc::Instr::Inp(t.int() as isize),
            "o" => bc::Instr::Out(t.int() as isize),
            "z" => bc::Instr::BrZ(t.int() as isize, t.int() as isize),
            "nz" => bc::Instr::BrNZ(t.int() as isize, t.int() as isize),
            "a" => bc::Instr::Add(parse_loc(t), parse_loc(t), parse_loc(t)),
            "u" => bc::Instr::Sub(parse_loc(t), parse_loc(t), parse_loc(t)),
            "x" => bc::Instr::Mul(parse_loc(t), parse_loc(t), parse_loc(t)),
            "c" => bc::Instr::Copy(parse_loc(t), parse_loc(t)),
            x => panic!("bad bc token {x}"),
        };
        insts.push(i);
    }
    bc::Program { temps, min_accessed, max_accessed, live, insts }
}

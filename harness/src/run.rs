//! Running executors on cases, each in a forked child (so that crashes, aborts and hangs are
//! observed as results instead of killing the harness).
use crate::dump::{bc_text, block_text, parse_bc, parse_block, Toks};
use crate::vio::{hex_bytes, make_io, trace_string, Env};
use hpbf::{
    bc,
    exec::{BaseJitCompiler, BcInterpreter, Executable, Executor, InplaceInterpreter, IrInterpreter},
    ir,
    runtime::Context,
    CellType, Error,
};
use std::panic::{catch_unwind, AssertUnwindSafe};

/// Run `f` in a forked child with a wall-clock limit; returns the child's output line or a
/// `signal:<n>` / `timeout` / `exit:<code>` marker.
pub fn in_child<F: FnOnce() -> String>(timeout_ms: u64, f: F) -> String {
    in_child_opt(timeout_ms, false, f)
}

/// With `stream`, events are written to the pipe as they happen, followed by `|` and the
/// final result line if the run returns. At most 256 KiB of streamed events are kept.
pub fn in_child_opt<F: FnOnce() -> String>(timeout_ms: u64, stream: bool, f: F) -> String {
    unsafe {
        let mut fds = [0i32; 2];
        assert!(libc::pipe(fds.as_mut_ptr()) == 0);
        let pid = libc::fork();
        assert!(pid >= 0);
        if pid == 0 {
            libc::close(fds[0]);
            if stream {
                crate::vio::STREAM_FD.store(fds[1], std::sync::atomic::Ordering::Relaxed);
            }
            let res = catch_unwind(AssertUnwindSafe(f)).unwrap_or_else(|e| {
                let msg = if let Some(s) = e.downcast_ref::<String>() {
                    s.clone()
                } else if let Some(s) = e.downcast_ref::<&str>() {
                    s.to_string()
                } else {
                    "?".into()
                };
                format!("panic:{}", msg.replace('\n', " "))
            });
            let res = if stream { format!("|{res}") } else { res };
            let bytes = res.as_bytes();
            let mut off = 0;
            while off < bytes.len() {
                let n = libc::write(fds[1], bytes[off..].as_ptr() as *const _, bytes.len() - off);
                if n <= 0 {
                    break;
                }
                off += n as usize;
            }
            libc::_exit(0);
        }
        libc::close(fds[1]);
        // read with poll + timeout
        let mut out = Vec::new();
        let start = std::time::Instant::now();
        let mut timed_out = false;
        loop {
            let elapsed = start.elapsed().as_millis() as u64;
            if elapsed >= timeout_ms {
                timed_out = true;
                break;
            }
            let mut pfd = libc::pollfd { fd: fds[0], events: libc::POLLIN, revents: 0 };
            let r = libc::poll(&mut pfd, 1, (timeout_ms - elapsed) as i32);
            if r == 0 {
                timed_out = true;
                break;
            }
            let mut buf = [0u8; 65536];
            let n = libc::read(fds[0], buf.as_mut_ptr() as *mut _, buf.len());
            if n <= 0 {
                break;
            }
            out.extend_from_slice(&buf[..n as usize]);
            if stream && out.len() > (256 << 10) && !out.contains(&b'|') {
                timed_out = true;
                break;
            }
        }
        libc::close(fds[0]);
        if timed_out {
            libc::kill(pid, libc::SIGKILL);
        }
        let mut status = 0i32;
        libc::waitpid(pid, &mut status, 0);
        if timed_out {
            let partial = String::from_utf8_lossy(&out).to_string();
            return format!("timeout {partial}");
        }
        if libc::WIFSIGNALED(status) {
            return format!("signal:{}", libc::WTERMSIG(status));
        }
        if libc::WIFEXITED(status) && libc::WEXITSTATUS(status) != 0 {
            return format!("exit:{} {}", libc::WEXITSTATUS(status), String::from_utf8_lossy(&out));
        }
        String::from_utf8_lossy(&out).to_string()
    }
}

#[derive(Clone, Copy, PartialEq)]
pub enum Mode {
    Exec,
    Limited(u64),
    Unsafe(isize),
}

pub fn parse_mode(mode: &str, budget: &str) -> Mode {
    match mode {
        "exec" => Mode::Exec,
        "limited" => Mode::Limited(budget.parse().unwrap()),
        "unsafe" => Mode::Unsafe(budget.parse().unwrap()),
        m => panic!("bad mode {m}"),
    }
}

fn err_string(e: &Error) -> String {
    format!("err:{:?}:{}", e.kind, e.position)
}

/// Execute `ex` according to `mode` and return the canonical result line
/// `<status> <finished> <trace>`.
pub fn exec_with<C: CellType, X: Executable<C>>(ex: &X, mode: Mode, env: &Env) -> String {
    let (r, w, log) = make_io(env);
    let mut ctx = Context::<C>::new(r, w);
    let (status, fin) = match mode {
        Mode::Exec => match ex.execute(&mut ctx) {
            Ok(()) => ("ok".to_string(), true),
            Err(e) => (err_string(&e), true),
        },
        Mode::Limited(b) => {
            ctx.budget = b as usize;
            match ex.execute_limited(&mut ctx) {
                Ok(f) => ("ok".to_string(), f),
                Err(e) => (err_string(&e), true),
            }
        }
        Mode::Unsafe(margin) => {
            ctx.memory.make_accessible(-margin, margin + 1);
            match unsafe { ex.execute_unsafe(&mut ctx) } {
                Ok(()) => ("ok".to_string(), true),
                Err(e) => (err_string(&e), true),
            }
        }
    };
    drop(ctx);
    // fault/guard modes of the allocator only cover the execution itself
    crate::alloc::MODE.store(0, std::sync::atomic::Ordering::Relaxed);
    format!("{} {} {}", status, if fin { 1 } else { 0 }, trace_string(&log))
}

fn run_backend<C: CellType>(backend: &str, level: u32, mode: Mode, src: &str, env: &Env) -> String {
    match backend {
        "inplace" => match InplaceInterpreter::<C>::create(src, level) {
            Ok(ex) => exec_with(&ex, mode, env),
            Err(e) => format!("create-{}", err_string(&e)),
        },
        "ir" => match IrInterpreter::<C>::create(src, level) {
            Ok(ex) => exec_with(&ex, mode, env),
            Err(e) => format!("create-{}", err_string(&e)),
        },
        "bc" => match BcInterpreter::<C>::create(src, level) {
            Ok(ex) => exec_with(&ex, mode, env),
            Err(e) => format!("create-{}", err_string(&e)),
        },
        "jit" => match BaseJitCompiler::<C>::create(src, level) {
            Ok(ex) => exec_with(&ex, mode, env),
            Err(e) => format!("create-{}", err_string(&e)),
        },
        b => format!("ERR backend {b}"),
    }
}

macro_rules! by_width {
    ($w:expr, $f:ident, $($args:expr),*) => {
        match $w {
            8 => $f::<u8>($($args),*),
            16 => $f::<u16>($($args),*),
            32 => $f::<u32>($($args),*),
            64 => $f::<u64>($($args),*),
            _ => "ERR width".to_string(),
        }
    };
}
pub(crate) use by_width;

/// runs|backend|w|level|mode|budget|timeout_ms|src-hex|env : like `run`, but streaming events:
/// `<events so far> |<result line>` if it returned, `timeout <events so far>` otherwise
pub fn runs(f: &[&str]) -> String {
    let backend = f[0].to_string();
    let w: u32 = f[1].parse().unwrap();
    let level: u32 = f[2].parse().unwrap();
    let mode = parse_mode(f[3], f[4]);
    let timeout: u64 = f[5].parse().unwrap();
    let src = String::from_utf8(hex_bytes(f[6])).expect("utf8 source");
    let env = Env::parse(f[7]);
    in_child_opt(timeout, true, move || by_width!(w, run_backend, &backend, level, mode, &src, &env))
}

/// run|backend|w|level|mode|budget|timeout_ms|src-hex|env
pub fn run(f: &[&str]) -> String {
    let backend = f[0].to_string();
    let w: u32 = f[1].parse().unwrap();
    let level: u32 = f[2].parse().unwrap();
    let mode = parse_mode(f[3], f[4]);
    let timeout: u64 = f[5].parse().unwrap();
    let src = String::from_utf8(hex_bytes(f[6])).expect("utf8 source");
    let env = Env::parse(f[7]);
    in_child(timeout, move || by_width!(w, run_backend, &backend, level, mode, &src, &env))
}

fn dump_ir_w<C: CellType>(level: u32, src: &str) -> String {
    match ir::Program::<C>::parse(src) {
        Ok(p) => {
            let p = p.optimize(level);
            let mut s = String::new();
            block_text(&p, &mut s);
            format!("ok {s}")
        }
        Err(e) => err_string(&e),
    }
}

/// dumpir|w|level|src-hex
pub fn dumpir(f: &[&str]) -> String {
    let w: u32 = f[0].parse().unwrap();
    let level: u32 = f[1].parse().unwrap();
    let src = String::from_utf8(hex_bytes(f[2])).expect("utf8 source");
    in_child(20000, move || by_width!(w, dump_ir_w, level, &src))
}

fn dump_bc_w<C: CellType>(level: u32, regs: usize, fuse: bool, src: &str) -> String {
    match ir::Program::<C>::parse(src) {
        Ok(p) => {
            let p = p.optimize(level);
            let b = bc::CodeGen::translate(&p, regs, fuse);
            format!("ok {}", bc_text(&b))
        }
        Err(e) => err_string(&e),
    }
}

/// dumpbc|w|level|regs|fuse|src-hex
pub fn dumpbc(f: &[&str]) -> String {
    let w: u32 = f[0].parse().unwrap();
    let level: u32 = f[1].parse().unwrap();
    let regs: usize = f[2].parse().unwrap();
    let fuse = f[3] == "1";
    let src = String::from_utf8(hex_bytes(f[4])).expect("utf8 source");
    in_child(20000, move || by_width!(w, dump_bc_w, level, regs, fuse, &src))
}

fn held_bc_w<C: CellType>(backend: &str, level: u32, src: &str) -> String {
    match backend {
        "bc" => match BcInterpreter::<C>::create(src, level) {
            Ok(ex) => format!("ok {}", bc_text(ex.verif_bytecode())),
            Err(e) => err_string(&e),
        },
        "jit" => match BaseJitCompiler::<C>::create(src, level) {
            Ok(ex) => format!("ok {}", bc_text(ex.verif_bytecode())),
            Err(e) => err_string(&e),
        },
        _ => "ERR backend".into(),
    }
}

/// heldbc|backend|w|level|src-hex : the bytecode the executor actually holds
pub fn heldbc(f: &[&str]) -> String {
    let backend = f[0].to_string();
    let w: u32 = f[1].parse().unwrap();
    let level: u32 = f[2].parse().unwrap();
    let src = String::from_utf8(hex_bytes(f[3])).expect("utf8 source");
    in_child(20000, move || by_width!(w, held_bc_w, &backend, level, &src))
}

fn parse_w<C: CellType>(src: &str) -> String {
    match ir::Program::<C>::parse(src) {
        Ok(p) => {
            let mut s = String::new();
            block_text(&p, &mut s);
            format!("ok {s}")
        }
        Err(e) => format!("err {:?} {}", e.kind, e.position),
    }
}

/// parse|w|cp,cp,... (Unicode scalar values)
pub fn parse(f: &[&str]) -> String {
    let w: u32 = f[0].parse().unwrap();
    let src: String = if f[1].is_empty() {
        String::new()
    } else {
        f[1].split(',').map(|c| char::from_u32(c.parse().unwrap()).expect("scalar")).collect()
    };
    in_child(20000, move || by_width!(w, parse_w, &src))
}

fn runir_w<C: CellType>(mode: Mode, text: &str, env: &Env) -> String {
    let mut t = Toks::new(text);
    let blk = parse_block::<C>(&mut t);
    let ex = IrInterpreter::<C>::verif_from_ir(blk);
    exec_with(&ex, mode, env)
}

/// runir|w|mode|budget|timeout|ir-text|env
pub fn runir(f: &[&str]) -> String {
    let w: u32 = f[0].parse().unwrap();
    let mode = parse_mode(f[1], f[2]);
    let timeout: u64 = f[3].parse().unwrap();
    let text = f[4].to_string();
    let env = Env::parse(f[5]);
    in_child(timeout, move || by_width!(w, runir_w, mode, &text, &env))
}

fn runbc_w<C: CellType>(backend: &str, mode: Mode, text: &str, env: &Env) -> String {
    let mut t = Toks::new(text);
    let p = parse_bc::<C>(&mut t);
    match backend {
        "bc" => exec_with(&BcInterpreter::<C>::verif_from_bytecode(p), mode, env),
        "jit" => exec_with(&BaseJitCompiler::<C>::verif_from_bytecode(p), mode, env),
        _ => "ERR backend".into(),
    }
}

/// runbc|backend|w|mode|budget|timeout|bc-text|env
pub fn runbc(f: &[&str]) -> String {
    let backend = f[0].to_string();
    let w: u32 = f[1].parse().unwrap();
    let mode = parse_mode(f[2], f[3]);
    let timeout: u64 = f[4].parse().unwrap();
    let text = f[5].to_string();
    let env = Env::parse(f[6]);
    in_child(timeout, move || by_width!(w, runbc_w, &backend, mode, &text, &env))
}

fn runfail_w<C: CellType>(backend: &str, level: u32, kth: i64, src: &str, env: &Env) -> String {
    use std::sync::atomic::Ordering;
    // build the executor first (compilation is not under test), then arm the failing allocator
    macro_rules! go {
        ($t:ty) => {
            match <$t>::create(src, level) {
                Ok(ex) => {
                    crate::alloc::ZEROED_COUNT.store(0, Ordering::Relaxed);
                    crate::alloc::FAIL_AT.store(kth, Ordering::Relaxed);
                    crate::alloc::MODE.store(1, Ordering::Relaxed);
                    let r = exec_with(&ex, Mode::Exec, env);
                    crate::alloc::MODE.store(0, Ordering::Relaxed);
                    format!("{} requests={}", r, crate::alloc::ZEROED_COUNT.load(Ordering::Relaxed))
                }
                Err(e) => format!("create-{}", err_string(&e)),
            }
        };
    }
    match backend {
        "inplace" => go!(InplaceInterpreter<C>),
        "ir" => go!(IrInterpreter<C>),
        "bc" => go!(BcInterpreter<C>),
        "jit" => go!(BaseJitCompiler<C>),
        b => format!("ERR backend {b}"),
    }
}

/// runfail|backend|w|level|kth|src-hex|env : the kth allocation request (any kind) during execution fails
pub fn runfail(f: &[&str]) -> String {
    let backend = f[0].to_string();
    let w: u32 = f[1].parse().unwrap();
    let level: u32 = f[2].parse().unwrap();
    let kth: i64 = f[3].parse().unwrap();
    let src = String::from_utf8(hex_bytes(f[4])).expect("utf8 source");
    let env = Env::parse(f[5]);
    in_child(3000, move || by_width!(w, runfail_w, &backend, level, kth, &src, &env))
}

fn runnoas_w<C: CellType>(backend: &str, level: u32, src: &str, env: &Env) -> String {
    use std::sync::atomic::Ordering;
    macro_rules! go {
        ($t:ty) => {
            match <$t>::create(src, level) {
                Ok(ex) => {
                    crate::alloc::MODE.store(4, Ordering::Relaxed);
                    let none = libc::rlimit { rlim_cur: 0, rlim_max: 0 };
                    assert_eq!(unsafe { libc::setrlimit(libc::RLIMIT_AS, &none) }, 0);
                    exec_with(&ex, Mode::Exec, env)
                }
                Err(e) => format!("create-{}", err_string(&e)),
            }
        };
    }
    match backend {
        "inplace" => go!(InplaceInterpreter<C>),
        "ir" => go!(IrInterpreter<C>),
        "bc" => go!(BcInterpreter<C>),
        "jit" => go!(BaseJitCompiler<C>),
        b => format!("ERR backend {b}"),
    }
}

/// runnoas|backend|w|level|src-hex|env : the executor is built, then the allocator is switched to the
/// static arena and the address-space limit of the (child) process is lowered to 0, so that every
/// direct kernel memory request of the run (the JIT's executable mapping) is refused while the Rust
/// allocator still works.  Runs on a thread whose stack was mapped before the limit was lowered.
pub fn runnoas(f: &[&str]) -> String {
    let backend = f[0].to_string();
    let w: u32 = f[1].parse().unwrap();
    let level: u32 = f[2].parse().unwrap();
    let src = String::from_utf8(hex_bytes(f[3])).expect("utf8 source");
    let env = Env::parse(f[4]);
    in_child(5000, move || {
        let h = std::thread::Builder::new().stack_size(16 << 20).spawn(move || {
            catch_unwind(AssertUnwindSafe(|| by_width!(w, runnoas_w, &backend, level, &src, &env)))
        }).expect("thread");
        match h.join() {
            Ok(Ok(s)) => s,
            Ok(Err(e)) | Err(e) => {
                let msg = if let Some(s) = e.downcast_ref::<String>() { s.clone() } else if let Some(s) = e.downcast_ref::<&str>() { s.to_string() } else { "?".into() };
                format!("panic:{}", msg.replace('\n', " "))
            }
        }
    })
}

fn rung_w<C: CellType>(backend: &str, level: u32, mode: Mode, guard: usize, src: &str, env: &Env) -> String {
    use std::sync::atomic::Ordering;
    macro_rules! go {
        ($t:ty) => {
            match <$t>::create(src, level) {
                Ok(ex) => {
                    crate::alloc::MODE.store(guard, Ordering::Relaxed);
                    let r = exec_with(&ex, mode, env);
                    crate::alloc::MODE.store(0, Ordering::Relaxed);
                    format!("{} guarded={}", r, crate::alloc::GUARDED_ALLOCS.load(Ordering::Relaxed))
                }
                Err(e) => format!("create-{}", err_string(&e)),
            }
        };
    }
    match backend {
        "inplace" => go!(InplaceInterpreter<C>),
        "ir" => go!(IrInterpreter<C>),
        "bc" => go!(BcInterpreter<C>),
        "jit" => go!(BaseJitCompiler<C>),
        b => format!("ERR backend {b}"),
    }
}

/// rung|backend|w|level|mode|budget-or-margin|guard(2=left,3=right)|timeout|src-hex|env :
/// every allocation made during execution is flush against a PROT_NONE page
pub fn rung(f: &[&str]) -> String {
    let backend = f[0].to_string();
    let w: u32 = f[1].parse().unwrap();
    let level: u32 = f[2].parse().unwrap();
    let mode = parse_mode(f[3], f[4]);
    let guard: usize = f[5].parse().unwrap();
    let timeout: u64 = f[6].parse().unwrap();
    let src = String::from_utf8(hex_bytes(f[7])).expect("utf8 source");
    let env = Env::parse(f[8]);
    in_child(timeout, move || by_width!(w, rung_w, &backend, level, mode, guard, &src, &env))
}

fn hexs(b: &[u8]) -> String {
    b.iter().map(|x| format!("{x:02x}")).collect()
}

fn print_w<C: CellType>(what: &str, level: u32, src: &str) -> String {
    let p = match ir::Program::<C>::parse(src) {
        Ok(p) => p.optimize(level),
        Err(e) => return err_string(&e),
    };
    match what {
        "ir" => format!("ok {}", hexs(format!("{p:?}\n").as_bytes())),
        "bc" => format!("ok {}", hexs(format!("{:?}\n", bc::CodeGen::translate(&p, 2, true)).as_bytes())),
        "jitbc" => format!("ok {}", hexs(format!("{:?}\n", bc::CodeGen::translate(&p, 12, false)).as_bytes())),
        _ => "ERR what".into(),
    }
}

/// print|what(ir|bc|jitbc)|w|level|src-hex : hex of what the CLI print modes must write
pub fn print(f: &[&str]) -> String {
    let what = f[0].to_string();
    let w: u32 = f[1].parse().unwrap();
    let level: u32 = f[2].parse().unwrap();
    let src = String::from_utf8(hex_bytes(f[3])).expect("utf8 source");
    in_child(20000, move || by_width!(w, print_w, &what, level, &src))
}

fn printmc_w<C: CellType>(level: u32, limited: bool, safe: bool, src: &str) -> String {
    match BaseJitCompiler::<C>::create(src, level) {
        Ok(ex) => format!("ok {}", hexs(&ex.print_mc(limited, safe))),
        Err(e) => err_string(&e),
    }
}

/// printmc|w|level|limited|safe|src-hex
pub fn printmc(f: &[&str]) -> String {
    let w: u32 = f[0].parse().unwrap();
    let level: u32 = f[1].parse().unwrap();
    let limited = f[2] == "1";
    let safe = f[3] == "1";
    let src = String::from_utf8(hex_bytes(f[4])).expect("utf8 source");
    in_child(20000, move || by_width!(w, printmc_w, level, limited, safe, &src))
}

fn compilebc_w<C: CellType>(backend: &str, text: &str) -> String {
    let mut t = Toks::new(text);
    let p = parse_bc::<C>(&mut t);
    match backend {
        "jit" => {
            let ex = BaseJitCompiler::<C>::verif_from_bytecode(p);
            let mut n = 0;
            for (l, s) in [(false, true), (true, true), (false, false)] {
                n += ex.verif_compile(l, s).0.len();
            }
            format!("ok {n}")
        }
        "bc" => {
            let ex = BcInterpreter::<C>::verif_from_bytecode(p);
            let env = Env::parse(",0,-,1,-");
            let a = exec_with(&ex, Mode::Exec, &env);
            let b = exec_with(&ex, Mode::Limited(5), &env);
            let c = exec_with(&ex, Mode::Unsafe(8), &env);
            format!("ok {} {} {}", a.len(), b.len(), c.len())
        }
        _ => "ERR backend".into(),
    }
}

fn mcinstr_w<C: CellType>(text: &str, idx: usize) -> String {
    let mut t = Toks::new(text);
    let p = parse_bc::<C>(&mut t);
    let ex = BaseJitCompiler::<C>::verif_from_bytecode(p);
    let (code, locs, term) = ex.verif_compile(false, true);
    if idx >= locs.len() {
        return "ERR index".into();
    }
    let a = locs[idx];
    let b = if idx + 1 < locs.len() { locs[idx + 1] } else { code.len() };
    format!("ok {} {} {}", code[a..b].iter().map(|x| format!("{x:02x}")).collect::<String>(), a, term)
}

fn mcprog_w<C: CellType>(level: u32, limited: bool, safe: bool, src: &str) -> String {
    match BaseJitCompiler::<C>::create(src, level) {
        Ok(ex) => {
            let text = crate::dump::bc_text(ex.verif_bytecode());
            let (code, locs, term) = ex.verif_compile(limited, safe);
            format!(
                "ok {} | {} | {} | {}",
                text,
                code.iter().map(|x| format!("{x:02x}")).collect::<String>(),
                locs.iter().map(|x| x.to_string()).collect::<Vec<_>>().join(","),
                term
            )
        }
        Err(e) => format!("create-{}", err_string(&e)),
    }
}

/// mcprog|w|level|limited|safe|src-hex : bytecode text, machine code (hex), code offset of every
/// bytecode instruction and of the termination path, all from one compilation
pub fn mcprog(f: &[&str]) -> String {
    let w: u32 = f[0].parse().unwrap();
    let level: u32 = f[1].parse().unwrap();
    let limited = f[2] == "1";
    let safe = f[3] == "1";
    let src = String::from_utf8(hex_bytes(f[4])).expect("utf8 source");
    in_child(20000, move || by_width!(w, mcprog_w, level, limited, safe, &src))
}

/// mcinstr|w|idx|bc-text : machine code (hex) the baseline JIT emits for instruction idx of a
/// hand-made bytecode program (unlimited, checked mode)
pub fn mcinstr(f: &[&str]) -> String {
    let w: u32 = f[0].parse().unwrap();
    let idx: usize = f[1].parse().unwrap();
    let text = f[2].to_string();
    in_child(10000, move || by_width!(w, mcinstr_w, &text, idx))
}

/// compilebc|backend|w|bc-text : build (and for the interpreter run) a hand-made bytecode program
pub fn compilebc(f: &[&str]) -> String {
    let backend = f[0].to_string();
    let w: u32 = f[1].parse().unwrap();
    let text = f[2].to_string();
    in_child(10000, move || by_width!(w, compilebc_w, &backend, &text))
}

fn fnv(b: &[u8]) -> u64 {
    let mut h: u64 = 0xcbf29ce484222325;
    for x in b {
        h ^= *x as u64;
        h = h.wrapping_mul(0x100000001b3);
    }
    h
}

fn det_w<C: CellType>(level: u32, src: &str, noise: &str) -> String {
    // compile once, then compile unrelated programs, then compile again: everything must be identical
    let one = |src: &str| -> Result<(String, String, String, Vec<u8>), String> {
        let p = ir::Program::<C>::parse(src).map_err(|e| err_string(&e))?.optimize(level);
        let b1 = bc::CodeGen::translate(&p, 2, true);
        let b2 = bc::CodeGen::translate(&p, 11, false);
        let mc = BaseJitCompiler::<C>::create(src, level).map_err(|e| err_string(&e))?.print_mc(false, true);
        Ok((format!("{p:?}"), format!("{b1:?}"), format!("{b2:?}"), mc))
    };
    let a = match one(src) {
        Ok(a) => a,
        Err(e) => return e,
    };
    for n in noise.split(',') {
        let _ = one(&String::from_utf8(hex_bytes(n)).unwrap_or_default());
    }
    let b = match one(src) {
        Ok(b) => b,
        Err(e) => return e,
    };
    let same = a == b;
    // machine code embeds absolute addresses of the runtime shims: report it only within the process
    format!("{} ir={:016x} bc={:016x} jbc={:016x} mclen={}", if same { "same" } else { "DIFF" }, fnv(a.0.as_bytes()), fnv(a.1.as_bytes()), fnv(a.2.as_bytes()), a.3.len())
}

/// det|w|level|src-hex|noise-hex,noise-hex
pub fn det(f: &[&str]) -> String {
    let w: u32 = f[0].parse().unwrap();
    let level: u32 = f[1].parse().unwrap();
    let src = String::from_utf8(hex_bytes(f[2])).expect("utf8 source");
    let noise = f[3].to_string();
    in_child(30000, move || by_width!(w, det_w, level, &src, &noise))
}

fn reuse_w<C: CellType>(backend: &str, level: u32, src: &str, env: &Env) -> String {
    macro_rules! go {
        ($t:ty) => {
            match <$t>::create(src, level) {
                Ok(ex) => {
                    let a = exec_with(&ex, Mode::Limited(3000), env);
                    let b = exec_with(&ex, Mode::Limited(3000), env);
                    let c = exec_with(&ex, Mode::Limited(7), env);
                    let d = exec_with(&ex, Mode::Limited(3000), env);
                    if !(a == b && b == d) {
                        return format!("DIFF {a} / {b} / {d}");
                    }
                    // mixed modes on the same executor, each compared with a fresh executor: the unlimited
                    // run only if the program finished within the budget above (it halts)
                    let fresh = |m: Mode| exec_with(&<$t>::create(src, level).ok().unwrap(), m, env);
                    let c0 = fresh(Mode::Limited(7));
                    if c != c0 {
                        return format!("DIFF limited(7) after limited(3000): {c} / fresh {c0}");
                    }
                    if a.starts_with("ok 1 ") {
                        let e1 = exec_with(&ex, Mode::Exec, env);
                        let e0 = fresh(Mode::Exec);
                        if e1 != e0 {
                            return format!("DIFF execute after execute_limited: {e1} / fresh {e0}");
                        }
                        let l1 = exec_with(&ex, Mode::Limited(5), env);
                        let l0 = fresh(Mode::Limited(5));
                        if l1 != l0 {
                            return format!("DIFF execute_limited(5) after execute: {l1} / fresh {l0}");
                        }
                        // and the other order on a second executor
                        let ex2 = <$t>::create(src, level).ok().unwrap();
                        let e2 = exec_with(&ex2, Mode::Exec, env);
                        let l2 = exec_with(&ex2, Mode::Limited(5), env);
                        if e2 != e0 || l2 != l0 {
                            return format!("DIFF execute then execute_limited(5): {e2} / {l2} / fresh {e0} / {l0}");
                        }
                    }
                    format!("same {}", c.len())
                }
                Err(e) => format!("create-{}", err_string(&e)),
            }
        };
    }
    match backend {
        "inplace" => go!(InplaceInterpreter<C>),
        "ir" => go!(IrInterpreter<C>),
        "bc" => go!(BcInterpreter<C>),
        "jit" => go!(BaseJitCompiler<C>),
        b => format!("ERR backend {b}"),
    }
}

/// reuse|backend|w|level|src-hex|env : the same executor run repeatedly on fresh contexts
pub fn reuse(f: &[&str]) -> String {
    let backend = f[0].to_string();
    let w: u32 = f[1].parse().unwrap();
    let level: u32 = f[2].parse().unwrap();
    let src = String::from_utf8(hex_bytes(f[3])).expect("utf8 source");
    let env = Env::parse(f[4]);
    in_child(30000, move || by_width!(w, reuse_w, &backend, level, &src, &env))
}

fn timecreate_w<C: CellType>(level: u32, src: &str) -> String {
    let t0 = std::time::Instant::now();
    let r1 = IrInterpreter::<C>::create(src, level).is_ok();
    let t1 = t0.elapsed().as_micros();
    let r2 = BcInterpreter::<C>::create(src, level).is_ok();
    let r3 = BaseJitCompiler::<C>::create(src, level).map(|ex| ex.print_mc(false, true).len()).unwrap_or(0);
    let t2 = t0.elapsed().as_micros();
    format!("ok {r1} {r2} {r3} ir_us={t1} all_us={t2}")
}

/// timecreate|w|level|src-hex
pub fn timecreate(f: &[&str]) -> String {
    let w: u32 = f[0].parse().unwrap();
    let level: u32 = f[1].parse().unwrap();
    let src = String::from_utf8(hex_bytes(f[2])).expect("utf8 source");
    in_child(60000, move || by_width!(w, timecreate_w, level, &src))
}

fn runbcmem_w<C: CellType>(backend: &str, text: &str, lo: isize, hi: isize) -> String {
    let mut t = Toks::new(text);
    let p = parse_bc::<C>(&mut t);
    let mut ctx = Context::<C>::new(None, None);
    let r = match backend {
        "bc" => BcInterpreter::<C>::verif_from_bytecode(p).execute(&mut ctx),
        "jit" => BaseJitCompiler::<C>::verif_from_bytecode(p).execute(&mut ctx),
        _ => return "ERR backend".into(),
    };
    if r.is_err() {
        return "err".into();
    }
    let cells: Vec<String> = (lo..=hi).map(|k| ctx.memory.read(k).into_u64().to_string()).collect();
    cells.join(",")
}

/// runbcmem|backend|w|lo|hi|bc-text : run a hand-made bytecode program and print cells lo..hi
pub fn runbcmem(f: &[&str]) -> String {
    let backend = f[0].to_string();
    let w: u32 = f[1].parse().unwrap();
    let lo: isize = f[2].parse().unwrap();
    let hi: isize = f[3].parse().unwrap();
    let text = f[4].to_string();
    in_child(10000, move || by_width!(w, runbcmem_w, &backend, &text, lo, hi))
}

//! C18: operation sequences on `SmallVec<T, N>` with drop-tracking and plain elements.
use crate::run::in_child;
use hpbf::verif::SmallVec;
use std::cell::{Cell, RefCell};
use std::cmp::Ordering;
use std::collections::HashSet;

thread_local! {
    static LIVE: RefCell<HashSet<usize>> = RefCell::new(HashSet::new());
    static DOUBLE: RefCell<Vec<usize>> = RefCell::new(Vec::new());
    static COUNTER: Cell<usize> = Cell::new(0);
}

trait El: Clone + Ord {
    fn make(val: u64) -> Self;
    fn show(&self) -> String;
}

#[derive(Debug)]
struct Tracked {
    id: usize,
    val: u64,
}

impl Tracked {
    fn fresh(val: u64) -> Self {
        let id = COUNTER.with(|c| {
            let i = c.get();
            c.set(i + 1);
            i
        });
        LIVE.with(|l| l.borrow_mut().insert(id));
        Tracked { id, val }
    }
}
impl Clone for Tracked {
    fn clone(&self) -> Self {
        Tracked::fresh(self.val)
    }
}
impl Drop for Tracked {
    fn drop(&mut self) {
        let was = LIVE.with(|l| l.borrow_mut().remove(&self.id));
        if !was {
            DOUBLE.with(|d| d.borrow_mut().push(self.id));
        }
    }
}
impl PartialEq for Tracked {
    fn eq(&self, o: &Self) -> bool {
        self.val == o.val
    }
}
impl Eq for Tracked {}
impl PartialOrd for Tracked {
    fn partial_cmp(&self, o: &Self) -> Option<Ordering> {
        Some(self.cmp(o))
    }
}
impl Ord for Tracked {
    fn cmp(&self, o: &Self) -> Ordering {
        self.val.cmp(&o.val)
    }
}
impl El for Tracked {
    fn make(val: u64) -> Self {
        Tracked::fresh(val)
    }
    fn show(&self) -> String {
        format!("{}.{}", self.id, self.val)
    }
}
impl El for u64 {
    fn make(val: u64) -> Self {
        val
    }
    fn show(&self) -> String {
        format!("_.{}", self)
    }
}

fn view<T: El, const N: usize>(v: &SmallVec<T, N>, heap_hint: bool) -> String {
    let items: Vec<String> = v.iter().map(|e| e.show()).collect();
    format!("[{}]{}", items.join(" "), if heap_hint { "h" } else { "i" })
}

fn run_ops<T: El, const N: usize>(ops: &str) -> String {
    let mut regs: [SmallVec<T, N>; 2] = [SmallVec::new(), SmallVec::new()];
    // representation is not observable through the public API; the harness tracks the tag the
    // way the code does (heap once promoted / created with capacity > N / cloned with len > N)
    let mut heap = [false, false];
    let mut out = Vec::new();
    for op in ops.split(';').filter(|x| !x.is_empty()) {
        let f: Vec<&str> = op.split(':').collect();
        let r = |i: usize| -> usize { f[i].parse().unwrap() };
        match f[0] {
            "n" => {
                regs[r(1)] = SmallVec::new();
                heap[r(1)] = false;
                out.push(view(&regs[r(1)], heap[r(1)]));
            }
            "wc" => {
                let n: usize = f[2].parse().unwrap();
                regs[r(1)] = SmallVec::with_capacity(n);
                heap[r(1)] = n > N;
                out.push(view(&regs[r(1)], heap[r(1)]));
            }
            "p" => {
                let i = r(1);
                if !heap[i] && regs[i].len() == N {
                    heap[i] = true;
                }
                regs[i].push(T::make(f[2].parse().unwrap()));
                out.push(view(&regs[i], heap[i]));
            }
            "e" => {
                let i = r(1);
                let vals: Vec<u64> = if f[2].is_empty() { vec![] } else { f[2].split(',').map(|x| x.parse().unwrap()).collect() };
                if !heap[i] && regs[i].len() + vals.len() > N {
                    heap[i] = true;
                }
                regs[i].extend(vals.iter().map(|&x| T::make(x)));
                out.push(view(&regs[i], heap[i]));
            }
            "cl" => {
                regs[r(1)].clear();
                out.push(view(&regs[r(1)], heap[r(1)]));
            }
            "rt" | "rm" => {
                let i = r(1);
                let answers: Vec<bool> = f[2].chars().map(|c| c == '1').collect();
                let idx = Cell::new(0usize);
                if f[0] == "rt" {
                    regs[i].retain(|_| {
                        let k = idx.get();
                        idx.set(k + 1);
                        answers.get(k).copied().unwrap_or(true)
                    });
                } else {
                    regs[i].retain_mut(|_| {
                        let k = idx.get();
                        idx.set(k + 1);
                        answers.get(k).copied().unwrap_or(true)
                    });
                }
                out.push(view(&regs[i], heap[i]));
            }
            "dd" => {
                regs[r(1)].dedup();
                out.push(view(&regs[r(1)], heap[r(1)]));
            }
            "cn" => {
                let src = r(1);
                let c = regs[src].clone();
                heap[1 - src] = regs[src].len() > N;
                regs[1 - src] = c;
                out.push(view(&regs[1 - src], heap[1 - src]));
            }
            "eq" => out.push(format!("b={}", if regs[0] == regs[1] { 1 } else { 0 })),
            "cmp" => out.push(format!(
                "o={}",
                match regs[0].cmp(&regs[1]) {
                    Ordering::Less => "lt",
                    Ordering::Equal => "eq",
                    Ordering::Greater => "gt",
                }
            )),
            "so" => {
                regs[r(1)].sort();
                out.push(view(&regs[r(1)], heap[r(1)]));
            }
            "ii" => {
                let i = r(1);
                let take: usize = f[2].parse().unwrap();
                let v = std::mem::replace(&mut regs[i], SmallVec::new());
                heap[i] = false;
                let mut it = v.into_iter();
                let mut items = Vec::new();
                for _ in 0..take {
                    if let Some(x) = it.next() {
                        items.push(x);
                    }
                }
                drop(it);
                let s: Vec<String> = items.iter().map(|e| e.show()).collect();
                out.push(format!("items[{}]", s.join(" ")));
            }
            "it" => {
                let i = r(1);
                let s: Vec<String> = (&regs[i]).into_iter().map(|e| e.show()).collect();
                out.push(format!("[{}]{}", s.join(" "), if heap[i] { "h" } else { "i" }));
            }
            k => panic!("bad op {k}"),
        }
    }
    drop(regs);
    let created = COUNTER.with(|c| c.get());
    let mut leaked: Vec<usize> = LIVE.with(|l| l.borrow().iter().copied().collect());
    leaked.sort();
    let mut dbl: Vec<usize> = DOUBLE.with(|d| d.borrow().clone());
    dbl.sort();
    let j = |v: &Vec<usize>| v.iter().map(|x| x.to_string()).collect::<Vec<_>>().join(",");
    format!("{} | created={} leaked={} double={}", out.join(" "), created, j(&leaked), j(&dbl))
}

/// svec|N|ops|kind   (kind: t = drop-tracking elements, u = plain u64)
pub fn run(f: &[&str]) -> String {
    let n: usize = f[0].parse().unwrap();
    let ops = f[1].to_string();
    let plain = f.len() > 2 && f[2] == "u";
    in_child(10000, move || match (n, plain) {
        (1, false) => run_ops::<Tracked, 1>(&ops),
        (2, false) => run_ops::<Tracked, 2>(&ops),
        (3, false) => run_ops::<Tracked, 3>(&ops),
        (1, true) => run_ops::<u64, 1>(&ops),
        (2, true) => run_ops::<u64, 2>(&ops),
        (3, true) => run_ops::<u64, 3>(&ops),
        _ => "ERR capacity".into(),
    })
}

//! hv — verification harness for hpbf. Reads one case per line on stdin
//! (`kind|field|field|...`) and prints one canonical result line per case.

use std::io::{self, BufRead, Write};

mod alloc;
mod cell;
mod expr;
mod svec;
mod tape;
mod dump;
mod vio;
mod run;

#[global_allocator]
static GLOBAL: alloc::VAlloc = alloc::VAlloc;

fn main() {
    let stdin = io::stdin();
    let stdout = io::stdout();
    let mut out = io::BufWriter::new(stdout.lock());
    for line in stdin.lock().lines() {
        let line = line.unwrap();
        if line.is_empty() || line.starts_with('#') {
            continue;
        }
        let fields: Vec<&str> = line.split('|').collect();
        let res = match fields[0] {
            "cell" => cell::run(&fields[1..]),
            "tape" => tape::run(&fields[1..]),
            "expr" => expr::run(&fields[1..]),
            "svec" => svec::run(&fields[1..]),
            "tapefail" => tape::run_fail(&fields[1..]),
            "run" => run::run(&fields[1..]),
            "runfail" => run::runfail(&fields[1..]),
            "runnoas" => run::runnoas(&fields[1..]),
            "rung" => run::rung(&fields[1..]),
            "compilebc" => run::compilebc(&fields[1..]),
            "runbcmem" => run::runbcmem(&fields[1..]),
            "det" => run::det(&fields[1..]),
            "reuse" => run::reuse(&fields[1..]),
            "timecreate" => run::timecreate(&fields[1..]),
            "print" => run::print(&fields[1..]),
            "printmc" => run::printmc(&fields[1..]),
            "mcinstr" => run::mcinstr(&fields[1..]),
            "mcprog" => run::mcprog(&fields[1..]),
            "runs" => run::runs(&fields[1..]),
            "dumpir" => run::dumpir(&fields[1..]),
            "dumpbc" => run::dumpbc(&fields[1..]),
            "heldbc" => run::heldbc(&fields[1..]),
            "parse" => run::parse(&fields[1..]),
            "runir" => run::runir(&fields[1..]),
            "runbc" => run::runbc(&fields[1..]),
            k => format!("ERR unknown kind {k}"),
        };
        writeln!(out, "{res}").unwrap();
    }
    out.flush().unwrap();
}

(* driver.ml — reads one case per line on stdin, evaluates the extracted Gallina model
   (Model, extracted from coq/theories/Extraction/Extract.v) and prints one result per line.
   Hand-written and trusted: parsing of case lines and printing only. *)

module ZA = Z
open Model

(* ---- conversions between zarith integers (I/O only) and the extracted inductive Z ---- *)
let rec pos_of_z (n : ZA.t) : positive =
  if ZA.equal n ZA.one then XH
  else if ZA.testbit n 0 then XI (pos_of_z (ZA.shift_right n 1))
  else XO (pos_of_z (ZA.shift_right n 1))

let z_of (n : ZA.t) : z =
  if ZA.sign n = 0 then Z0 else if ZA.sign n > 0 then Zpos (pos_of_z n) else Zneg (pos_of_z (ZA.neg n))

let rec z_of_pos (p : positive) : ZA.t =
  match p with
  | XH -> ZA.one
  | XO q -> ZA.shift_left (z_of_pos q) 1
  | XI q -> ZA.succ (ZA.shift_left (z_of_pos q) 1)

let to_z (x : z) : ZA.t =
  match x with Z0 -> ZA.zero | Zpos p -> z_of_pos p | Zneg p -> ZA.neg (z_of_pos p)

let zs (s : string) : z = z_of (ZA.of_string (String.trim s))
let sz (x : z) : string = ZA.to_string (to_z x)
let int_of_z (x : z) : int = ZA.to_int (to_z x)
let z_of_int (i : int) : z = z_of (ZA.of_int i)

let rec nat_of_int (i : int) : nat =
  (* iterative to avoid stack overflow on big fuel *)
  let r = ref O in
  for _ = 1 to i do r := S !r done; !r

let rec int_of_nat (n : nat) : int =
  let r = ref 0 and c = ref n in
  let continue = ref true in
  while !continue do
    (match !c with O -> continue := false | S m -> incr r; c := m)
  done; !r

let split_on c s = String.split_on_char c s

let opt f = function None -> "none" | Some x -> f x
let bool_s b = if b then "true" else "false"

(* ---- cell|w|fn|a|b ---- *)
let run_cell (fields : string list) : string =
  match fields with
  | [w; fn; a; b] ->
    let w = zs w and a = zs a and b = zs b in
    (match fn with
     | "add" -> sz (wadd w a b)
     | "mul" -> sz (wmul w a b)
     | "neg" -> sz (wneg w a)
     | "and" -> sz (wand a b)
     | "shr" -> sz (wshr w a b)
     | "shl" -> sz (wshl w a b)
     | "tz" -> sz (tz w a)
     | "odd" -> bool_s (is_odd a)
     | "pow" -> sz (wpow w a b)
     | "inv" -> opt sz (winv w a)
     | "div" -> opt sz (wdiv w a b)
     | "from_u64" -> sz (from_u64 w a)
     | "into_u64" -> sz (into_u64 w a)
     | "into_i64" -> sz (into_i64 w a)
     | "from_u8" -> sz (from_u8 w a)
     | "into_u8" -> sz (into_u8 w a)
     | "from_i16" -> sz (from_i16 w a)
     | "try_into_i16" -> opt sz (try_into_i16 w a)
     | _ -> "ERR unknown fn " ^ fn)
  | _ -> "ERR bad cell line"

let handlers : (string * (string list -> string)) list ref = ref [ ("cell", run_cell) ]

let () =
  (try
     while true do
       let line = input_line stdin in
       if String.length line > 0 && line.[0] <> '#' then begin
         let fields = split_on '|' line in
         let out =
           match fields with
           | kind :: rest ->
             (match List.assoc_opt kind !handlers with
              | Some h -> (try h rest with e -> "ERR exception " ^ Printexc.to_string e)
              | None -> "ERR unknown kind " ^ kind)
           | [] -> "ERR empty"
         in
         print_string out; print_char '\n'
       end
     done
   with End_of_file -> ());
  flush stdout

(* driver.ml — reads one case per line on stdin, evaluates the extracted Gallina model
   (Model, extracted from coq/theories/Extraction/Extract.v) and prints one result per line.
   Hand-written and trusted: parsing of case lines and printing only. *)

module ZA = Z
open Model

(* ---- conversions between zarith integers (I/O only) and the extracted inductive Z ---- *)
let rec pos_of_z (n : ZA.t) : positive =
  if ZA.equal n ZA.one then XH
  else if ZA.testbit n 0 then XI (pos_of_z (ZA.shift_right n 1))
  else XO (pos_of_z (ZA.shift_right n 1))

let z_of (n : ZA.t) : z =
  if ZA.sign n = 0 then Z0 else if ZA.sign n > 0 then Zpos (pos_of_z n) else Zneg (pos_of_z (ZA.neg n))

let rec z_of_pos (p : positive) : ZA.t =
  match p with
  | XH -> ZA.one
  | XO q -> ZA.shift_left (z_of_pos q) 1
  | XI q -> ZA.succ (ZA.shift_left (z_of_pos q) 1)

let to_z (x : z) : ZA.t =
  match x with Z0 -> ZA.zero | Zpos p -> z_of_pos p | Zneg p -> ZA.neg (z_of_pos p)

let zs (s : Stdlib.String.t) : z = z_of (ZA.of_string (String.trim s))
let sz (x : z) : Stdlib.String.t = ZA.to_string (to_z x)
let int_of_z (x : z) : int = ZA.to_int (to_z x)
let z_of_int (i : int) : z = z_of (ZA.of_int i)

let rec nat_of_int (i : int) : nat =
  (* iterative to avoid stack overflow on big fuel *)
  let r = ref O in
  for _ = 1 to i do r := S !r done; !r

let rec int_of_nat (n : nat) : int =
  let r = ref 0 and c = ref n in
  let continue = ref true in
  while !continue do
    (match !c with O -> continue := false | S m -> incr r; c := m)
  done; !r

let split_on c s = String.split_on_char c s

let opt f = function None -> "none" | Some x -> f x
let bool_s b = if b then "true" else "false"

(* ---- cell|w|fn|a|b ---- *)
let run_cell (fields : Stdlib.String.t list) : Stdlib.String.t =
  match fields with
  | [w; fn; a; b] ->
    let w = zs w and a = zs a and b = zs b in
    (match fn with
     | "add" -> sz (wadd w a b)
     | "mul" -> sz (wmul w a b)
     | "neg" -> sz (wneg w a)
     | "and" -> sz (wand a b)
     | "shr" -> sz (wshr w a b)
     | "shl" -> sz (wshl w a b)
     | "tz" -> sz (tz w a)
     | "odd" -> bool_s (is_odd a)
     | "pow" -> sz (wpow w a b)
     | "inv" -> opt sz (winv w a)
     | "div" -> opt sz (wdiv w a b)
     | "from_u64" -> sz (from_u64 w a)
     | "into_u64" -> sz (into_u64 w a)
     | "into_i64" -> sz (into_i64 w a)
     | "from_u8" -> sz (from_u8 w a)
     | "into_u8" -> sz (into_u8 w a)
     | "from_i16" -> sz (from_i16 w a)
     | "try_into_i16" -> opt sz (try_into_i16 w a)
     | _ -> "ERR unknown fn " ^ fn)
  | _ -> "ERR bad cell line"


(* ---- hex, env, traces ---- *)
let bytes_of_hex (h : Stdlib.String.t) : z list =
  let n = String.length h / 2 in
  List.init n (fun i -> z_of_int (int_of_string ("0x" ^ String.sub h (2 * i) 2)))

let opt_nat (s : Stdlib.String.t) : nat option = if s = "-" then None else Some (nat_of_int (int_of_string s))

(* env := <input-hex>,<absent 0/1>,<in_fail_at or ->,<out_present 0/1>,<out_fail_at or -> *)
let env_of (s : Stdlib.String.t) : env =
  match split_on ',' s with
  | [inp; ab; ifa; op; ofa] ->
    { input = bytes_of_hex inp; in_absent = (ab = "1"); in_fail_at = opt_nat ifa;
      out_present = (op = "1"); out_fail_at = opt_nat ofa }
  | _ -> failwith "bad env"

let hex2 (x : z) : Stdlib.String.t = Printf.sprintf "%02x" (int_of_z x)
let ev_s = function
  | EvIn b -> "I:" ^ hex2 b
  | EvEof -> "I:eof"
  | EvInFail -> "I:!"
  | EvOut b -> "O:" ^ hex2 b
  | EvOutFail b -> "O!:" ^ hex2 b
let trace_s (i : iost) : Stdlib.String.t =
  (* i.trace is most-recent-first; rev_map yields oldest-first without deep recursion *)
  let strs = List.rev_map ev_s i.trace in
  if strs = [] then "-" else String.concat " " strs

let outcome_s (get_io : 'a -> iost) (o : 'a outcome) : Stdlib.String.t =
  let tag = match o with
    | Done _ -> "done" | Stopped _ -> "stopped" | Interrupted _ -> "interrupted"
    | Errored (p, _) -> "err:" ^ sz p | OutOfFuel _ -> "fuel" in
  let fin = match o with Interrupted _ -> "0" | _ -> "1" in
  tag ^ " " ^ fin ^ " " ^ trace_s (get_io (outcome_state o))

(* ---- token streams ---- *)
type toks = { mutable l : Stdlib.String.t list }
let toks_of (s : Stdlib.String.t) : toks = { l = List.filter (fun x -> x <> "") (split_on ' ' s) }
let tok (t : toks) : Stdlib.String.t = match t.l with x :: r -> t.l <- r; x | [] -> failwith "eof tokens"
let tz_ (t : toks) : z = zs (tok t)
let ti (t : toks) : int = int_of_string (tok t)

(* expr := np (coef nv var{nv}){np} *)
let parse_expr (t : toks) : expr =
  let np = ti t in
  List.init np (fun _ -> let c = tz_ t in let nv = ti t in let vs = List.init nv (fun _ -> tz_ t) in (c, vs))
let print_expr (b : Buffer.t) (e : expr) : unit =
  Buffer.add_string b (string_of_int (List.length e));
  List.iter (fun (c, vs) ->
      Buffer.add_string b (" " ^ sz c ^ " " ^ string_of_int (List.length vs));
      List.iter (fun v -> Buffer.add_string b (" " ^ sz v)) vs) e

(* block := { shift inst* } ; inst := o src | i dst | c n (var expr){n} | l cond once block | f cond block *)
let rec parse_block (t : toks) : z * instr list =
  (match tok t with "{" -> () | x -> failwith ("expected { got " ^ x));
  let shift = tz_ t in
  let rec insts acc =
    match tok t with
    | "}" -> List.rev acc
    | "o" -> let s = tz_ t in insts (IOut s :: acc)
    | "i" -> let d = tz_ t in insts (IIn d :: acc)
    | "c" -> let n = ti t in
      let cs = List.init n (fun _ -> let v = tz_ t in let e = parse_expr t in (v, e)) in insts (ICalc cs :: acc)
    | "l" -> let c = tz_ t in let once = (tok t = "1") in let (sh, b) = parse_block t in insts (ILoop (c, sh, b, once) :: acc)
    | "f" -> let c = tz_ t in let (sh, b) = parse_block t in insts (IIf (c, sh, b) :: acc)
    | x -> failwith ("bad inst token " ^ x) in
  let is = insts [] in (shift, is)

let rec print_block (b : Buffer.t) ((shift, is) : z * instr list) : unit =
  Buffer.add_string b ("{ " ^ sz shift);
  List.iter (fun i ->
      match i with
      | IOut s -> Buffer.add_string b (" o " ^ sz s)
      | IIn d -> Buffer.add_string b (" i " ^ sz d)
      | ICalc cs -> Buffer.add_string b (" c " ^ string_of_int (List.length cs));
        List.iter (fun (v, e) -> Buffer.add_string b (" " ^ sz v ^ " "); print_expr b e) cs
      | ILoop (c, sh, body, once) -> Buffer.add_string b (" l " ^ sz c ^ (if once then " 1 " else " 0 ")); print_block b (sh, body)
      | IIf (c, sh, body) -> Buffer.add_string b (" f " ^ sz c ^ " "); print_block b (sh, body)) is;
  Buffer.add_string b " }"

(* bc := temps min max n (live inst){n} *)
let parse_loc (t : toks) : loc =
  match tok t with
  | "m" -> Mem (tz_ t) | "mz" -> MemZero (tz_ t) | "t" -> Tmp (tz_ t) | "#" -> Imm (tz_ t)
  | x -> failwith ("bad loc " ^ x)
let parse_bc (t : toks) : bprog =
  let temps = tz_ t in let mn = tz_ t in let mx = tz_ t in let n = ti t in
  let live = ref [] and code = ref [] in
  for _ = 1 to n do
    live := tz_ t :: !live;
    let i = match tok t with
      | "n" -> Noop
      | "s" -> let c = tz_ t in let s = tz_ t in Scan (c, s)
      | "m" -> MovP (tz_ t)
      | "i" -> Inp (tz_ t)
      | "o" -> Outp (tz_ t)
      | "z" -> let c = tz_ t in let o = tz_ t in BrZ (c, o)
      | "nz" -> let c = tz_ t in let o = tz_ t in BrNZ (c, o)
      | "a" -> let d = parse_loc t in let a = parse_loc t in let b = parse_loc t in Add (d, a, b)
      | "u" -> let d = parse_loc t in let a = parse_loc t in let b = parse_loc t in Sub (d, a, b)
      | "x" -> let d = parse_loc t in let a = parse_loc t in let b = parse_loc t in Mul (d, a, b)
      | "c" -> let d = parse_loc t in let a = parse_loc t in Copy (d, a)
      | x -> failwith ("bad bc token " ^ x) in
    code := i :: !code
  done;
  { bp_temps = temps; bp_min = mn; bp_max = mx; bp_live = List.rev !live; bp_code = List.rev !code }

(* ---- run commands ---- *)
(* bf|w|fuel|src-hex|env *)
let run_bf = function
  | [w; fuel; src; env] ->
    (match bf_machine_run (zs w) (env_of env) (nat_of_int (int_of_string fuel)) (bytes_of_hex src) with
     | None -> "unbalanced"
     | Some o -> outcome_s (fun (s : bfst) -> s.io) o)
  | _ -> "ERR bad bf line"

(* bfbig|w|fuel|src-hex|env : the big-step definition (only for terminating programs) *)
let run_bfbig = function
  | [w; fuel; src; env] ->
    (match bf_run (zs w) (env_of env) (nat_of_int (int_of_string fuel)) (bytes_of_hex src) with
     | None -> "unbalanced"
     | Some o -> outcome_s (fun (s : bfst) -> s.io) o)
  | _ -> "ERR bad bf line"

(* irbig|w|limited|budget|fuel|ir-text|env *)
let run_irbig = function
  | [w; lim; budget; fuel; ir; env] ->
    let blk = parse_block (toks_of ir) in
    outcome_s (fun (s : irst) -> s.ir_io)
      (ir_run (zs w) (env_of env) (lim = "1") (zs budget) (nat_of_int (int_of_string fuel)) blk)
  | _ -> "ERR bad ir line"

(* inplace|w|limited|budget|fuel|src-hex|env *)
let run_inplace = function
  | [w; lim; budget; fuel; src; env] ->
    outcome_s (fun (s : ipst) -> s.ip_io)
      (ip_run (zs w) (env_of env) (lim = "1") (zs budget) (nat_of_int (int_of_string fuel)) (bytes_of_hex src))
  | _ -> "ERR bad inplace line"

(* ir|w|limited|budget|fuel|ir-text|env *)
let run_ir = function
  | [w; lim; budget; fuel; ir; env] ->
    let blk = parse_block (toks_of ir) in
    outcome_s (fun (s : irst) -> s.ir_io)
      (ir_machine_run (zs w) (env_of env) (lim = "1") (zs budget) (nat_of_int (int_of_string fuel)) blk)
  | _ -> "ERR bad ir line"

(* bc|w|limited|budget|fuel|bc-text|env *)
let run_bc = function
  | [w; lim; budget; fuel; bc; env] ->
    let p = parse_bc (toks_of bc) in
    outcome_s (fun (s : bcst) -> s.bc_io)
      (bc_run (zs w) (env_of env) (lim = "1") (zs budget) (nat_of_int (int_of_string fuel)) p)
  | _ -> "ERR bad bc line"

(* bcreach|w|fuel|bc-text|env : unlimited run of the bytecode model; reports the extreme pointer
   positions and the declared window: "<status> <lo> <hi> <min> <max>" (the cells a run can touch
   lie in [lo+min, hi+max] by C11_cells_in_window) *)
let run_bcreach = function
  | [w; fuel; bc; env] ->
    let p = parse_bc (toks_of bc) in
    let o = bc_run (zs w) (env_of env) false Z0 (nat_of_int (int_of_string fuel)) p in
    let st = match o with Done _ -> "done" | Stopped _ -> "stopped" | Interrupted _ -> "interrupted" | Errored _ -> "errored" | OutOfFuel _ -> "fuel" in
    let s = outcome_state o in
    st ^ " " ^ sz s.bc_lo ^ " " ^ sz s.bc_hi ^ " " ^ sz p.bp_min ^ " " ^ sz p.bp_max
  | _ -> "ERR bad bcreach line"

(* x86form|w|<one-instruction bytecode program text>|<x86 code>  ->  ok | bad <why>
   x86 code: instructions separated by ';', operands r<idx>.<size> c<cell> s<slot> i<imm>;
   lea <dst> <base> <index or -> <disp> *)
let parse_xop (t : Stdlib.String.t) : xop =
  let rest = String.sub t 1 (String.length t - 1) in
  match t.[0] with
  | 'r' -> (match split_on '.' rest with [r; sz] -> XReg (zs r, zs sz) | _ -> failwith ("bad reg " ^ t))
  | 'c' -> XCell (zs rest)
  | 's' -> XSlot (zs rest)
  | 'i' -> XImm (zs rest)
  | _ -> failwith ("bad operand " ^ t)
let parse_xins (l : Stdlib.String.t) : xins =
  match List.filter (fun x -> x <> "") (split_on ' ' l) with
  | ["mov"; d; s] -> XMov (parse_xop d, parse_xop s)
  | ["add"; d; s] -> XAdd (parse_xop d, parse_xop s)
  | ["sub"; d; s] -> XSub (parse_xop d, parse_xop s)
  | ["inc"; d] -> XInc (parse_xop d)
  | ["dec"; d] -> XDec (parse_xop d)
  | ["imul"; d; s] -> XImul2 (parse_xop d, parse_xop s)
  | ["imul"; d; s; i] -> XImul3 (parse_xop d, parse_xop s, zs i)
  | ["lea"; d; b; idx; disp] -> XLea (zs d, zs b, (if idx = "-" then None else Some (zs idx)), zs disp)
  | _ -> failwith ("bad x86 instruction " ^ l)
let run_x86form = function
  | [w; bc; code] ->
    let w = zs w in
    let p = parse_bc (toks_of bc) in
    (match p.bp_code, p.bp_live with
     | [i], [live] ->
       let xs = List.map parse_xins (List.filter (fun x -> String.trim x <> "") (split_on ';' code)) in
       if form_ok w i live xs then "ok"
       else (match form_spec w i, srun w xs sst0 with
           | None, _ -> "bad no-spec"
           | _, None -> "bad symbolic-evaluation-rejected"
           | Some _, Some _ -> "bad mismatch")
     | _ -> "ERR need exactly one instruction")
  | _ -> "ERR bad x86form line"

(* x86call|<one-instruction bytecode program text>|<template code>  ->  ok | bad <why> *)
let parse_kins (l : Stdlib.String.t) : kins =
  match List.filter (fun x -> x <> "") (split_on ' ' l) with
  | ["push"; r] -> KPush (zs r) | ["pop"; r] -> KPop (zs r)
  | ["subrsp"] -> KSubRsp | ["addrsp"] -> KAddRsp
  | ["movrr"; d; s] -> KMovRR (zs d, zs s)
  | ["load"; d; k] -> KLoad (zs d, zs k)
  | ["movi"; d; c] -> KMovI (zs d, zs c)
  | ["call"; t] -> KCall (zs t)
  | ["test8"; r] -> KTest8 (zs r)
  | ["cmp64"; r; c] -> KCmp64 (zs r, zs c)
  | ["cmpcell"; k] -> KCmpCell (zs k)
  | ["je"] -> KJe | ["jne"] -> KJne
  | ["store"; k; r] -> KStore (zs k, zs r)
  | _ -> failwith ("bad call-template instruction " ^ l)
let run_x86call = function
  | [bc; code] ->
    let p = parse_bc (toks_of bc) in
    (match p.bp_code, p.bp_live with
     | [i], [live] ->
       let ks = List.map parse_kins (List.filter (fun x -> String.trim x <> "") (split_on ';' code)) in
       if call_ok i live ks then "ok"
       else (match yrun ks ksym0 with None -> "bad symbolic-evaluation-rejected" | Some _ -> "bad mismatch")
     | _ -> "ERR need exactly one instruction")
  | _ -> "ERR bad x86call line"

(* x86mov|w|<one-instruction bytecode program text with the program's min/max>|<code> -> ok | bad *)
let parse_mins (l : Stdlib.String.t) : mins =
  match List.filter (fun x -> x <> "") (split_on ' ' l) with
  | ["addrbp"; c] -> MAddRbp (zs c) | ["learax"; c] -> MLeaRaxRbp (zs c)
  | ["subbase"] -> MSubRaxBase | ["sar"; n] -> MSarRax (zs n) | ["cmpsize"] -> MCmpRaxSize
  | ["jb"] -> MJb | ["storeoff"] -> MStoreOff
  | ["push"; r] -> MPush (zs r) | ["pop"; r] -> MPop (zs r) | ["subrsp"] -> MSubRsp | ["addrsp"] -> MAddRsp
  | ["movrr"; d; s] -> MMovRR (zs d, zs s) | ["movi"; d; c] -> MMovI (zs d, zs c)
  | ["call"; t] -> MCall (zs t)
  | ["loadbase"] -> MLoadRbpBase | ["loadoff"] -> MLoadRaxOff
  | ["learbp"; sc; d] -> MLeaRbpIdx (zs sc, zs d)
  | _ -> failwith ("bad mov-template instruction " ^ l)
let run_x86mov = function
  | [w; bc; code] ->
    let p = parse_bc (toks_of bc) in
    (match p.bp_code, p.bp_live with
     | [i], [live] ->
       let ms = List.map parse_mins (List.filter (fun x -> String.trim x <> "") (split_on ';' code)) in
       if mov_ok (zs w) i p.bp_min p.bp_max live ms then "ok"
       else if mov_unsafe_ok (zs w) i ms then "ok-unchecked" else "bad mismatch"
     | _ -> "ERR need exactly one instruction")
  | _ -> "ERR bad x86mov line"

(* x86frame|temps|pushes|sub_bytes -> ok | bad *)
let run_x86frame = function
  | [t; p; b] -> if frame_ok (zs t) (zs p) (zs b) then "ok" else "bad"
  | _ -> "ERR bad x86frame line"

(* liveregs|num_regs|bc-text -> ok | bad *)
let run_liveregs = function
  | [n; bc] -> if live_regs_ok (zs n) (parse_bc (toks_of bc)) then "ok" else "bad"
  | _ -> "ERR bad liveregs line"

(* x86limit|<code> -> ok | bad *)
let run_x86limit = function
  | [code] ->
    let parse l = match List.filter (fun x -> x <> "") (split_on ' ' l) with
      | ["load"] -> LLoadBudget | ["cmp"; c] -> LCmpRax (zs c) | ["jb"] -> LJbTerm | ["dec"] -> LDecRax | ["store"] -> LStoreBudget
      | _ -> failwith ("bad limit-template instruction " ^ l) in
    if limit_ok (List.map parse (List.filter (fun x -> String.trim x <> "") (split_on ';' code))) then "ok" else "bad mismatch"
  | _ -> "ERR bad x86limit line"

(* x86br|<one-instruction bytecode program text>|<code> -> ok | bad *)
let run_x86br = function
  | [bc; code] ->
    let p = parse_bc (toks_of bc) in
    (match p.bp_code with
     | [i] ->
       let ks = List.map parse_kins (List.filter (fun x -> String.trim x <> "") (split_on ';' code)) in
       if br_ok i ks then "ok" else "bad mismatch"
     | _ -> "ERR need exactly one instruction")
  | _ -> "ERR bad x86br line"

(* parse|w|cp,cp,cp,... *)
let run_parse = function
  | [w; cps] ->
    let cs = if cps = "" then [] else List.map zs (split_on ',' cps) in
    (match parse (zs w) cs with
     | POk blk -> let b = Buffer.create 256 in print_block b blk; "ok " ^ Buffer.contents b
     | PErr (LoopNotClosed, p) -> "err LoopNotClosed " ^ sz p
     | PErr (LoopNotOpened, p) -> "err LoopNotOpened " ^ sz p)
  | _ -> "ERR bad parse line"


(* bfcycle|w|maxsteps|src-hex|env : canonical run with Brent cycle detection on machine
   configurations; a reported cycle is re-validated by the extracted [cert_ok].
   -> done 1 <trace> | stopped 1 <trace> | fuel 1 <trace>
    | diverges <i> <d> <nprefix> <trace of the first i+d+1 steps>   (nprefix = events before step i) *)
let run_bfcycle = function
  | [w; maxsteps; src; env] ->
    let w = zs w and e = env_of env and maxsteps = int_of_string maxsteps in
    (match ast_of_source (bytes_of_hex src) with
     | None -> "unbalanced"
     | Some p ->
       let c0 = { c_ctl = p; c_kont = []; c_st = bf0 } in
       let result = ref None in
       let tort = ref c0 and tort_pos = ref 0 in
       let hare = ref c0 and hare_pos = ref 0 in
       let power = ref 1 and lam = ref 0 in
       (try
          while !result = None do
            if !hare_pos >= maxsteps then result := Some (outcome_s (fun (s : bfst) -> s.io) (OutOfFuel !hare.c_st))
            else begin
              (match bf_step w e !hare with
               | Final o -> result := Some (outcome_s (fun (s : bfst) -> s.io) o)
               | Next c' ->
                 if !power = !lam then begin tort := !hare; tort_pos := !hare_pos; power := !power * 2; lam := 0 end;
                 hare := c'; incr hare_pos; incr lam;
                 if cfg_equiv e !tort !hare then begin
                   let i = !tort_pos and d = !lam - 1 in
                   if cert_ok w e p (nat_of_int i) (nat_of_int d) then begin
                     let npre = List.length !tort.c_st.io.trace in
                     result := Some (Printf.sprintf "diverges %d %d %d %s" i d npre (trace_s !hare.c_st.io))
                   end
                 end)
            end
          done
        with Stack_overflow -> result := Some "ERR stack");
       (match !result with Some r -> r | None -> "ERR none"))
  | _ -> "ERR bad bfcycle line"


(* tape|w|ops|allocs  (ops as in the harness; allocs = string of 0/1 answers) ->
   model observations with the spec's verdict: r=<v> , c=<model>/<must> , - ; then status *)
let parse_tops (w : z) (s : Stdlib.String.t) : top list =
  let m = Model.Z.pow (z_of_int 2) w in
  List.filter_map (fun x ->
      if x = "" then None else
        match split_on ':' x with
        | ["m"; d] -> Some (TMov (zs d))
        | ["r"; o] -> Some (TRead (zs o))
        | ["w"; o; v] -> Some (TWrite (zs o, Model.Z.modulo (zs v) m))
        | ["a"; a; b] -> Some (TAcc (zs a, zs b))
        | ["c"; o] -> Some (TCheck (zs o))
        | _ -> failwith ("bad tape op " ^ x)) (split_on ';' s)

let run_tape = function
  | w :: ops :: rest ->
    let w = zs w in
    let ops = parse_tops w ops in
    let allocs = match rest with
      | [a] -> List.init (String.length a) (fun i -> a.[i] = '1')
      | _ -> [] in
    let small = ops_small ops Z0 in
    let (sobs, _) = s_run ops spec0 in
    (match t_run rust_policy ops allocs rtape0 with
     | TOk (obs, tf) ->
       let strs = List.map2 (fun o so ->
           match o, so with
           | ORead v, SRead _ -> "r=" ^ sz v
           | OCheck b, SCheck must -> "c=" ^ (if b then "1" else "0") ^ "/" ^ (if must then "1" else "0")
           | ONone, SNone -> "-"
           | _ -> "?") obs sobs in
       let ok = all_match obs sobs in
       String.concat " " strs ^ " | ok size=" ^ sz tf.t_size ^ (if ok then " match" else " MISMATCH") ^ (if small then "" else " notsmall")
     | RawOob i -> "rawoob " ^ sz i
     | TooLarge -> "toolarge"
     | AllocFail -> "allocfail")
  | _ -> "ERR bad tape line"


(* rawproto|mn|mx|ops  (e ; m:<d> ; g:<k> ; s:<k>:<v>) -> the log of BCRaw.r_run from the empty tape
   (p=<probe hit> per move, v=<value> per get), the spec's values, and whether the operands are
   inside the window *)
let parse_rops (s : Stdlib.String.t) : rop list =
  List.filter_map (fun x ->
      if x = "" then None else
        match split_on ':' x with
        | ["e"] -> Some REnter
        | ["m"; d] -> Some (RMov (zs d))
        | ["mu"; d] -> Some (RMovU (zs d))
        | ["mj"; d] -> Some (RMovJ (zs d))
        | ["pre"; a; b] -> Some (RPre (zs a, zs b))
        | ["g"; k] -> Some (RGet (zs k))
        | ["s"; k; v] -> Some (RSet (zs k, zs v))
        | _ -> failwith ("bad raw op " ^ x)) (split_on ';' s)

let run_rawproto = function
  | [mn; mx; ops] ->
    let mn = zs mn and mx = zs mx in
    let ops = parse_rops ops in
    (* a leading pre-allocation (reused context) is covered by C06_protocol_safe_reused: the hypothesis is about the rest *)
    let okb = (match ops with RPre (_, _) :: REnter :: tl -> rops_ok mn mx tl Z0 | _ -> rops_ok mn mx ops Z0) in
    let spec = r_spec ops (fun _ -> Z0) Z0 in
    (match r_run rust_policy mn mx ops [] rtape0 with
     | TOk (log, tf) ->
       let strs = List.rev (List.rev_map (function RVal v -> "v=" ^ sz v | RProbe b -> if b then "p=1" else "p=0") log) in
       String.concat " " strs ^ " | ok size=" ^ sz tf.t_size ^ " spec=" ^ String.concat "," (List.rev (List.rev_map sz spec))
       ^ (if okb then " inwindow" else " OUTSIDE")
     | RawOob i -> "rawoob " ^ sz i ^ (if okb then " inwindow" else " OUTSIDE")
     | TooLarge -> "toolarge"
     | AllocFail -> "allocfail")
  | _ -> "ERR bad rawproto line"

(* svec|N|ops -> one observation per op, then the ledger summary *)
let rb = function "0" -> false | "1" -> true | x -> failwith ("bad reg " ^ x)
let parse_sops (s : Stdlib.String.t) : sop list =
  List.filter_map (fun x ->
      if x = "" then None else
        match split_on ':' x with
        | ["n"; r] -> Some (ONew (rb r))
        | ["wc"; r; n] -> Some (OWithCap (rb r, nat_of_int (int_of_string n)))
        | ["p"; r; v] -> Some (OPush (rb r, zs v))
        | ["e"; r; vs] -> Some (OExtend (rb r, (if vs = "" then [] else List.map zs (split_on ',' vs))))
        | ["cl"; r] -> Some (OClear (rb r))
        | ["rt"; r; ks] | ["rm"; r; ks] -> Some (ORetain (rb r, List.init (String.length ks) (fun i -> ks.[i] = '1')))
        | ["dd"; r] -> Some (ODedup (rb r))
        | ["cn"; r] -> Some (OClone (rb r))
        | ["eq"] -> Some OEq
        | ["cmp"] -> Some OCmp
        | ["so"; r] -> Some (OSort (rb r))
        | ["ii"; r; k] -> Some (OIntoIter (rb r, nat_of_int (int_of_string k)))
        | ["it"; r] -> Some (OIter (rb r))
        | _ -> failwith ("bad svec op " ^ x)) (split_on ';' s)

let elems_s (l : (nat * z) list) : Stdlib.String.t =
  "[" ^ String.concat " " (List.map (fun (i, v) -> string_of_int (int_of_nat i) ^ "." ^ sz v) l) ^ "]"

let run_svec = function
  | [n; ops] ->
    let n = nat_of_int (int_of_string n) in
    let ops = parse_sops ops in
    let (obs, sf) = sv_run n ops sstate0 in
    let strs = List.map (function
        | SView (l, h) -> elems_s l ^ (if h then "h" else "i")
        | SBool b -> "b=" ^ (if b then "1" else "0")
        | SOrd c -> "o=" ^ (match c with Eq -> "eq" | Lt -> "lt" | Gt -> "gt")
        | SItems l -> "items" ^ elems_s l) obs in
    let fin = List.map int_of_nat (sv_final sf) in
    let created = int_of_nat sf.next_id in
    let cnt = Array.make (created + 1) 0 in
    List.iter (fun i -> if i < created then cnt.(i) <- cnt.(i) + 1) fin;
    let leaked = ref [] and dbl = ref [] in
    for i = created - 1 downto 0 do
      if cnt.(i) = 0 then leaked := string_of_int i :: !leaked;
      if cnt.(i) > 1 then dbl := string_of_int i :: !dbl
    done;
    String.concat " " strs ^ Printf.sprintf " | created=%d leaked=%s double=%s" created (String.concat "," !leaked) (String.concat "," !dbl)
  | _ -> "ERR bad svec line"


(* expr|w|prog|envs : same grammar and output as harness/src/expr.rs *)
let parts_text (e : expr) : Stdlib.String.t =
  if e = [] then "0" else
    String.concat "+" (List.map (fun (c, vs) -> sz c ^ ":" ^ String.concat "," (List.map sz vs)) e)

let run_expr = function
  | [w; prog; envs_s] ->
    let w = zs w in
    let m = Model.Z.pow (z_of_int 2) w in
    let envs = List.map (fun e -> Array.of_list (List.map (fun x -> Model.Z.modulo (zs x) m) (split_on ',' e))) (split_on '/' envs_s) in
    let get env (v : z) : z = let i = ((int_of_z v + 3) mod 7 + 7) mod 7 in env.(i) in
    let vals_text e = String.concat "," (List.map (fun env -> sz (eval w e (get env))) envs) in
    let full e = "E" ^ parts_text e ^ "@" ^ vals_text e in
    let opt_expr = function Some e -> full e | None -> "none" in
    let regs = Array.make 8 ([] : expr) in
    let parse_map s = List.filter_map (fun kv -> if kv = "" then None else
                                          match split_on '=' kv with [k; v] -> Some (zs k, int_of_string v) | _ -> failwith "bad map") (split_on ',' s) in
    let out = List.filter_map (fun op ->
        if op = "" then None else
          let f = Array.of_list (split_on ':' op) in
          let r i = int_of_string f.(i) in
          let iv i = zs f.(i) in
          let fld i = if i < Array.length f then f.(i) else "" in
          Some (match f.(0) with
              | "val" -> regs.(r 1) <- e_val (Model.Z.modulo (zs f.(2)) m); full regs.(r 1)
              | "var" -> regs.(r 1) <- e_var (iv 2); full regs.(r 1)
              | "add" -> regs.(r 1) <- e_add w regs.(r 2) regs.(r 3); full regs.(r 1)
              | "mul" -> regs.(r 1) <- e_mul w regs.(r 2) regs.(r 3); full regs.(r 1)
              | "neg" -> regs.(r 1) <- e_neg w regs.(r 2); full regs.(r 1)
              | "half" -> (match e_half w regs.(r 2) with Some e -> regs.(r 1) <- e; full e | None -> "none")
              | "norm" -> regs.(r 1) <- e_normalize w regs.(r 2); full regs.(r 1)
              | "sym" ->
                let map = parse_map (fld 4) in
                let idmode = f.(3) = "id" in
                let func v = match List.find_opt (fun (k, _) -> to_z k = to_z v) map with
                  | Some (_, k) -> Some regs.(k)
                  | None -> if idmode then Some (e_var v) else None in
                (match e_symb_evaluate w regs.(r 2) func with Some e -> regs.(r 1) <- e; full e | None -> "none")
              | "const" -> opt sz (e_constant regs.(r 1))
              | "incof" -> opt_expr (e_inc_of regs.(r 1) (iv 2))
              | "pincof" -> (match e_prod_inc_of regs.(r 1) (iv 2) with Some (e, mu) -> full e ^ "*" ^ sz mu | None -> "none")
              | "cincof" -> opt sz (e_const_inc_of regs.(r 1) (iv 2))
              | "prodof" -> opt_expr (e_prod_of w regs.(r 1) (iv 2))
              | "sincof" -> let e = e_inc_of regs.(r 2) (iv 3) in (match e with Some x -> regs.(r 1) <- x | None -> ()); opt_expr e
              | "spincof" -> (match e_prod_inc_of regs.(r 2) (iv 3) with Some (e, mu) -> regs.(r 1) <- e; full e ^ "*" ^ sz mu | None -> "none")
              | "sprodof" -> let e = e_prod_of w regs.(r 2) (iv 3) in (match e with Some x -> regs.(r 1) <- x | None -> ()); opt_expr e
              | "cpart" -> sz (e_constant_part regs.(r 1))
              | "ident" -> opt sz (e_identity regs.(r 1))
              | "opc" -> string_of_int (int_of_nat (e_op_count w regs.(r 1)))
              | "addc" -> string_of_int (int_of_nat (e_add_count regs.(r 1)))
              | "zero" -> if e_is_zero regs.(r 1) then "1" else "0"
              | "vars" -> String.concat "," (List.map sz (e_variables regs.(r 1)))
              | "split" ->
                let constant = List.filter_map (fun c -> if c = "" then None else Some (zs c)) (split_on ',' f.(2)) in
                let linear = List.map (fun (v, k) -> (v, regs.(k))) (parse_map (fld 3)) in
                (match e_split_along w regs.(r 1) constant linear with
                 | Some ((c, o), l) ->
                   full c ^ "|" ^ full o ^ "|" ^ String.concat "&" (List.map (fun (a, b) -> full a ^ "~" ^ full b) l)
                 | None -> "none")
              | k -> "ERR op " ^ k)) (split_on ';' prog) in
    let bad_shape = Array.exists (fun e -> not (shape_ok_b e)) regs in
    String.concat " ; " out ^ (if bad_shape then " ; SHAPE-VIOLATED" else "")
  | _ -> "ERR bad expr line"


(* bfx|w|maxsteps|src-hex|env : canonical run reporting the pointer excursion
   -> <outcome> <fin> <minptr> <maxptr> <steps> <trace> *)
let run_bfx = function
  | [w; maxsteps; src; env] ->
    let w = zs w and e = env_of env and maxsteps = int_of_string maxsteps in
    (match ast_of_source (bytes_of_hex src) with
     | None -> "unbalanced"
     | Some p ->
       let c = ref { c_ctl = p; c_kont = []; c_st = bf0 } in
       let mn = ref 0 and mx = ref 0 and steps = ref 0 in
       let result = ref None in
       while !result = None do
         if !steps >= maxsteps then result := Some (OutOfFuel !c.c_st)
         else (match bf_step w e !c with
             | Final o -> result := Some o
             | Next c' ->
               c := c'; incr steps;
               let p = int_of_z c'.c_st.ptr in
               if p < !mn then mn := p; if p > !mx then mx := p)
       done;
       (match !result with
        | Some o ->
          let tag = match o with Done _ -> "done" | Stopped _ -> "stopped" | OutOfFuel _ -> "fuel" | _ -> "other" in
          Printf.sprintf "%s 1 %d %d %d %s" tag !mn !mx !steps (trace_s (outcome_state o).io)
        | None -> "ERR"))
  | _ -> "ERR bad bfx line"


(* bcwf|regs|fuse|bc-text -> ok | reject <rule> *)
(* tv|w|fuse|ir|bc|cert : certificate checker of Engines/TV.v.  cert = sequence of
   "L head back <facts>" | "F <facts>", facts = nC (k expr)* nD k* nT (t expr)* nNZ expr* *)
let parse_facts (t : toks) : facts =
  let nc = ti t in
  let c = List.init nc (fun _ -> let k = tz_ t in let e = parse_expr t in (k, e)) in
  let nd = ti t in
  let d = List.init nd (fun _ -> tz_ t) in
  let nt = ti t in
  let tt = List.init nt (fun _ -> let k = tz_ t in let e = parse_expr t in (k, e)) in
  let nn = ti t in
  let nz = List.init nn (fun _ -> parse_expr t) in
  { f_c = c; f_d = d; f_t = tt; f_nz = nz }
let parse_certs (s : Stdlib.String.t) : cert list =
  let t = toks_of s in
  let rec go acc =
    match t.l with
    | [] -> List.rev acc
    | _ ->
      (match tok t with
       | "L" -> let h = tz_ t in let b = tz_ t in let f = parse_facts t in let x = parse_facts t in go (CLoop (h, b, f, x) :: acc)
       | "F" -> let f = parse_facts t in go (CIf f :: acc)
       | x -> failwith ("bad cert " ^ x)) in
  go []
let run_tv = function
  | [w; fuse; ir; bc; zeros; cert] ->
    let blk = parse_block (toks_of ir) in
    let p = parse_bc (toks_of bc) in
    let cs = parse_certs cert in
    let z0 = List.map zs (List.filter (fun x -> x <> "") (split_on ' ' zeros)) in
    if tv_check (zs w) (fuse = "1") blk p.bp_code z0 cs then "ok" else "reject"
  | _ -> "ERR bad tv line"

let run_bcwf = function
  | [regs; fuse; bc] ->
    let p = parse_bc (toks_of bc) in
    let r = bc_wf_why (zs regs) (fuse = "1") p in
    let ok = bc_wf (zs regs) (fuse = "1") p in
    if ok && int_of_z r = 0 then "ok" else if ok || int_of_z r = 0 then "ERR inconsistent" else "reject " ^ sz r
  | _ -> "ERR bad bcwf line"


(* ---- Coq strings <-> OCaml strings ---- *)
let coq_ascii (c : char) : ascii =
  let n = Char.code c in
  let b i = (n lsr i) land 1 = 1 in
  Ascii (b 0, b 1, b 2, b 3, b 4, b 5, b 6, b 7)
let char_of_ascii (Ascii (b0, b1, b2, b3, b4, b5, b6, b7)) : char =
  let v b i = if b then 1 lsl i else 0 in
  Char.chr (v b0 0 + v b1 1 + v b2 2 + v b3 3 + v b4 4 + v b5 5 + v b6 6 + v b7 7)
let coq_string (s : Stdlib.String.t) : Model.string =
  let r = ref EmptyString in
  for i = Stdlib.String.length s - 1 downto 0 do r := String (coq_ascii s.[i], !r) done; !r
let ocaml_string (s : Model.string) : Stdlib.String.t =
  let b = Buffer.create 64 in
  let rec go = function EmptyString -> () | String (c, r) -> Buffer.add_char b (char_of_ascii c); go r in
  go s; Buffer.contents b
let str_of_hex (h : Stdlib.String.t) : Stdlib.String.t =
  Stdlib.String.init (Stdlib.String.length h / 2) (fun i -> Char.chr (int_of_string ("0x" ^ Stdlib.String.sub h (2 * i) 2)))
let hex_of_str (s : Stdlib.String.t) : Stdlib.String.t =
  Stdlib.String.concat "" (List.map (fun c -> Printf.sprintf "%02x" (Char.code c)) (List.of_seq (Stdlib.String.to_seq s)))

(* cli|name:kind:content-hex,...|arg-hex,arg-hex,...   (file kinds: ok, enc (bad encoding: content = valid prefix), missing)
   -> help <exit> | nothing <exit> | run <w> <kind> <opt> <mode> <limit> <code-hex> | panic ; then " diag=" count *)
let run_cli = function
  | [files; args] ->
    let files = List.filter_map (fun f -> if f = "" then None else
                                    match split_on ':' f with
                                    | [n; k; c] -> Some (str_of_hex n, (k, str_of_hex c))
                                    | _ -> failwith "bad file spec") (split_on ',' files) in
    let fs (name : Model.string) : fileres =
      match List.assoc_opt (ocaml_string name) files with
      | Some ("ok", c) -> FOk (coq_string c)
      | Some ("enc", c) -> FBadEncoding (coq_string c)
      | _ -> FMissing in
    let args = List.filter_map (fun a -> if a = "-" then Some (coq_string "") else if a = "" then None else Some (coq_string (str_of_hex a))) (split_on ',' args) in
    let st = cli_run spec_table spec_defaults fs args in
    let kind_s = function KPrintIr -> "print-ir" | KPrintBc -> "print-bc" | KPrintBc2 -> "print-jit-bc" | KInplace -> "inplace"
                        | KIrInt -> "ir" | KBcInt -> "bc" | KPrintMc -> "print-jit-mc" | KBaseJit -> "jit" in
    let d = match decide spec_widths st with
      | DHelp e -> "help " ^ sz e
      | DNothing e -> "nothing " ^ sz e
      | DRun (w, k, o, m, l, c) -> Printf.sprintf "run %s %s %s %s %s %s" (sz w) (kind_s k) (sz o) (ocaml_string m) (sz l) (hex_of_str (ocaml_string c))
      | DPanic -> "panic" in
    d ^ " safe=" ^ (if st.c_safe then "1" else "0") ^ " diag=" ^ string_of_int (List.length st.c_diag)
  | _ -> "ERR bad cli line"


(* ---- C13 ---- *)
let loc_text = function
  | Mem k -> "m " ^ sz k | MemZero k -> "mz " ^ sz k | Tmp t -> "t " ^ sz t | Imm c -> "# " ^ sz c
let instr_text = function
  | Noop -> "n" | Scan (c, s) -> "s " ^ sz c ^ " " ^ sz s | MovP s -> "m " ^ sz s | Inp d -> "i " ^ sz d | Outp s -> "o " ^ sz s
  | BrZ (c, o) -> "z " ^ sz c ^ " " ^ sz o | BrNZ (c, o) -> "nz " ^ sz c ^ " " ^ sz o
  | Add (d, a, b) -> "a " ^ loc_text d ^ " " ^ loc_text a ^ " " ^ loc_text b
  | Sub (d, a, b) -> "u " ^ loc_text d ^ " " ^ loc_text a ^ " " ^ loc_text b
  | Mul (d, a, b) -> "x " ^ loc_text d ^ " " ^ loc_text a ^ " " ^ loc_text b
  | Copy (d, a) -> "c " ^ loc_text d ^ " " ^ loc_text a

(* formsnf|w|bc-text : every arithmetic instruction of a generated bytecode must be a fixed point of the
   model's reordering (after undoing fusion) and be covered by both selectors *)
let run_formsnf = function
  | [w; bc] ->
    let w = zs w in
    let p = parse_bc (toks_of bc) in
    let bad = ref [] in
    List.iteri (fun idx i ->
        let u = unzero_instr i in
        if reorder w u <> u then
          (* not the operand order of the model's reordering: the coverage predicates are evaluated on the
             instruction itself (the theorems C13_*_covers_all speak about normal forms only) *)
          bad := ((if int_covers i && (u <> i || jit_covers i || (match i with Scan _ -> true | _ -> false)) then "notnormal-covered@" else "notnormal-uncovered@")
                  ^ string_of_int idx ^ ":" ^ instr_text i) :: !bad
        else if not (int_covers i) then bad := ("int-uncovered@" ^ string_of_int idx) :: !bad
        else if u = i && not (jit_covers i) && (match i with Scan _ -> false | _ -> true) then bad := ("jit-uncovered@" ^ string_of_int idx ^ ":" ^ instr_text i) :: !bad) p.bp_code;
    if !bad = [] then "ok" else Stdlib.String.concat "," (List.rev !bad)
  | _ -> "ERR bad formsnf line"

(* shapes|w : one-instruction programs for every normalised shape over a small index domain *)
let run_shapes = function
  | [w] ->
    let w = zs w in
    let zi = z_of_int in
    let mems = [Mem (zi 0); Mem (zi 1)] and tmps = [Tmp (zi 0); Tmp (zi 1); Tmp (zi 2); Tmp (zi 4); Tmp (zi 5); Tmp (zi 11); Tmp (zi 12)] in
    let imms = [Imm (zi 0); Imm (zi 1); Imm (Model.Z.sub (Model.Z.pow (zi 2) w) (zi 1)); Imm (zi 5); Imm (Model.Z.sub (Model.Z.pow (zi 2) w) (zi 3))] in
    let dsts = mems @ tmps and srcs = mems @ tmps @ imms in
    let out = Hashtbl.create 1024 in
    let add i = if pre_shape i then begin
        let r = reorder w i in
        Hashtbl.replace out (instr_text r) ();
        (* fused variants for the interpreter *)
        (match r with
         | Add (d, Mem a, b) -> Hashtbl.replace out (instr_text (Add (d, MemZero a, b)) ^ " F") ()
         | Mul (d, a, Mem b) -> Hashtbl.replace out (instr_text (Mul (d, a, MemZero b)) ^ " F") ()
         | Sub (d, Mem a, Mem b) -> Hashtbl.replace out (instr_text (Sub (d, MemZero a, MemZero b)) ^ " F") ()
         | Copy (d, Mem a) -> Hashtbl.replace out (instr_text (Copy (d, MemZero a)) ^ " F") ()
         | _ -> ())
      end in
    List.iter (fun d -> List.iter (fun a ->
        add (Copy (d, a));
        List.iter (fun b -> add (Add (d, a, b)); add (Sub (d, a, b)); add (Mul (d, a, b))) srcs) srcs) dsts;
    Stdlib.String.concat ";" (List.sort compare (Hashtbl.fold (fun k () acc -> k :: acc) out []))
  | _ -> "ERR bad shapes line"


(* bcmem|w|lo|hi|bc-text : final cells lo..hi of the bytecode model *)
let run_bcmem = function
  | [w; lo; hi; bc] ->
    let p = parse_bc (toks_of bc) in
    let e = { input = []; in_absent = true; in_fail_at = None; out_present = false; out_fail_at = None } in
    (match bc_run (zs w) e false Z0 (nat_of_int 100000) p with
     | Done s ->
       let lo = int_of_string lo and hi = int_of_string hi in
       Stdlib.String.concat "," (List.init (hi - lo + 1) (fun i -> sz (tget s.bc_tape (Model.Z.add s.bc_ptr (z_of_int (lo + i))))))
     | _ -> "notdone")
  | _ -> "ERR bad bcmem line"

let handlers : (Stdlib.String.t * (Stdlib.String.t list -> Stdlib.String.t)) list ref = ref [ ("cell", run_cell); ("bf", run_bf); ("inplace", run_inplace); ("ir", run_ir); ("bc", run_bc); ("tv", run_tv); ("x86form", run_x86form); ("x86call", run_x86call); ("x86br", run_x86br); ("x86mov", run_x86mov); ("x86limit", run_x86limit); ("liveregs", run_liveregs); ("x86frame", run_x86frame); ("bcreach", run_bcreach); ("parse", run_parse); ("bfbig", run_bfbig); ("bcmem", run_bcmem); ("formsnf", run_formsnf); ("shapes", run_shapes); ("cli", run_cli); ("bcwf", run_bcwf); ("bfx", run_bfx); ("expr", run_expr); ("svec", run_svec); ("tape", run_tape); ("rawproto", run_rawproto); ("bfcycle", run_bfcycle); ("irbig", run_irbig) ]

let () =
  (try
     while true do
       let line = input_line stdin in
       if String.length line > 0 && line.[0] <> '#' then begin
         let fields = split_on '|' line in
         let out =
           match fields with
           | kind :: rest ->
             (match List.assoc_opt kind !handlers with
              | Some h -> (try h rest with e -> "ERR exception " ^ Printexc.to_string e)
              | None -> "ERR unknown kind " ^ kind)
           | [] -> "ERR empty"
         in
         print_string out; print_char '\n'
       end
     done
   with End_of_file -> ());
  flush stdout

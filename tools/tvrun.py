"""Translation validation of bc::CodeGen::translate on a population (properties C02 / C03):
for every program x level the IR and the bytecode of the current build are dumped, a certificate
is inferred (tools/tvinfer.py, untrusted) and checked by the extracted [TV.tv_check]; acceptance
means equivalence for every input (theorem C02_validated_translation)."""
from concurrent.futures import ProcessPoolExecutor
from . import common as C
from . import pipeline as P
from . import gen
from . import tvinfer


def _infer(job):
    w, ir, bc, fuse = job
    try:
        v, st = tvinfer.validate(w, ir, bc, fuse)
    except Exception as e:   # malformed dump or an inference bug: reported like a rejection
        return "reject: inference failed: %r" % (e,), ""
    return v, st.get("zeros", "") + "|" + st.get("cert", "")


def run(res, prop, cases, levels, regs, fuse, backend, max_report=4):
    hv = C.build_harness("debug")
    driver = C.build_driver()
    stats = {"programs_x_levels": 0, "accepted": 0, "rejected_by_inference": 0, "rejected_by_checker": 0,
             "loops": 0, "failing_inputs_found": 0}
    rep = 0
    with ProcessPoolExecutor(max_workers=C.NPROC) as pool:
        for level in levels:
            irs = C.run_lines(hv, ["dumpir|%d|%d|%s" % (c.w, level, P.hexs(c.src)) for c in cases])
            bcs = C.run_lines(hv, ["dumpbc|%d|%d|%d|%d|%s" % (c.w, level, regs, 1 if fuse else 0, P.hexs(c.src)) for c in cases])
            idx = [k for k in range(len(cases)) if irs[k].startswith("ok ") and bcs[k].startswith("ok ")]
            jobs = [(cases[k].w, irs[k][3:], bcs[k][3:], fuse) for k in idx]
            inferred = list(pool.map(_infer, jobs, chunksize=64))
            lines, lidx = [], []
            verdict = {}
            for k, (v, cert) in zip(idx, inferred):
                stats["programs_x_levels"] += 1
                if v == "ok":
                    lines.append("tv|%d|%d|%s|%s|%s" % (cases[k].w, 1 if fuse else 0, irs[k][3:], bcs[k][3:], cert))
                    lidx.append(k)
                    stats["loops"] += cert.count("L ")
                else:
                    verdict[k] = ("inference", v)
            for k, o in zip(lidx, C.run_lines(driver, lines)):
                if o == "ok":
                    stats["accepted"] += 1
                else:
                    verdict[k] = ("checker", o)
            for k, (who, why) in verdict.items():
                stats["rejected_by_" + who] += 1
                if rep >= max_report:
                    continue
                rep += 1
                c = cases[k]
                found = find_failing_input(hv, driver, c, backend, level)
                what = ("the bytecode generated for %r (width %d, level %d, %d registers, fuse=%d) is not validated against its IR (%s: %s); theorem C02_validated_translation no longer covers it"
                        % (c.src[:200], c.w, level, regs, fuse, who, why[:200]))
                if found:
                    stats["failing_inputs_found"] += 1
                    env, got, want = found
                    res.violation(what + "; with input %s the %s backend gives %s, canonical %s" % (env, backend, got[:120], want[:120]),
                                  {"case": dict(c.to_json(), env=env), "backend": backend, "level": level, "implementation": got, "canonical": want,
                                   "ir": irs[k][:2000], "bytecode": bcs[k][:2000]})
                else:
                    res.violation(what, {"case": c.to_json(), "backend": backend, "level": level, "ir": irs[k][:2000], "bytecode": bcs[k][:2000],
                                         "theorem": "C02_validated_translation", "rejected_by": who, "reason": why[:500]}, no_failing_input=True)
    return stats


def find_failing_input(hv, driver, c, backend, level, tries=24):
    """run the program on its own input and on fresh inputs and compare with the canonical run"""
    rng = C.Rng(hash(c.src) & 0xffffffff)
    # the program's own input, every combination of {0, 1, 2, 255} on the first three bytes (conditions that
    # are zero on one path and not on another), and random inputs
    small = [bytes([a, b, d]) + bytes([3, 0, 7]) for a in (0, 1, 2, 255) for b in (0, 1, 2, 255) for d in (0, 1, 2, 255)]
    envs = [c.env] + [P.env_text(x) for x in small] + [P.env_text(gen.random_input(rng.fork())) for _ in range(tries)]
    cs = [P.Case(c.src, c.w, e, "tv-search") for e in envs]
    canon = C.run_lines(driver, ["bf|%d|%d|%s|%s" % (x.w, P.FUEL, P.hexs(x.src), x.env) for x in cs])
    got = C.run_lines(hv, P.run_backend_lines(cs, backend, level))
    for x, a, b in zip(cs, got, canon):
        if not b.startswith(("done ", "stopped ")):
            continue
        if P.split_result(a)[0] != "ok" or P.split_result(a)[2] != P.trace_of(b):
            return x.env, a, b
    return None

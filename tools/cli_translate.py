#!/usr/bin/env python3
"""Translator: /repo/src/bin/hpbf.rs -> Gallina (Cli_gen.v).  Extracts the `match arg.as_str()` arms,
the defaults of `main`, the width dispatch, the executor selection of `execute_code` and the mode
selection.  Arms guarded by the llvm feature are skipped (the feature cannot be built here);
arms guarded by the x86-64/unix cfg are kept (that is the platform of this sandbox).
Fails loudly (exit 2) if the expected structure is not found."""
import re, sys

KIND = {"PrintIr": "KPrintIr", "PrintBc": "KPrintBc", "PrintBc2": "KPrintBc2", "Inplace": "KInplace", "IrInt": "KIrInt",
        "BcInt": "KBcInt", "PrintMc": "KPrintMc", "BaseJit": "KBaseJit"}


def fail(msg):
    print("cli_translate: " + msg, file=sys.stderr)
    sys.exit(2)


def strip_llvm(src):
    """drop every item/arm/statement preceded by a cfg attribute mentioning feature = "llvm" """
    out = []
    lines = src.split("\n")
    skip_next = False
    i = 0
    while i < len(lines):
        ln = lines[i]
        if re.search(r'#\[cfg\(.*feature\s*=\s*"llvm"', ln):
            # skip the attribute and the following arm/statement (up to its terminating ',' or ';' or matching brace)
            i += 1
            depth = 0
            while i < len(lines):
                l2 = lines[i]
                depth += l2.count("{") - l2.count("}")
                i += 1
                if depth <= 0 and re.search(r'[,;}]\s*$', l2):
                    break
            continue
        out.append(ln)
        i += 1
    return "\n".join(out)


def action_of(rhs):
    rhs = rhs.strip().rstrip(",")
    m = re.fullmatch(r"kind = ExecutorKind::(\w+)", rhs)
    if m:
        if m.group(1) not in KIND:
            fail("unknown executor kind " + m.group(1))
        return "ASetKind " + KIND[m.group(1)]
    m = re.fullmatch(r"opt = (\d+)", rhs)
    if m:
        return "ASetOpt %s" % m.group(1)
    m = re.fullmatch(r"bits = (\d+)", rhs)
    if m:
        return "ASetBits %s" % m.group(1)
    if rhs == "print_help = true":
        return "AHelp"
    if rhs == "next_is_file = true":
        return "ANextFile"
    if rhs == "next_is_limit = true":
        return "ANextLimit"
    if rhs == "safe = false":
        return "AStatic"
    if rhs.startswith("time = Some("):
        return "ATime"
    return None


def translate(path):
    src = strip_llvm(open(path).read())
    m = re.search(r"match arg\.as_str\(\) \{(.*?)\n\s*\}\n", src, re.S)
    if not m:
        fail("argument match not found")
    body = m.group(1)
    table = []
    default_seen = False
    for arm in re.finditer(r'^\s*((?:"[^"]*"\s*\|\s*)*"[^"]*"|_)\s*=>\s*(.*?),?\s*$', body, re.M):
        pat, rhs = arm.group(1), arm.group(2)
        if pat == "_":
            if rhs.strip().rstrip(",") != "code.push_str(&arg)":
                fail("default arm is not code concatenation: " + rhs)
            default_seen = True
            continue
        act = action_of(rhs)
        if act is None:
            fail("unrecognised action: " + rhs)
        for flag in re.findall(r'"([^"]*)"', pat):
            table.append((flag, act))
    if not default_seen:
        fail("no default arm")
    # defaults
    mb = re.search(r"let mut bits = (\d+);", src)
    mo = re.search(r"let mut opt = (\d+);", src)
    mk = re.search(r'#\[cfg\(all\(not\(miri\), target_arch = "x86_64", target_family = "unix"\)\)\]\s*\{\s*kind = ExecutorKind::(\w+);', src)
    if not (mb and mo and mk):
        fail("defaults not found")
    # other initial values the model assumes
    for init in ("let mut limit = None;", "let mut safe = true;", "let mut has_error = false;", "let mut next_is_file = false;",
                 "let mut next_is_limit = false;", "let mut code = String::new();", "let mut print_help = false;"):
        if init not in src:
            fail("initial value not found: " + init)
    # width dispatch
    widths = re.findall(r"(\d+) => execute_code::<u(\d+)>\(&code, kind, opt, limit, safe\)", src)
    if not widths:
        fail("width dispatch not found")
    # executors
    execs = re.findall(r"ExecutorKind::(\w+) => (?:Some\()?Box::new\((\w+)::<C>::create\(code, opt\)\?\)\)?", src)
    # every arm that builds an executor / a bytecode listing must have been recognised: a partial table would
    # be "proved different" although only the translator failed to read the source
    if len(execs) != len(re.findall(r"Box::new\(\s*\w+::<C>::create\(", src)):
        fail("executor arms not recognised")
    pbc = re.findall(r"ExecutorKind::(\w+) => \{\s*let program = ir::Program::<C>::parse\(code\)\?;\s*let program = program\.optimize\(opt\);\s*let bytecode = bc::CodeGen::translate\(&program, (\d+), (true|false)\);", src)
    if len(pbc) != len(re.findall(r"bc::CodeGen::translate\(", src)):
        fail("bytecode print arms not recognised")
    # mode selection
    mm = re.search(r"if let Some\(limit\) = limit \{\s*cxt\.budget = limit;\s*exec\.execute_limited\(&mut cxt\)\?;\s*\} else if safe \{\s*exec\.execute\(&mut cxt\)\?;\s*\} else \{.*?cxt\.memory\.make_accessible\((-?[\d_]+), ([\d_]+)\);\s*unsafe \{ exec\.execute_unsafe\(&mut cxt\)\? \};", src, re.S)
    if not mm:
        fail("mode selection not found")
    # exit status and the error/help structure
    for frag in ("if print_help {", "} else if !has_error {", "if has_error {\n        exit(1)", "exit(0)"):
        if frag not in src:
            fail("exit structure not found: " + frag)
    out = ["(* GENERATED by tools/cli_translate.py from /repo/src/bin/hpbf.rs — do not edit *)",
           "From Coq Require Import ZArith List Bool String.", "From HPBF Require Import Cli.", "Import ListNotations.",
           "Open Scope string_scope.", "Open Scope Z_scope.", "",
           "Definition table : Cli.table := ["]
    out.append(";\n".join('  ("%s", %s)' % (f, a) for f, a in table))
    out.append("].")
    out.append("Definition defaults : Cli.defaults := {| d_bits := %s; d_opt := %s; d_kind := %s |}." % (mb.group(1), mo.group(1), KIND[mk.group(1)]))
    out.append("Definition widths : list (Z * Z) := [%s]." % "; ".join("(%s, %s)" % w for w in widths))
    out.append("Definition executors : list (kind * string) := [%s]." % "; ".join('(%s, "%s")' % (KIND[k], t) for k, t in execs))
    out.append("Definition print_bc : list (kind * (Z * bool)) := [%s]." % "; ".join("(%s, (%s, %s))" % (KIND[k], r, f) for k, r, f in pbc))
    out.append('Definition modes : list string := ["limited"; "checked"; "static"].')
    out.append("Definition static_region : Z * Z := (%s, %s)." % (mm.group(1).replace("_", ""), mm.group(2).replace("_", "")))
    return "\n".join(out) + "\n"


THEOREM = """(* compiled against the regenerated table on every run *)
From Coq Require Import ZArith List Bool String.
From HPBF Require Import Cli CliProofs.
Require Import Cli_gen.
Theorem table_is_spec :
  Cli_gen.table = Cli.spec_table /\\ Cli_gen.defaults = Cli.spec_defaults /\\ Cli_gen.widths = Cli.spec_widths
  /\\ Cli_gen.executors = Cli.spec_executors /\\ Cli_gen.print_bc = Cli.spec_print_bc
  /\\ Cli_gen.modes = Cli.spec_modes /\\ Cli_gen.static_region = Cli.spec_static_region.
Proof. repeat split; reflexivity. Qed.
(* hence every theorem about [cli_run spec_table spec_defaults] is a theorem about the regenerated table *)
Theorem generated_cli_no_panic : forall fs args,
  decide Cli_gen.widths (cli_run Cli_gen.table Cli_gen.defaults fs args) <> DPanic.
Proof. destruct table_is_spec as [-> [-> [-> _]]]. exact no_width_panic. Qed.
Print Assumptions table_is_spec.
Print Assumptions generated_cli_no_panic.
"""

if __name__ == "__main__":
    sys.stdout.write(translate(sys.argv[1] if len(sys.argv) > 1 else "/repo/src/bin/hpbf.rs"))

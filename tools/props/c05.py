"""C05 — divergence and termination are preserved by every backend."""
import json, os, sys
from .. import common as C
from .. import pipeline as P
from . import c07

LEVEL = "translation_validation"
PROP = "C05"
PROPS_FILE = "C05.v"
BACKENDS = [("inplace", [0]), ("ir", [0, 1, 2, 3]), ("bc", [0, 2, 3]), ("jit", [0, 2, 3])]
COUNTS_QUICK = {"evenstep": 80, "scancond": 80, "framealias": 40, "scanclear": 60, "emptyspin": 40, "mulcounter": 60, "loopio": 40, "iopressure": 120, "diverge": 120, "uniform": 150, "macro": 60, "affine": 60}
COUNTS_THOROUGH = {"evenstep": 1500, "scancond": 1500, "framealias": 800, "scanclear": 1200, "emptyspin": 600, "mulcounter": 1500, "loopio": 1000, "iopressure": 3000, "diverge": 1500, "uniform": 3000, "macro": 1000, "affine": 1000}
WINDOW_MS = 400


def run(res):
    rng = C.Rng(res.seed * 7919 + 5)
    broken = []
    if os.path.exists(os.path.join(C.COQ, "theories", "Props", PROPS_FILE)):
        broken = C.proof_audit(res, PROPS_FILE)
    else:
        C.build_coq()
    driver = C.build_driver()
    hv = C.build_harness("debug")
    counts = COUNTS_QUICK if res.tier == "quick" else COUNTS_THOROUGH
    cases = P.build_population(rng, counts, widths=(8, 8, 8, 8, 16, 32, 64))
    c07.classify(driver, cases)
    div = [c for c in cases if c.meta["class"] == "diverges"]
    # distinct by (src,w,effective env)
    halts = [c for c in cases if c.meta["class"] == "halts"]
    stats = {"divergent_runs": 0, "returned": 0, "bad_prefix": 0, "halting_pairs": 0}
    reported = 0
    for backend, levels in BACKENDS:
        for level in levels:
            lines = ["runs|%s|%d|%d|exec|0|%d|%s|%s" % (backend, c.w, level, WINDOW_MS, P.hexs(c.src), c.env) for c in div]
            out = C.run_lines(hv, lines)
            for c, r in zip(div, out):
                stats["divergent_runs"] += 1
                bad = None
                if r.startswith("timeout"):
                    t = c07.toks(r[len("timeout"):].strip())
                    # the last streamed token may be cut
                    if t and not (len(t[-1]) in (4, 5) or t[-1] in ("I:eof", "I:!")):
                        t = t[:-1]
                    if not c07.periodic_ok(t, c.meta["prefix"], c.meta["period"]):
                        bad = "events before divergence are not a prefix of the canonical periodic event sequence"
                        stats["bad_prefix"] += 1
                    elif len(t) < len(c.meta["prefix"]):
                        # the window may simply have been too short (long transient, loaded machine): run this
                        # case again on its own with a window sized for the prefix before believing it
                        ms = WINDOW_MS * 10 + len(c.meta["prefix"]) // 5
                        r2 = C.run_lines(hv, ["runs|%s|%d|%d|exec|0|%d|%s|%s" % (backend, c.w, level, ms, P.hexs(c.src), c.env)], shards=1)[0]
                        t2 = c07.toks(r2[len("timeout"):].strip()) if r2.startswith("timeout") else None
                        stats["window_retries"] = stats.get("window_retries", 0) + 1
                        if t2 is None:
                            bad = "backend returned (%s) although the canonical run repeats a machine state" % r2[:80]
                            stats["returned"] += 1
                        elif len(t2) + 1 < len(c.meta["prefix"]) and len(c.meta["prefix"]) <= 20000:
                            bad = "events that precede the divergence were not all produced (%d of %d in %d ms)" % (len(t2), len(c.meta["prefix"]), ms)
                            stats["bad_prefix"] += 1
                    elif not c.meta["period"] and len(t) != len(c.meta["prefix"]):
                        bad = "extra events after the silent cycle was entered"
                        stats["bad_prefix"] += 1
                else:
                    bad = "backend returned (%s) although the canonical run repeats a machine state (steps %d and %d)" % (r[:80], c.meta["cert"][0], c.meta["cert"][0] + c.meta["cert"][1] + 1)
                    stats["returned"] += 1
                if bad and reported < 5:
                    reported += 1
                    res.violation("C05 %s level %d width %d: %s; program %r env %s" % (backend, level, c.w, bad, c.src[:200], c.env),
                                  {"case": c.to_json(), "backend": backend, "level": level, "implementation": r[:2000], "certificate": c.meta["cert"], "why": bad})
    # halting programs must return with the canonical trace on every backend
    for c in halts:
        c.canon = c.canon  # already 'done ...'
    for backend, levels in BACKENDS:
        st = P.validate(res, PROP, halts, backend, levels[:2], profiles=("debug",), dump=None, max_report=2)
        stats["halting_pairs"] += st["pairs"]
    res.coverage.update({
        "programs": len(div) + len(halts), "disagreements_checked": stats["divergent_runs"] + stats["halting_pairs"],
        "samples": [dict(c.to_json(), certificate=c.meta["cert"], prefix=c.meta["prefix"][:8], period=c.meta["period"][:8]) for c in div[:: max(1, len(div) // 8)]][:8],
        "evaluations": stats["divergent_runs"] + stats["halting_pairs"],
        "distinct_nontrivial": len(set(c.key() for c in div)),
        "rule": "canonical machine (Machines.v) with Brent cycle detection; a program is 'divergent' only with a state-repeat certificate (i, d) re-validated by the extracted cert_ok (Theorem C05_state_repeat_diverges: such a run never halts and its events are prefix.period^omega); each backend x level runs it in a child for %d ms: it must not return and the streamed events must be a prefix of prefix.period^omega containing the whole prefix (and nothing else when the cycle is silent); halting programs must return with the canonical events on every backend; non-trivial = distinct certified-divergent programs" % WINDOW_MS,
        "certified_divergent": len(div), "halting": len(halts), "unknown_dropped": len(cases) - len(div) - len(halts),
        "stats": stats, "backends": BACKENDS, "distribution": P.distribution(cases),
    })
    res.assumptions += ["'never returns' is observed through a %d ms wall-clock window (about 10^4 x the canonical cycle prefix), an observation of the implementation, not a proof about it" % WINDOW_MS]
    if broken and not res.violations:
        res.violation("proof side of C05 no longer checks: " + "; ".join(broken)[:1500],
                      {"broken": broken, "theorem_file": "coq/theories/Props/" + PROPS_FILE}, no_failing_input=True)


def replay(res, path):
    r = json.load(open(path))
    c = r["case"]
    hv = C.build_harness("debug")
    line = "runs|%s|%d|%d|exec|0|%d|%s|%s" % (r["backend"], c["w"], r["level"], WINDOW_MS, P.hexs(c["src"]), c["env"])
    out = C.run_lines(hv, [line], shards=1)[0]
    print("source:", c["src"], "\ncanonical:", c.get("canonical"), "\nimplementation now:", out[:300])
    res.coverage.update({"programs": 1, "disagreements_checked": 1, "samples": [c]})
    if out[:40] == r.get("implementation", "")[:40]:
        res.violation("replayed case still behaves as recorded", r)

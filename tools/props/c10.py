"""C10 — static (unchecked) mode equals checked mode inside the pre-allocated region."""
import json, os
from .. import common as C
from .. import pipeline as P

PROP = "C10"
LEVEL = "exploration"
BACKENDS = [("bc", [0, 1, 2, 3]), ("jit", [0, 1, 2, 3])]
COUNTS_QUICK = {"roam": 100, "uniform": 150, "macro": 60, "affine": 40, "pressure": 10}
COUNTS_THOROUGH = {"roam": 2000, "uniform": 3000, "macro": 1500, "affine": 800, "pressure": 200}


def run(res):
    rng = C.Rng(res.seed * 7919 + 10)
    broken = []
    if os.path.exists(os.path.join(C.COQ, "theories", "Props", "C10.v")):
        broken = C.proof_audit(res, "C10.v")
    else:
        C.build_coq()
    driver = C.build_driver()
    hv = C.build_harness("debug")
    hvr = C.build_harness("release")
    counts = COUNTS_QUICK if res.tier == "quick" else COUNTS_THOROUGH
    cases = P.build_population(rng, counts, widths=(8, 16, 32, 64))
    out = C.run_lines(driver, ["bfx|%d|%d|%s|%s" % (c.w, P.FUEL, P.hexs(c.src), c.env) for c in cases])
    H = []
    for c, r in zip(cases, out):
        f = r.split(" ", 5)
        if f[0] in ("done", "stopped"):
            c.canon = "%s 1 %s" % (f[0], f[5])
            # region: canonical excursion with a margin of the program's length on each side
            prog_len = sum(1 for ch in c.src if ch in "+-<>.,[]")
            c.meta["margin"] = max(-int(f[2]), int(f[3])) + prog_len
            c.meta["exc"] = (int(f[2]), int(f[3]))
            if c.meta["margin"] < 200000:
                H.append(c)
    stats = {"programs": len(H), "runs": 0, "faults": 0, "trace_diffs": 0}
    rep = 0
    for backend, levels in BACKENDS:
        for level in levels:
            for guard in (2, 3):
                for (exe, prof) in ((hv, "debug"), (hvr, "release")):
                    ls = ["rung|%s|%d|%d|unsafe|%d|%d|10000|%s|%s" % (backend, c.w, level, c.meta["margin"], guard, P.hexs(c.src), c.env) for c in H]
                    rs = C.run_lines(exe, ls)
                    for c, r, l in zip(H, rs, ls):
                        stats["runs"] += 1
                        bad = None
                        if r.startswith("signal:"):
                            bad = "fault (%s): an access left the pre-allocated region [-%d, %d] (guard page on the %s)" % (r.split()[0], c.meta["margin"], c.meta["margin"], "left" if guard == 2 else "right")
                            stats["faults"] += 1
                        elif not r.startswith("ok "):
                            bad = "did not complete: " + r[:100]
                        else:
                            body = r.rsplit(" guarded=", 1)[0]
                            if P.split_result(body)[2] != P.trace_of(c.canon):
                                bad = "events differ from the canonical ones"
                                stats["trace_diffs"] += 1
                        if bad and rep < 5:
                            rep += 1
                            res.violation("C10 %s level %d width %d (%s build) execute_unsafe: %s; program %r env %s canonical excursion %s" % (backend, level, c.w, prof, bad, c.src[:200], c.env, c.meta["exc"]),
                                          {"case": l, "implementation": r[:300], "canonical": c.canon, "profile": prof, "src": c.src})
    res.coverage.update({
        "evaluations": stats["runs"],
        "distinct_nontrivial": len(set(c.key() for c in H if "[" in c.src)),
        "rule": "execute_unsafe (bytecode interpreter and JIT, levels 0-3, debug and release) on a context pre-grown with make_accessible(-m, m+1), m = canonical pointer excursion (extracted machine) + number of commands of the program; the pre-grown tape and every other allocation made during the run are flush against guard pages (left-flush and right-flush runs); fault = violation; events must equal the canonical ones; non-trivial = distinct programs with a loop",
        "samples": [dict(c.to_json(), margin=c.meta["margin"]) for c in H[:: max(1, len(H) // 6)]][:6],
        "stats": stats, "distribution": P.distribution(H), "backends": BACKENDS,
    })
    res.assumptions += ["first exercise of execute_unsafe anywhere (the suite has none)"]
    if broken and not res.violations:
        res.violation("proof side of C10 no longer checks: " + "; ".join(broken)[:1500], {"broken": broken}, no_failing_input=True)


def replay(res, path):
    from . import c06
    c06.replay(res, path)

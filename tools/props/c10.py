"""C10 — static (unchecked) mode equals checked mode inside the pre-allocated region."""
import json, os
from .. import common as C
from .. import pipeline as P

PROP = "C10"
LEVEL = "exploration"
BACKENDS = [("bc", [0, 1, 2, 3]), ("jit", [0, 1, 2, 3])]
COUNTS_QUICK = {"ifedge": 30, "jmpsweep": 240, "framealias": 40, "stridescan": 60, "shiftif": 80, "roam": 100, "uniform": 150, "macro": 60, "affine": 40, "pressure": 10}
COUNTS_THOROUGH = {"ifedge": 500, "jmpsweep": 2000, "framealias": 800, "stridescan": 1000, "shiftif": 1500, "roam": 2000, "uniform": 3000, "macro": 1500, "affine": 800, "pressure": 200}


def unchecked_protocol(res, rng, driver, hv, n):
    """BCRaw.v in unchecked mode (theorem C10_unchecked_safe) vs runtime::Memory: pre-allocate
    [-m, m], then raw moves and raw accesses that stay on cells of the region; every accessed cell
    must test accessible (it is dereferenced without a check) and reads must return the model's values"""
    mlines, ilines, wants = [], [], []
    for _ in range(n):
        r = rng.fork()
        m = r.choice([0, 1, 2, 5, 17, 100, 3000])
        pos, ops, iops, want = 0, [], ["a:%d:%d" % (-m, m + 1)], ["-"]
        for _ in range(r.randint(2, 40)):
            k = r.below(10)
            if k < 4:
                d = r.randint(-m - pos, m - pos)
                pos += d
                ops.append("mu:%d" % d); iops.append("m:%d" % d); want.append("-")
            else:
                off = r.randint(-m - pos, m - pos)
                if k < 7:
                    ops.append("g:%d" % off); iops += ["c:%d" % off, "r:%d" % off]; want += ["c=1", None]
                else:
                    v = r.randint(1, 255)
                    ops.append("s:%d:%d" % (off, v)); iops += ["c:%d" % off, "w:%d:%d" % (off, v)]; want += ["c=1", "-"]
        mlines.append("rawproto|0|0|%s" % ";".join(["pre:%d:%d" % (-m, m + 1)] + ops))
        ilines.append("tape|8|%s" % ";".join(iops))
        wants.append(want)
    mout = C.run_lines(driver, mlines)
    iout = C.run_lines(hv, ilines)
    st = {"histories": n, "mismatches": 0, "oob": 0}
    rep = 0
    for ml, il, want, m, r in zip(mlines, ilines, wants, mout, iout):
        if not m.split(" | ")[-1].startswith("ok"):
            raise C.CheckFailure("unchecked protocol model failed: %s -> %s" % (ml[:200], m[:200]))
        vals = [x[2:] for x in m.split(" | ")[0].split() if x.startswith("v=")]
        vi = 0
        exp = []
        for x in want:
            if x is None:
                exp.append("r=%s" % vals[vi]); vi += 1
            else:
                exp.append(x)
        got = r.split(" | ")[0].split()
        if got == exp and r.endswith("facts:ok"):
            continue
        oob = any(g == "c=0" and e == "c=1" for g, e in zip(got, exp))
        st["oob" if oob else "mismatches"] += 1
        if rep < 3:
            rep += 1
            res.violation(("an unchecked access inside the pre-allocated region would leave the tape buffer: %s" if oob else
                           "BCRaw.v (unchecked mode) and runtime::Memory disagree: %s") % il[:300],
                          {"case": il, "model_case": ml, "implementation": r[:500], "expected": " ".join(exp)}, no_failing_input=not oob)
    return st


def run(res):
    rng = C.Rng(res.seed * 7919 + 10)
    broken = []
    if os.path.exists(os.path.join(C.COQ, "theories", "Props", "C10.v")):
        broken = C.proof_audit(res, "C10.v")
    else:
        C.build_coq()
    driver = C.build_driver()
    hv = C.build_harness("debug")
    hvr = C.build_harness("release")
    counts = COUNTS_QUICK if res.tier == "quick" else COUNTS_THOROUGH
    cases = P.build_population(rng, counts, widths=(8, 16, 32, 64))
    out = C.run_lines(driver, ["bfx|%d|%d|%s|%s" % (c.w, P.FUEL, P.hexs(c.src), c.env) for c in cases])
    H = []
    for c, r in zip(cases, out):
        f = r.split(" ", 5)
        if f[0] in ("done", "stopped"):
            c.canon = "%s 1 %s" % (f[0], f[5])
            # region: canonical excursion with a margin of the program's length on each side
            prog_len = sum(1 for ch in c.src if ch in "+-<>.,[]")
            c.meta["margin"] = max(-int(f[2]), int(f[3])) + prog_len
            c.meta["exc"] = (int(f[2]), int(f[3]))
            if c.meta["margin"] < 200000:
                H.append(c)
    stats = {"programs": len(H), "runs": 0, "faults": 0, "trace_diffs": 0, "reach_checked": 0, "reach_outside": 0}
    rep = 0
    # hypothesis of theorem C10_unchecked_safe, validated per program and level through the bytecode
    # model: pointer excursion of the *bytecode* run + declared window inside the pre-allocated region
    for regs, fuse, who in ((2, 1, "bc"), (11, 0, "jit")):
        for level in (0, 1, 2, 3):
            dumps = C.run_lines(hv, ["dumpbc|%d|%d|%d|%d|%s" % (c.w, level, regs, fuse, P.hexs(c.src)) for c in H])
            idx = [i for i, d in enumerate(dumps) if d.startswith("ok ")]
            rr = C.run_lines(driver, ["bcreach|%d|%d|%s|%s" % (H[i].w, P.FUEL, dumps[i][3:], H[i].env) for i in idx])
            for i, r in zip(idx, rr):
                f = r.split()
                if f[0] not in ("done", "stopped"):
                    continue
                stats["reach_checked"] += 1
                lo, hi, mn, mx = (int(x) for x in f[1:5])
                m = H[i].meta["margin"]
                if lo + mn < -m or hi + mx > m or mn > 0 or mx < 0:
                    stats["reach_outside"] += 1
                    if rep < 3:
                        rep += 1
                        res.violation("C10 %s bytecode level %d: the bytecode run moves the pointer over [%d,%d] with window [%d,%d], outside the pre-allocated region [-%d,%d] (canonical excursion %s + program length); program %r"
                                      % (who, level, lo, hi, mn, mx, m, m, H[i].meta["exc"], H[i].src[:200]),
                                      {"case": "rung|%s|%d|%d|unsafe|%d|3|10000|%s|%s" % (who, H[i].w, level, m, P.hexs(H[i].src), H[i].env),
                                       "src": H[i].src, "canonical": H[i].canon, "reach": r, "profile": "debug"})
    stats["protocol"] = unchecked_protocol(res, rng, driver, hv, 400 if res.tier == "quick" else 10000)
    from .. import forms
    stats["jit_unchecked_code"] = forms.run_jit_programs(res, H[:: (3 if res.tier == "quick" else 1)], [0, 2], safe=False)
    for backend, levels in BACKENDS:
        for level in levels:
            for guard in (2, 3):
                for (exe, prof) in ((hv, "debug"), (hvr, "release")):
                    ls = ["rung|%s|%d|%d|unsafe|%d|%d|10000|%s|%s" % (backend, c.w, level, c.meta["margin"], guard, P.hexs(c.src), c.env) for c in H]
                    rs = C.run_lines(exe, ls)
                    for c, r, l in zip(H, rs, ls):
                        stats["runs"] += 1
                        bad = None
                        if r.startswith("signal:"):
                            bad = "fault (%s): an access left the pre-allocated region [-%d, %d] (guard page on the %s)" % (r.split()[0], c.meta["margin"], c.meta["margin"], "left" if guard == 2 else "right")
                            stats["faults"] += 1
                        elif not r.startswith("ok "):
                            bad = "did not complete: " + r[:100]
                        else:
                            body = r.rsplit(" guarded=", 1)[0]
                            if P.split_result(body)[2] != P.trace_of(c.canon):
                                bad = "events differ from the canonical ones"
                                stats["trace_diffs"] += 1
                        if bad and rep < 5:
                            rep += 1
                            res.violation("C10 %s level %d width %d (%s build) execute_unsafe: %s; program %r env %s canonical excursion %s" % (backend, level, c.w, prof, bad, c.src[:200], c.env, c.meta["exc"]),
                                          {"case": l, "implementation": r[:300], "canonical": c.canon, "profile": prof, "src": c.src})
    res.coverage.update({
        "evaluations": stats["runs"],
        "distinct_nontrivial": len(set(c.key() for c in H if "[" in c.src)),
        "rule": "execute_unsafe (bytecode interpreter and JIT, levels 0-3, debug and release) on a context pre-grown with make_accessible(-m, m+1), m = canonical pointer excursion (extracted machine) + number of commands of the program; the pre-grown tape and every other allocation made during the run are flush against guard pages (left-flush and right-flush runs); fault = violation; events must equal the canonical ones; non-trivial = distinct programs with a loop",
        "samples": [dict(c.to_json(), margin=c.meta["margin"]) for c in H[:: max(1, len(H) // 6)]][:6],
        "stats": stats, "distribution": P.distribution(H), "backends": BACKENDS,
    })
    res.coverage["theorems"] = ["C10_unchecked_safe", "C10_jit_unchecked_move", "C11_cells_in_window"]
    res.assumptions += ["first exercise of execute_unsafe anywhere (the suite has none)",
                        "memory protocol: theorem C10_unchecked_safe proves that after make_accessible(-m, m+1) any sequence of unprobed moves and raw accesses that stays on cells of [-m, m] never leaves the buffer and reads the last value written; its hypothesis is validated per program and level (stats.reach_checked): pointer excursion of the bytecode model run plus the declared window (operands are inside it by the certified checker, C11) lies inside the region; the model is tied to runtime::Memory by stats.protocol; event equality with the canonical run is per-program validation (C02/C03)"]
    if broken and not res.violations:
        res.violation("proof side of C10 no longer checks: " + "; ".join(broken)[:1500], {"broken": broken}, no_failing_input=True)


def replay(res, path):
    from . import c06
    c06.replay(res, path)

"""C17 — tape growth failure aborts cleanly instead of corrupting memory."""
import json
from .. import common as C
from .. import pipeline as P
from . import c09

LEVEL = "fault_enumeration"
PROP = "C17"

PROGRAMS = ["+>+>+<<<<<+", "+[>+]", "-[<-]", "+>>>>>>>>>>>>>>>>>>>>>>>>>>>>>>>>>>>>>>>>>>>>>>>>>>>>>>>>>>>>>>>>>>>+<<<<<<<<<<<<<<<<<<<<<<<<<<<<<<<<<<<<<<<<<<<<<<<<<<<<<<<<<<<<<<<<<<<<<<<<<<<<<<<<<<<<<<<<<<<<<<<<<<<<<<<<<<<<<<<<<<<<<<<<<<<<<<<<<<<<<<<<<<+.",
            "+[[->+<]>-]", ",[>,]<[.<]"]


def run(res):
    rng = C.Rng(res.seed * 7919 + 17)
    broken = C.proof_audit(res, "C17.v")
    driver = C.build_driver()
    hv = C.build_harness("debug")
    n = 250 if res.tier == "quick" else 6000
    hist = []
    for _ in range(n):
        r = rng.fork()
        w = r.choice([8, 16, 32, 64])
        hist.append((w, c09.gen_history(r, w)))
    # how many growth (zeroed allocation) requests does each history make?
    base = C.run_lines(hv, ["tapefail|%d|-1|%s" % h for h in hist])
    lines, meta = [], []
    for h, b in zip(hist, base):
        if not b.startswith("completed"):
            raise C.CheckFailure("fault-free history did not complete: %s -> %s" % (h, b[:200]))
        k = int(b.split("zeroed_requests=")[1])
        for i in range(k):
            lines.append("tapefail|%d|%d|%s" % (h[0], i, h[1]))
            meta.append((h, i, k))
    out = C.run_lines(hv, lines)
    stats = {"histories": len(hist), "fault_points": len(lines), "aborted": 0, "bad": 0}
    rep = 0
    # model: the run with the same oracle answers ends in AllocFail (and, by C17_alloc_fail_safe, never out of bounds)
    mlines = ["tape|%d|%s|%s" % (h[0], h[1], "1" * i + "0") for (h, i, k) in meta]
    mout = C.run_lines(driver, mlines)
    for (h, i, k), r, m in zip(meta, out, mout):
        ok = r.startswith("signal:6") or r.startswith("panic:") or r.startswith("exit:")
        if ok:
            stats["aborted"] += 1
        else:
            stats["bad"] += 1
            if rep < 4:
                rep += 1
                res.violation("allocation failure of growth request %d/%d did not abort cleanly (%s) on Memory<u%d> history %s" % (i, k, r[:100], h[0], h[1][:300]),
                              {"case": "tapefail|%d|%d|%s" % (h[0], i, h[1]), "implementation": r[:500]})
        if not (m.startswith("allocfail") or m.startswith("toolarge")):
            raise C.CheckFailure("model does not stop at the refused request: %s -> %s" % (mlines[0], m))
    # executor level: the interpreter context and the tape growth inside engines
    cfgs = [(src, backend, w) for src in PROGRAMS for backend in ("inplace", "ir", "bc", "jit") for w in (8, 32)]
    env = P.env_text(b"\x03\x02\x01")
    base = C.run_lines(hv, ["runfail|%s|%d|2|-1|%s|%s" % (b, w, P.hexs(src), env) for (src, b, w) in cfgs])
    plines, pmeta = [], []
    cap = 40 if res.tier == "quick" else 400
    for (src, backend, w), b in zip(cfgs, base):
        if b.startswith("timeout"):
            nreq = 12          # divergent roaming program: the first requests are the growths
        elif "requests=" in b:
            nreq = int(b.split("requests=")[1])
        else:
            raise C.CheckFailure("fault-free run failed: %s %s -> %s" % (backend, src[:40], b[:200]))
        ks = list(range(nreq)) if nreq <= cap else sorted(set(list(range(cap // 2)) + [rng.below(nreq) for _ in range(cap // 2)]))
        for kth in ks:
            plines.append("runfail|%s|%d|2|%d|%s|%s" % (backend, w, kth, P.hexs(src), env))
            pmeta.append((src, backend, w, kth))
    pout = C.run_lines(hv, plines)
    for idx, (mta, r) in enumerate(zip(pmeta, pout)):
        stats["fault_points"] += 1
        if r.startswith("signal:6") or r.startswith("panic:") or r.startswith("ok ") or r.startswith("timeout"):
            # 'ok': the k-th request did not occur in this run; timeout: divergent roaming program
            if r.startswith("signal:6") or r.startswith("panic:"):
                stats["aborted"] += 1
        else:
            stats["bad"] += 1
            if rep < 6:
                rep += 1
                res.violation("allocation failure (request %d) in backend %s width %d did not abort cleanly: %s; program %r" % (mta[3], mta[1], mta[2], r[:100], mta[0][:100]),
                              {"case": plines[idx], "implementation": r[:500]})
    # the kernel refuses every direct memory request of the run (address-space limit 0) while the
    # allocator still works from a static arena: the JIT's executable mapping fails
    nlines = ["runnoas|%s|%d|%d|%s|%s" % (b, w, lvl, P.hexs(src), env) for (src, b, w) in cfgs for lvl in ((2,) if res.tier == "quick" else (0, 2, 3))]
    nout = C.run_lines(hv, nlines)
    stats["no_address_space_runs"] = len(nlines)
    stats["no_address_space_aborted"] = 0
    for l, r in zip(nlines, nout):
        stats["fault_points"] += 1
        if r.startswith("signal:6") or r.startswith("panic:"):
            stats["aborted"] += 1
            stats["no_address_space_aborted"] += 1
        elif not (r.startswith("ok ") or r.startswith("timeout")):
            stats["bad"] += 1
            if rep < 8:
                rep += 1
                res.violation("a run whose direct memory requests are refused by the kernel did not abort cleanly: %s; case %s" % (r[:100], l[:80]),
                              {"case": l, "implementation": r[:500]})
    res.coverage.update({
        "evaluations": stats["fault_points"],
        "distinct_nontrivial": stats["aborted"],
        "rule": "for each random tape history (generator of C09) the number k of allocator requests (alloc, alloc_zeroed and realloc all count) is measured and the failing request is enumerated over 0..k-1 (every growth, both directions); additionally 6 roaming programs x 4 backends x 2 widths, the number of allocator requests of the fault-free execution is measured and the failing request enumerated (all of them up to the tier's cap, beyond that the first half of the cap plus random ones); a child process whose global allocator returns null for that request must end by SIGABRT/panic; SIGSEGV or normal continuation is a violation; the same programs x backends are also run in a child whose address-space limit is lowered to 0 after the executor was built, with the allocator serving from a static arena, so that only direct kernel requests fail (the JIT's executable mapping): the child must finish normally, panic or abort; non-trivial = runs that actually reached the failing request and aborted",
        "samples": lines[:: max(1, len(lines) // 6)][:6],
        "stats": stats, "theorems": ["C17_alloc_fail_safe", "C17_alloc_fail_stops"],
        "obligations": res.coverage.get("obligations", 0), "discharged": res.coverage.get("discharged", 0),
    })
    res.assumptions += ["every allocator entry point (alloc, alloc_zeroed, realloc) is failed in turn while the tape operations / the execution run; requests made by the Rust standard collections abort through the runtime's own handle_alloc_error path and count as clean aborts"]
    if broken and not res.violations:
        res.violation("proof side of C17 no longer checks: " + "; ".join(broken)[:1500], {"broken": broken, "theorem_file": "coq/theories/Props/C17.v"}, no_failing_input=True)


def replay(res, path):
    r = json.load(open(path))
    hv = C.build_harness("debug")
    out = C.run_lines(hv, [r["case"]], shards=1)[0]
    print(r["case"], "\nimplementation now:", out[:300])
    res.coverage.update({"evaluations": 1, "distinct_nontrivial": 2, "rule": "replay", "samples": [r["case"]]})
    if not (out.startswith("signal:6") or out.startswith("panic:")):
        res.violation("replayed case still does not abort cleanly", r)

"""C02 — bytecode interpreter behaves like the source program (debug and release dispatch)."""
import sys
from . import c01

LEVEL = "translation_validation"
PROP = "C02"
BACKEND = "bc"
DUMP = ("bc", 2, True)
PROPS_FILE = "C02.v"
COUNTS_QUICK = {"scancond": 30, "subconst": 20, "ifclear": 60, "gvnif": 40, "framealias": 100, "shiftif": 50, "scanclear": 40, "stridescan": 30, "mulcounter": 30, "loopio": 150, "nestuse": 100, "squares": 120, "iopressure": 120, "uniform": 150, "macro": 300, "pressure": 120, "affine": 150, "bigconst": 20, "roam": 40, "diverge": 10}
COUNTS_THOROUGH = {"scancond": 600, "subconst": 300, "ifclear": 1200, "gvnif": 800, "framealias": 2500, "shiftif": 1000, "scanclear": 800, "stridescan": 600, "mulcounter": 800, "loopio": 4000, "nestuse": 3000, "squares": 3000, "iopressure": 3000, "uniform": 3000, "macro": 10000, "pressure": 4000, "affine": 4000, "bigconst": 300, "roam": 600, "diverge": 100}
LEVELS_QUICK = [0, 1, 2, 3]
LEVELS_THOROUGH = [0, 1, 2, 3]
PROFILES = ("debug", "release")
SMALL_EXHAUSTIVE = 5


def extra(res, cases, hv, driver):
    from .. import forms, tvrun
    levels = LEVELS_QUICK if res.tier == "quick" else LEVELS_THOROUGH
    tv = tvrun.run(res, PROP, cases, levels, 2, True, "bc")
    res.assumptions += ["bytecode generation (bc::CodeGen::translate, interpreter setting: 2 registers, fusion): theorem C02_validated_translation (Props/C02.v) proves that an IR program and a bytecode program accepted by TV.tv_check with some certificate have, for every input and I/O environment, the same I/O state whenever the IR run completes or stops on an I/O failure (IR.v vs BC.v); the check dumps IR and bytecode of every generated program x level from the current build, infers a certificate (tools/tvinfer.py, untrusted) and runs the extracted checker: every pair must be accepted (translation_validation in extra); IR.v/BC.v are tied to the engines by the trace comparisons of this check and the form-level correspondence; at level 0 theorem C02_level0_source_to_bytecode composes this with C01_level0_states (parser + IR interpreter = canonical semantics for every program): accepted level-0 bytecode has the canonical behaviour of the source text for every input; theorems C02_validated_translation_converse / C02_divergence_preserved give the other direction (a bytecode run that ends is matched by an IR run that ends the same way), so the two runs end together with equal traces or diverge together; not covered: limited execution"]
    return {"form_level": forms.run_forms(res, ["bc"], sample=(6 if res.tier == "quick" else None)), "translation_validation": tv,
            "theorems": ["C02_validated_translation", "C02_same_trace", "C02_wellformed_never_errors", "C02_level0_source_to_bytecode", "C02_validated_translation_converse", "C02_divergence_preserved", "C02_level0_source_divergence"]}


def run(res):
    c01.run_generic(res, sys.modules[__name__])


def replay(res, path):
    c01.replay_generic(res, path, sys.modules[__name__])

"""C02 — bytecode interpreter behaves like the source program (debug and release dispatch)."""
import sys
from . import c01

LEVEL = "translation_validation"
PROP = "C02"
BACKEND = "bc"
DUMP = ("bc", 2, True)
PROPS_FILE = "C02.v"
COUNTS_QUICK = {"loopio": 150, "nestuse": 100, "squares": 120, "iopressure": 120, "uniform": 150, "macro": 300, "pressure": 120, "affine": 150, "bigconst": 20, "roam": 40, "diverge": 10}
COUNTS_THOROUGH = {"loopio": 4000, "nestuse": 3000, "squares": 3000, "iopressure": 3000, "uniform": 3000, "macro": 10000, "pressure": 4000, "affine": 4000, "bigconst": 300, "roam": 600, "diverge": 100}
LEVELS_QUICK = [0, 1, 2, 3]
LEVELS_THOROUGH = [0, 1, 2, 3]
PROFILES = ("debug", "release")
SMALL_EXHAUSTIVE = 5


def extra(res, cases, hv, driver):
    from .. import forms
    return {"form_level": forms.run_forms(res, ["bc"], sample=(6 if res.tier == "quick" else None))}


def run(res):
    c01.run_generic(res, sys.modules[__name__])


def replay(res, path):
    c01.replay_generic(res, path, sys.modules[__name__])

"""C16 — the command line runs what it was asked to run."""
import json, os, subprocess, tempfile, shutil
from .. import common as C
from .. import pipeline as P
from .. import gen
from .. import cli_translate

PROP = "C16"
LEVEL = "proof"
FLAGS = ["--print-ir", "--print-bc", "--print-jit-bc", "--inplace", "--ir-int", "--bc-int", "--print-jit-mc", "--base-jit",
         "-O0", "-O1", "-O2", "-O3", "-O4", "-O5", "-i8", "-i16", "-i32", "-i64", "--static"]


def gen_table_proof(res):
    """regenerate Cli_gen.v from the current source and re-prove table_is_spec (scratch build)"""
    d = os.path.join(C.BUILD, "gen", "c16")
    shutil.rmtree(d, ignore_errors=True)
    os.makedirs(d)
    try:
        p = C.run(["python3", os.path.join(C.VERIF, "tools", "cli_translate.py"), os.path.join(C.REPO, "src", "bin", "hpbf.rs")], check=False)
        if p.returncode != 0:
            return "translator could not read src/bin/hpbf.rs: " + p.stderr.strip()[-300:]
        open(os.path.join(d, "Cli_gen.v"), "w").write(p.stdout)
        open(os.path.join(d, "C16_gen.v"), "w").write(cli_translate.THEOREM)
        for f in ("Cli_gen.v", "C16_gen.v"):
            q = C.run(["coqc"] + C.coq_args() + ["-Q", d, "", os.path.join(d, f)], cwd=C.COQ, check=False, timeout=600)
            if q.returncode != 0:
                return "%s does not compile against the regenerated table: %s" % (f, (q.stdout + q.stderr)[-600:])
            if f == "C16_gen.v" and q.stdout.count("Closed under the global context") != 2:
                return "C16_gen.v: unexpected assumptions: " + q.stdout[-300:]
        return None
    except Exception as e:
        return "generated-table proof failed: %s" % e


def gen_cmdline(r, tmpdir, idx):
    """returns (argv list, files spec for the model, stdin bytes)"""
    args = []
    files = {}
    pieces = []
    if r.below(7) == 0:
        # flag interactions on programs that run long enough for the run mode to show: a budget, and each of
        # static / back end / width / level with probability 1/2, in random order
        prog = r.choice(["-[>.+<-]", "+[.+]", "++++++++[>++++++++<-]>[.-]", ",[.-]", "+[>+.<]"])
        fl = [["--limit", r.choice(["0", "1", "3", "20", "100", "1000"])]]
        for group in (["--static"], ["--inplace", "--ir-int", "--bc-int", "--base-jit"], ["-i8", "-i16", "-i32", "-i64"], ["-O0", "-O1", "-O2", "-O3"], ["--static"], ["--limit"]):
            if r.below(2) == 0:
                g = r.choice(group)
                fl.append([g, r.choice(["0", "2", "50", "400"])] if g == "--limit" else [g])
        if r.below(5) == 0:
            fl.append([r.choice(["--print-jit-mc", "--print-jit-mc", "--print-jit-bc", "--print-bc", "--print-ir"])])   # limit/static also select what is printed
        fl.append([prog])
        order = []
        while fl:
            order += fl.pop(r.below(len(fl)))
        return order, files, gen.random_input(r)
    if r.below(8) == 0:
        # file-error histories: several -f files of which at least one cannot be opened or decoded and at least
        # one later file reads fine (an error must stick: nothing is executed, exit status 1), mixed with bare code
        kinds = [r.choice(["ok", "missing", "enc"]) for _ in range(r.randint(2, 4))]
        bad = r.below(len(kinds) - 1)
        kinds[bad] = r.choice(["missing", "enc"])
        kinds[r.randint(bad + 1, len(kinds) - 1)] = "ok"
        for j, kind in enumerate(kinds):
            name = os.path.join(tmpdir, "e%d_%d.bf" % (idx, j))
            ch = r.choice(["+.", "++.", ",.", "+[-].", "."])
            if kind == "ok":
                open(name, "w").write(ch)
                files[name] = ("ok", ch)
            elif kind == "enc":
                open(name, "wb").write(b"\xff\xfe" + ch.encode())
                files[name] = ("enc", "")
            else:
                files[name] = ("missing", "")
            args += [r.choice(["-f", "--file", "-file"]), name]
            if r.below(3) == 0:
                args.append(r.choice(["+.", ".", "-O1", "--bc-int", "-i16"]))
        return args, files, gen.random_input(r)
    prog = r.choice([gen.uniform(r, 30), gen.affine(r), "+[-].", ",[.,]", "++>+++[<+>-]<.", gen.macro(r)[:200], "+.[", "+.]", "][", ""])
    # split the program text into 1-3 chunks given as bare args or files
    k = r.randint(1, 3)
    cuts = sorted(r.randint(0, len(prog)) for _ in range(k - 1))
    chunks = [prog[a:b] for a, b in zip([0] + cuts, cuts + [len(prog)])]
    n_flags = r.randint(0, 6)
    slots = ["c"] * len(chunks) + ["f"] * n_flags
    # keep the chunks in order, interleave flags randomly
    order = []
    ci = 0
    pool = list(slots)
    while pool:
        x = pool.pop(r.below(len(pool)))
        order.append(x)
    for x in order:
        if x == "c":
            ch = chunks[ci]
            ci += 1
            if ch == "":
                continue
            if r.random() < 0.35:
                name = os.path.join(tmpdir, "f%d_%d.bf" % (idx, ci))
                kind = "ok"
                if r.random() < 0.1:
                    kind = "missing"
                elif r.random() < 0.08:
                    kind = "enc"
                if kind == "ok":
                    open(name, "w").write(ch)
                    files[name] = ("ok", ch)
                elif kind == "enc":
                    open(name, "wb").write(b"\xff\xfe" + ch.encode())
                    files[name] = ("enc", "")
                else:
                    files[name] = ("missing", "")
                args += [r.choice(["-f", "--file", "-file"]), name]
            else:
                if ch in FLAGS or ch.startswith("--") or ch in ("-f", "-h"):
                    ch = " " + ch
                args.append(ch)
        else:
            f = r.choice(FLAGS + ["--limit", "--limit", "-h", "--time"] if r.random() < 0.9 else ["-O7", "-i7", "--unknown"])
            if f == "--time":
                continue   # prints a wall-clock duration: not comparable
            args.append(f)
            if f == "--limit":
                args.append(r.choice(["0", "1", "5", "100", "100000", "+7", "abc", "-3", "18446744073709551615", "18446744073709551616", "9999999999"]))
    if r.random() < 0.05:
        args.append(r.choice(["-f", "--limit"]))   # dangling operand
    stdin = gen.random_input(r)
    return args, files, stdin


def run(res):
    rng = C.Rng(res.seed * 7919 + 16)
    broken = C.proof_audit(res, "C16.v", extra_obligations=2)
    gerr = gen_table_proof(res)
    if gerr is None:
        res.coverage["discharged"] = res.coverage.get("discharged", 0) + 2
    driver = C.build_driver()
    hv = C.build_harness("debug")
    exe = C.build_hpbf_bin("release")
    n = 400 if res.tier == "quick" else 6000
    # The translator is a second, stronger tie.  When it cannot read src/bin/hpbf.rs at all (the argument loop was
    # restructured), the hand-written model Cli.v is still tied to the code by the correspondence below, which
    # is then run on five times as many command lines; a table that *was* read but is no longer proved equal to
    # the specified one stays a broken obligation.
    unreadable = bool(gerr) and gerr.startswith("translator could not read")
    if unreadable:
        n *= 5
    tmp = tempfile.mkdtemp(prefix="c16_", dir=C.BUILD)
    stats = {"command_lines": 0, "executed": 0, "print_modes": 0, "help": 0, "file_errors": 0, "parse_errors": 0, "bad": 0, "skipped_static_large": 0}
    rep = 0
    samples = []
    try:
        cases = []
        for i in range(n):
            r = rng.fork()
            cases.append(gen_cmdline(r, tmp, i))
        h = lambda s: (s.encode() if isinstance(s, str) else s).hex()
        lines = []
        for args, files, stdin in cases:
            fspec = ",".join("%s:%s:%s" % (h(nm), k, h(c)) for nm, (k, c) in files.items())
            aspec = ",".join((h(a) if a != "" else "-") for a in args)
            lines.append("cli|%s|%s" % (fspec, aspec))
        model = C.run_lines(driver, lines)
        # expected outputs for executing decisions
        exp_lines, exp_idx = [], []
        safe_flags = {}
        for i, m in enumerate(model):
            f = m.split()
            if f[0] == "run":
                w, kind, opt, mode, lim, code = int(f[1]), f[2], int(f[3]), f[4], int(f[5]), bytes.fromhex(f[6]) if len(f) > 6 and not f[6].startswith(("diag", "safe")) else b""
                safe_flags[i] = 0 if " safe=0 " in m else 1
                cases[i] = cases[i] + ((w, kind, opt, mode, lim, code),)
            else:
                cases[i] = cases[i] + (None,)
        from concurrent.futures import ThreadPoolExecutor

        def runbin(c):
            try:
                p = subprocess.run([exe] + c[0], input=c[2], capture_output=True, timeout=30)
                return (p.returncode, p.stdout, p.stderr)
            except subprocess.TimeoutExpired:
                return ("timeout", b"", b"")
        with ThreadPoolExecutor(max_workers=C.NPROC) as ex:
            gots = list(ex.map(runbin, cases))
        # batch the oracle queries (canonical runs and library renderings)
        canon_q, print_q, lim_q = {}, {}, {}
        for i, (args, files, stdin, dec) in enumerate(cases):
            if dec is None:
                continue
            w, kind, opt, mode, lim, code = dec
            try:
                src = code.decode("utf-8")
            except UnicodeDecodeError:
                continue
            if kind.startswith("print"):
                if kind == "print-jit-mc":
                    # the binary renders print_mc(limit.is_some(), safe): the two flags independently (a limit does not
                    # switch the bounds checks back on in the printed code, although it decides how a run executes)
                    print_q[i] = "printmc|%d|%d|%d|%d|%s" % (w, opt, 1 if mode == "limited" else 0, safe_flags.get(i, 1), h(src))
                else:
                    print_q[i] = "print|%s|%d|%d|%s" % ({"print-ir": "ir", "print-bc": "bc", "print-jit-bc": "jitbc"}[kind], w, opt, h(src))
            else:
                canon_q[i] = "bf|%d|300000|%s|%s" % (w, h(src), P.env_text(stdin))
                if mode == "limited" and lim < (1 << 63):
                    # the budgeted run of the selected back end through the library: the binary must do exactly this
                    lim_q[i] = "run|%s|%d|%d|limited|%d|20000|%s|%s" % (kind, w, opt, lim, h(src), P.env_text(stdin))
        lk = sorted(lim_q)
        lim_r = dict(zip(lk, C.run_lines(hv, [lim_q[k] for k in lk]))) if lk else {}
        stats["limited_vs_library"] = 0
        ck = sorted(canon_q)
        canon_r = dict(zip(ck, C.run_lines(driver, [canon_q[k] for k in ck]))) if ck else {}
        pk = sorted(print_q)
        print_r = dict(zip(pk, C.run_lines(hv, [print_q[k] for k in pk]))) if pk else {}
        for i, (args, files, stdin, dec) in enumerate(cases):
            stats["command_lines"] += 1
            got = gots[i]
            m = model[i]
            f = m.split()
            bad = None
            ndiag = int(m.rsplit("diag=", 1)[1])
            if f[0] == "help":
                stats["help"] += 1
                if got[0] != int(f[1]) or b"Usage:" not in got[1]:
                    bad = "help expected with exit %s" % f[1]
            elif f[0] == "nothing":
                stats["file_errors"] += 1
                if got[0] != 1 or got[1] != b"" or b"error: failed to" not in got[2]:
                    bad = "file error: expected exit 1, empty stdout and a diagnostic"
            elif f[0] == "panic":
                bad = "model predicts a panic"
            else:
                w, kind, opt, mode, lim, code = dec
                try:
                    src = code.decode("utf-8")
                except UnicodeDecodeError:
                    continue
                balanced = P.Case(src, w, "", "").src is not None
                depth = 0
                unb = None
                for ch in src:
                    if ch == "[":
                        depth += 1
                    elif ch == "]":
                        depth -= 1
                        if depth < 0:
                            unb = "unopened"
                            break
                if unb is None and depth > 0:
                    unb = "unclosed"
                parsing = kind != "inplace"
                if kind.startswith("print"):
                    stats["print_modes"] += 1
                    if unb:
                        stats["parse_errors"] += 1
                        if got[0] != 1 or b"error: unbalance" not in got[2]:
                            bad = "print mode on unbalanced code: expected exit 1 with a diagnostic"
                    else:
                        e = print_r.get(i, "")
                        want = bytes.fromhex(e[3:]) if e.startswith("ok ") else None
                        if kind == "print-jit-mc" and want is not None:
                            # absolute addresses of runtime functions differ between processes: compare lengths only
                            if got[0] != 0 or len(got[1]) != len(want):
                                bad = "print-jit-mc: expected %d bytes of machine code, got %d (exit %s)" % (len(want), len(got[1]), got[0])
                        elif got[0] != 0 or got[1] != want:
                            bad = "%s output differs from the rendering of (code, width %d, level %d)" % (kind, w, opt)
                elif unb == "unopened" or (unb == "unclosed" and parsing):
                    stats["parse_errors"] += 1
                    # the in-place interpreter reports an unopened ']' only when it reaches it
                    if parsing and (got[0] != 1 or b"error: unbalance" not in got[2] or got[1] != b""):
                        bad = "unbalanced code on a parsing back end: expected exit 1, diagnostic, no output"
                else:
                    if mode == "static":
                        stats["skipped_static_large"] += 0
                    cr = canon_r.get(i, "")
                    lr = lim_r.get(i, "")
                    if mode == "limited" and lr.startswith("ok ") and got[0] == "timeout":
                        bad = "--limit %d on %s -O%d -i%d: no result within 30 s although execute_limited with that budget returns" % (lim, kind, opt, w)
                    elif mode == "limited" and lr.startswith("ok "):
                        lout = bytes(int(t[2:], 16) for t in P.split_result(lr)[2].split() if t.startswith("O:"))
                        stats["limited_vs_library"] += 1
                        if got[0] != 0 or got[1] != lout:
                            bad = "--limit %d on %s -O%d -i%d: stdout %r (exit %s) but execute_limited with that budget writes %r" % (lim, kind, opt, w, got[1][:40], got[0], lout[:40])
                    if bad or not cr.startswith("done"):
                        if bad:
                            stats["bad"] += 1
                            if rep < 5:
                                rep += 1
                                res.violation("hpbf %s (stdin %s): %s; model decision: %s" % (" ".join(repr(a) for a in args)[:300], stdin.hex()[:40], bad, m[:200]),
                                              {"argv": args, "stdin_hex": stdin.hex(), "files": {k: v for k, v in files.items()}, "model": m, "exit": got[0], "library": lr[:300]})
                        continue
                    out = bytes(int(t[2:], 16) for t in P.trace_of(cr).split() if t.startswith("O:"))
                    stats["executed"] += 1
                    if mode == "limited":
                        ok = got[0] == 0 and out.startswith(got[1]) and (lim < 100000 or got[1] == out)
                    else:
                        ok = got[0] == 0 and got[1] == out
                    if not ok:
                        bad = "executed %s -O%d -i%d (%s): stdout %r, canonical output %r, exit %s" % (kind, opt, w, mode, got[1][:40], out[:40], got[0])
                if not bad and got[0] != "timeout":
                    # diagnostics on stderr iff the model recorded one (or a parse error)
                    pass
            if bad:
                stats["bad"] += 1
                if rep < 5:
                    rep += 1
                    res.violation("hpbf %s (stdin %s): %s; model decision: %s; got exit=%s stdout=%r stderr=%r"
                                  % (" ".join(repr(a) for a in args)[:300], stdin.hex()[:40], bad, m[:200], got[0], got[1][:60], got[2][:100]),
                                  {"argv": args, "stdin_hex": stdin.hex(), "files": {k: v for k, v in files.items()}, "model": m, "exit": got[0],
                                   "stdout_hex": got[1].hex()[:400], "stderr": got[2].decode("utf-8", "replace")[:300], "why": bad})
            elif len(samples) < 6 and i % 61 == 0:
                samples.append({"argv": args, "model": m[:120], "exit": got[0], "stdout_hex": got[1].hex()[:40]})
    finally:
        shutil.rmtree(tmp, ignore_errors=True)
    res.coverage.update({
        "evaluations": stats["command_lines"],
        "distinct_nontrivial": len(set(tuple(c[0]) for c in cases if len(c[0]) >= 3)),
        "rule": "generated command lines: program text split into bare arguments and -f files (also missing and non-UTF-8 files), interleaved with random flags (all backends, widths, levels, print modes, --static, --limit with valid/invalid/overflowing values, unknown flags, dangling operands), random stdin; release binary of the current /repo; exit status, stdout and diagnostics compared with the decision of the Coq model (Cli.v, proved equal to the regenerated flag table) composed with the canonical semantics at the predicted width, or with the library rendering for print modes; non-trivial = distinct command lines with >= 3 arguments",
        "samples": samples or [{"argv": cases[0][0]}],
        "stats": stats, "generated_table_proof": "ok" if gerr is None else gerr,
        "theorems": ["C16_code_concat", "C16_last_wins", "C16_decide", "C16_no_width_panic", "table_is_spec (regenerated)", "generated_cli_no_panic (regenerated)"],
    })
    res.coverage["trusted_base"] = res.coverage.get("trusted_base", []) + ["tools/cli_translate.py (regex translator over src/bin/hpbf.rs; fails loudly if the structure changes)"]
    res.assumptions += ["--time output and the llvm-only flags are not compared", "print-jit-mc is compared by length only (embedded absolute addresses differ between processes)"]
    if unreadable:
        res.assumptions += ["the translator could not read src/bin/hpbf.rs (%s): table_is_spec was not re-proved in this run; Cli.v is tied to the binary by the correspondence on %d command lines only" % (gerr[-200:], stats["command_lines"])]
        print("NOTE property=C16 translator tie unavailable (%s); decided by the correspondence on %d command lines" % (gerr[-160:].replace("\n", " "), stats["command_lines"]))
    if gerr and not unreadable and not res.violations:
        res.violation("the flag table regenerated from src/bin/hpbf.rs is no longer proved equal to the specified table: " + gerr[:1200],
                      {"broken": gerr, "theorem": "table_is_spec (C16_gen.v)"}, no_failing_input=True)
    if broken and not res.violations:
        res.violation("proof side of C16 no longer checks: " + "; ".join(broken)[:1500], {"broken": broken}, no_failing_input=True)


def replay(res, path):
    r = json.load(open(path))
    if "argv" not in r:
        return run(res)
    exe = C.build_hpbf_bin("release")
    p = subprocess.run([exe] + r["argv"], input=bytes.fromhex(r["stdin_hex"]), capture_output=True, timeout=20)
    print("argv:", r["argv"], "\nmodel:", r["model"], "\nnow: exit", p.returncode, "stdout", p.stdout[:80], "stderr", p.stderr[:120])
    res.coverage.update({"obligations": 1, "discharged": 1, "checker_cmd": "replay", "trusted_base": []})
    if p.returncode == r["exit"] and p.stdout.hex()[:400] == r["stdout_hex"]:
        res.violation("replayed command line still behaves as recorded (files may need to be recreated)", r)

"""C08 — I/O failures stop the program cleanly and identically on every backend."""
import json, os, sys
from .. import common as C
from .. import pipeline as P

LEVEL = "fault_enumeration"
PROP = "C08"
PROPS_FILE = "C08.v"
BACKENDS = [("inplace", [0]), ("ir", [0, 2, 3]), ("bc", [0, 2]), ("jit", [0, 2])]
COUNTS_QUICK = {"iopressure": 120, "uniform": 120, "macro": 60, "affine": 50, "pressure": 15, "roam": 15}
COUNTS_THOROUGH = {"iopressure": 3000, "uniform": 2500, "macro": 1200, "affine": 800, "pressure": 200, "roam": 200}


def fault_envs(case, max_pos):
    """all fault positions over the canonical trace of the fault-free run (+1 beyond)"""
    inp = bytes.fromhex(case.env.split(",")[0])
    tr = P.trace_of(case.canon).split()
    n_in = sum(1 for t in tr if t.startswith("I:"))
    n_out = sum(1 for t in tr if t.startswith("O:"))
    envs = []

    def spread(n):
        idx = list(range(n + 1))
        if len(idx) > max_pos:
            step = len(idx) / float(max_pos)
            idx = sorted(set([0, 1, n - 1, n] + [int(i * step) for i in range(max_pos)]))
        return [i for i in idx if i >= 0]
    for k in spread(n_in):
        envs.append(("in_fail@%d" % k, P.env_text(inp, in_fail=k)))
    for k in spread(n_out):
        envs.append(("out_fail@%d" % k, P.env_text(inp, out_fail=k)))
    envs.append(("in_absent", P.env_text(inp, absent=True)))
    envs.append(("no_sink", P.env_text(inp, out_present=False)))
    envs.append(("in_absent+no_sink", P.env_text(inp, absent=True, out_present=False)))
    if n_in and n_out:
        envs.append(("both", P.env_text(inp, in_fail=n_in - 1, out_fail=n_out - 1)))
    return envs


def run(res):
    rng = C.Rng(res.seed * 7919 + 8)
    broken = []
    if os.path.exists(os.path.join(C.COQ, "theories", "Props", PROPS_FILE)):
        broken = C.proof_audit(res, PROPS_FILE)
    else:
        C.build_coq()
    driver = C.build_driver()
    counts = COUNTS_QUICK if res.tier == "quick" else COUNTS_THOROUGH
    base = P.build_population(rng, counts)
    P.canonical(driver, base)
    base = [c for c in P.halting(base) if P.trace_of(c.canon) not in ("-", "")]
    cases = []
    kinds = {}
    for c in base:
        for kind, env in fault_envs(c, 5 if res.tier == "quick" else 12):
            cc = P.Case(c.src, c.w, env, c.gen)
            cc.meta["fault"] = kind
            cases.append(cc)
            k = kind.split("@")[0]
            kinds[k] = kinds.get(k, 0) + 1
    P.canonical(driver, cases)
    total = {"pairs": 0, "impl_disagreements": 0}
    for backend, levels in BACKENDS:
        # the engine models the theorems of Props/C08.v are about run under the same faulty environment
        dump = {"ir": "ir", "bc": ("bc", 2, True)}.get(backend)
        st = P.validate(res, PROP, cases, backend, levels, profiles=("debug",), dump=dump,
                        what="event sequence under the injected I/O fault", max_report=2)
        total["pairs"] += st["pairs"]
        total["impl_disagreements"] += st["impl_disagreements"]
        total["model_disagreements"] = total.get("model_disagreements", 0) + st["tv_disagreements"] + st["engine_disagreements"]
    stopped = sum(1 for c in cases if c.canon.startswith("stopped"))
    res.coverage.update({
        "evaluations": total["pairs"],
        "distinct_nontrivial": len(set(c.key() for c in cases if c.canon.startswith("stopped"))),
        "rule": "for every generated halting program with I/O: the fault position is enumerated over every input request and every output byte of its fault-free canonical trace (all positions up to a cap, then evenly spread, always first/last/one-beyond), plus absent input and absent sink; expected behaviour = canonical semantics BF.v under the same environment (IO.v); each of the 4 backends x levels must return normally with exactly that event sequence; non-trivial = the canonical run is actually stopped by the fault",
        "samples": [dict(c.to_json(), fault=c.meta.get("fault")) for c in cases[:: max(1, len(cases) // 8)]][:8],
        "fault_kinds": kinds, "programs": len(base), "fault_cases": len(cases), "canonically_stopped": stopped,
        "stats": total, "distribution": P.distribution(base), "backends": BACKENDS,
    })
    res.coverage["theorems"] = ["C08_canonical_failure_is_last", "C08_ir_failure_is_last", "C08_bc_failure_is_last",
                                "C01_level0 (Stopped outcomes)", "C04_inplace_canonical", "C03_input_template", "C03_output_template"]
    res.assumptions += ["Props/C08.v: in BF.v, IR.v and BC.v a stopped run has exactly one failure event, the last one (none when the input is absent), and any other run has none; IR.v and BC.v are run on the dumped IR/bytecode under every injected fault and compared with the implementation (stats.model_disagreements)",
                        "faults are injected through the Read/Write objects given to runtime::Context::new; refusals alternate Ok(0) and Err",
                        "LLVM backend not built (needs LLVM 17), so src/exec/llvmjit.rs is not exercised"]
    if broken and not res.violations:
        res.violation("proof side of C08 no longer checks: " + "; ".join(broken)[:1500],
                      {"broken": broken, "theorem_file": "coq/theories/Props/" + PROPS_FILE}, no_failing_input=True)


def replay(res, path):
    from . import c01
    c01.replay_generic(res, path, sys.modules[__name__])

"""C03 — baseline JIT machine code behaves like the source program."""
import sys
from . import c01

LEVEL = "translation_validation"
PROP = "C03"
BACKEND = "jit"
DUMP = ("bc", 11, False)
PROPS_FILE = "C03.v"
COUNTS_QUICK = {"jmpsweep": 120, "scancond": 30, "subconst": 30, "ifclear": 40, "gvnif": 30, "framealias": 70, "shiftif": 40, "mulcounter": 30, "loopio": 100, "nestuse": 100, "squares": 120, "iopressure": 120, "uniform": 120, "macro": 250, "pressure": 300, "affine": 120, "bigconst": 80, "roam": 40, "diverge": 10}
COUNTS_THOROUGH = {"jmpsweep": 1500, "scancond": 600, "subconst": 400, "ifclear": 800, "gvnif": 600, "framealias": 1500, "shiftif": 800, "mulcounter": 800, "loopio": 3000, "nestuse": 3000, "squares": 3000, "iopressure": 3000, "uniform": 2000, "macro": 8000, "pressure": 8000, "affine": 3000, "bigconst": 1500, "roam": 600, "diverge": 100}
LEVELS_QUICK = [0, 1, 2, 3]
LEVELS_THOROUGH = [0, 1, 2, 3]
PROFILES = ("debug",)
SMALL_EXHAUSTIVE = 5


HUGE = ["+" + "[>++++++++++++++++<-]>" * k + tail for k in (8,) for tail in ("[>>+.>]+.", "[>>+.>]<<[>+<-]>[>>-.>]+.", ">+<[>-<[>>+.>]]>[+.>]+.")]


def extra(res, cases, hv, driver):
    """values beyond 32 bits are only reachable by long runs (16^8 = 2^32 takes 3e8 canonical steps), too
    long for the extracted oracle: here the release in-place interpreter (property C04) is the reference"""
    from .. import common as C
    from .. import pipeline as P
    hvr = C.build_harness("release")
    envt = P.env_text()
    ref = C.run_lines(hvr, ["run|inplace|%d|0|exec|0|60000|%s|%s" % (w, P.hexs(src), envt) for src in HUGE for w in (32, 64)])
    lines, meta = [], []
    i = 0
    for src in HUGE:
        for w in (32, 64):
            for backend in ("jit", "bc", "ir"):
                for level in (0, 2):
                    if backend == "ir" and level == 0:
                        continue
                    lines.append("run|%s|%d|%d|exec|0|60000|%s|%s" % (backend, w, level, P.hexs(src), envt))
                    meta.append((src, w, backend, level, ref[i]))
            i += 1
    out = C.run_lines(hvr, lines)
    bad = 0
    for (src, w, backend, level, r), o, l in zip(meta, out, lines):
        if not r.startswith("ok "):
            raise C.CheckFailure("reference in-place run failed: " + r[:100])
        if o != r:
            bad += 1
            if bad <= 2:
                res.violation("backend %s level %d width %d differs from the in-place interpreter on a program reaching values >= 2^28/2^32: %r: got %s want %s" % (backend, level, w, src, o[:80], r[:80]),
                              {"case": {"src": src, "w": w, "env": envt, "canonical": "done 1 " + r.split(" ", 2)[2]}, "backend": backend, "level": level, "profile": "release", "implementation": o})
    from .. import forms
    fst = forms.run_forms(res, ["jit"], sample=(6 if res.tier == "quick" else None))
    xst = forms.run_x86_forms(res, sample=(4 if res.tier == "quick" else None))
    cst = forms.run_x86_calls(res, masks=(range(0, 128, 3) if res.tier == "quick" else None))
    pst = forms.run_jit_programs(res, cases[:: (4 if res.tier == "quick" else 6)], [0, 2] if res.tier == "quick" else [0, 1, 2, 3])
    from .. import tvrun
    tvs = tvrun.run(res, PROP, cases, LEVELS_QUICK if res.tier == "quick" else LEVELS_THOROUGH, 11, False, "jit")
    res.assumptions += ["bytecode generation for the JIT (11 registers, no fusion): every generated program x level is validated against its IR for all inputs by the certified checker of theorem C02_validated_translation (translation_validation in extra)",
                        "arithmetic instruction selection: theorem C03_form_sound (Props/C03.v) proves that machine code accepted by X86.form_ok computes the bytecode instruction's result for every operand value and preserves all other cells, slots and live registers, and C03_arith_simulates_bytecode lifts this to a simulation of the bytecode model's Add/Sub/Mul/Copy step (BC.bc_binop) under the JIT's register/slot homing of temporaries; the check runs it on the code the current build emits for every normalised Copy/Add/Sub/Mul shape (x86_forms in extra); trusted: the concrete x86 semantics of X86.v (mov/movzx/add/sub/inc/dec/imul/lea with partial-register rules), objdump, and the translator tools/x86tr.py (which also exchanges the two interchangeable scratch registers rax/rcx of a move or budget-check template consistently when the template uses rcx where the model says rax, after checking that the template has no instruction with an implicit rax/rcx operand; accepts the callee-saved registers pushed in any order when the epilogue pops them in the reverse of that order; and reads the zeroing idiom `xor r, r` of an arithmetic form or of the epilogue as `mov r, 0`, the flags it writes having no reader there); runtime-call templates of Inp/Out: theorems C03_input_template/C03_output_template (exact 64-bit model with stack and call oracle, X86Call.v) for every mask of live caller-saved temporaries; pointer moves with their bounds probe: theorem C03_mov_template; prologue and epilogue are matched against the expected frame code and the frame arithmetic is theorem C03_frame; what remains validated by execution only is that the pieces compose (one instruction falls through to the next) and the runtime functions themselves"]
    return {"huge_constant_runs": len(lines), "huge_constant_disagreements": bad, "form_level": fst, "x86_forms": xst, "x86_call_templates": cst, "x86_whole_programs": pst, "translation_validation": tvs,
            "theorems": ["C02_validated_translation", "C03_form_sound", "C03_arith_simulates_bytecode", "C03_input_template", "C03_output_template", "C03_branch_template", "C03_mov_template", "C03_unsigned_probe", "C03_frame"]}


def run(res):
    c01.run_generic(res, sys.modules[__name__])


def replay(res, path):
    c01.replay_generic(res, path, sys.modules[__name__])

"""C03 — baseline JIT machine code behaves like the source program."""
import sys
from . import c01

LEVEL = "translation_validation"
PROP = "C03"
BACKEND = "jit"
DUMP = ("bc", 11, False)
PROPS_FILE = "C03.v"
COUNTS_QUICK = {"uniform": 120, "macro": 250, "pressure": 300, "affine": 120, "bigconst": 80, "roam": 40, "diverge": 10}
COUNTS_THOROUGH = {"uniform": 2000, "macro": 8000, "pressure": 8000, "affine": 3000, "bigconst": 1500, "roam": 600, "diverge": 100}
LEVELS_QUICK = [0, 1, 2, 3]
LEVELS_THOROUGH = [0, 1, 2, 3]
PROFILES = ("debug",)
SMALL_EXHAUSTIVE = 5


def run(res):
    c01.run_generic(res, sys.modules[__name__])


def replay(res, path):
    c01.replay_generic(res, path, sys.modules[__name__])

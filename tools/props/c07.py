"""C07 — budget-limited execution is a faithful finite prefix of the real run."""
import json, os, sys
from .. import common as C
from .. import pipeline as P

LEVEL = "translation_validation"
PROP = "C07"
PROPS_FILE = "C07.v"
BACKENDS = [("inplace", [0]), ("ir", [0, 2]), ("bc", [0, 2]), ("jit", [0, 2])]
BUDGETS_QUICK = [0, 1, 2, 3, 5, 8, 13, 40, 200, 5000, 1 << 62]
BUDGETS_THOROUGH = list(range(0, 11)) + [13, 16, 24, 32, 50, 100, 255, 256, 257, 1000, 5000, 65536, 1 << 32, 1 << 62]
COUNTS_QUICK = {"jmpsweep": 45, "runwalk": 50, "emptyspin": 40, "tailloop": 40, "ifnest": 40, "uniform": 120, "macro": 60, "affine": 60, "diverge": 40, "roam": 10}
COUNTS_THOROUGH = {"jmpsweep": 120, "runwalk": 200, "emptyspin": 150, "tailloop": 150, "ifnest": 150, "uniform": 350, "macro": 150, "affine": 150, "diverge": 60, "roam": 30}
BIG = 1 << 62


def is_prefix(a, b):
    return a == b[:len(a)]


def periodic_ok(trace, prefix_tokens, period_tokens):
    """trace (list) must be a prefix of prefix . period^omega"""
    for i, t in enumerate(trace):
        if i < len(prefix_tokens):
            if t != prefix_tokens[i]:
                return False
        else:
            if not period_tokens:
                return False
            if t != period_tokens[(i - len(prefix_tokens)) % len(period_tokens)]:
                return False
    return True


def toks(tr):
    return [] if tr in ("-", "") else tr.split()


def classify(driver, cases, maxsteps=300000):
    """canonical run with cycle detection: sets c.meta['class'] in {halts, diverges, unknown}"""
    lines = ["bfcycle|%d|%d|%s|%s" % (c.w, maxsteps, P.hexs(c.src), c.env) for c in cases]
    out = C.run_lines(driver, lines)
    for c, r in zip(cases, out):
        f = r.split(" ", 4)
        if f[0] in ("done", "stopped"):
            c.meta["class"] = "halts"
            c.canon = r
            c.meta["trace"] = toks(r.split(" ", 2)[2])
        elif f[0] == "diverges":
            i, d, npre = int(f[1]), int(f[2]), int(f[3])
            tr = toks(f[4]) if len(f) > 4 else []
            c.meta["class"] = "diverges"
            c.meta["cert"] = (i, d)
            c.meta["prefix"] = tr[:npre]
            c.meta["period"] = tr[npre:]
            c.canon = r
        else:
            c.meta["class"] = "unknown"
            c.canon = r
    return out


def run(res):
    rng = C.Rng(res.seed * 7919 + 7)
    broken = []
    if os.path.exists(os.path.join(C.COQ, "theories", "Props", PROPS_FILE)):
        broken = C.proof_audit(res, PROPS_FILE)
    else:
        C.build_coq()
    driver = C.build_driver()
    hv = C.build_harness("debug")
    counts = COUNTS_QUICK if res.tier == "quick" else COUNTS_THOROUGH
    budgets = BUDGETS_QUICK if res.tier == "quick" else BUDGETS_THOROUGH
    cases = P.build_population(rng, counts, widths=(8, 8, 8, 16, 32, 64))
    classify(driver, cases)
    cases = [c for c in cases if c.meta["class"] in ("halts", "diverges")]
    n_h = sum(1 for c in cases if c.meta["class"] == "halts")
    n_d = len(cases) - n_h
    stats = {"runs": 0, "violations": 0, "model_compared": 0, "model_disagreements": 0, "finished_runs": 0, "interrupted_runs": 0}
    reported = 0
    corr = []
    for backend, levels in BACKENDS:
        for level in levels:
            # dumps for the model side (ir / bc engines); in-place runs on the source
            dumps = None
            if backend == "ir":
                dumps = C.run_lines(hv, ["dumpir|%d|%d|%s" % (c.w, level, P.hexs(c.src)) for c in cases])
            elif backend == "bc":
                dumps = C.run_lines(hv, ["dumpbc|%d|%d|2|1|%s" % (c.w, level, P.hexs(c.src)) for c in cases])
            for b in budgets:
                # a divergent program uses its whole budget: budgets above 65536 cannot be observed to return within
                # the time limit (2^32 loop iterations take minutes), so they are only run on halting programs
                sel = [c for c in cases if not (b > 65536 and c.meta["class"] == "diverges")]
                lines = P.run_backend_lines(sel, backend, level, mode="limited", budget=b, timeout=20000)
                out = C.run_lines(hv, lines)
                model = None
                if backend in ("inplace", "ir", "bc") and b != BIG:
                    fuel = 2000000
                    if backend == "inplace":
                        ml = ["inplace|%d|1|%d|%d|%s|%s" % (c.w, b, fuel, P.hexs(c.src), c.env) for c in sel]
                    else:
                        dd = {id(c): d for c, d in zip(cases, dumps)}
                        ml = ["%s|%d|1|%d|%d|%s|%s" % (backend, c.w, b, fuel, dd[id(c)][3:], c.env) if dd[id(c)].startswith("ok ") else "# nodump" for c in sel]
                    idx = [i for i, l in enumerate(ml) if not l.startswith("#")]
                    mr = C.run_lines(driver, [ml[i] for i in idx])
                    model = [None] * len(sel)
                    for i, r in zip(idx, mr):
                        model[i] = r
                for i, c in enumerate(sel):
                    stats["runs"] += 1
                    st, fin, tr = P.split_result(out[i])
                    t = toks(tr)
                    bad = None
                    if st != "ok":
                        bad = "did not return normally within the time limit: " + out[i][:100]
                    elif c.meta["class"] == "halts":
                        full = c.meta["trace"]
                        if fin == "1":
                            stats["finished_runs"] += 1
                            if t != full:
                                bad = "reported finished but events differ from the complete canonical sequence"
                        else:
                            stats["interrupted_runs"] += 1
                            if not is_prefix(t, full):
                                bad = "interrupted run's events are not a prefix of the canonical sequence"
                            if b == BIG:
                                bad = "canonically terminating program not finished with budget 2^62"
                    else:
                        if fin == "1":
                            bad = "reported finished for a canonically divergent program (state repeats at steps %s)" % (c.meta["cert"],)
                        elif not periodic_ok(t, c.meta["prefix"], c.meta["period"]):
                            bad = "events of a divergent program are not a prefix of its canonical (periodic) event sequence"
                    if model is not None and model[i] is not None and st == "ok":
                        mst, mfin, mtr = P.split_result(model[i])
                        if mst != "fuel":
                            stats["model_compared"] += 1
                            if (mfin, mtr) != (fin, tr):
                                stats["model_disagreements"] += 1
                                if not bad and len(corr) < 6:
                                    corr.append(("limited %s engine model and implementation disagree (budget %d, level %d) on %r: model %s impl %s — the per-engine budget theorems no longer describe the code"
                                                  % (backend, b, level, c.src[:150], model[i][:120], out[i][:120]),
                                                  {"case": c.to_json(), "backend": backend, "level": level, "budget": b, "model": model[i], "implementation": out[i], "which": "engine-correspondence"}))
                    if bad:
                        stats["violations"] += 1
                        if reported < 6:
                            reported += 1
                            res.violation("C07 %s level %d budget %d width %d: %s; program %r env %s got %s canonical %s"
                                          % (backend, level, b, c.w, bad, c.src[:200], c.env, out[i][:150], (c.canon or "")[:150]),
                                          {"case": c.to_json(), "backend": backend, "level": level, "budget": b, "implementation": out[i], "mode": "limited", "why": bad})
    # a model/implementation disagreement alone is a broken correspondence; concrete violations of the property
    # (reported above as they were met) come first, so the disagreements are only reported when there are none,
    # or in addition while there is room
    for msg, rep_ in corr[: max(2, 6 - reported)]:
        res.violation(msg, rep_, no_failing_input=True)
    res.coverage.update({
        "programs": len(cases), "disagreements_checked": stats["runs"],
        "samples": [dict(c.to_json(), cls=c.meta["class"]) for c in cases[:: max(1, len(cases) // 8)]][:8],
        "evaluations": stats["runs"],
        "distinct_nontrivial": len(set(c.key() for c in cases if "[" in c.src)),
        "rule": "programs classified by the extracted canonical machine with cycle detection (halts / provably repeats a state; others dropped); every backend x level x budget in %s: returned (finished, events) checked against the property (prefix; finished => complete; 2^62 => finished; divergent => never finished) and, for the three interpreters, against the limited variants of the engine models" % budgets,
        "halting_programs": n_h, "certified_divergent_programs": n_d, "budgets": budgets, "stats": stats, "backends": BACKENDS,
        "distribution": P.distribution(cases),
    })
    from .. import forms
    jst = forms.run_jit_programs(res, cases[:: (3 if res.tier == "quick" else 1)], [0, 2], limited=True)
    stats["jit_limited_code"] = jst
    res.coverage["theorems"] = ["C07_jit_limit_template", "C07_ir_finished_is_complete", "C07_ir_interrupted_is_prefix", "C07_ir_returns", "C07_ir_large_budget", "C07_ir_divergent_never_finished", "C07_bc_limited_is_prefix", "C04_inplace_prefix (in-place engine)"]
    res.assumptions += ["IR interpreter: theorems of Props/C07.v prove, for every IR program, state, environment and budget, that the limited run of IR.v is a prefix of / equal to the unlimited run, returns within depth size+budget, and equals the unlimited run for every large enough budget; their tie to the code is the comparison of IR.v's limited semantics with execute_limited on every generated program x budget (model_compared in stats); bytecode interpreter: C07_bc_limited_is_prefix (finished => equal to the unlimited BC.v run, interrupted => prefix) tied the same way; JIT: the budget check emitted before every branch in limited mode is validated in every generated program's machine code against the template of theorem C07_jit_limit_template (leaves through the termination path iff budget <= 1, else decrements: the decision of BC.bc_limit 1); the rest of the JIT's limited run is decided per program"]
    res.assumptions += ["'returns in time bounded by the budget' is observed as return within 20 s for budgets <= 65536 (wall clock), not proved for the implementation"]
    if broken and not res.violations:
        res.violation("proof side of C07 no longer checks: " + "; ".join(broken)[:1500],
                      {"broken": broken, "theorem_file": "coq/theories/Props/" + PROPS_FILE}, no_failing_input=True)


def replay(res, path):
    r = json.load(open(path))
    c = r["case"]
    hv = C.build_harness("debug")
    case = P.Case(c["src"], c["w"], c["env"], "replay")
    out = C.run_lines(hv, P.run_backend_lines([case], r["backend"], r["level"], mode="limited", budget=r["budget"], timeout=20000), shards=1)[0]
    print("source:", case.src, "\ncanonical:", c.get("canonical"), "\nimplementation now:", out, "\nrecorded:", r.get("implementation"))
    res.coverage.update({"programs": 1, "disagreements_checked": 1, "samples": [c]})
    if out == r.get("implementation"):
        res.violation("replayed case still behaves as recorded", r)

"""C14 — cell arithmetic helpers. Proof (Props/C14.v) + correspondence Cell.v <-> CellType methods."""
import json
from .. import common as C

LEVEL = "proof"
WIDTHS = [8, 16, 32, 64]


def tzc(x, w):
    if x == 0:
        return w
    c = 0
    while x % 2 == 0:
        x //= 2
        c += 1
    return c


def spec(w, fn, a, b):
    """Independent statement of the property (not the model): returns expected canonical output."""
    M = 1 << w
    if fn == "div":
        if a == 0:
            return "0"
        s = tzc(b, w)
        if tzc(a, w) < s:
            return "none"
        m = w - s
        inv = pow(b >> s, -1, 1 << m) if m > 0 else 0
        return str((inv * (a >> s)) % (1 << m))
    if fn == "pow":
        return str(pow(a, b, M))
    if fn == "inv":
        return str(pow(a, -1, M)) if a % 2 == 1 else "none"
    if fn == "into_i64":
        return str(a if a < M // 2 else a - M)
    if fn == "from_i16":
        return str(a % M)
    if fn == "try_into_i16":
        s = a if a < M // 2 else a - M
        return str(s) if -32768 <= s <= 32767 else "none"
    if fn == "into_u8":
        return str(a % 256)
    if fn == "from_u8":
        return str(a % 256 % M)
    if fn == "from_u64":
        return str(a % M)
    if fn == "add":
        return str((a + b) % M)
    if fn == "mul":
        return str((a * b) % M)
    if fn == "neg":
        return str((-a) % M)
    if fn == "shr":
        return str(a >> b if b < w else 0)
    if fn == "shl":
        return str((a << b) % M if b < w else 0)
    if fn == "tz":
        return str(tzc(a, w))
    if fn == "odd":
        return "true" if a % 2 else "false"
    if fn == "and":
        return str(a & b)
    return None


def specials(w):
    M = 1 << w
    vals = {0, 1, 2, 3, M - 1, M - 2, M // 2, M // 2 - 1, M // 2 + 1}
    for k in range(w):
        for v in ((1 << k), (1 << k) + 1, (1 << k) - 1, 3 << k, 5 << k, (M - 1) << k, 0xdeadbeefcafe1235 << k):
            vals.add(v % M)
    return sorted(vals)


def gen_cases(tier, rng):
    cases = []
    # 8 bit: exhaustive
    for n in range(256):
        for d in range(256):
            cases.append((8, "div", n, d))
            cases.append((8, "pow", n, d))
    for x in range(256):
        for fn in ("inv", "neg", "tz", "odd", "into_i64", "try_into_i16", "into_u8", "from_u64", "into_u64"):
            cases.append((8, fn, x, 0))
        for k in range(0, 10):
            cases.append((8, "shr", x, k))
            cases.append((8, "shl", x, k))
    exhaustive8 = len(cases)
    # 16 bit: stratified
    nd = 512 if tier == "quick" else 8192
    nn = 24 if tier == "quick" else 96
    sp16 = specials(16)
    ds = sorted(set(sp16 + [rng.below(65536) for _ in range(nd)]))
    for d in ds:
        ns = set(rng.below(65536) for _ in range(nn // 2))
        ns |= set((d * rng.below(65536)) % 65536 for _ in range(nn // 2))  # solvable cases
        for n in ns:
            cases.append((16, "div", n, d))
        cases.append((16, "inv", d, 0))
        cases.append((16, "pow", d, rng.below(65536)))
    # 32/64: specials cross product + random + solvable
    for w in (32, 64):
        M = 1 << w
        sp = specials(w)
        step = 1 if tier == "thorough" else 3
        for i, n in enumerate(sp):
            for j, d in enumerate(sp):
                if (i + j) % step == 0:
                    cases.append((w, "div", n, d))
        for b in sp[::2]:
            for e in sp[::5]:
                cases.append((w, "pow", b, e))
        nrand = 4000 if tier == "quick" else 40000
        for _ in range(nrand):
            d = rng.below(M) >> rng.below(w) << rng.below(8) if rng.below(3) else rng.below(M)
            d %= M
            n = (d * rng.below(M)) % M if rng.below(2) else rng.below(M)
            cases.append((w, "div", n, d))
            cases.append((w, "pow", rng.below(M), rng.below(M) >> rng.below(w)))
        for x in sp:
            for fn in ("inv", "neg", "tz", "odd", "into_i64", "try_into_i16", "into_u8", "from_u64", "into_u64"):
                cases.append((w, fn, x, 0))
            for k in (0, 1, w - 1, w, w + 1, 7):
                cases.append((w, "shr", x, k))
                cases.append((w, "shl", x, k))
    for w in WIDTHS:
        M = 1 << w
        for v in list(range(-32768, 32768, 257 if tier == "quick" else 17)) + [-32768, -1, 0, 1, 32767, -129, -128, 127, 128]:
            cases.append((w, "from_i16", v, 0))
        for b in range(256):
            cases.append((w, "from_u8", b, 0))
        for _ in range(200):
            cases.append((w, "add", rng.below(M), rng.below(M)))
            cases.append((w, "mul", rng.below(M), rng.below(M)))
            cases.append((w, "and", rng.below(M), rng.below(M)))
    return cases, exhaustive8


def line(c):
    return "cell|%d|%s|%d|%d" % c


def compare(res, cases, impl, model, profile):
    nbad = 0
    for c, ri, rm in zip(cases, impl, model):
        w, fn, a, b = c
        a_spec = a
        if fn == "from_i16":
            pass
        want = spec(w, fn, a_spec, b)
        ok_model = (ri == rm)
        ok_spec = (want is None or ri == want)
        if not ok_model or not ok_spec:
            nbad += 1
            if nbad <= 5:
                res.violation("CellType::%s at width %d on (%d,%d): implementation=%s model=%s spec=%s (%s build)" % (fn, w, a, b, ri, rm, want, profile),
                              {"case": line(c), "implementation": ri, "model": rm, "spec": want, "profile": profile})
        if rm != want and want is not None and nbad <= 5 and ok_spec:
            # model disagrees with the independent spec although the implementation matches the spec: machinery bug
            raise C.CheckFailure("model/spec disagree on %s: model=%s spec=%s" % (line(c), rm, want))
    return nbad


def run(res):
    rng = C.Rng(res.seed * 1000003 + 14)
    broken = C.proof_audit(res, "C14.v")
    driver = C.build_driver() if not broken else None
    cases, ex8 = gen_cases(res.tier, rng)
    lines = [line(c) for c in cases]
    total_bad = 0
    model = C.run_lines(driver, lines) if driver else [spec(*c) for c in cases]
    for profile in ("debug", "release"):
        hv = C.build_harness(profile)
        impl = C.run_lines(hv, lines)
        total_bad += compare(res, cases, impl, model, profile)
    by_fn = {}
    for c in cases:
        by_fn[(c[0], c[1])] = by_fn.get((c[0], c[1]), 0) + 1
    res.coverage.update({
        "evaluations": len(cases) * 2,
        "distinct_nontrivial": len(set(c for c in cases if c[1] in ("div", "pow", "inv") and c[2] > 1)),
        "rule": "8-bit: every (n,d) and (b,e) pair; 16/32/64-bit: boundary values (0,1,2,3,2^k,2^k+-1,odd*2^k,MAX,MAX-1 for every bit k) crossed, plus seeded random and solvable (n = d*x) pairs; each case run on debug and release builds of the current /repo and compared with the extracted Cell.v model and with an independent closed-form spec; non-trivial = div/pow/inv case with first operand > 1, distinct by (width,fn,operands)",
        "exhaustive": False,
        "exhaustive_8bit_cases": ex8,
        "distribution": {"%d/%s" % k: v for k, v in sorted(by_fn.items())},
        "samples": [line(c) + " -> " + m for c, m in list(zip(cases, model))[:: max(1, len(cases) // 12)]][:12],
        "correspondence_disagreements": total_bad,
        "theorems": ["C14_wdiv", "C14_wdiv_no_underflow", "C14_winv", "C14_wpow", "C14_conv_u64", "C14_conv_i64", "C14_conv_i16", "C14_conv_i16_w8", "C14_conv_u8"],
    })
    res.assumptions += ["Cell.v mirrors src/lib.rs line by line; the tie is the differential run above (model is hand-written)",
                        "u32 shift amounts and usize are unbounded Z in the model; BITS-shift-1 underflow is excluded by theorem C14_wdiv_no_underflow and observed via overflow-checks in the debug harness"]
    if broken and total_bad == 0:
        res.violation("proof side of C14 no longer checks: " + "; ".join(broken)[:1500],
                      {"broken": broken, "theorem_file": "coq/theories/Props/C14.v"}, no_failing_input=True)


def replay(res, path):
    r = json.load(open(path))
    if "case" not in r:
        print("replay names a broken proof/correspondence:", r.get("broken"))
        return run(res)
    hv = C.build_harness(r.get("profile", "debug"))
    out = C.run_lines(hv, [r["case"]])
    print("case", r["case"], "implementation now:", out[0], "expected:", r.get("spec"))
    f = r["case"].split("|")
    want = spec(int(f[1]), f[2], int(f[3]), int(f[4]))
    res.coverage.update({"obligations": 1, "discharged": 1, "checker_cmd": "replay", "trusted_base": []})
    if out[0] != want:
        res.violation("replayed case still fails", r)

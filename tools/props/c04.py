"""C04 — in-place interpreter implements canonical Brainfuck."""
import sys
from .. import common as C
from .. import pipeline as P
from . import c01

PROP = "C04"
import os as _os
LEVEL = "proof" if _os.path.exists(_os.path.join(C.COQ, "theories", "Props", "C04.v")) else "translation_validation"
BACKEND = "inplace"
DUMP = None
PROPS_FILE = "C04.v"
COUNTS_QUICK = {"longrun": 40, "uniform": 500, "macro": 250, "pressure": 40, "affine": 150, "bigconst": 20, "roam": 60, "diverge": 30}
COUNTS_THOROUGH = {"longrun": 400, "uniform": 20000, "macro": 6000, "pressure": 500, "affine": 3000, "bigconst": 200, "roam": 800, "diverge": 300}
LEVELS_QUICK = [0]
LEVELS_THOROUGH = [0]
PROFILES = ("debug", "release")
SMALL_EXHAUSTIVE = 6


def extra(res, cases, hv, driver):
    """engine correspondence: the Inplace.v model (pc/loop-stack machine) and the implementation
    produce the same trace on every case, including fuel-limited prefixes of divergent ones."""
    H = P.halting(cases)
    ml = ["inplace|%d|0|0|%d|%s|%s" % (c.w, P.FUEL * 2, P.hexs(c.src), c.env) for c in H]
    m = C.run_lines(driver, ml)
    impl = C.run_lines(hv, P.run_backend_lines(H, "inplace", 0))
    bad = 0
    for c, a, b in zip(H, m, impl):
        ma = P.split_result(a)
        if ma[0] == "fuel":
            continue
        if ma[2] != P.split_result(b)[2]:
            bad += 1
            if bad <= 3:
                res.violation("Inplace.v model and InplaceInterpreter disagree on %r: model %s impl %s" % (c.src[:200], a[:200], b[:200]),
                              {"case": c.to_json(), "model": a, "implementation": b, "backend": "inplace", "level": 0})
    return {"model_vs_impl_compared": len(H), "model_vs_impl_disagreements": bad}


def run(res):
    c01.run_generic(res, sys.modules[__name__])


def replay(res, path):
    c01.replay_generic(res, path, sys.modules[__name__])

"""C04 — in-place interpreter implements canonical Brainfuck."""
import sys
from .. import common as C
from .. import pipeline as P
from . import c01

PROP = "C04"
import os as _os
LEVEL = "proof" if _os.path.exists(_os.path.join(C.COQ, "theories", "Props", "C04.v")) else "translation_validation"
BACKEND = "inplace"
DUMP = None
PROPS_FILE = "C04.v"
COUNTS_QUICK = {"deepnest": 24, "longrun": 40, "uniform": 500, "macro": 250, "pressure": 40, "affine": 150, "bigconst": 20, "roam": 60, "diverge": 30}
COUNTS_THOROUGH = {"deepnest": 200, "longrun": 400, "uniform": 20000, "macro": 6000, "pressure": 500, "affine": 3000, "bigconst": 200, "roam": 800, "diverge": 300}
LEVELS_QUICK = [0]
LEVELS_THOROUGH = [0]
PROFILES = ("debug", "release")
SMALL_EXHAUSTIVE = 6


def extra(res, cases, hv, driver):
    """engine correspondence: the Inplace.v model (pc/loop-stack machine) and the implementation
    produce the same trace on every case, including fuel-limited prefixes of divergent ones."""
    H = P.halting(cases)
    ml = ["inplace|%d|0|0|%d|%s|%s" % (c.w, P.FUEL * 2, P.hexs(c.src), c.env) for c in H]
    m = C.run_lines(driver, ml)
    impl = C.run_lines(hv, P.run_backend_lines(H, "inplace", 0))
    bad = 0
    for c, a, b in zip(H, m, impl):
        ma = P.split_result(a)
        if ma[0] == "fuel":
            continue
        if ma[2] != P.split_result(b)[2]:
            bad += 1
            if bad <= 3:
                res.violation("Inplace.v model and InplaceInterpreter disagree on %r: model %s impl %s" % (c.src[:200], a[:200], b[:200]),
                              {"case": c.to_json(), "model": a, "implementation": b, "backend": "inplace", "level": 0})
    # every other character is a comment: interleave non-command characters — ASCII, Latin-1, and
    # code points whose UTF-8 bytes or whose low byte coincide with command bytes — and expect the trace
    # of the bare program
    rng = C.Rng(res.seed * 31337 + 4)
    COMMENTS = ["a", " ", "\n", "#", "\u00e9", "\u012b", "\u012d", "\u013c", "\u013e", "\u015b", "\u015d", "\u042c", "\u042e", "\u202e",
                "\u2b2b", "\u5b5d", "\U0001f62b", "\U0001f600", "\u00ab", "\u00bb", "\u3b3c"]
    sample = H[:: max(1, len(H) // (300 if res.tier == "quick" else 5000))]
    commented = []
    for c in sample:
        r = rng.fork()
        out = []
        for ch in c.src:
            if r.below(3) == 0:
                out.append(r.choice(COMMENTS))
            out.append(ch)
        out.append(r.choice(COMMENTS))
        commented.append(P.Case("".join(out), c.w, c.env, c.gen + "+comments"))
    ci = C.run_lines(hv, P.run_backend_lines(commented, "inplace", 0))
    cm = C.run_lines(driver, ["inplace|%d|0|0|%d|%s|%s" % (c.w, P.FUEL * 2, P.hexs(c.src), c.env) for c in commented])
    cbad = 0
    for c0, c, a, mres in zip(sample, commented, ci, cm):
        want = P.trace_of(c0.canon)
        st, fin, tr = P.split_result(a)
        if st != "ok" or tr != want or (P.split_result(mres)[0] != "fuel" and P.split_result(mres)[2] != want):
            cbad += 1
            if cbad <= 3:
                c.canon = c0.canon
                res.violation("non-command characters change the behaviour of the in-place interpreter (or of its model): %r gives %s (model %s), the bare program %r gives %s"
                              % (c.src[:200], a[:150], mres[:100], c0.src[:150], c0.canon[:150]),
                              {"case": c.to_json(), "backend": "inplace", "level": 0, "implementation": a, "model": mres, "canonical": c0.canon})
    return {"model_vs_impl_compared": len(H), "model_vs_impl_disagreements": bad, "commented_variants": len(commented), "comment_disagreements": cbad}


def run(res):
    c01.run_generic(res, sys.modules[__name__])


def replay(res, path):
    c01.replay_generic(res, path, sys.modules[__name__])

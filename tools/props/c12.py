"""C12 — parser accepts exactly balanced programs and ignores non-command text."""
import json, os
from .. import common as C
from .. import pipeline as P
from .. import gen

PROP = "C12"
LEVEL = "proof" if os.path.exists(os.path.join(C.COQ, "theories", "Props", "C12.v")) else "exploration"
CMDS = "+-<>.,[]"


def rand_char(r):
    k = r.below(10)
    if k < 3:
        return ord(r.choice(CMDS))
    if k < 5:
        return r.randint(0x20, 0x7e)
    if k == 5:
        return r.choice([0, 9, 10, 13, 0x7f, 0x80, 0xff, 0x5a, 0x5c, 0x5e, 0x2a, 0x2f, 0x3d, 0x3f])
    if k == 6:
        return r.randint(0x80, 0x7ff)
    if k == 7:
        c = r.randint(0x800, 0xffff)
        return c if not (0xd800 <= c <= 0xdfff) else 0xfffd
    if k == 8:
        return r.randint(0x10000, 0x10ffff)
    return r.choice([0x5b + 0xff00 - 0x20, 0xff3b, 0xff3d, 0x2b + 0xfee0, 0x301])  # look-alikes


def is_balanced(cps):
    d = 0
    for c in cps:
        if c == 91:
            d += 1
        elif c == 93:
            d -= 1
            if d < 0:
                return False
    return d == 0


def spec_parse(cps):
    """the property's own statement of acceptance and error position"""
    stack = []
    for i, c in enumerate(cps):
        if c == 91:
            stack.append(i)
        elif c == 93:
            if not stack:
                return "err LoopNotOpened %d" % i
            stack.pop()
    if stack:
        return "err LoopNotClosed %d" % stack[-1]
    return "ok"


def interleave(r, src):
    out = []
    for ch in src:
        while r.random() < 0.3:
            c = rand_char(r)
            if chr(c) not in CMDS:
                out.append(c)
        out.append(ord(ch))
    return out


# characters that text tools treat specially (byte order mark, NUL, line and paragraph separators,
# bidi controls, replacement character, the last scalar value): none of them is a command
SPECIAL = [0xFEFF, 0, 10, 13, 0x85, 0x2028, 0x2029, 0x200B, 0x202E, 0xFFFD, 0xFFFE, 0x10FFFF, 0x7F, 0x1B, 9, 0x20]


def gen_case(r):
    k = r.below(9)
    if k == 8:
        # a special character (often several) at the very start / end / around a bracket of a program
        # that is unbalanced half of the time: positions are character indices of the whole text
        s = [ord(c) for c in (gen.uniform(r, 24) if r.below(2) else "".join(r.choice(["[", "]", "+", "[-]", ",", "."]) for _ in range(r.randint(1, 8))))]
        if r.below(2):
            i = r.below(len(s) + 1)
            s.insert(i, ord(r.choice("[]")))
        for _ in range(r.randint(1, 3)):
            where = r.below(4)
            c = r.choice(SPECIAL)
            if where == 0:
                s.insert(0, c)
            elif where == 1:
                s.append(c)
            else:
                br = [i for i, x in enumerate(s) if x in (91, 93)]
                i = (r.choice(br) + r.below(2)) if br else r.below(len(s) + 1)
                s.insert(i, c)
        return s
    if k == 0:
        return [rand_char(r) for _ in range(r.randint(0, 60))]
    if k == 1:
        return interleave(r, gen.uniform(r))
    if k == 2:
        return interleave(r, gen.macro(r)[:400])
    if k == 3:   # deep nesting
        d = r.choice([1, 2, 10, 100, 500])
        return [ord(c) for c in "+" + "[" * d + "-" + "]" * d + "."]
    if k == 4:   # one-edit unbalancing
        s = list(gen.uniform(r) + "[+]")
        i = r.below(len(s))
        e = r.below(3)
        if e == 0:
            s.insert(i, r.choice("[]"))
        elif e == 1:
            del s[i]
        else:
            s[i] = r.choice("[]")
        return interleave(r, "".join(s))
    if k == 5:
        return [ord(c) for c in "".join(r.choice(["[", "]", "[]", "][", "+", "-]", "[-", "[[-]"]) for _ in range(r.randint(1, 8)))]
    if k == 6:
        return interleave(r, gen.affine(r))
    return [ord(c) for c in gen.uniform(r, 30)]


def run(res):
    rng = C.Rng(res.seed * 7919 + 12)
    broken = []
    if LEVEL == "proof":
        broken = C.proof_audit(res, "C12.v")
    else:
        C.build_coq()
    driver = C.build_driver()
    hv = C.build_harness("debug")
    n = 3000 if res.tier == "quick" else 100000
    cases = []
    for _ in range(n):
        r = rng.fork()
        cases.append((r.choice([8, 8, 16, 32, 64]), gen_case(r)))
    lines = ["parse|%d|%s" % (w, ",".join(str(c) for c in cps)) for w, cps in cases]
    impl = C.run_lines(hv, lines)
    model = C.run_lines(driver, lines)
    stats = {"strings": len(cases), "accepted": 0, "rejected": 0, "non_ascii": 0, "structural_mismatch": 0, "spec_violations": 0,
             "comment_pairs": 0, "comment_pair_diffs": 0, "executor_acceptance_checked": 0}
    rep = 0
    for (w, cps), a, m, line in zip(cases, impl, model, lines):
        want = spec_parse(cps)
        if any(c > 127 for c in cps):
            stats["non_ascii"] += 1
        got = a if a.startswith("err") else ("ok" if a.startswith("ok ") else a)
        if want == "ok":
            stats["accepted"] += 1
        else:
            stats["rejected"] += 1
        if got != want:
            stats["spec_violations"] += 1
            if rep < 4:
                rep += 1
                res.violation("Program::parse on %r: got %s, the property requires %s" % ("".join(chr(c) for c in cps)[:120], a[:80], want),
                              {"case": line, "implementation": a, "expected": want})
        elif a != m:
            stats["structural_mismatch"] += 1
            if rep < 4:
                rep += 1
                res.violation("Parse.v model and Program::parse produce different IR for %r: impl %s model %s" % ("".join(chr(c) for c in cps)[:120], a[:200], m[:200]),
                              {"case": line, "implementation": a, "model": m}, no_failing_input=True)
    # comment insensitivity: parse(cs) == parse(filter is_cmd cs) (IR identical), and every executor's
    # create() accepts/rejects exactly like the parser
    sub = cases[:: 4]
    stripped = ["parse|%d|%s" % (w, ",".join(str(c) for c in cps if chr(c) in CMDS)) for w, cps in sub]
    s_impl = C.run_lines(hv, stripped)
    for (w, cps), full, st in zip(sub, [impl[i] for i in range(0, len(cases), 4)], s_impl):
        stats["comment_pairs"] += 1
        fa = full.split(" ", 1)
        sa = st.split(" ", 1)
        same = (full.startswith("ok ") and full == st) or (full.startswith("err") and st.startswith("err") and full.split()[1] == st.split()[1])
        if not same:
            stats["comment_pair_diffs"] += 1
            if rep < 6:
                rep += 1
                res.violation("removing comment characters changes the parse result: %s vs %s" % (full[:100], st[:100]),
                              {"case": "parse|%d|%s" % (w, ",".join(str(c) for c in cps)), "with_comments": full, "without": st})
    # executors: acceptance and (for accepted) identical behaviour with and without comments, no panic
    ex_cases = [c for c in sub if len(c[1]) < 300][:400 if res.tier == "quick" else 5000]
    for backend in ("ir", "bc", "jit", "inplace"):
        for strip in (False, True):
            ls = []
            for w, cps in ex_cases:
                src = "".join(chr(c) for c in cps if (not strip or chr(c) in CMDS))
                ls.append("run|%s|%d|1|limited|300|5000|%s|%s" % (backend, w, P.hexs(src), P.env_text(b"\x03\x01")))
            out = C.run_lines(hv, ls)
            if not strip:
                base_out = out
            for (w, cps), o in zip(ex_cases, out):
                stats["executor_acceptance_checked"] += 1
                want = spec_parse(cps)
                bad = None
                if o.startswith(("panic", "signal", "timeout", "CRASH")):
                    bad = "executor failed: " + o[:100]
                elif backend != "inplace":
                    if want == "ok" and not o.startswith("ok "):
                        bad = "balanced program rejected: " + o[:100]
                    if want != "ok":
                        kind, pos = want.split()[1], want.split()[2]
                        if not o.startswith("create-err:%s:%s" % (kind, pos)) and not strip:
                            bad = "unbalanced program: expected %s, got %s" % (want, o[:100])
                if bad and rep < 8:
                    rep += 1
                    res.violation("backend %s on %r: %s" % (backend, "".join(chr(c) for c in cps)[:120], bad),
                                  {"case": ls[0], "implementation": o, "expected": want})
            if strip:
                for (w, cps), o1, o2 in zip(ex_cases, base_out, out):
                    if spec_parse(cps) == "ok" and o1 != o2:
                        stats["comment_pair_diffs"] += 1
                        if rep < 8:
                            rep += 1
                            res.violation("backend %s behaves differently with and without comment characters on %r: %s vs %s" % (backend, "".join(chr(c) for c in cps)[:120], o1[:100], o2[:100]),
                                          {"with_comments": o1, "without": o2, "source_codepoints": cps})
    res.coverage.update({
        "evaluations": len(cases) + stats["comment_pairs"] + stats["executor_acceptance_checked"],
        "distinct_nontrivial": len(set(tuple(c[1]) for c in cases if 91 in c[1] or 93 in c[1])),
        "rule": "source strings as Unicode scalar values: uniformly random text over all planes (surrogate-free), comment interleavings of generated valid programs, nesting depth up to 500, one-edit unbalancing, bracket soup; Program::parse result compared with the property's own acceptance/error-position spec and structurally with the extracted Parse.v model; parse(cs) vs parse(commands only); every executor's create()/execution with and without comments (limited budget 300), panics caught; non-trivial = distinct strings containing a bracket",
        "samples": lines[:: max(1, len(lines) // 5)][:5],
        "stats": stats,
    })
    res.assumptions += ["recursion depth of later stages (optimise/emit/drop) is a stack-size matter exercised at depth <= 500 only"]
    if broken and not res.violations:
        res.violation("proof side of C12 no longer checks: " + "; ".join(broken)[:1500], {"broken": broken, "theorem_file": "coq/theories/Props/C12.v"}, no_failing_input=True)


def replay(res, path):
    r = json.load(open(path))
    if "case" not in r:
        return run(res)
    hv = C.build_harness("debug")
    a = C.run_lines(hv, [r["case"]], shards=1)[0]
    print(r["case"], "\nimplementation now:", a, "\nexpected:", r.get("expected"), r.get("model"))
    res.coverage.update({"evaluations": 1, "distinct_nontrivial": 2, "rule": "replay", "samples": [r["case"]]})
    if a == r.get("implementation"):
        res.violation("replayed case still behaves as recorded", r)

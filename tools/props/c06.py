"""C06 — checked mode never touches memory outside the tape, however far it roams."""
import json, os
from .. import common as C
from .. import pipeline as P

PROP = "C06"
LEVEL = "exploration"
BACKENDS = [("inplace", [0]), ("ir", [0, 2]), ("bc", [0, 1, 2, 3]), ("jit", [0, 1, 2, 3])]
COUNTS_QUICK = {"ifedge": 30, "stridescan": 30, "roam": 120, "uniform": 100, "macro": 40, "affine": 30, "pressure": 10}
COUNTS_THOROUGH = {"ifedge": 500, "stridescan": 600, "roam": 3000, "uniform": 2000, "macro": 1000, "affine": 500, "pressure": 200}


def gen_protocol(r):
    """a random history of the probe protocol: window, then moves (small and far, both directions)
    interleaved with operand accesses inside the window"""
    mn = -r.choice([0, 0, 1, 2, 3, 8, 40])
    mx = r.choice([0, 0, 1, 2, 3, 8, 40])
    ops = []
    for _ in range(r.randint(3, 40)):
        k = r.below(10)
        if k == 0 and r.below(3) == 0:
            ops.append("e")       # the window is requested again on a tape that is no longer empty (a context that is reused)
        elif k < 4:
            d = r.choice([1, -1, 2, -2, 3, -3, 5, -7, 64, -64, 1000, -1000, mx + 1, mn - 1, 70000, -70000])
            ops.append(("mj:%d" if r.below(2) else "m:%d") % d)      # JIT variant / interpreter variant
        elif k < 7:
            ops.append("g:%d" % r.randint(mn, mx))
        else:
            ops.append("s:%d:%d" % (r.randint(mn, mx), r.randint(1, 255)))
    return mn, mx, ops


def protocol_correspondence(res, rng, driver, hv, n):
    """BCRaw.v (the model theorem C06_protocol_safe is about) vs runtime::Memory: the model's log
    drives the implementation through the same history (probes are adaptive: which of them miss depends
    on the growth policy, which only has to satisfy PolicyOK), every operand cell must test accessible before it is dereferenced, every read must
    return the model's value"""
    hist = [gen_protocol(rng.fork()) for _ in range(n)]
    # a third of the histories enter on a tape that already exists (a reused context: a small range was made
    # accessible before), so that the entry request sticks out of the allocation on both sides
    pres = []
    for _ in hist:
        r0 = rng.fork()
        pres.append(r0.choice([None, None, (0, 1), (0, 1), (-1, 1), (0, 2), (-2, 3)]))
    mlines = ["rawproto|%d|%d|%s" % (mn, mx, ";".join((["pre:%d:%d" % pre] if pre else []) + ["e"] + ops)) for (mn, mx, ops), pre in zip(hist, pres)]
    mout = C.run_lines(driver, mlines)
    ilines, plans = [], []
    for (mn, mx, ops), m, pre in zip(hist, mout, pres):
        if not m.split(" | ")[-1].startswith("ok") or not m.endswith("inwindow"):
            raise C.CheckFailure("protocol model failed on an in-window history: %s -> %s" % (ops, m[:200]))
        log = m.split(" | ")[0].split()
        li = 0
        iops = (["a:%d:%d" % pre] if pre else []) + ["a:%d:%d" % (mn, mx + 1)]
        want = ["-"] * len(iops)
        for op in ops:
            f = op.split(":")
            if f[0] == "e":
                iops.append("a:%d:%d" % (mn, mx + 1)); want.append("-")
            elif f[0] in ("m", "mj"):
                hit = log[li] == "p=1"; li += 1
                d = int(f[1])
                probe = mn if d < 0 else mx
                # the probe is adaptive on the implementation side (test the window end; request only on a miss —
                # interpreter: the whole window, JIT: the probed cell): whether it hits depends on the growth
                # policy, which the property does not fix (C06_protocol_safe holds for every PolicyOK policy)
                iops += ["m:%d" % d, "p:%d:%d:%d" % ((probe, mn, mx + 1) if f[0] == "m" else (probe, probe, probe + 1))]
                want += ["-", "p=%d" % (1 if hit else 0)]
            elif f[0] == "g":
                v = log[li][2:]; li += 1
                iops += ["c:%s" % f[1], "r:%s" % f[1]]
                want += ["c=1", "r=%s" % v]
            else:
                iops += ["c:%s" % f[1], "w:%s:%s" % (f[1], f[2])]
                want += ["c=1", "-"]
        ilines.append("tape|8|%s" % ";".join(iops))
        plans.append(want)
    iout = C.run_lines(hv, ilines)
    st = {"histories": n, "ops": sum(len(w) for w in plans), "probe_misses": 0, "mismatches": 0, "oob": 0}
    rep = 0
    for (mn, mx, ops), want, line, r, ml in zip(hist, plans, ilines, iout, mlines):
        got = r.split(" | ")[0].split()
        st["probe_misses"] += sum(1 for x in got if x == "p=0")
        facts_ok = r.endswith("facts:ok")
        # probe outcomes are compared with the model's (rust_policy) only for the statistics
        st["probe_outcomes_unlike_rust_policy"] = st.get("probe_outcomes_unlike_rust_policy", 0) + sum(1 for g, wv in zip(got, want) if wv.startswith("p=") and g != wv)
        same = len(got) == len(want) and all(g == wv or (wv.startswith("p=") and g.startswith("p=")) for g, wv in zip(got, want))
        if same and facts_ok:
            continue
        # an operand cell that is not accessible when it is dereferenced is a real out-of-bounds access
        oob = any(g == "c=0" and wv == "c=1" for g, wv in zip(got, want))
        st["oob" if oob else "mismatches"] += 1
        if rep < 3:
            rep += 1
            if oob:
                res.violation("the probe protocol of the checked interpreter would dereference outside the tape buffer: window [%d,%d], history %s (an operand cell tests inaccessible)" % (mn, mx, ";".join(ops)[:300]),
                              {"case": line, "model_case": ml, "implementation": r[:600], "expected": " ".join(want)})
            else:
                res.violation("BCRaw.v / Tape.v and runtime::Memory disagree on a protocol history (window [%d,%d]): %s" % (mn, mx, ";".join(ops)[:300]),
                              {"case": line, "model_case": ml, "implementation": r[:600], "expected": " ".join(want),
                               "correspondence": "BCRaw.v vs runtime::Memory (theorem C06_protocol_safe is about BCRaw.v)"}, no_failing_input=True)
    return st


def run(res):
    rng = C.Rng(res.seed * 7919 + 6)
    broken = []
    if os.path.exists(os.path.join(C.COQ, "theories", "Props", "C06.v")):
        broken = C.proof_audit(res, "C06.v")
    else:
        C.build_coq()
    driver = C.build_driver()
    hv = C.build_harness("debug")
    hvr = C.build_harness("release")
    counts = COUNTS_QUICK if res.tier == "quick" else COUNTS_THOROUGH
    cases = P.build_population(rng, counts, widths=(8, 16, 32, 64))
    lines = ["bfx|%d|%d|%s|%s" % (c.w, P.FUEL, P.hexs(c.src), c.env) for c in cases]
    out = C.run_lines(driver, lines)
    H = []
    exc = []
    for c, r in zip(cases, out):
        f = r.split(" ", 5)
        if f[0] in ("done", "stopped"):
            c.canon = "%s 1 %s" % (f[0], f[5])
            c.meta["exc"] = (int(f[2]), int(f[3]))
            H.append(c)
            exc.append(int(f[3]) - int(f[2]))
    stats = {"programs": len(H), "runs": 0, "faults": 0, "trace_diffs": 0, "guarded_allocs_min": None}
    rep = 0
    for backend, levels in BACKENDS:
        for level in levels:
            for guard in (2, 3):
                for (exe, prof) in ((hv, "debug"), (hvr, "release")):
                    if prof == "release" and backend in ("inplace", "ir") and level != 0:
                        continue
                    ls = ["rung|%s|%d|%d|exec|0|%d|10000|%s|%s" % (backend, c.w, level, guard, P.hexs(c.src), c.env) for c in H]
                    rs = C.run_lines(exe, ls)
                    for c, r, l in zip(H, rs, ls):
                        stats["runs"] += 1
                        bad = None
                        if r.startswith("signal:"):
                            bad = "fault (%s) with every allocation flush against a guard page on the %s" % (r.split()[0], "left" if guard == 2 else "right")
                            stats["faults"] += 1
                        elif not r.startswith("ok "):
                            bad = "did not complete: " + r[:100]
                        else:
                            body, g = r.rsplit(" guarded=", 1)
                            g = int(g)
                            stats["guarded_allocs_min"] = g if stats["guarded_allocs_min"] is None else min(g, stats["guarded_allocs_min"])
                            if P.split_result(body)[2] != P.trace_of(c.canon):
                                bad = "events differ from the unbounded zero-initialised tape semantics"
                                stats["trace_diffs"] += 1
                        if bad and rep < 5:
                            rep += 1
                            res.violation("C06 %s level %d width %d (%s build): %s; program %r env %s pointer excursion %s" % (backend, level, c.w, prof, bad, c.src[:200], c.env, c.meta["exc"]),
                                          {"case": l, "implementation": r[:300], "canonical": c.canon, "profile": prof, "src": c.src})
    stats["protocol"] = protocol_correspondence(res, rng, driver, hv, 600 if res.tier == "quick" else 20000)
    exc.sort()
    res.coverage["theorems"] = ["C06_protocol_safe", "C06_protocol_safe_reused", "C06_jit_slow_path", "C03_mov_template", "C09_tape_refines", "C09_raw_in_bounds", "C11_cells_in_window"]
    res.coverage.update({
        "evaluations": stats["runs"],
        "distinct_nontrivial": len(set(c.key() for c in H if c.meta["exc"][1] - c.meta["exc"][0] >= 8)),
        "rule": "programs that roam (moves of +-1..+-5000 cells, scans both ways, marching counters, revisits) plus the general generators; canonical pointer excursion computed by the extracted machine; each backend x level x {left-flush, right-flush} x {debug, release}: while the executor runs, every heap allocation (tape, interpreter context, code buffers) is placed flush against PROT_NONE pages and unmapped on free, so any out-of-allocation access faults; SIGSEGV/SIGBUS = violation; events must equal the canonical ones; non-trivial = distinct programs whose pointer excursion spans >= 8 cells",
        "samples": [dict(c.to_json(), excursion=c.meta["exc"]) for c in H[:: max(1, len(H) // 6)]][:6],
        "stats": stats, "excursion_span_min_med_max": [exc[0], exc[len(exc) // 2], exc[-1]] if exc else [],
        "distribution": P.distribution(H), "backends": BACKENDS,
    })
    res.assumptions += ["memory protocol: theorem C06_protocol_safe proves for every history of the one-sided probe protocol (BCRaw.v: entry, moves in both directions of any size within 2^60 in the bytecode interpreter's variant — grow to the whole window on a miss — and the JIT's variant — request only the probed cell —, raw operand accesses inside the window) that no raw index leaves the buffer and reads return the last value written (0 if none); tied to runtime::Memory by driving the implementation through model-predicted histories (stats.protocol); that generated operands lie in the window is C11",
                        "index discipline is proved on Tape.v (C09_raw_in_bounds); that Rust pointer arithmetic and the JIT's addressing realise those indices is observed by guard pages, not proved",
                        "page granularity: an access within the same page beyond a left-flushed block's end is only caught by the right-flush run and vice versa"]
    if broken and not res.violations:
        res.violation("proof side of C06 no longer checks: " + "; ".join(broken)[:1500], {"broken": broken}, no_failing_input=True)


def replay(res, path):
    r = json.load(open(path))
    hv = C.build_harness(r.get("profile", "debug"))
    a = C.run_lines(hv, [r["case"]], shards=1)[0]
    print(r.get("src"), "\n", r["case"][:100], "\nimplementation now:", a[:300], "\ncanonical:", r.get("canonical"))
    res.coverage.update({"evaluations": 1, "distinct_nontrivial": 2, "rule": "replay", "samples": [r["case"][:200]]})
    if a.startswith("signal:") or (r.get("canonical") and P.split_result(a.rsplit(" guarded=", 1)[0])[2] != P.trace_of(r["canonical"])):
        res.violation("replayed case still fails", r)

"""C01 — optimisation never changes what a program reads and writes (IR interpreter, levels 0..4+)."""
import json, os
from .. import common as C
from .. import pipeline as P

LEVEL = "translation_validation"
PROP = "C01"
BACKEND = "ir"
DUMP = "ir"
PROPS_FILE = "C01.v"
COUNTS_QUICK = {"evenstep": 40, "scancond": 40, "ifclear": 40, "framealias": 120, "mulcounter": 60, "loopio": 150, "nestuse": 100, "squares": 120, "uniform": 150, "macro": 350, "pressure": 60, "affine": 220, "bigconst": 20, "roam": 30, "diverge": 20}
COUNTS_THOROUGH = {"evenstep": 800, "scancond": 800, "ifclear": 800, "framealias": 3000, "mulcounter": 1500, "loopio": 4000, "nestuse": 3000, "squares": 3000, "uniform": 3000, "macro": 12000, "pressure": 2500, "affine": 6000, "bigconst": 300, "roam": 400, "diverge": 100}
LEVELS_QUICK = [0, 1, 2, 3, 4]
LEVELS_THOROUGH = [0, 1, 2, 3, 4, 100]
PROFILES = ("debug",)


def extra(res, cases, hv, driver):
    """levels above 3 behave like level 3: the optimised IR is identical"""
    H = P.halting(cases)[:: 3]
    d3 = C.run_lines(hv, ["dumpir|%d|3|%s" % (c.w, P.hexs(c.src)) for c in H])
    bad = 0
    for lvl in (4, 7, 100):
        dl = C.run_lines(hv, ["dumpir|%d|%d|%s" % (c.w, lvl, P.hexs(c.src)) for c in H])
        for c, a, b in zip(H, d3, dl):
            if a != b:
                bad += 1
                if bad <= 2:
                    res.violation("level %d IR differs from level 3 IR for %r" % (lvl, c.src[:200]),
                                  {"case": c.to_json(), "level3": a, "level%d" % lvl: b})
    # level 0 is covered by theorem C01_level0 about Parse.v / IR.v: tie Parse.v to Program::parse here
    # (the IR.v side is tied by the per-level validation above)
    plines = ["parse|%d|%s" % (c.w, ",".join(str(ord(ch)) for ch in c.src)) for c in cases]
    impl = C.run_lines(hv, plines)
    model = C.run_lines(driver, plines)
    pbad = 0
    for c, a, m, line in zip(cases, impl, model, plines):
        if a != m:
            pbad += 1
            if pbad <= 2:
                res.violation("Parse.v (the model theorem C01_level0 is about) and Program::parse produce different IR for %r: impl %s model %s" % (c.src[:120], a[:200], m[:200]),
                              {"case": c.to_json(), "backend": "ir", "level": 0, "line": line, "implementation": a, "model": m,
                               "correspondence": "Parse.v vs ir::Program::parse (theorem C01_level0 is about Parse.v)"}, no_failing_input=True)
    return {"levels_above_3_compared": len(H) * 3, "levels_above_3_differences": bad,
            "parser_model_compared": len(cases), "parser_model_differences": pbad,
            "theorems": ["C01_level0", "C01_level0_states"]}


def run_generic(res, mod):
    rng = C.Rng(res.seed * 7919 + int(mod.PROP[1:]))
    broken = []
    if os.path.exists(os.path.join(C.COQ, "theories", "Props", mod.PROPS_FILE)):
        broken = C.proof_audit(res, mod.PROPS_FILE)
    else:
        C.build_coq()
    driver = C.build_driver()
    counts = mod.COUNTS_QUICK if res.tier == "quick" else mod.COUNTS_THOROUGH
    levels = mod.LEVELS_QUICK if res.tier == "quick" else mod.LEVELS_THOROUGH
    cases = P.build_population(rng, counts)
    if res.tier == "thorough" and getattr(mod, "SMALL_EXHAUSTIVE", 0):
        from .. import gen
        for n in range(1, mod.SMALL_EXHAUSTIVE + 1):
            for src in gen.small_exhaustive(n):
                for inp in (b"", b"\x05\x80"):
                    cases.append(P.Case(src, 8, P.env_text(inp), "small-exhaustive"))
    P.canonical(driver, cases)
    stats = P.validate(res, mod.PROP, cases, mod.BACKEND, levels, profiles=mod.PROFILES, dump=mod.DUMP)
    hv = C.build_harness("debug")
    ex = mod.extra(res, cases, hv, driver) if hasattr(mod, "extra") else {}
    H = P.halting(cases)
    res.coverage.update({
        "programs": len(H),
        "disagreements_checked": stats["pairs"],
        "samples": [c.to_json() for c in H[:: max(1, len(H) // 8)]][:8],
        "evaluations": stats["pairs"],
        "distinct_nontrivial": len(set(c.key() for c in H if P.nontrivial(c))),
        "rule": "generated programs (generators of DESIGN Appendix C, one PRNG) x width x input; canonical run by the extracted BF.v semantics (fuel %d; runs that exhaust it are dropped); for each level the %s backend's event trace and the proved model semantics on the dumped %s must equal the canonical trace; non-trivial = contains a loop and produces at least one I/O event" % (P.FUEL, mod.BACKEND, "IR" if mod.DUMP == "ir" else "bytecode"),
        "levels": levels, "profiles": list(mod.PROFILES),
        "stats": stats, "extra": ex,
        "distribution": P.distribution(cases),
        "generated": len(cases),
    })
    if mod.PROP == "C01":
        res.assumptions += ["level 0: theorem C01_level0 (Props/C01.v) proves, for every program, input, width >= 0 and I/O environment, that IR.ir_exec on Parse.parse's output has the canonical events whenever the canonical run terminates; its tie to the code is the structural comparison Parse.v vs Program::parse and the comparison IR.v vs the IR interpreter on every generated program"]
    res.assumptions += ["canonical semantics BF.v is the specification; the Rust optimiser/bytecode generator are not modelled: their output is validated per program through the model semantics (IR.v / BC.v)",
                        "programs whose canonical run exceeds the fuel are not judged here (C05 handles divergence)"]
    if broken and not res.violations:
        res.violation("proof side of %s no longer checks: %s" % (mod.PROP, "; ".join(broken)[:1500]),
                      {"broken": broken, "theorem_file": "coq/theories/Props/" + mod.PROPS_FILE}, no_failing_input=True)


def run(res):
    import sys
    run_generic(res, sys.modules[__name__])


def replay_generic(res, path, mod):
    r = json.load(open(path))
    if "case" not in r:
        print("replay names a broken proof/correspondence:", r.get("broken"))
        return run_generic(res, mod)
    c = r["case"]
    case = P.Case(r.get("minimised_src", c["src"]), c["w"], c["env"], c.get("gen", "replay"))
    driver = C.build_driver()
    P.canonical(driver, [case])
    hv = C.build_harness(r.get("profile", "debug"))
    out = C.run_lines(hv, P.run_backend_lines([case], r["backend"], r["level"]), shards=1)[0]
    print("source:", case.src)
    print("canonical     :", case.canon)
    print("implementation:", out)
    res.coverage.update({"programs": 1, "disagreements_checked": 1, "samples": [case.to_json()]})
    if P.split_result(out)[2] != P.trace_of(case.canon) or P.split_result(out)[0] != "ok":
        res.violation("replayed case still fails", r)


def replay(res, path):
    import sys
    replay_generic(res, path, sys.modules[__name__])

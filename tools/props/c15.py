"""C15 — symbolic expression algebra agrees with concrete arithmetic."""
import json, os
from .. import common as C

PROP = "C15"
LEVEL = "proof" if os.path.exists(os.path.join(C.COQ, "theories", "Props", "C15.v")) else "exploration"
NENV = 8
VARS = list(range(-3, 4))


def coef(r, w):
    M = 1 << w
    h = M >> 1
    return r.choice([0, 1, M - 1, 2, M - 2, h, h + 1, h - 1, 3, r.below(M), r.below(8), (h + r.below(4)) % M, 4, h >> 1])


def gen_prog(r, w):
    ops = []
    defined = []

    def reg():
        return r.choice(defined) if defined else 0

    def newreg():
        d = r.below(8)
        if d not in defined:
            defined.append(d)
        return d
    n = r.randint(3, 16)
    for i in range(n):
        k = r.random()
        if k < 0.16 or len(defined) < 2:
            d = newreg()
            if r.random() < 0.35:
                ops.append("val:%d:%d" % (d, coef(r, w)))
            else:
                ops.append("var:%d:%d" % (d, r.choice(VARS)))
        elif k < 0.36:
            a, b = reg(), reg()
            ops.append("add:%d:%d:%d" % (newreg(), a, b))
        elif k < 0.58:
            a, b = reg(), reg()
            ops.append("mul:%d:%d:%d" % (newreg(), a, b))
        elif k < 0.63:
            a = reg()
            ops.append("neg:%d:%d" % (newreg(), a))
        elif k < 0.68:
            a = reg()
            ops.append("half:%d:%d" % (newreg(), a))
        elif k < 0.78:
            a = reg()
            ops.append("norm:%d:%d" % (newreg(), a))
        elif k < 0.84 and defined:
            # a decomposition whose result is kept and used by the following operations
            a = reg()
            ops.append("%s:%d:%d:%d" % (r.choice(["sincof", "spincof", "sprodof", "sprodof"]), newreg(), a, r.choice(VARS)))
        elif k < 0.90:
            a = reg()
            m = ",".join("%d=%d" % (v, reg()) for v in r.sample(VARS, r.randint(0, 3)))
            ops.append("sym:%d:%d:%s:%s" % (newreg(), a, r.choice(["id", "id", "none"]), m))
        else:
            a = reg()
            v = r.choice(VARS)
            q = r.choice(["const:%d" % a, "incof:%d:%d" % (a, v), "pincof:%d:%d" % (a, v), "cincof:%d:%d" % (a, v),
                          "prodof:%d:%d" % (a, v), "cpart:%d" % a, "ident:%d" % a, "opc:%d" % a, "addc:%d" % a,
                          "zero:%d" % a, "vars:%d" % a,
                          "split:%d:%s:%s" % (a, ",".join(str(x) for x in r.sample(VARS, r.randint(0, 4))),
                                              ",".join("%d=%d" % (x, reg()) for x in r.sample(VARS, r.randint(0, 2))))])
            ops.append(q)
    # observe every defined register at the end
    for d in defined:
        ops.append("cpart:%d" % d)
        ops.append("incof:%d:%d" % (d, r.choice(VARS)))
        ops.append("pincof:%d:%d" % (d, r.choice(VARS)))
        ops.append("prodof:%d:%d" % (d, r.choice(VARS)))
    return ";".join(ops)


def gen_norm_prog(r, w):
    """normalisation stress: a sum of monomials with repeated variables and coefficients around the
    half-modulus, built through the public API, then normalised (and re-added / substituted)"""
    M = 1 << w
    h = M >> 1
    ops = []
    vs = r.sample(VARS, 3)
    ops.append("val:7:0")
    nmon = r.randint(2, 5)
    for i in range(nmon):
        c = r.choice([h, h, h + 1, h - 1, 1, M - 1, 2, 3, h >> 1, r.below(M)])
        shape = r.choice([[0, 0], [0, 1], [0, 0, 1], [1, 1], [0], [0, 1, 1], [0, 0, 0], [2, 2], [0, 2], []])
        ops.append("val:0:%d" % c)
        for k in shape:
            ops.append("var:1:%d" % vs[k])
            ops.append("mul:0:0:1")
        ops.append("add:7:7:0")
    ops.append("norm:6:7")
    if r.random() < 0.5:
        ops.append("add:5:6:7")
        ops.append("norm:5:5")
    if r.random() < 0.5:
        ops.append("mul:4:7:7")
        ops.append("norm:4:4")
    if r.random() < 0.4:
        ops.append("sym:3:7:id:%d=6" % vs[0])
        ops.append("norm:3:3")
    return ";".join(ops)


def gen_decomp_prog(r, w):
    """decompositions of decomposition results: a sum of monomials that all contain one variable v
    (products taken in both operand orders, the bare variable, multiples), its prod_of(v) kept in a
    register and then observed, added to, decomposed again and substituted into"""
    M = 1 << w
    vs = r.sample(VARS, 4)
    v = vs[0]
    ops = ["val:7:0"]
    for i in range(r.randint(2, 5)):
        shape = r.choice([[], [1], [1], [2], [1, 2], [2, 1], [1, 1], [3]])
        ops.append("val:0:%d" % r.choice([1, 1, M - 1, 2, 3, M >> 1, r.below(M) or 1]))
        ops.append("var:1:%d" % v)
        if r.random() < 0.5:
            ops.append("mul:0:0:1")          # c * v
            for k in shape:
                ops.append("var:1:%d" % vs[k])
                ops.append("mul:0:%s" % r.choice(["0:1", "1:0"]))
        else:
            first = True
            for k in shape:
                ops.append("var:2:%d" % vs[k])
                ops.append("mul:1:%s" % r.choice(["1:2", "2:1"]))
            ops.append("mul:0:%s" % r.choice(["0:1", "1:0"]))
        ops.append("add:7:%s" % r.choice(["7:0", "0:7"]))
    ops.append("sprodof:6:7:%d" % v)
    ops.append("cpart:6")
    for x in vs[1:3]:
        ops.append("incof:6:%d" % x)
        ops.append("pincof:6:%d" % x)
    ops.append("val:5:%d" % r.choice([1, 2, M - 1]))
    ops.append("add:4:%s" % r.choice(["6:5", "5:6"]))
    ops.append("cpart:4")
    ops.append("const:4")
    ops.append("add:3:6:6")
    ops.append("sincof:2:6:%d" % vs[1])
    ops.append("cpart:2")
    ops.append("spincof:2:4:%d" % vs[2])
    ops.append("cpart:2")
    ops.append("sprodof:1:6:%d" % vs[1])
    ops.append("cpart:1")
    ops.append("norm:0:6")
    ops.append("sym:0:6:id:%d=4" % vs[1])
    return ";".join(ops)


def gen_order_prog(r, w):
    """producers that sort their result (symb_evaluate, mul of two sums, normalize phase 1) feeding the merge
    of add, then the decompositions: a product term whose first variable is below a bare variable v, the
    bare variable added again from the other side"""
    M = 1 << w
    a, b, v = sorted(r.sample(VARS, 3))
    z = r.choice([x for x in VARS if x not in (a, b, v)])
    ops = ["var:0:%d" % a, "var:1:%d" % b, "mul:2:%s" % r.choice(["0:1", "1:0"])]
    how = r.below(3)
    if how == 0:          # substitution z := a*b in z + v
        ops += ["var:3:%d" % z, "var:4:%d" % v, "add:5:%s" % r.choice(["3:4", "4:3"]), "sym:6:5:id:%d=2" % z]
    elif how == 1:        # (a + 1) * (b + v): both operands have two parts
        ops += ["val:3:1", "add:3:0:3", "var:4:%d" % v, "add:4:1:4", "mul:6:%s" % r.choice(["3:4", "4:3"])]
    else:                 # normalisation that has to re-sort: 2^(w-1) * a*a*b + v
        ops += ["val:3:%d" % (M >> 1), "mul:3:3:0", "mul:3:3:2", "var:4:%d" % v, "add:5:3:4", "norm:6:5"]
    ops += ["val:7:%d" % r.choice([1, 2, 3, M - 1, (M >> 1) + 1]), "var:4:%d" % v, "mul:7:7:4", "add:5:%s" % r.choice(["6:7", "7:6"])]
    for x in (v, a, b):
        ops += ["pincof:5:%d" % x, "incof:5:%d" % x, "prodof:5:%d" % x]
    ops += ["cpart:5", "spincof:4:5:%d" % v, "add:3:4:5", "pincof:3:%d" % v, "norm:2:5", "pincof:2:%d" % v, "add:1:5:5", "pincof:1:%d" % v]
    return ";".join(ops)


def gen_envs(r, w):
    M = 1 << w
    envs = [[0] * 7]
    for _ in range(NENV - 1):
        envs.append([r.choice([0, 1, 2, 3, M - 1, M >> 1, r.below(M), r.below(M)]) for _ in range(7)])
    return envs


def parse_full(tok):
    """'E<parts>@<vals>' -> (parts_text, [vals])"""
    assert tok.startswith("E"), tok
    p, v = tok[1:].split("@")
    return p, [int(x) for x in v.split(",")]


def parse_parts(txt):
    """'3:+1:-1,2' -> [(3, []), (1, [-1, 2])]"""
    parts = []
    if txt in ("", "0"):     # the zero expression prints as 0
        return parts
    for t in txt.split("+"):
        c, vs = t.split(":")
        parts.append((int(c), [int(v) for v in vs.split(",")] if vs else []))
    return parts


def eval_parts(parts, get, M):
    tot = 0
    for c, vs in parts:
        x = c
        for v in vs:
            x = (x * get(v)) % M
        tot = (tot + x) % M
    return tot


def spec_check(w, prog, envs, outs):
    """independent oracle on the implementation's own outputs: value of each result equals the
    arithmetic on the operand values; every decomposition recomposes. Returns error string or None."""
    M = 1 << w
    regs = {i: [0] * len(envs) for i in range(8)}
    exprs = {i: [] for i in range(8)}      # the implementation's own part lists, for substitution
    ops = [o for o in prog.split(";") if o]
    if len(ops) != len(outs):
        return "output count %d != op count %d" % (len(outs), len(ops))
    envv = lambda j, v: envs[j][(v + 3) % 7]
    for op, out in zip(ops, outs):
        f = op.split(":")
        k = f[0]
        try:
            if k in ("val", "var", "add", "mul", "neg", "norm"):
                _, vals = parse_full(out)
                if k == "val":
                    want = [int(f[2]) % M] * len(envs)
                elif k == "var":
                    want = [envv(j, int(f[2])) % M for j in range(len(envs))]
                elif k == "add":
                    want = [(regs[int(f[2])][j] + regs[int(f[3])][j]) % M for j in range(len(envs))]
                elif k == "mul":
                    want = [(regs[int(f[2])][j] * regs[int(f[3])][j]) % M for j in range(len(envs))]
                elif k == "neg":
                    want = [(-regs[int(f[2])][j]) % M for j in range(len(envs))]
                else:
                    want = list(regs[int(f[2])])
                if vals != want:
                    return "%s: value %s, arithmetic on operands gives %s" % (op, vals, want)
                regs[int(f[1])] = vals
                exprs[int(f[1])] = parse_parts(_)
            elif k == "half":
                if out != "none":
                    _, vals = parse_full(out)
                    want = regs[int(f[2])]
                    if [(2 * x) % M for x in vals] != want:
                        return "%s: twice the half %s is not the operand %s" % (op, vals, want)
                    regs[int(f[1])] = vals
                    exprs[int(f[1])] = parse_parts(_)
            elif k == "sym":
                if out != "none":
                    _, vals = parse_full(out)
                    # substitution: the result's value under env j is the operand expression evaluated
                    # with every substituted variable replaced by the value of its replacement
                    sub = dict((int(kv.split("=")[0]), int(kv.split("=")[1])) for kv in (f[4].split(",") if len(f) > 4 and f[4] else []))
                    src = exprs[int(f[2])]
                    want = [eval_parts(src, (lambda v, j=j: regs[sub[v]][j] if v in sub else envv(j, v) % M), M) for j in range(len(envs))]
                    if vals != want:
                        return "%s: value %s, substitution into the operand gives %s" % (op, vals, want)
                    regs[int(f[1])] = vals
                    exprs[int(f[1])] = parse_parts(_)
            elif k in ("sincof", "sprodof", "spincof"):
                if out != "none":
                    v = int(f[3])
                    want = regs[int(f[2])]
                    if k == "spincof":
                        e, mu = out.rsplit("*", 1)
                        _, vals = parse_full(e)
                        if [(vals[j] + int(mu) * envv(j, v)) % M for j in range(len(envs))] != want:
                            return "%s: mul*var + rest does not recompose" % op
                    else:
                        _, vals = parse_full(out)
                        got = [(vals[j] + envv(j, v)) % M for j in range(len(envs))] if k == "sincof" else [(vals[j] * envv(j, v)) % M for j in range(len(envs))]
                        if got != want:
                            return "%s: does not recompose" % op
                    regs[int(f[1])] = vals
                    exprs[int(f[1])] = parse_parts(_)
            elif k == "incof":
                if out != "none":
                    _, vals = parse_full(out)
                    v = int(f[2])
                    want = regs[int(f[1])]
                    if [(vals[j] + envv(j, v)) % M for j in range(len(envs))] != want:
                        return "%s: var + inc does not recompose" % op
            elif k == "pincof":
                if out != "none":
                    e, mu = out.rsplit("*", 1)
                    _, vals = parse_full(e)
                    v = int(f[2])
                    want = regs[int(f[1])]
                    if [(vals[j] + int(mu) * envv(j, v)) % M for j in range(len(envs))] != want:
                        return "%s: mul*var + rest does not recompose" % op
            elif k == "prodof":
                if out != "none":
                    _, vals = parse_full(out)
                    v = int(f[2])
                    want = regs[int(f[1])]
                    if [(vals[j] * envv(j, v)) % M for j in range(len(envs))] != want:
                        return "%s: var * rest does not recompose" % op
            elif k == "const":
                if out != "none" and [int(out)] * len(envs) != regs[int(f[1])]:
                    return "%s: constant %s but values %s" % (op, out, regs[int(f[1])])
            elif k == "cpart":
                if int(out) != regs[int(f[1])][0]:
                    return "%s: constant part %s but value at the all-zero assignment is %s" % (op, out, regs[int(f[1])][0])
            elif k == "cincof":
                if out != "none":
                    v = int(f[2])
                    if [(int(out) + envv(j, v)) % M for j in range(len(envs))] != regs[int(f[1])]:
                        return "%s: var + const does not recompose" % op
            elif k == "ident":
                if out != "none":
                    if [envv(j, int(out)) % M for j in range(len(envs))] != regs[int(f[1])]:
                        return "%s: identity of %s but values differ" % (op, out)
            elif k == "split":
                c, o, l = out.split("|")
                tot = [0] * len(envs)
                for part in [c, o] + [x.split("~")[0] for x in l.split("&") if x]:
                    _, vals = parse_full(part)
                    tot = [(a + b) % M for a, b in zip(tot, vals)]
                if tot != regs[int(f[1])]:
                    return "%s: constant + other + linear parts do not recompose" % op
        except Exception as ex:   # malformed output
            return "%s: cannot interpret output %r (%s)" % (op, out[:80], ex)
    return None


def run(res):
    rng = C.Rng(res.seed * 7919 + 15)
    broken = []
    if os.path.exists(os.path.join(C.COQ, "theories", "Props", "C15.v")):
        broken = C.proof_audit(res, "C15.v")
    else:
        C.build_coq()
    driver = C.build_driver()
    n = 3000 if res.tier == "quick" else 150000
    cases = []
    for _ in range(n):
        r = rng.fork()
        w = r.choice([8, 8, 16, 32, 64])
        envs = gen_envs(r, w)
        k = r.random()
        cases.append((w, gen_norm_prog(r, w) if k < 0.3 else gen_decomp_prog(r, w) if k < 0.42 else gen_order_prog(r, w) if k < 0.5 else gen_prog(r, w), envs))
    lines = ["expr|%d|%s|%s" % (w, p, "/".join(",".join(str(x) for x in e) for e in envs)) for (w, p, envs) in cases]
    model = C.run_lines(driver, lines)
    shape_bad = [l for l, m in zip(lines, model) if m.endswith("SHAPE-VIOLATED")]
    model = [m[:-len(" ; SHAPE-VIOLATED")] if m.endswith(" ; SHAPE-VIOLATED") else m for m in model]
    stats = {"programs": len(cases), "shape_hypothesis_violations": len(shape_bad), "ops": 0, "structural_mismatch": 0, "value_violations": 0, "normalize_changed": 0, "sym_some": 0}
    hist = {}
    rep = 0
    for profile in ("debug", "release"):
        hv = C.build_harness(profile)
        impl = C.run_lines(hv, lines)
        for (w, p, envs), m, a, line in zip(cases, model, impl, lines):
            outs = a.split(" ; ")
            err = spec_check(w, p, envs, outs) if not a.startswith(("panic", "signal", "timeout", "CRASH")) else "implementation failed: " + a[:100]
            if profile == "debug":
                for o in p.split(";"):
                    hist[o.split(":")[0]] = hist.get(o.split(":")[0], 0) + 1
                    stats["ops"] += 1
            if err:
                stats["value_violations"] += 1
                if rep < 4:
                    rep += 1
                    res.violation("Expr<u%d> program %s: %s" % (w, p[:300], err), {"case": line, "implementation": a, "model": m, "why": err, "profile": profile})
            elif a != m:
                stats["structural_mismatch"] += 1
                if rep < 4:
                    rep += 1
                    i = next((k for k, (x, y) in enumerate(zip(outs, m.split(" ; "))) if x != y), -1)
                    res.violation("Expr.v model and ir::Expr differ structurally at op %d of %s: impl %s model %s (values satisfy the arithmetic oracle; the theorems of Props/C15.v no longer describe the code)"
                                  % (i, p[:300], outs[i][:150] if i >= 0 else "", m.split(" ; ")[i][:150] if i >= 0 else ""),
                                  {"case": line, "implementation": a, "model": m, "profile": profile}, no_failing_input=True)
    res.coverage.update({
        "evaluations": len(cases) * 2,
        "distinct_nontrivial": len(set(c[1] for c in cases if "mul" in c[1] and ("norm" in c[1] or "sym" in c[1]))),
        "rule": "expression programs: a register file of 8 expressions and 3-16 random public operations (val,var,add,mul,neg,half,normalize,symb_evaluate, and the observers/decompositions constant, inc_of, prod_inc_of, const_inc_of, prod_of, constant_part, identity, op_count, add_count, is_zero, variables, split_along), variables -3..3, coefficients biased to {0,+-1,2,2^(w-1),2^(w-1)+-1}, widths 8/16/32/64, 8 assignments (first all-zero); implementation output (exact part lists and values) must equal the extracted Expr.v model, and the values must satisfy an independent arithmetic oracle; non-trivial = distinct programs containing a product and a normalisation or substitution",
        "samples": lines[:: max(1, len(lines) // 5)][:5],
        "op_histogram": hist, "stats": stats,
    })
    if shape_bad:
        res.violation("an expression built through the public API violates the shape (singles_unique/const_first) that C15_built_shape proves for the model: the model no longer describes the code: " + shape_bad[0][:300],
                      {"case": shape_bad[0], "theorems": ["C15_built_shape", "C15_inc_of", "C15_prod_inc_of", "C15_constant_part"]}, no_failing_input=True)
    res.assumptions += ["Expr.v is hand-written (hash maps as association lists + the same final sort); tied structurally"]
    if broken and not res.violations:
        res.violation("proof side of C15 no longer checks: " + "; ".join(broken)[:1500], {"broken": broken, "theorem_file": "coq/theories/Props/C15.v"}, no_failing_input=True)


def replay(res, path):
    r = json.load(open(path))
    if "case" not in r:
        return run(res)
    hv = C.build_harness(r.get("profile", "debug"))
    driver = C.build_driver()
    a = C.run_lines(hv, [r["case"]], shards=1)[0]
    m = C.run_lines(driver, [r["case"]], shards=1)[0]
    print(r["case"], "\nimplementation now:", a, "\nmodel:             ", m)
    res.coverage.update({"obligations": 1, "discharged": 1, "checker_cmd": "replay", "trusted_base": []})
    if a != m:
        res.violation("replayed program still differs", r)

"""C09 — tape API is an unbounded zero-initialised array under any call history."""
import json
from .. import common as C

LEVEL = "proof"
PROP = "C09"


def gen_history(r, w):
    """histories generated around the current allocation edges; the generator tracks an
    approximate (lo, hi) of the touched region so that offsets land at +-0, +-1, halfway, far"""
    n = r.randint(5, 60)
    ops = []
    pos = 0
    lo, hi = 0, 1
    M = 1 << w
    CAP = 1 << 21          # cells: the touched span grows multiplicatively; keep allocations below ~16 MB
    far_at = r.below(n) if r.below(10) == 0 else -1      # one history in ten makes one far excursion
    ops_count = []
    for _ in range(n):
        ops_count.append(0)
        k = r.random()

        def edge():
            c = r.below(9)
            span = max(1, hi - lo)
            if c == 0:
                return lo - pos - 1
            if c == 1:
                return lo - pos
            if c == 2:
                return hi - pos
            if c == 3:
                return hi - pos - 1
            if c == 4:
                return lo - pos - r.randint(1, span)
            if c == 5:
                return hi - pos + r.randint(0, span)
            if c == 6:
                return r.randint(-5000, 5000)
            if c == 7:
                return r.randint(lo - pos, hi - pos)
            return r.choice([-100000, 100000, -3, 3, 0])
        if k < 0.18:
            d = edge() if r.random() < 0.7 else r.randint(-20, 20)
            ops.append("m:%d" % d)
            pos += d
        elif k < 0.40:
            ops.append("r:%d" % edge())
        elif k < 0.65:
            o = edge()
            if max(hi, pos + o + 1) - min(lo, pos + o) > CAP:
                o = r.randint(lo - pos, hi - pos - 1) if hi - lo > 1 else 0
            ops.append("w:%d:%d" % (o, r.choice([1, M - 1, r.below(M), 0, 255 % M])))
            lo, hi = min(lo, pos + o), max(hi, pos + o + 1)
        elif k < 0.85:
            a = edge()
            c = r.below(5)
            b = a + (0 if c == 0 else 1 if c == 1 else r.randint(1, 3 * max(1, hi - lo)) if c < 4 else -r.randint(1, 5))
            if r.random() < 0.3:   # below and above at once
                a, b = lo - pos - r.randint(1, 40), hi - pos + r.randint(1, 40)
            if b > a and max(hi, pos + b) - min(lo, pos + a) > CAP:
                a, b = lo - pos - r.randint(0, 3), hi - pos + r.randint(0, 3)
            ops.append("a:%d:%d" % (a, b))
            if b > a:
                lo, hi = min(lo, pos + a), max(hi, pos + b)
        else:
            ops.append("c:%d" % edge())
        if far_at == len(ops_count) - 1:
            # a far excursion and back: two moves in the same direction whose sum leaves the isize range
            # (the logical pointer stays exact: offsets are kept modulo 2^64), reads and bounds queries out
            # there (0 / not accessible, no allocation), then the inverse moves in the other order
            sgn = r.choice([1, -1])
            x1 = sgn * r.choice([(1 << 63) - 1, 1 << 62, (1 << 62) + 12345, 1 << 40])
            x2 = sgn * r.choice([1, 7, 5000, 1 << 62, (1 << 61)])
            ops += ["m:%d" % x1, "m:%d" % x2]
            for _ in range(r.randint(0, 3)):
                ops.append(r.choice(["r:%d", "c:%d"]) % r.choice([0, 1, -1, 100, -x2 if abs(x2) < (1 << 20) else 3]))
            ops += ["m:%d" % -x1, "m:%d" % -x2]
    return ";".join(ops)


def split(line):
    if " | " not in line:
        return None, line
    a, b = line.split(" | ", 1)
    return a.split(), b


def evaluate(res, cases, impl, model, max_report=4):
    stats = {"histories": len(cases), "growth_histories": 0, "obs": 0, "policy_differs": 0, "bad": 0}
    rep = 0
    for (w, ops), ri, rm in zip(cases, impl, model):
        io, ifacts = split(ri)
        mo, mstat = split(rm)
        bad = None
        if io is None:
            bad = "implementation did not complete: " + ri[:200]
        elif "facts:ok" not in ifacts:
            bad = "implementation violates the contract/oracle: " + ifacts
        elif mo is None:
            if rm.startswith("toolarge"):
                continue
            raise C.CheckFailure("model failed on %s: %s" % (ops, rm))
        elif "notsmall" in mstat:
            # far excursions (positions beyond 2^60) are outside the hypothesis of C09_tape_refines: these
            # histories are judged by the harness' own reference (a map over 128-bit logical positions, "facts")
            stats["far_excursions"] = stats.get("far_excursions", 0) + 1
        elif "MISMATCH" in mstat:
            raise C.CheckFailure("model contradicts its own theorem on %s: %s" % (ops, rm))
        else:
            if "growths=0" not in ifacts:
                stats["growth_histories"] += 1
            for x, y in zip(io, mo):
                stats["obs"] += 1
                if x.startswith("r="):
                    if x != y:
                        bad = "read differs from the model/spec: impl %s model %s" % (x, y)
                        break
                elif x.startswith("c="):
                    mc, must = y[2:].split("/")
                    if must == "1" and x != "c=1":
                        bad = "a requested/written cell does not test accessible"
                        break
                    if x[2:] != mc:
                        stats["policy_differs"] += 1
        if bad:
            stats["bad"] += 1
            if rep < max_report:
                rep += 1
                res.violation("Memory<u%d> history %s: %s" % (w, ops[:300], bad),
                              {"case": "tape|%d|%s" % (w, ops), "implementation": ri, "model": rm, "why": bad})
    return stats


def run(res):
    rng = C.Rng(res.seed * 7919 + 9)
    broken = C.proof_audit(res, "C09.v")
    driver = C.build_driver()
    n = 3000 if res.tier == "quick" else 150000
    cases = []
    for line in open(C.VERIF + "/corpus/tape.txt") if __import__("os").path.exists(C.VERIF + "/corpus/tape.txt") else []:
        line = line.strip()
        if line and not line.startswith("#"):
            w, ops = line.split("|", 1)
            cases.append((int(w), ops))
    for _ in range(n):
        r = rng.fork()
        w = r.choice([8, 8, 16, 32, 64])
        cases.append((w, gen_history(r, w)))
    lines = ["tape|%d|%s" % c for c in cases]
    model = C.run_lines(driver, lines)
    total = None
    for profile in ("debug", "release"):
        hv = C.build_harness(profile)
        impl = C.run_lines(hv, lines)
        st = evaluate(res, cases, impl, model)
        total = st if total is None else {k: total[k] + st[k] for k in st}
    ops_hist = {}
    for _, ops in cases:
        for o in ops.split(";"):
            ops_hist[o[0]] = ops_hist.get(o[0], 0) + 1
    res.coverage.update({
        "evaluations": len(cases) * 2,
        "distinct_nontrivial": len(set(c for c in cases)) if total["growth_histories"] >= 2 else 0,
        "growth_histories_per_profile": total["growth_histories"] // 2,
        "rule": "random histories of mov/read/write/make_accessible/check (5-60 ops) with offsets at the allocation edges (+-0, +-1), inside, halfway beyond, far beyond, ranges extending below and above at once, empty and reversed ranges; run on Memory<u8|u16|u32|u64> in debug and release builds; reads compared with the Tape.v model (= spec), accessibility with the spec's must-be-accessible set; the growth contract (needed_below <= added_below, needed_above <= added - added_below, contents and logical pointer preserved) and purity of reads are checked on the implementation through the verif_raw hook; non-trivial = distinct histories (almost all grow the tape at least once: see growth_histories_per_profile)",
        "samples": ["tape|%d|%s" % c for c in cases[:: max(1, len(cases) // 6)]][:6],
        "op_histogram": ops_hist, "stats": total,
        "theorems": ["C09_tape_refines", "C09_rust_policy_ok", "C09_raw_in_bounds", "C09_read_pure", "C09_accessible_after", "C09_grow_preserves"],
    })
    res.assumptions += ["Tape.v is hand-written; the policy is abstract (PolicyOK) and rust_policy is proved to satisfy it; the implementation is tied by the contract checks and read equality above",
                        "magnitudes: |pointer|,|offset| <= 2^60, sizes < 2^62 (Layout::array overflow excluded); byte-level pointer arithmetic is observed by the guard-page runs of C06, not modelled"]
    if broken and not res.violations:
        res.violation("proof side of C09 no longer checks: " + "; ".join(broken)[:1500], {"broken": broken, "theorem_file": "coq/theories/Props/C09.v"}, no_failing_input=True)


def replay(res, path):
    r = json.load(open(path))
    if "case" not in r:
        return run(res)
    hv = C.build_harness("debug")
    out = C.run_lines(hv, [r["case"]], shards=1)[0]
    print(r["case"], "\nimplementation now:", out, "\nmodel:", r.get("model"))
    res.coverage.update({"obligations": 1, "discharged": 1, "checker_cmd": "replay", "trusted_base": []})
    driver = C.build_driver()
    m = C.run_lines(driver, [r["case"]], shards=1)[0]
    f = r["case"].split("|")
    st = evaluate(res, [(int(f[1]), f[2])], [out], [m])

"""C18 — inline small vector behaves like Vec and drops each element exactly once."""
import json, re
from .. import common as C

LEVEL = "proof"
PROP = "C18"


def gen_ops(r, N):
    n = r.randint(1, 40)
    ops = []
    sizes = [0, 0]
    for _ in range(n):
        k = r.random()
        reg = r.below(2)
        if k < 0.22:
            ops.append("p:%d:%d" % (reg, r.below(4)))
            sizes[reg] += 1
        elif k < 0.30:
            m = r.choice([0, 1, N, N + 1, N - sizes[reg] if N > sizes[reg] else 1, r.randint(0, 5)])
            m = max(0, m)
            ops.append("e:%d:%s" % (reg, ",".join(str(r.below(4)) for _ in range(m))))
            sizes[reg] += m
        elif k < 0.36:
            ops.append("cl:%d" % reg)
            sizes[reg] = 0
        elif k < 0.50:
            m = sizes[reg]
            mode = r.below(4)
            if mode == 0:
                ans = "0" * m
            elif mode == 1:   # shrink to <= N
                keep = r.randint(0, min(N, m))
                idx = set(r.sample(range(m), keep)) if m else set()
                ans = "".join("1" if i in idx else "0" for i in range(m))
            else:
                ans = "".join(r.choice("01") for _ in range(m))
            ops.append("%s:%d:%s" % (r.choice(["rt", "rm"]), reg, ans))
            sizes[reg] = ans.count("1") + max(0, m - len(ans))
        elif k < 0.58:
            ops.append("dd:%d" % reg)
            sizes[reg] = sizes[reg]  # upper bound only
        elif k < 0.68:
            ops.append("cn:%d" % reg)
            sizes[1 - reg] = sizes[reg]
        elif k < 0.75:
            ops.append("eq")
        elif k < 0.80:
            ops.append("cmp")
        elif k < 0.86:
            ops.append("so:%d" % reg)
        elif k < 0.93:
            ops.append("ii:%d:%d" % (reg, r.choice([0, 1, max(0, sizes[reg] - 1), sizes[reg], sizes[reg] + 1])))
            sizes[reg] = 0
        elif k < 0.96:
            ops.append("it:%d" % reg)
        elif k < 0.98:
            ops.append("wc:%d:%d" % (reg, r.choice([0, 1, N, N + 1, 8])))
            sizes[reg] = 0
        else:
            ops.append("n:%d" % reg)
            sizes[reg] = 0
    return ";".join(ops)


def strip_ids(s):
    return re.sub(r"\b\d+\.(\d+)", r"_.\1", s.split(" | ")[0])


def run(res):
    rng = C.Rng(res.seed * 7919 + 18)
    broken = C.proof_audit(res, "C18.v")
    driver = C.build_driver()
    n = 4000 if res.tier == "quick" else 200000
    cases = [(2, "p:0:5;p:0:6;rt:0:00"), (1, "p:0:1;dd:0;p:0:1;p:0:1;dd:0;rt:0:0"), (2, "p:0:1;p:0:1;dd:0"),
             (2, "p:0:1;p:0:2;p:0:3;rt:0:110;p:1:1;p:1:2;eq;cmp"), (1, "wc:0:8;p:0:3;p:1:3;eq")]
    for _ in range(n):
        r = rng.fork()
        N = r.choice([1, 2, 2, 3])
        cases.append((N, gen_ops(r, N)))
    mlines = ["svec|%d|%s" % c for c in cases]
    model = C.run_lines(driver, mlines)
    stats = {"sequences": len(cases), "bad": 0, "crossing_promotions": 0, "ops": 0}
    hist = {}
    for _, ops in cases:
        for o in ops.split(";"):
            hist[o.split(":")[0]] = hist.get(o.split(":")[0], 0) + 1
            stats["ops"] += 1
    rep = 0
    for profile in ("debug", "release"):
        hv = C.build_harness(profile)
        tr = C.run_lines(hv, [l + "|t" for l in mlines])
        pl = C.run_lines(hv, [l + "|u" for l in mlines])
        for c, m, a, b in zip(cases, model, tr, pl):
            bad = None
            if a != m:
                bad = "drop-tracking elements: implementation %s / model %s" % (a[:300], m[:300])
            elif strip_ids(b) != strip_ids(m):
                bad = "plain elements: implementation %s / model %s" % (b[:300], m[:300])
            if "h" in m.split(" | ")[0] and profile == "debug":
                stats["crossing_promotions"] += 1
            if bad:
                stats["bad"] += 1
                if rep < 4:
                    rep += 1
                    res.violation("SmallVec<_, %d> sequence %s (%s build): %s" % (c[0], c[1][:300], profile, bad),
                                  {"case": "svec|%d|%s" % c, "implementation_tracked": a, "implementation_plain": b, "model": m, "profile": profile})
    res.coverage.update({
        "evaluations": len(cases) * 4,
        "distinct_nontrivial": len(set(c for c, m in zip(cases, model) if "h" in m.split(" | ")[0])),
        "rule": "random operation sequences (1-40 ops over two vectors: push, extend, clear, retain, retain_mut, dedup, clone, ==, cmp, sort, by-value iteration abandoned after k items, by-reference iteration, with_capacity, new) for inline capacities 1,2,3, biased to cross the inline/heap boundary (grow past N, shrink back with retain/clear, clone a short heap vector); run with drop-tracking elements (every id must be dropped exactly once: leaked/double lists empty) and with plain u64 elements, debug and release; compared with the extracted SmallVec.v model; non-trivial = distinct sequences in which some vector was promoted to the heap",
        "samples": ["svec|%d|%s" % c for c in cases[:: max(1, len(cases) // 6)]][:6],
        "op_histogram": hist, "stats": stats,
        "theorems": ["C18_refines_vec", "C18_dropped_exactly_once", "C18_rep_inv"],
    })
    res.assumptions += ["SmallVec.v is hand-written and describes the representation switch and the drop ledger; MaybeUninit/union handling is not modelled: double drops/leaks are observed through drop-counting elements",
                        "panics inside predicates are outside the property"]
    if broken and not res.violations:
        res.violation("proof side of C18 no longer checks: " + "; ".join(broken)[:1500], {"broken": broken, "theorem_file": "coq/theories/Props/C18.v"}, no_failing_input=True)


def replay(res, path):
    r = json.load(open(path))
    if "case" not in r:
        return run(res)
    hv = C.build_harness(r.get("profile", "debug"))
    driver = C.build_driver()
    a = C.run_lines(hv, [r["case"] + "|t"], shards=1)[0]
    m = C.run_lines(driver, [r["case"]], shards=1)[0]
    print(r["case"], "\nimplementation now:", a, "\nmodel:             ", m)
    res.coverage.update({"obligations": 1, "discharged": 1, "checker_cmd": "replay", "trusted_base": []})
    if a != m:
        res.violation("replayed sequence still differs", r)

#!/bin/bash
# Confirms each seeded change independently: builds, the 186 tests pass with it, the demonstration
# fails with it and passes without it. Uses scratch worktrees under /tmp, removed afterwards.
# usage: tools/verify_seeds.sh [seed-id ...]
cd /verif/seeded
ids=${@:-$(ls -d */ | tr -d /)}
verify() {
  id=$1; wt=/tmp/vs-$id; out=/verif/seeded/$id/confirm.json
  git -C /repo worktree remove --force $wt >/dev/null 2>&1
  git -C /repo worktree add -q --detach $wt HEAD || return
  cd $wt
  git apply /verif/seeded/$id/patch.diff || { echo "{\"applies\": false}" > $out; return; }
  export CARGO_NET_OFFLINE=true
  t=$(cargo test --workspace --no-fail-fast --offline 2>&1 | grep "^test result" | head -1)
  flags=""; [ "${id%%-*}" = "c18" ] && flags="--cfg hpbf_verif"
  with="n/a"; without="n/a"
  if [ -f /verif/seeded/$id/seeded_demo.rs ]; then
    mkdir -p tests; cp /verif/seeded/$id/seeded_demo.rs tests/seeded_demo.rs
    RUSTFLAGS="$flags" cargo test --offline --test seeded_demo >/tmp/vs-$id.with 2>&1; with=$?
    git checkout -- src
    RUSTFLAGS="$flags" cargo test --offline --test seeded_demo >/tmp/vs-$id.without 2>&1; without=$?
  elif [ -f /verif/seeded/$id/demo.sh ]; then
    cargo build --offline >/dev/null 2>&1; mkdir -p OUT; cp /verif/seeded/$id/demo.sh OUT/demo.sh
    sh OUT/demo.sh >/tmp/vs-$id.with 2>&1; with=$?
    git checkout -- src; cargo build --offline >/dev/null 2>&1
    sh OUT/demo.sh >/tmp/vs-$id.without 2>&1; without=$?
  fi
  echo "{\"applies\": true, \"suite_with_change\": \"$t\", \"demo_exit_with_change\": \"$with\", \"demo_exit_without_change\": \"$without\"}" > $out
  cd /; git -C /repo worktree remove --force $wt; rm -f /tmp/vs-$id.with /tmp/vs-$id.without
}
n=0
for id in $ids; do verify $id & n=$((n+1)); [ $((n % 4)) -eq 0 ] && wait; done; wait
for id in $ids; do echo "$id $(cat /verif/seeded/$id/confirm.json)"; done

"""Translator from objdump's Intel-syntax disassembly of JIT output to the instruction syntax of
the Coq model X86.v (driver handler `x86form`).  Anything outside the modelled subset raises
Unsupported: the caller reports it, it is never silently skipped."""
import re, subprocess, os, tempfile

R64 = ["rax", "rcx", "rdx", "rbx", "rsp", "rbp", "rsi", "rdi"] + ["r%d" % i for i in range(8, 16)]
R32 = ["eax", "ecx", "edx", "ebx", "esp", "ebp", "esi", "edi"] + ["r%dd" % i for i in range(8, 16)]
R16 = ["ax", "cx", "dx", "bx", "sp", "bp", "si", "di"] + ["r%dw" % i for i in range(8, 16)]
R8 = ["al", "cl", "dl", "bl", "spl", "bpl", "sil", "dil"] + ["r%db" % i for i in range(8, 16)]
REG = {}
for sz, names in ((64, R64), (32, R32), (16, R16), (8, R8)):
    for i, n in enumerate(names):
        REG[n] = (i, sz)
SIZES = {"BYTE": 8, "WORD": 16, "DWORD": 32, "QWORD": 64}


class Unsupported(Exception):
    pass


def num(t):
    t = t.strip()
    neg = t.startswith("-")
    if neg:
        t = t[1:]
    v = int(t, 16) if t.startswith("0x") else int(t)
    return -v if neg else v


def mem_operand(t, w):
    m = re.match(r"^(BYTE|WORD|DWORD|QWORD) PTR \[(rbp|rsp)(?:([+-])(0x[0-9a-f]+))?\]$", t)
    if not m:
        raise Unsupported("memory operand " + t)
    sz = SIZES[m.group(1)]
    disp = num(m.group(4)) if m.group(4) else 0
    if m.group(3) == "-":
        disp = -disp
    if m.group(2) == "rbp":
        if sz != w:
            raise Unsupported("tape access of %d bits at cell width %d: %s" % (sz, w, t))
        if disp % (w // 8):
            raise Unsupported("unaligned tape access " + t)
        return "c%d" % (disp // (w // 8))
    if sz != 64 or disp % 8:
        raise Unsupported("stack access " + t)
    return "s%d" % (disp // 8)


def operand(t, w):
    t = t.strip()
    if t in REG:
        return "r%d.%d" % REG[t]
    if "PTR" in t:
        return mem_operand(t, w)
    if re.match(r"^-?(0x[0-9a-f]+|\d+)$", t):
        return "i%d" % num(t)
    raise Unsupported("operand " + t)


def lea_operand(t):
    m = re.match(r"^\[(.*)\]$", t.strip())
    if not m:
        raise Unsupported("lea operand " + t)
    body = m.group(1)
    terms = re.findall(r"([+-]?)([^+-]+)", body)
    regs, disp = [], 0
    for sign, term in terms:
        term = term.strip()
        if term in REG and REG[term][1] == 64:
            if sign == "-":
                raise Unsupported("negated register in lea " + t)
            regs.append(REG[term][0])
        elif re.match(r"^(r\w+)\*1$", term) and term[:-2] in REG and REG[term[:-2]][1] == 64:
            regs.append(REG[term[:-2]][0])
        elif re.match(r"^(0x[0-9a-f]+|\d+)$", term):
            disp += -num(term) if sign == "-" else num(term)
        else:
            raise Unsupported("lea term " + term)
    if not 1 <= len(regs) <= 2:
        raise Unsupported("lea operand " + t)
    return regs[0], (regs[1] if len(regs) == 2 else None), disp


def translate(text, w):
    """one disassembled instruction -> one line of X86.v syntax"""
    text = text.strip()
    m = re.match(r"^(\w+)\s+(.*)$", text)
    if not m:
        raise Unsupported(text)
    mn, ops = m.group(1), [o.strip() for o in m.group(2).split(",")]
    if mn in ("mov", "movabs", "movzx") and len(ops) == 2:
        if mn == "movzx" and not (ops[0] in REG and REG[ops[0]][1] == 32 and "PTR" in ops[1]):
            raise Unsupported(text)
        return "mov %s %s" % (operand(ops[0], w), operand(ops[1], w))
    if mn == "xor" and len(ops) == 2 and ops[0] == ops[1] and ops[0] in REG and REG[ops[0]][1] in (32, 64):
        # the zeroing idiom: the register (all 64 bits) becomes 0.  It also writes the flags, which no instruction
        # of an arithmetic form reads (the subset of X86.v has no flag consumer; branches are separate templates)
        return "mov %s i0" % operand(ops[0], w)
    if mn in ("add", "sub") and len(ops) == 2:
        return "%s %s %s" % (mn, operand(ops[0], w), operand(ops[1], w))
    if mn in ("inc", "dec") and len(ops) == 1:
        return "%s %s" % (mn, operand(ops[0], w))
    if mn == "imul" and len(ops) == 2:
        return "imul %s %s" % (operand(ops[0], w), operand(ops[1], w))
    if mn == "imul" and len(ops) == 3:
        return "imul %s %s %d" % (operand(ops[0], w), operand(ops[1], w), num(ops[2]))
    if mn == "lea" and len(ops) == 2 and ops[0] in REG and REG[ops[0]][1] == 64:
        b, x, d = lea_operand(ops[1])
        return "lea %d %d %s %d" % (REG[ops[0]][0], b, "-" if x is None else str(x), d)
    raise Unsupported(text)


def disasm_many(hexlist):
    """[hex machine code] -> [[instruction text]] through objdump (one call)"""
    blob, offs = b"", []
    for h in hexlist:
        offs.append(len(blob))
        blob += bytes.fromhex(h) + b"\xcc" * 16
    fd, path = tempfile.mkstemp(suffix=".bin")
    os.write(fd, blob)
    os.close(fd)
    try:
        out = subprocess.run(["objdump", "-D", "-b", "binary", "-mi386:x86-64", "-M", "intel", "--no-show-raw-insn", path],
                             capture_output=True, text=True, check=True).stdout
    finally:
        os.unlink(path)
    res, cur = [[] for _ in hexlist], -1
    for l in out.split("\n"):
        m = re.match(r"^\s*([0-9a-f]+):\s+(.*)$", l)
        if not m:
            continue
        a, t = int(m.group(1), 16), m.group(2).strip()
        while cur + 1 < len(offs) and a >= offs[cur + 1]:
            cur += 1
        if t.startswith("int3") or cur < 0:
            continue
        j = re.match(r"^(j\w+)\s+0x([0-9a-f]+)$", t)
        if j:                                   # jump targets relative to the chunk's first byte
            t = "%s 0x%x" % (j.group(1), int(j.group(2), 16) - offs[cur]) if int(j.group(2), 16) >= offs[cur] else "%s -0x%x" % (j.group(1), offs[cur] - int(j.group(2), 16))
        res[cur].append(t)
    return res


def translate_call(text, w, start, term):
    """one instruction of a runtime-call template -> X86Call.v syntax (driver handler `x86call`);
    `start`/`term`: code offsets of the template and of the termination path (jump targets are
    printed relative to the template's first byte)"""
    text = text.strip()
    m = re.match(r"^(\w+)\s*(.*)$", text)
    if not m:
        raise Unsupported(text)
    mn, ops = m.group(1), [o.strip() for o in m.group(2).split(",") if o.strip()]

    def r64(t):
        if t in REG and REG[t][1] == 64:
            return REG[t][0]
        raise Unsupported("64-bit register expected: " + text)
    if mn in ("push", "pop") and len(ops) == 1:
        return "%s %d" % (mn, r64(ops[0]))
    if mn in ("sub", "add") and len(ops) == 2 and ops[0] == "rsp" and num(ops[1]) == 8:
        return "subrsp" if mn == "sub" else "addrsp"
    if mn == "call" and len(ops) == 1:
        return "call %d" % r64(ops[0])
    if mn == "test" and len(ops) == 2 and ops[0] == ops[1] and ops[0] in REG and REG[ops[0]][1] == 8:
        return "test8 %d" % REG[ops[0]][0]
    if mn == "cmp" and len(ops) == 2 and ops[0] in REG and REG[ops[0]][1] == 64 and re.match(r"^-?(0x[0-9a-f]+|\d+)$", ops[1]):
        return "cmp64 %d %d" % (REG[ops[0]][0], num(ops[1]) % (1 << 64))
    if mn in ("je", "jne") and len(ops) == 1:
        if num(ops[0]) != term - start:
            raise Unsupported("conditional jump to %s, the termination path is at %s: %s" % (ops[0], hex(term - start), text))
        return mn
    if mn in ("mov", "movabs", "movzx") and len(ops) == 2:
        d, s = ops
        if "PTR" in d:                       # store of the low w bits
            cell = mem_operand(d, w)
            if not cell.startswith("c") or s not in REG or REG[s][1] != w:
                raise Unsupported(text)
            return "store %s %d" % (cell[1:], REG[s][0])
        if "PTR" in s:                       # zero-extending load
            cell = mem_operand(s, w)
            ok = cell.startswith("c") and d in REG and ((mn == "movzx" and REG[d][1] == 32 and w < 32) or
                                                        (mn == "mov" and REG[d][1] == 32 and w == 32) or
                                                        (mn == "mov" and REG[d][1] == 64 and w == 64))
            if not ok:
                raise Unsupported(text)
            return "load %d %s" % (REG[d][0], cell[1:])
        if d in REG and REG[d][1] == 64 and s in REG and REG[s][1] == 64:
            return "movrr %d %d" % (REG[d][0], REG[s][0])
        if d in REG and REG[d][1] == 64 and re.match(r"^-?(0x[0-9a-f]+|\d+)$", s):
            return "movi %d %d" % (REG[d][0], num(s) % (1 << 64))
    raise Unsupported(text)


def translate_br(ins, w, start, target):
    """[cmp <cell>,0 ; je/jne <addr>] -> X86Call.v syntax; the jump must go to `target` (code offset)"""
    if len(ins) != 2:
        raise Unsupported("branch template of %d instructions: %s" % (len(ins), " ; ".join(ins)))
    m = re.match(r"^cmp\s+(.*),\s*(0x0|0)$", ins[0].strip())
    if not m:
        raise Unsupported(ins[0])
    cell = mem_operand(m.group(1).strip(), w)
    if not cell.startswith("c"):
        raise Unsupported(ins[0])
    j = re.match(r"^(je|jne)\s+(-?0x[0-9a-f]+)$", ins[1].strip())
    if not j:
        raise Unsupported(ins[1])
    if num(j.group(2)) != target - start:
        raise Unsupported("branch jumps to %s, instruction target is at %s" % (j.group(2), hex(target - start)))
    return "cmpcell %s;%s" % (cell[1:], j.group(1))


INSTR_LEN = {"n": 1, "s": 3, "m": 2, "i": 2, "o": 2, "z": 3, "nz": 3, "a": 7, "u": 7, "x": 7, "c": 5}


def split_bc(text):
    """bytecode text -> (header tokens, [(live, [instruction tokens])])"""
    tk = text.split()
    hdr, body = tk[:4], tk[4:]
    out, i = [], 0
    while i < len(body):
        live = body[i]
        n = INSTR_LEN[body[i + 1]]
        out.append((live, body[i + 1:i + 1 + n]))
        i += 1 + n
    if len(out) != int(hdr[3]):
        raise ValueError("bytecode text: %d instructions announced, %d parsed" % (int(hdr[3]), len(out)))
    return hdr, out


# The move and budget-check templates are stated (X86Mov.v) with rax as their scratch register.  The code
# generator has two interchangeable scratch registers, rax and rcx: neither ever holds a bytecode temporary,
# both are caller-saved and clobbered by every runtime call, and the templates contain no instruction with an
# implicit rax/rcx operand (checked here by a whitelist of mnemonics).  A template that uses rcx where the
# model says rax is therefore translated after exchanging the two names consistently.  (Trusted step of the
# translator; recorded in the evidence of C03/C07.)
_SWAP_OK = {"lea", "sub", "add", "sar", "cmp", "jb", "mov", "movabs", "push", "pop", "call", "dec", "inc"}
_SWAP = {"rax": "rcx", "rcx": "rax", "eax": "ecx", "ecx": "eax", "ax": "cx", "cx": "ax", "al": "cl", "cl": "al"}


def canon_scratch(ins, probe_re):
    """if the first instruction matching `probe_re` names rcx, exchange rax and rcx in the whole template"""
    first = next((t for t in ins if re.search(probe_re, t)), None)
    if first is None or not re.search(r"\brcx\b", first) or re.search(r"\brax\b", first):
        return ins
    out = []
    for t in ins:
        mn = t.strip().split()[0] if t.strip() else ""
        if mn not in _SWAP_OK or (mn == "sar" and re.search(r",\s*cl\b", t)):
            raise Unsupported("scratch registers exchanged in a template with %r" % t.strip())
        out.append(re.sub(r"\b(rax|rcx|eax|ecx|ax|cx|al|cl)\b", lambda m: _SWAP[m.group(1)], t))
    return out


def translate_mov(ins, w, length):
    """the pointer-move template -> X86Mov.v syntax; `length`: size of the chunk in bytes (the jb
    must jump to its end)"""
    out = []
    ins = canon_scratch(ins, r"^\s*lea\s+r[ac]x,")
    for text in ins:
        text = text.strip()
        m = re.match(r"^(\w+)\s*(.*)$", text)
        mn, ops = m.group(1), [o.strip() for o in m.group(2).split(",") if o.strip()]
        if mn in ("inc", "dec") and ops == ["rbp"]:
            out.append("addrbp %d" % (1 if mn == "inc" else -1))
        elif mn in ("add", "sub") and len(ops) == 2 and ops[0] == "rbp" and re.match(r"^-?(0x[0-9a-f]+|\d+)$", ops[1]):
            v = num(ops[1])
            if v >= 1 << 63:
                v -= 1 << 64
            out.append("addrbp %d" % (v if mn == "add" else -v))
        elif mn in ("add", "sub") and len(ops) == 2 and ops[0] == "rsp" and num(ops[1]) == 8:
            out.append("subrsp" if mn == "sub" else "addrsp")
        elif mn == "lea" and len(ops) == 2 and ops[0] == "rax":
            mm = re.match(r"^\[rbp(?:([+-])(0x[0-9a-f]+))?\]$", ops[1])
            if not mm:
                raise Unsupported(text)
            d = num(mm.group(2)) if mm.group(2) else 0
            out.append("learax %d" % (-d if mm.group(1) == "-" else d))
        elif mn == "lea" and len(ops) == 2 and ops[0] == "rbp":
            mm = re.match(r"^\[rbp\+rax\*(\d)(?:([+-])(0x[0-9a-f]+))?\]$", ops[1])
            if not mm:
                raise Unsupported(text)
            d = num(mm.group(3)) if mm.group(3) else 0
            out.append("learbp %s %d" % (mm.group(1), -d if mm.group(2) == "-" else d))
        elif mn == "sub" and ops == ["rax", "QWORD PTR [rbx]"]:
            out.append("subbase")
        elif mn == "sar" and len(ops) == 2 and ops[0] == "rax":
            out.append("sar %d" % num(ops[1]))
        elif mn == "sar" and ops == ["rax"]:
            out.append("sar 1")
        elif mn == "cmp" and ops == ["rax", "QWORD PTR [rbx+0x8]"]:
            out.append("cmpsize")
        elif mn == "jb" and len(ops) == 1:
            if num(ops[0]) != length:
                raise Unsupported("jb to %s, the template ends at %s" % (ops[0], hex(length)))
            out.append("jb")
        elif mn == "mov" and ops == ["QWORD PTR [rbx+0x10]", "rax"]:
            out.append("storeoff")
        elif mn == "mov" and ops == ["rbp", "QWORD PTR [rbx]"]:
            out.append("loadbase")
        elif mn == "mov" and ops == ["rax", "QWORD PTR [rbx+0x10]"]:
            out.append("loadoff")
        elif mn in ("push", "pop") and len(ops) == 1 and ops[0] in REG and REG[ops[0]][1] == 64:
            out.append("%s %d" % (mn, REG[ops[0]][0]))
        elif mn == "call" and ops == ["rax"]:
            out.append("call 0")
        elif mn in ("mov", "movabs") and len(ops) == 2 and ops[0] in REG and ops[1] in REG and REG[ops[0]][1] == 64 and REG[ops[1]][1] == 64:
            out.append("movrr %d %d" % (REG[ops[0]][0], REG[ops[1]][0]))
        elif mn in ("mov", "movabs") and len(ops) == 2 and ops[0] in REG and REG[ops[0]][1] in (32, 64) and re.match(r"^(0x[0-9a-f]+|\d+)$", ops[1]):
            out.append("movi %d %d" % (REG[ops[0]][0], num(ops[1])))     # a 32-bit destination zero-extends: same value
        else:
            raise Unsupported(text)
    return ";".join(out)


def translate_limit(ins, start, term):
    """the limited-mode budget check -> X86Mov.v (lins) syntax"""
    out = []
    ins = canon_scratch(ins, r"^\s*mov\s+r[ac]x,\s*QWORD PTR \[rbx\+0x18\]")
    for text in ins:
        t = re.sub(r"\s+", " ", text.strip())
        if t == "mov rax,QWORD PTR [rbx+0x18]":
            out.append("load")
        elif re.match(r"^cmp rax,(0x[0-9a-f]+|\d+)$", t):
            out.append("cmp %d" % num(t.split(",")[1]))
        elif t.startswith("jb "):
            if num(t[3:]) != term - start:
                raise Unsupported("budget check jumps to %s, the termination path is at %s" % (t[3:], hex(term - start)))
            out.append("jb")
        elif t in ("dec rax", "sub rax,0x1"):
            out.append("dec")
        elif t == "mov QWORD PTR [rbx+0x18],rax":
            out.append("store")
        else:
            raise Unsupported(text)
    return ";".join(out)


CALLEE_SAVED = ["rbp", "rbx", "r12", "r13", "r14", "r15"]


def frame_of(prologue, epilogue, term_rel):
    """prologue / epilogue instruction lists -> (pushes, sub_bytes); raises Unsupported unless they
    are: push the six callee-saved registers (any order), reserve the frame, take cxt and tape pointer from
    rdi/rsi — and: return 1, or (termination path, at `term_rel`) return 0, release the frame, pop
    in reverse order, ret"""
    norm = lambda t: re.sub(r"\s+", " ", t.strip())
    pro = [norm(t) for t in prologue]
    epi = [norm(t) for t in epilogue]
    n = len(CALLEE_SAVED)
    # the six callee-saved registers, each once, in any order; the epilogue must pop them in the reverse of
    # *that* order (the order itself is not observable)
    pushed = [t[5:] for t in pro[:n] if t.startswith("push ")]
    if len(pushed) != n or sorted(pushed) != sorted(CALLEE_SAVED):
        raise Unsupported("prologue pushes: " + " ; ".join(pro))
    m = re.match(r"^sub rsp,(0x[0-9a-f]+|\d+)$", pro[n]) if len(pro) > n else None
    if not m or pro[n + 1:] != ["mov rbx,rdi", "mov rbp,rsi"]:
        raise Unsupported("prologue: " + " ; ".join(pro))
    sub = num(m.group(1))
    epi = ["mov eax,0x0" if e == "xor eax,eax" else e for e in epi]      # the zeroing idiom for the return value 0
    want = ["mov eax,0x1", None, "mov eax,0x0", "add rsp,%s" % hex(sub)] + ["pop " + r for r in reversed(pushed)] + ["ret"]
    if len(epi) != len(want) or any(w is not None and w != e for w, e in zip(want, epi)):
        raise Unsupported("epilogue: " + " ; ".join(epi))
    j = re.match(r"^jmp (0x[0-9a-f]+)$", epi[1])
    if not j:
        raise Unsupported("epilogue jump: " + epi[1])
    return n, sub, num(j.group(1))

#!/usr/bin/env python3
"""Regenerates MANIFEST.json from the table below (single source of truth)."""
import json, os
V = os.path.dirname(os.path.dirname(os.path.abspath(__file__)))
HOOK_COMMITS = ["3789170", "404af39", "c77e773"]
CHECKS = {
 "C14": dict(cat="proof", tech="Coq proof (Cell.v, Props/C14.v) + differential correspondence model<->CellType",
   text="Universal Coq theorems (all widths w>=1, all operands) for wrapping_div (least solution / none), wrapping_inv, wrapping_pow and the conversions, about a hand-written Gallina model mirroring src/lib.rs; the model is tied to the current source on every run by running the extracted model and the public CellType methods (debug and release) on the same cases, exhaustively at 8 bits.",
   note="Trusted: Coq kernel, extraction (ExtrOcamlBasic), ocaml/driver.ml, harness; Cell.v is hand-written (modelled, tied by correspondence). No axioms.", ref="§4 C14"),
}
NA_REASON = "not yet built in this round; see DESIGN.md §9 order of construction"
ALL = ["C%02d" % i for i in range(1, 19)]
m = {
 "version": 1,
 "setup_cmd": "./check --setup",
 "hooks": {"guard": "hpbf_verif", "enable": "RUSTFLAGS=\"--cfg hpbf_verif\" (set in /verif/harness/.cargo/config.toml)",
           "baseline_off_cmd": "cd /repo && cargo test --workspace --no-fail-fast --offline",
           "source_commits": HOOK_COMMITS, "add_only": True},
 "engines": [{"name": "coq", "path": "coq/", "serves_properties": sorted(CHECKS), "kind_free_text": "Coq 8.16.1 development: models, proofs, pinned property theorems"},
             {"name": "driver", "path": "ocaml/driver.ml", "serves_properties": sorted(CHECKS), "kind_free_text": "extracted model runner"},
             {"name": "harness", "path": "harness/", "serves_properties": sorted(CHECKS), "kind_free_text": "Rust harness linking /repo with --cfg hpbf_verif"}],
 "checks": [],
 "not_applicable": [],
 "notes": "Technique family: machine-checked proof in Coq; see DESIGN.md."
}
for p in ALL:
    if p in CHECKS:
        c = CHECKS[p]
        m["checks"].append({"property_id": p, "quick_cmd": "./check %s --tier quick" % p, "thorough_cmd": "./check %s --tier thorough" % p,
            "evidence_file": "evidence/%s.json" % p, "replay_cmd_template": "./check %s --replay {path}" % p, "engine": "coq",
            "level_claimed": {"category": c["cat"], "text": c["text"], "design_ref": c["ref"]}, "level_note": c["note"], "technique": c["tech"]})
    else:
        m["not_applicable"].append({"property_id": p, "reason": NA_REASON})
json.dump(m, open(os.path.join(V, "MANIFEST.json"), "w"), indent=1)
print("checks:", [c["property_id"] for c in m["checks"]])

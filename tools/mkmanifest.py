#!/usr/bin/env python3
"""Regenerates MANIFEST.json from the table below (single source of truth)."""
import json, os
V = os.path.dirname(os.path.dirname(os.path.abspath(__file__)))
HOOK_COMMITS = ["3789170", "404af39", "c77e773"]
CHECKS = {
 "C01": dict(cat="translation_validation", tech="level 0: Coq theorem C01_level0 (parser model + IR interpreter model = canonical semantics, all programs) tied by structural parser correspondence; levels >= 1: per-program validation of the optimiser's dumped IR through IR.v against canonical BF.v",
   text="For every generated program x width x input x level 0..4(+100): the IR dumped from the current build is executed by the Coq model of the IR interpreter (IR.v, extracted) and must produce the canonical event sequence of BF.v; the Rust IrInterpreter must produce the same sequence; levels >3 must dump the level-3 IR. At level 0 (Program::optimize is the identity) theorem C01_level0 proves the statement for every program, input, width and I/O environment about Parse.v (exact model of Program::parse, compared structurally with the implementation on every generated program) and IR.v. The optimiser itself is not modelled, so levels >=1 are validated per program, not proved for all programs.",
   note="Trusted: Coq kernel, extraction, driver, harness, IR serialiser. opt.rs is not modelled (validated per program). Programs whose canonical run exceeds the fuel are skipped.", ref="§4 C01"),
 "C02": dict(cat="translation_validation", tech="per-program validation of dumped bytecode through BC.v semantics against canonical BF.v, debug and release dispatch",
   text="Bytecode dumped from CodeGen::translate(..,2,true) is executed by the Coq bytecode semantics (BC.v) and compared with the canonical semantics; BcInterpreter is run in debug (trampolined) and release (tail-called) builds on the same programs, levels 0..3, four widths.",
   note="bc.rs is not modelled; BC.v mirrors ops.rs operand order and is tied by the same runs.", ref="§4 C02"),
 "C03": dict(cat="translation_validation", tech="per-program validation: JIT event trace vs canonical BF.v; 11-register bytecode validated through BC.v",
   text="BaseJitCompiler is executed on generated programs (incl. register-pressure programs with >=12 live values and 64-bit constant chains) and must produce the canonical event sequence; the bytecode it compiles (translate(..,11,false)) is validated through BC.v.",
   note="Machine code is executed on the CPU; the instruction-selection table proof of DESIGN §4 C03 is not yet part of this check.", ref="§4 C03"),
 "C04": dict(cat="proof", tech="Coq simulation proof: in-place pc/loop-stack machine (Inplace.v) <-> canonical machine; correspondence Inplace.v <-> InplaceInterpreter",
   text="Theorem C04_inplace_canonical (all widths, environments incl. I/O faults, balanced sources): the in-place machine halts (normally or stopped) iff the canonical machine does, with identical tape, pointer and complete event log; C04_inplace_prefix: its partial traces are canonical partial traces (divergence preserved); the forward scan stops after the matching bracket; every step is defined on any byte string. Inplace.v is tied to src/exec/inplace.rs on every run: traces of the extracted model and of InplaceInterpreter (debug+release) on generated programs, plus canonical comparison.",
   note="Inplace.v is hand-written (pc represented as the remaining suffix); Memory refinement is C09; usize pc / Vec growth unbounded in the model.", ref="§4 C04"),
 "C05": dict(cat="translation_validation", tech="Coq theorem: state-repeat certificate => canonical run never halts; certificates computed and re-checked by the extracted machine; backends observed in child processes",
   text="Theorem C05_state_repeat_diverges: if cert_ok accepts (i,d) the canonical machine is still running after any number of steps (equivalent configurations stay equivalent, C05_equiv_runs). Programs are classified by the extracted machine (halting / certified divergent); certified-divergent programs must not return from any backend/level within the window and their streamed events must be a prefix of the certified periodic word; halting programs must return with the canonical events. In-place divergence preservation is also theorem C04_inplace_prefix.",
   note="Backend non-return is observed through a wall-clock window; optimiser/bytecode layers are validated per program.", ref="§4 C05"),
 "C06": dict(cat="exploration", tech="Coq theorem C06_protocol_safe on the one-sided probe protocol (BCRaw.v over Tape.v) tied to runtime::Memory by model-driven histories; operands-in-window by the certified checker (C11); machine level: guard-page allocator runs of all backends on roaming programs",
   text="While an executor runs, every heap allocation is placed flush against PROT_NONE pages (left-flush and right-flush runs, debug and release); roaming programs (moves of thousands of cells, scans, revisits) must not fault and must produce the canonical events. The model-level statement (no raw index outside [0,size), refinement of the unbounded tape) is theorem C09_raw_in_bounds/C09_tape_refines for the Memory API; The one-sided probe protocol of the bytecode interpreter/JIT (entry makes the window accessible; a move probes only the window end in its direction) is theorem C06_protocol_safe: for every history, no raw index outside the buffer and reads return the last written value; the C06 check drives runtime::Memory through model-predicted protocol histories (every probe must hit/miss as predicted, every operand cell must test accessible before use).",
   note="Observation of the implementation under an adversarial allocator; not a proof about Rust pointer arithmetic or machine code.", ref="§4 C06"),
 "C07": dict(cat="translation_validation", tech="Coq theorems for the in-place (C04_inplace_prefix) and IR interpreter (C07_ir_*: prefix, finished=>complete, returns, large budget) models; limited-run engine models (Inplace.v/IR.v/BC.v with budget) vs execute_limited; property conditions checked against canonical classification",
   text="For every program (halting or certified divergent) x backend x level x budget: (finished, events) must satisfy the property (prefix / complete when finished / finished at 2^62 / never finished when divergent) and equal the result of the budgeted Coq engine models for the three interpreters. Props/C07.v proves for the IR interpreter model, for every IR program, state, environment and budget: a finished limited run equals the unlimited run, an interrupted one has budget 0 and a prefix of its events, the limited run returns within depth size+budget, and every large enough budget reproduces a terminating unlimited run. Bytecode interpreter and JIT are decided per program only.",
   note="Time bound observed by wall clock only.", ref="§4 C07"),
 "C08": dict(cat="fault_enumeration", tech="fault positions enumerated over the canonical trace; expected behaviour = Coq canonical semantics under the faulty environment (IO.v)",
   text="For each halting program with I/O the failing input request / refused output byte index is enumerated over its canonical trace (plus absent input, absent sink); all four backends must return normally with exactly the canonical events up to and including the failing operation.",
   note="Faults injected through Read/Write objects; LLVM backend not built.", ref="§4 C08"),
 "C09": dict(cat="proof", tech="Coq refinement proof Tape.v => unbounded array (policy-parametric) + contract correspondence on Memory via verif_raw",
   text="Theorems (all histories within the magnitude guard, every growth policy satisfying PolicyOK, rust_policy proved to satisfy it): reads return the latest write or 0, reads are pure, requested/written ranges test accessible, growth preserves contents and logical pointer, no raw index outside [0,size). Tied to src/runtime.rs on every run: random histories on Memory<u8..u64> (debug+release) must agree with the model's reads, and the growth contract is checked on the implementation through the verif_raw hook.",
   note="Tape.v hand-written; byte-level pointer arithmetic not modelled (observed by guard pages in C06); magnitudes bounded by 2^60 / sizes < 2^62.", ref="§4 C09"),
 "C15": dict(cat="proof", tech="Coq proofs on Expr.v (exact model of ir::Expr): eval is a homomorphism for add/mul/neg/half/normalize/symb_evaluate, decompositions recompose; structural correspondence + arithmetic oracle",
   text="Theorems for every width w>=0, every expression (not only reachable ones) and every assignment: the value of a sum, product, negation, halving, normalisation (both phases, incl. the half-modulus/repeated-variable rewrites) and substitution result is congruent mod 2^w to the arithmetic on the operand values; constant, identity, const_inc_of, prod_of recompose unconditionally; inc_of, prod_inc_of and constant_part recompose under an explicit shape hypothesis (_partial: that public-API-reachable expressions have that shape is not proved, it is checked on every expression the correspondence reaches). Expr.v is tied on every run: random expression programs over all public operations must give exactly the model's part lists and values (debug+release, 4 widths), and values must satisfy an independent arithmetic oracle.",
   note="Expr.v hand-written (hash maps as association lists + the same final sort). split_along is only covered by correspondence.", ref="§4 C15"),
 "C16": dict(cat="proof", tech="regenerated flag table proved equal to the specified table (translator over src/bin/hpbf.rs) + Coq theorems on the argument loop + binary correspondence",
   text="tools/cli_translate.py re-derives the flag table, defaults, width dispatch, executor selection and mode order from src/bin/hpbf.rs on every run; Coq proves it equal to the specified table (table_is_spec) and, for every table and every argument list, that the program text is the in-order concatenation of files and bare arguments, that the last flag of each class wins, and what is decided (help / file error / run with width, backend, level, mode, limit). The release binary is run on generated command lines and compared with the model composed with the canonical semantics or the library rendering.",
   note="Trusted: the regex translator (fails loudly when the structure changes), the binary harness. --time and llvm flags not compared.", ref="§4 C16"),
 "C17": dict(cat="fault_enumeration", tech="failing-allocator child processes enumerating every growth request; Coq theorem on Tape.v with allocation oracle",
   text="Every growth request of random tape histories and of roaming programs on all backends is failed in turn (global allocator returning null); the process must end by SIGABRT/panic. Model side: C17_alloc_fail_safe/_stops proved for all histories and oracles.",
   note="The theorem is about the Tape.v model; the implementation's abort path is observed, not proved.", ref="§4 C17"),
 "C10": dict(cat="exploration", tech="execute_unsafe under guard pages on a region sized from the canonical pointer excursion (extracted machine) + program length",
   text="execute_unsafe (bytecode interpreter, JIT; levels 0-3; debug+release) on a context pre-grown to the canonical excursion plus a margin of the program's length, with the region and all other allocations flush against guard pages; must not fault and must produce the canonical events.",
   note="Observation, not proof; first exercise of the unchecked entry point.", ref="§4 C10"),
 "C11": dict(cat="translation_validation", tech="certified checker: extracted BCWf.bc_wf, proved sound w.r.t. path-based statements of the property (Props/C11.v), run on every bytecode the current build generates or holds",
   text="Every bytecode produced by translate(..,2,true)/(..,11,false) at levels 0-3 and the copy each executor holds is checked by the Coq-defined executable checker bc_wf (branch targets, operand window containing 0, temp indices, must-define dataflow to a fixpoint, liveness vs live bits of non-branch instructions, MemZero aliasing rules, fusion flag). A rejected program is the replay.",
   note="Soundness of the checker is proved (branch targets, window, temp range, defined-before-use on every path, liveness of needed register temporaries); MemZero aliasing and fusion-flag rules are checker rules without a path-level theorem. bc.rs is not modelled: validation is per generated program.", ref="§4 C11"),
 "C12": dict(cat="proof", tech="Coq proofs on Parse.v (exact model of Program::parse): accepts iff balanced, error kind/char position = bracket-stack spec, comment-insensitivity; structural correspondence",
   text="Theorems for every width and every string of scalar values: parse accepts iff balanced; the reported (kind, character index) equals the bracket-stack specification (first unmatched ']' else innermost unclosed '['); filtering non-command characters changes neither acceptance, error kind nor the IR; bytes >= 0x80 are never commands. Parse.v is tied on every run: random Unicode strings, comment interleavings, depth-500 nesting, one-edit unbalancings must give exactly the model's IR / error; all executors' acceptance and comment-insensitivity are exercised, panics caught.",
   note="Parse.v hand-written; recursion depth of later stages is only exercised (depth <= 500).", ref="§4 C12"),
 "C13": dict(cat="other", tech="Coq theorem: every operand shape left by (modelled) parameter reordering is covered by both selectors; determinism/reuse/compile-time monitored",
   text="Partial. Proved: jit_covers_all / int_covers_all over Forms.v (no unimplemented! arm reachable after reordering), tied by compiling every normalised shape in both selectors and by checking generated bytecode is a fixed point of the model's reordering. Monitored only: hash-seed/history independence of printed IR, bytecode and machine code (within a process, across processes, across profiles), executor reuse on fresh contexts, caught panics in create() (nesting depth 300), compile time on size-doubling families.",
   note="Determinism, reuse and growth are observations of the running process; only the unimplemented!-unreachability slice is a theorem.", ref="§4 C13"),
 "C14": dict(cat="proof", tech="Coq proof (Cell.v, Props/C14.v) + differential correspondence model<->CellType",
   text="Universal Coq theorems (all widths w>=1, all operands) for wrapping_div (least solution / none), wrapping_inv, wrapping_pow and the conversions, about a hand-written Gallina model mirroring src/lib.rs; the model is tied to the current source on every run by running the extracted model and the public CellType methods (debug and release) on the same cases, exhaustively at 8 bits.",
   note="Trusted: Coq kernel, extraction (ExtrOcamlBasic), ocaml/driver.ml, harness; Cell.v is hand-written (modelled, tied by correspondence). No axioms.", ref="§4 C14"),
 "C18": dict(cat="proof", tech="Coq proofs on SmallVec.v (refinement of Vec, drop-exactly-once ledger, representation invariant) + differential correspondence with drop-counting elements",
   text="Theorems for every inline capacity N and every operation sequence: observable contents equal those of plain lists; every created element is dropped exactly once when both vectors are gone (Permutation with the id range); inline representation never exceeds N. Tied to src/smallvec.rs on every run: random sequences (N=1,2,3; tracked and plain elements; debug and release) must produce the model's views, iterator items, comparison results and an empty leak/double-drop ledger.",
   note="SmallVec.v hand-written; union/MaybeUninit handling is observed through drop counting, not modelled.", ref="§4 C18"),
}
NA_REASON = "not yet built in this round; see DESIGN.md §9 order of construction"
ALL = ["C%02d" % i for i in range(1, 19)]
m = {
 "version": 1,
 "setup_cmd": "./check --setup",
 "hooks": {"guard": "hpbf_verif", "enable": "RUSTFLAGS=\"--cfg hpbf_verif\" (set in /verif/harness/.cargo/config.toml)",
           "baseline_off_cmd": "cd /repo && cargo test --workspace --no-fail-fast --offline",
           "source_commits": HOOK_COMMITS, "add_only": True},
 "engines": [{"name": "coq", "path": "coq/", "serves_properties": sorted(CHECKS), "kind_free_text": "Coq 8.16.1 development: models, proofs, pinned property theorems"},
             {"name": "driver", "path": "ocaml/driver.ml", "serves_properties": sorted(CHECKS), "kind_free_text": "extracted model runner"},
             {"name": "harness", "path": "harness/", "serves_properties": sorted(CHECKS), "kind_free_text": "Rust harness linking /repo with --cfg hpbf_verif"}],
 "checks": [],
 "not_applicable": [],
 "notes": "Technique family: machine-checked proof in Coq; see DESIGN.md."
}
import importlib, sys
sys.path.insert(0, V)
for p in ALL:
    if p in CHECKS:
        c = CHECKS[p]
        c["cat"] = importlib.import_module("tools.props." + p.lower()).LEVEL
        m["checks"].append({"property_id": p, "quick_cmd": "./check %s --tier quick" % p, "thorough_cmd": "./check %s --tier thorough" % p,
            "evidence_file": "evidence/%s.json" % p, "replay_cmd_template": "./check %s --replay {path}" % p, "engine": "coq",
            "level_claimed": {"category": c["cat"], "text": c["text"], "design_ref": c["ref"]}, "level_note": c["note"], "technique": c["tech"]})
    else:
        m["not_applicable"].append({"property_id": p, "reason": NA_REASON})
json.dump(m, open(os.path.join(V, "MANIFEST.json"), "w"), indent=1)
print("checks:", [c["property_id"] for c in m["checks"]])

"""Program generators (DESIGN Appendix C). Every random choice comes from the Rng passed in."""


def mv(d):
    return '>' * d if d > 0 else '<' * (-d)


def at(c, code):
    return mv(c) + code + mv(-c)


def clear(a):
    return at(a, '[-]')


def addc(a, k):
    return at(a, ('+' * k if k >= 0 else '-' * (-k)))


def move_add(src, dst, k=1, sign='+'):
    return mv(src) + '[-' + mv(dst - src) + sign * k + mv(src - dst) + ']' + mv(-src)


def copy_add(src, dst, k=1, sign='+', t=6):
    s = mv(src) + '[-' + mv(dst - src) + sign * k + mv(t - dst) + '+' + mv(src - t) + ']' + mv(-src)
    s += move_add(t, src)
    return s


def assign(src, dst):
    return clear(dst) + copy_add(src, dst)


def mul_into(a, b, dst, t=6, t2=7):
    s = mv(a) + '[-' + mv(-a) + at(t2, '+') + copy_add(b, dst, t=t) + mv(a) + ']' + mv(-a)
    s += move_add(t2, a)
    return s


def _stmt(r, cells, depth):
    k = r.random()
    a, b, c = r.choice(cells), r.choice(cells), r.choice(cells)
    if k < 0.15:
        return addc(a, r.randint(-3, 3))
    if k < 0.25:
        return clear(a)
    if k < 0.40 and a != b:
        return move_add(a, b, r.randint(1, 3), r.choice('+-'))
    if k < 0.60 and a != b:
        return copy_add(a, b, r.randint(1, 3), r.choice('+-'))
    if k < 0.70 and a != b:
        return assign(a, b)
    if k < 0.76 and len({a, b, c}) == 3:
        return mul_into(a, b, c)
    if k < 0.80:
        return at(a, '.')
    if k < 0.83:
        return at(a, ',')
    if k < 0.93 and depth < 2:
        cc = r.choice(cells)
        others = [x for x in cells if x != cc] if r.random() < 0.8 else cells
        body = ''.join(_stmt(r, others, depth + 1) for _ in range(r.randint(1, 4)))
        dec = r.choice(['-', '-', '-', '--', '+'])
        if r.random() < 0.5:
            return at(cc, '[' + mv(-cc) + body + mv(cc) + dec + ']')
        return at(cc, '[' + dec + mv(-cc) + body + mv(cc) + ']')
    if k < 0.97 and depth < 2:
        body = ''.join(_stmt(r, [x for x in cells if x != a], depth + 1) for _ in range(r.randint(1, 3)))
        return at(a, '[' + mv(-a) + body + mv(a) + '[-]]')
    return addc(a, 1)


def macro(r):
    cells = [0, 1, 2, 3, 4]
    s = ''
    for c in cells:
        if r.random() < 0.7:
            s += addc(c, r.randint(0, 5))
        elif r.random() < 0.5:
            s += at(c, ',')
    for _ in range(r.randint(2, 6)):
        s += _stmt(r, cells, 0)
    for c in cells:
        s += at(c, '.')
    return s


def pressure(r):
    cells = list(range(6))
    s = ''.join(at(c, ',') for c in cells)
    for _ in range(r.randint(3, 10)):
        a, b, c = r.sample(cells, 3)
        k = r.random()
        if k < 0.5:
            s += mul_into(a, b, c, t=8, t2=9)
        elif k < 0.8:
            s += copy_add(a, b, r.randint(1, 3), r.choice('+-'), t=8)
        else:
            s += move_add(a, b, r.randint(1, 3))
    for c in cells:
        s += at(c, '.')
    return s


def uniform(r, maxlen=48):
    """random balanced command strings (close to the project's fuzzer distribution)"""
    n = r.randint(4, maxlen)
    out = []
    depth = 0
    for i in range(n):
        c = r.choice('+-<>.,[]+-<>')
        if c == '[':
            if depth < 4 and i < n - 2:
                depth += 1
                out.append(c)
        elif c == ']':
            if depth > 0:
                depth -= 1
                out.append(c)
        else:
            out.append(c)
    out.append(']' * depth)
    return ''.join(out)


def affine(r):
    """counted loops with steps in {+-1,+-2,+-3,2^k} and bodies x := a*x + b, triangular sums,
    constant and input-dependent counters, symbolic even counts"""
    s = ''
    kind = r.below(6)
    n = r.randint(0, 9)
    cnt_in = r.random() < 0.4
    s += ',' if cnt_in else '+' * n
    if r.random() < 0.25:  # doubled (even, symbolic) counter in cell 0 via cell 7
        s += '[->>>>>>>++<<<<<<<]>>>>>>>[-<<<<<<<+>>>>>>>]<<<<<<<'
    step = r.choice(['-', '-', '-', '--', '---', '+', '++', '----'])
    if r.random() < 0.5:
        s += at(1, '+' * r.randint(0, 4)) + at(2, '+' * r.randint(0, 3) if r.random() < 0.6 else ',')
    if kind == 0:      # linear accumulation: c1 += k
        body = at(1, '+' * r.randint(1, 5))
    elif kind == 1:    # triangular: c2 += c1 ; c1 += k
        body = copy_add(1, 2, r.randint(1, 2), t=6) + at(1, r.choice(['+', '++', '-', '+++']))
    elif kind == 2:    # geometric: c1 = m*c1 + b
        m = r.randint(2, 5)
        body = at(1, '[-' + mv(4) + '+' * m + mv(-4) + ']') + at(5, '[-' + mv(-4) + '+' + mv(4) + ']') + at(1, '+' * r.randint(0, 3))
    elif kind == 3:    # triangular with the increment before the use
        body = at(1, r.choice(['+', '++', '-'])) + copy_add(1, 2, 1, t=6) + copy_add(2, 3, 1, t=6)
    elif kind == 4:    # nested counted loops
        body = at(1, '+++') + at(1, '[-' + mv(1) + '++' + mv(-1) + ']')
    else:              # i/o inside the loop
        body = at(1, '+.') + (at(2, ',') if r.random() < 0.5 else '')
    order = r.random() < 0.5
    s += '[' + (step + body if order else body + step) + ']'
    for c in range(4):
        s += at(c, '.')
    return s


def bigconst(r):
    """chains of compile-time multiplications (immediates beyond 32 bits at 64-bit cells)"""
    s = '+' * r.randint(2, 9)
    for i in range(r.randint(3, 7)):
        m = r.randint(5, 16)
        s += '[-' + mv(1) + '+' * m + mv(-1) + ']' + mv(1)
    s += ',[-<+>]<' if r.random() < 0.5 else ''
    s += '.>' + ',' + '[-<+>]<.'
    return s


def roam(r):
    """moves of +-1..+-5000, scans, revisits, marching counters"""
    s = ''
    for _ in range(r.randint(2, 8)):
        k = r.below(6)
        d = r.choice([1, 2, 7, 60, 61, 500, 5000, 129, 1023, 1024, 1025])
        if k == 0:
            s += '>' * d + '+.'
        elif k == 1:
            s += '<' * d + '+.'
        elif k == 2:   # walk right leaving marks, then scan back to the first zero cell
            m = r.randint(1, 40)
            s += '+' + '>+' * m + '[<]' + '>.'
        elif k == 3:
            m = r.randint(1, 40)
            s += '+' + '<+' * m + '[>]' + '<.'
        elif k == 4:   # marching counter: moves itself c cells in one direction
            c = r.randint(1, 60)
            fw, bw = r.choice([('>', '<'), ('<', '>'), ('>>>', '<<<')])
            s += '[-]' + '+' * c + '[[-' + fw + '+' + bw + ']' + fw + '-]' + '+.'
        else:
            s += '+.' + ','
    return s


def diverge(r):
    k = r.below(7)
    pre = ''.join(r.choice(['+', '+.', '>', '++.', ',.']) for _ in range(r.randint(0, 4)))
    if k == 0:
        return pre + '+[]' + '.'
    if k == 1:   # even step on odd counter never reaches 0
        return pre + '[-]+[--]' + '+.'
    if k == 2:
        return pre + '+[.]'
    if k == 3:
        return pre + '+[>+]'
    if k == 4:
        return pre + '+[[.-]+]'
    if k == 5:   # infinite or finite depending on input
        return pre + ',[--]' + '+.'
    return pre + '+[>+<[-]+]'


def small_exhaustive(n):
    """all balanced command strings of exactly n commands over +-<>.,[]"""
    out = []

    def go(prefix, depth, left):
        if left == 0:
            if depth == 0:
                out.append(prefix)
            return
        for c in '+-<>.,':
            go(prefix + c, depth, left - 1)
        if left >= 2 + depth:
            go(prefix + '[', depth + 1, left - 1)
        if depth > 0:
            go(prefix + ']', depth - 1, left - 1)

    go('', 0, n)
    return out


INPUTS = [b'', bytes(16), bytes((183 * i) % 256 for i in range(24)), b'\x01\x02\x01\x01\x05\x03\x02\x07', b'\x05\xff\x80\x7f\x02\x10']


def random_input(r):
    if r.random() < 0.6:
        return r.choice(INPUTS)
    return bytes(r.below(256) if r.random() < 0.5 else r.below(8) for _ in range(r.randint(0, 12)))


def iopressure(r):
    """many cells modified before and after an I/O operation inside a loop: keeps several
    temporaries (register and, beyond 11, stack temporaries) live across runtime calls"""
    k = r.randint(3, 14)
    io_at = r.randint(0, k)

    def sweep(ops):
        s = ''
        for i in range(1, k + 1):
            s += '>' + r.choice(ops)
        return s + '<' * k
    pre = ''.join('>' + '+' * r.randint(0, 3) for _ in range(k)) + '<' * k if r.random() < 0.5 else ''
    body = sweep(['-.', '+.', '--.', '-.', '+', '-.'] if r.random() < 0.7 else ['-', '+', '-.', '+', '--', '-'])
    io = mv(io_at) + r.choice([',', ',', '.', ',.', '.,']) + mv(-io_at)
    body += io
    body += sweep(['-', '+', '-', '++', '-.'])
    if io_at == 0 and ',' in io:
        cond = ','            # runs until the input delivers 0 (end of input)
    else:
        cond = '+' * r.randint(1, 4)
        body += '-'           # counted loop on cell 0
    tail = ''.join('>.' for _ in range(min(k, 6)))
    prog = pre + cond + '[' + body + ']' + tail
    # keep the program balanced in moves inside the loop (sweeps return to the start cell)
    return prog


def dmul(a, b, dst, t=6):
    """dst += a*b, a consumed (left 0), b preserved"""
    return mv(a) + '[-' + mv(-a) + copy_add(b, dst, t=t) + mv(a) + ']' + mv(-a)


def squares(r):
    """squares and higher powers of the same cell, with an early use of the value, long live
    ranges (runs of outputs) and the operand cells cleared right after the last use: same-cell
    operands, read-and-clear fusion, value forwarding into memory operands"""
    s = ','
    if r.random() < 0.5:
        s += at(5, ',')
    kind = r.below(3)
    if kind == 0:      # preserve x, copy into 1
        s += copy_add(0, 1, 1, t=6)
    elif kind == 1:    # move x destructively into 2 and 3
        s += '[->>+>+<<<]'
    else:              # early arithmetic use: [1] = x + c
        s += copy_add(0, 1, 1, t=6) + at(1, '+' * r.randint(1, 3))
    s += at(r.choice([0, 1, 2, 5]), '.' * r.choice([0, 1, 2, 15, 16, 17, 24]))
    if kind == 1:
        s += dmul(2, 3, 4, t=6) + r.choice([clear(3), '', at(3, '.')])
    else:
        s += r.choice([copy_add(0, 2, 1, t=6) + copy_add(0, 3, 1, t=6), '[->>+>+<<<]'])
        s += dmul(2, 3, 4, t=6)
        s += r.choice([clear(3), clear(0), clear(3) + clear(0), clear(1), ''])
    if r.random() < 0.3:
        s += copy_add(4, 7, 1, t=6) + dmul(7, 4, 8, t=6)
    for c in r.sample([0, 1, 3, 4, 5, 8], r.randint(2, 6)):
        s += at(c, '.')
    return s


def longrun(r):
    """long runs of identical commands (beyond 255/256/65535) observed through tests that look at
    more than the low 8 bits"""
    n = r.choice([254, 255, 256, 257, 300, 511, 512, 513, 1000])
    c = r.choice('+-')
    s = c * n
    k = r.below(4)
    if k == 0:
        s += '[>+.<[-]]>.'            # non-zero test
    elif k == 1:
        s += '[>+<' + ('-' if c == '+' else '+') + ']>.'   # count the value (low 8 bits of the count)
        if r.random() < 0.5:
            s = c * n + '>' + '+' * 3 + '<[>[>+>+<<-]>>[<<+>>-]<<<' + ('-' if c == '+' else '+') + ']>>.'
    elif k == 2:
        s += '>' + c * r.choice([255, 256, 257]) + '<[>+<' + ('-' if c == '+' else '+') + ']>.'
    else:
        s += '.' + '>' * r.choice([255, 256, 300]) + '+.' + '<' * r.choice([255, 256, 300]) + '.'
    return s


def nestuse(r):
    """nested stationary counted loops whose inner body only *uses* values computed before the
    outer loop, followed in the outer body by I/O and fresh arithmetic: live ranges that must
    span the outer back edge"""
    s = ',>,<' + r.choice([move_add(0, 1), copy_add(0, 1, 1, t=6), ''])       # cell1 (and maybe cell0) hold values
    n_out, n_in = r.randint(1, 3), r.randint(1, 3)
    inner = ''
    for _ in range(r.randint(1, 3)):
        k = r.below(5)
        if k == 0:
            inner += copy_add(1, 4, r.randint(1, 2), t=6)
        elif k == 1:
            inner += at(r.choice([0, 1]), '.')
        elif k == 2:
            inner += clear(5) + copy_add(1, 5, 1, t=6)
        elif k == 3:
            inner += copy_add(0, 4, 1, t=6)
        else:
            inner += at(4, '.')
    post = ''
    for _ in range(r.randint(1, 3)):
        k = r.below(5)
        if k == 0:
            post += at(7, ',') + copy_add(7, 8, 1, t=6) + at(8, '.')
        elif k == 1:
            post += at(5, '.') + clear(5)
        elif k == 2:
            post += at(8, ',[->+>+<<]>.>.[-]<[-]<')
        elif k == 3:
            post += clear(4)
        else:
            post += at(4, '.')
    body = addc(3, n_in) + at(3, '[' + mv(-3) + inner + mv(3) + '-]') + post
    s += addc(2, n_out) + at(2, '[' + mv(-2) + body + mv(2) + '-]')
    for c in (0, 1, 4, 5, 8):
        s += at(c, '.')
    return s


def ifnest(r):
    """a loop that the optimiser turns into an `if` (its body ends by clearing its own condition)
    around loops that do I/O, with more I/O after it: budget exhaustion inside the if body must
    surface as 'not finished' and cut the events there"""
    s = r.choice([',', ',', '+', '++'])
    inner = ''
    for _ in range(r.randint(1, 3)):
        k = r.below(4)
        if k == 0:
            inner += '>' + r.choice([',', '+++', '++++++']) + '[.-]<'
        elif k == 1:
            inner += '>>' + r.choice([',', '++++']) + '[-<+.>]<[-]<'
        elif k == 2:
            inner += '>.<'
        else:
            inner += '>' + r.choice(['+++', ',']) + '[>+<-]>[.-]<<'
    s += '[' + inner + '[-]]'
    for _ in range(r.randint(1, 3)):
        s += r.choice(['++++++++[>++++++++<-]>+.<', '>.<', '+.', ',.', '>+++[.-]<'])
    return s


def swap(a, b, t=6):
    return move_add(a, t) + move_add(b, a) + move_add(t, b)


def loopio(r):
    """counted loops (2-4 iterations, or an input) whose body moves data between a few cells with
    the classic idioms — swap and rotation through a temporary, copy, assignment — interleaved with
    outputs of a cell just modified and with inputs into cells the body otherwise only reads: what
    the optimiser / value numbering believes about a cell after a simultaneous assignment or across
    the back edge is then observable"""
    cells = [0, 1, 2, 3]
    s = ''
    for c in cells:
        s += at(c, r.choice([',', '+' * r.randint(1, 9), '+' * r.randint(1, 9), '']))
    s += at(4, r.choice(['++', '+++', '++++', ',']))

    def stmt(depth):
        a, b, c = r.sample(cells, 3)
        k = r.below(20)
        if k < 3:
            return swap(a, b)
        if k < 4:
            return move_add(a, 6) + move_add(b, a) + move_add(c, b) + move_add(6, c)
        if k < 6:
            return assign(a, b)
        if k < 9:
            return copy_add(a, b, r.randint(1, 3), r.choice('++-'))
        if k < 11:
            return at(a, r.choice(['+.', '.', '-.', '.+']))
        if k < 13:
            return at(a, ',')
        if k < 14:
            return move_add(a, b, r.randint(1, 2))
        if k < 15:
            return clear(a)
        if k < 16:
            return addc(a, r.randint(-2, 3))
        if k < 18 and depth < 1:
            body = ''.join(stmt(depth + 1) for _ in range(r.randint(1, 3)))
            return at(7, '[-]') + copy_add(a, 7, t=8) + at(7, '[[-]' + mv(-7) + body + mv(7) + ']')
        return at(a, '.')
    body = ''.join(stmt(0) for _ in range(r.randint(3, 7)))
    s += at(4, '[' + mv(-4) + body + mv(4) + '-]')
    for c in cells:
        s += at(c, '.')
    return s


def scanclear(r):
    """a non-destructive read of cell p (copy through a scratch cell), then a pointer-moving empty
    loop that really moves ([>] over non-zero cells), then [-] at the *same offset* p relative to the
    new pointer, whose value is observed by output and decides whether a later [] or counted loop
    ends: the clear after the scan names another cell than the read before it"""
    p = r.choice([1, 1, 2])
    s = ''.join(r.choice([',', '+++', '++', ',']) + '>' for _ in range(p)) + r.choice([',', '++++', ','])
    s += '[->+>+<<]>>[-<<+>>]'                       # at p: [p+1] += [p], [p] kept; now at p+2
    s += '>' + r.choice(['+', '+', '']) + '<' * (p + 3)     # a marker at p+3, back to cell 0
    s += r.choice(['[>]', '[>]', '[>]', '[>>]'])            # stops on the first zero cell
    s += '>' * p + '[-]' + r.choice(['.', '+.', '.', ''])  # offset p from where the scan stopped
    s += r.choice(['>>[]', '<[]', '>[.-]', '<<<[]', '', '[]', '>[]'])
    s += r.choice(['<<<.<.<.', '.>.>.', '+.', '<.<.'])
    return s


def stridescan(r):
    """fused scans with a stride of 2-4 cells in either direction over a strip of cells in which the
    cells *between* the visited ones are zero (or not): the scan must look at every stride-th cell
    only, and stop on the first of those that is zero"""
    st = r.choice([2, 2, 3, 4])
    n = r.randint(2, 6)                 # number of visited cells before the stop
    fw, bw = ('>', '<') if r.below(2) else ('<', '>')
    s = ''
    # lay out: visited cells non-zero, cells in between zero or non-zero at random, stop cell zero
    for i in range(n):
        s += r.choice(['+', '++', ',', '+']) + fw
        for _ in range(st - 1):
            s += r.choice(['', '', '+']) + fw
    s += bw * (n * st)                  # back to the first visited cell
    s += '[' + fw * st + ']'
    s += '+.' + fw + '.' + bw + bw + '.' + bw + '.'
    if r.below(2):
        s += bw * 2 + '[' + bw * st + ']' + '.'
    return s


def emptyspin(r):
    """divergent programs whose cycle contains nothing but branches: a loop on a cell that stays
    non-zero whose body is only loops that are skipped (or that end on the first pass), or a skipped
    loop followed directly by `[]` on a non-zero cell — every branch of the cycle is reached by a
    jump, never by falling through from a straight-line instruction"""
    pre = r.choice(['', '', '+.', ',.', '>,<'])
    init = r.choice(['+', '++', ',', ','])
    inner = ''.join('>' * d + '[' + r.choice(['.-', '-', '.', ',', '>+<-', '.[-]']) + ']' + '<' * d
                    for d in [r.randint(1, 3) for _ in range(r.randint(1, 3))])
    k = r.below(4)
    if k == 0:
        return pre + init + '[' + inner + ']' + r.choice(['', '.', '+.'])
    if k == 1:
        return pre + '>' + r.choice([',', '+++', '']) + '<' + init + '[>[.-]<]' + '.'
    if k == 2:
        return pre + init + '>' + r.choice([',', '++']) + '[.-]<[]' + '+.'
    return pre + init + '[' + '[' + inner + ']' + ']' + '.'


def deepnest(r):
    """loops nested 200-700 deep (around 255/256/257 and 511/512 in particular), skipped on a zero
    cell, entered once, or skipped inside an entered loop: counters of nesting depth must not be
    narrower than the program allows"""
    d = r.choice([200, 254, 255, 256, 257, 258, 300, 511, 512, 513, 700])
    inner = r.choice(['+', '-', '.', '>+<', ''])
    k = r.below(4)
    if k == 0:      # skipped
        return '[' + '[' * d + inner + ']' * d + ']' + '+.'
    if k == 1:      # entered: the innermost '-' ends every level
        return '+' + '[' * d + '-' + ']' * d + '+.'
    if k == 2:      # skipped inside an entered loop, with code after it
        return '+[-' + '>[' + '[' * d + inner + ']' * d + ']<' + ']' + '++.>.'
    return ',' + '[' + '[' * d + '-' + ']' * d + ']' + '>+[' + '[' * (d // 2) + '-' + ']' * (d // 2) + ']' + '<.'


def mulcounter(r):
    """loops whose own condition cell is updated multiplicatively (x := k*x + c, k != 1, through a
    scratch cell), started from a constant or an input, with or without output in the body, followed
    by code whose reachability depends on whether that loop ends: trip-count analysis must not treat
    the update as an additive step"""
    k = r.choice([2, 2, 3, 3, 4, 5])
    c = r.choice([-1, -1, -2, -3, 1, 2, -k, 0])
    init = r.choice(['+', '+', '++', '+++', ',', ','])
    upd = '>[-]<[->' + '+' * k + '<]>[-<+>]<' + ('+' * c if c >= 0 else '-' * (-c))
    pre = r.choice(['', '', '.', '>>+<<', '>>>+.<<<'])
    body = pre + upd if r.below(3) else upd + pre
    tail = r.choice(['+++.', '.', '>>-[.]++.', '>>.<<.', '>>[.-]<<+.', ''])
    return init + '[' + body + ']' + tail


def tailloop(r):
    """the program's last byte is the `]` of a counted loop that does I/O (nested or not, the counter a
    constant or an input): a budget that runs out exactly at the final branch leaves the program
    counter at the end of the text although the run is not over"""
    n = r.randint(1, 9)
    pre = r.choice(['', '', ',', '+.', '>+<', ',.'])
    body = r.choice(['.-', '-.', '.>+<-', '>.+<-', ',.-', '.[-]', '-.>,<'])
    k = r.below(4)
    if k == 0:
        return pre + '+' * n + '[' + body + ']'
    if k == 1:
        m = r.randint(1, 4)
        return pre + '+' * m + '[>' + '+' * n + '[' + body + ']<-]'
    if k == 2:
        return pre + ',[' + body + ']'
    return pre + '+' * n + '[' + body + ']' + r.choice(['', '', ' ', '\n', '.', '+'])


def shiftif(r):
    """pointer-moving `if`s (`[ x >^b [-] ]`: the body runs at most once and ends b cells away on the
    cell it clears) as the last thing of a pointer-moving loop body that moves back by the same
    amount, on data where the `if` is taken in some iterations and skipped in others — the two moves
    around the join point are adjacent in the bytecode but not always executed together"""
    n = r.randint(3, 6)
    s = ''.join(r.choice([',', ',', ',', '+', '++', '+++', '']) + '>' for _ in range(n)) + '<' * r.randint(1, n)
    for _ in range(r.randint(1, 2)):
        a, b = r.randint(0, 2), r.randint(1, 3)
        fw, bw = ('>', '<') if r.below(4) else ('<', '>')
        x = r.choice(['-', '-', '', '.', '+', '-.'])
        iff = '[' + x + fw * b + '[-]]'
        pre = r.choice(['-', '-', '-' + fw + '+' + bw, '.-', '-' + fw * (a + b + 1) + '+' + bw * (a + b + 1)])
        # moving back by a + b makes the loop stationary when the `if` is taken; moving back by a only makes
        # it stationary when the `if` is skipped — then the join point of the `if` is the loop's own closing branch
        s += '[' + pre + fw * a + iff + bw * (a + b if r.below(2) else a) + ']'
        s += r.choice(['', '>', '<', '.', '+'])
    s += r.choice(['.>.>.>.', '.<.<.', '.>.<<.>>>.', '+.>+.>+.'])
    return s


def framealias(r):
    """a store to a static offset k, then something that moves the tape pointer by a data-dependent amount (a
    scan `[>]`, a moving `if` such as `[+>[-]]`), then a blind overwrite (`,` or `[-]+c`) of the *same static
    offset* k — now a different cell — and finally the old cell is observed (printed, or steering a scan):
    offsets before and after the move name different cells, so nothing after it may kill a store before it"""
    n = r.randint(3, 5)
    s = ''.join(r.choice([',', ',', '+', '++', '']) + '>' for _ in range(n)) + '<' * n
    for _ in range(r.randint(1, 2)):
        k = r.randint(0, 2)
        fw, bw = ('>', '<') if r.below(4) else ('<', '>')
        store = r.choice(['+', '++', '+++', '[-]+++', '-', '[-]++'])
        kind = r.below(4)
        if kind == 0:        # store before a scan
            s += fw * k + store + bw * k + r.choice(['[' + fw + ']', '[' + fw * 2 + ']', '[' + fw + ']' + fw])
        elif kind == 1:      # the store is the last thing a moving `if` does to offset k (k = 0 in the old frame)
            k = 0
            s += r.choice([',', '', '+']) + '[' + store + fw * r.randint(1, 2) + '[-]]'
        elif kind == 2:      # store, then a moving `if` on another cell
            s += fw * k + store + bw * k + fw * (k + 1) + '[' + r.choice(['-', '+', '.']) + fw + '[-]]' + bw * (k + 1)
        else:                # store inside a loop that is left by a pointer move
            s += '[' + fw * k + store + bw * k + fw + ']'
        s += fw * k + r.choice([',', ',', '[-]+', '[-]++', '[-]']) + bw * k      # the blind overwrite of offset k in the new frame
        s += r.choice([bw + '.', bw * 2 + '.' + fw + '.', '.' + bw + '.' + bw + '.', fw + '.' + bw * 2 + '.', bw + '[' + bw + ']' + fw + '.'])
    s += r.choice(['.>.>.', '<.<.<.', '<<.>.>.>.>.', '>.<<.'])
    return s


def runwalk(r):
    """nested loops whose *outer* loop is left or continued through a pointer move: run-walking loops
    `[[.-]>]` (the inner loop empties a cell, the outer steps to the next one and stops at the first zero
    cell) and counted loops whose body ends in a scan, with output after the outer loop — a budget that
    expires inside the inner loop finds the outer condition cell zero"""
    n = r.randint(2, 5)
    s = ''.join(r.choice([',', ',', '+++', '++', '+']) + '>' for _ in range(n)) + '<' * n
    kind = r.below(4)
    inner = r.choice(['[.-]', '[-.]', '[->+<]', '[.-]', '[-]', '[.[-]]'])
    if kind == 0:
        s += '[' + inner + '>]'
    elif kind == 1:
        s += '>' * (n - 1) + '[' + inner + '<]'
    elif kind == 2:
        s += '>' * n + '+[-' + '<' * n + '[.>]' + '<' * r.randint(1, 3) + ']'
    else:
        s += '[' + r.choice(['', '.']) + '[' + inner + '>]' + r.choice(['', '<[<]>']) + ']'
    s += r.choice(['+.', '>+.', '.+.', '<.>+.', '++.>.'])
    return s


def ifclear(r):
    """an `if` (a loop that clears its own condition) whose body *reads* a cell x without changing it (copy
    through a scratch cell and back, or x added into several cells), and right after the `if` a clear or a
    blind overwrite of x — on data where the `if` is sometimes skipped (the condition is 0, an input, or
    cleared by an earlier loop): nothing after the join point may be merged into the body"""
    c0 = r.choice(['', '', ',', '+', ',', '++'])
    s = c0 + '>' + r.choice([',', ',', '+++', '++']) + '<'              # cell 0: condition, cell 1: x
    k = r.randint(1, 2)
    for _ in range(k):
        body = r.choice(['>[->+>+<<]>>[-<<+>>]<<<',                    # d += x, x restored
                         '>[->+>+>+<<<]>>>[-<<<+>>>]<<<<',            # d += x, e += x, x restored
                         '>[->>+<<]>>[-<<+>+>]<<<',                   # x moved away and back, copied to d
                         '>[->+>+<<]>>[-<<+>>]<[-<.>]<<'])            # ... and the copy printed
        s += '[' + body + r.choice(['[-]', '-[-]', '[-]']) + ']'
        s += '>' + r.choice(['[-]', '[-]', ',', '[-]+', '[-]++']) + '<'  # x cleared / overwritten right after the join
        s += r.choice(['>.>.<<', '>.<', '>>.<.<', '>.>.>.<<<'])
        if k == 2:
            s += r.choice([',', '+', '', '>+<' ])                     # the second `if` may run on a different condition
    s += r.choice(['.>.>.>.', '>.>.', '>>.<.<.'])
    return s


def gvnif(r):
    """a sum or product of two cells computed inside an `if` and again after it, the two operand cells having
    been used (in either order) before the `if` and again after the second computation: a value that exists only
    on one path must not be reused after the join point"""
    c, a, b = 0, 1, 3
    d1, d2, d3, d4, d5 = r.sample([2, 4, 5, 8, 9], 5)
    s = at(c, r.choice([',', ',', '', '+'])) + at(a, ',') + at(b, ',')
    first, second = (b, a) if r.below(2) else (a, b)
    # the earlier uses are real computations (a multiple of the cell), so that the operand values are numbered in this order
    s += copy_add(first, d4, k=r.randint(2, 3)) + at(d4, '.') + copy_add(second, d5, k=r.randint(2, 3)) + at(d5, '.')

    def combine(dst):
        if r.below(3) == 0:
            return mul_into(a, b, dst)
        x, y = (a, b) if r.below(2) else (b, a)
        return copy_add(x, dst) + copy_add(y, dst)
    s += mv(c) + '[' + mv(-c) + combine(d1) + at(d1, r.choice(['', '.'])) + mv(c) + '[-]]' + mv(-c)
    s += combine(d2)
    s += copy_add(a, d3) + copy_add(b, d3, k=r.randint(1, 2))
    s += at(d1, '.') + at(d2, '.') + at(d3, '.')
    return s


def scancond(r):
    """a loop whose body contains a pointer-moving inner loop (scan) and, after it, a loop or `if` on the same
    block-relative offset as the outer loop's own condition — after the scan that offset names another cell,
    which is zero in some runs: nothing known about the outer condition may be used for it (halting programs
    that would diverge if the inner loop were entered, and the reverse)"""
    n = r.randint(2, 4)
    s = ''.join(r.choice(['+', '++', ',', '', '+']) + '>' for _ in range(n)) + '<' * n
    fw, bw = ('>', '<') if r.below(4) else ('<', '>')
    inner = r.choice(['[-]+', '.', '[-]', '-', '.[-]', '+', '.-'])
    scan = r.choice(['[' + fw + ']', '[' + fw * 2 + ']', '[' + fw + ']' + fw])
    pre = r.choice(['-', '-', '[-]', '-.', ''])
    a = r.randint(1, 2)
    s += r.choice(['+', '', ',']) + '[' + pre + fw * a + scan + bw * a + '[' + inner + ']' + r.choice(['', '', bw, '-']) + ']'
    s += r.choice(['+++.', '+[.]', '.', '+.>.', '++.<.'])
    return s


def subconst(r):
    """a do-while loop without net pointer movement and with a data-dependent trip count that stores a constant
    into a cell and prints it, and after the loop that cell subtracted from / added to a value that is not
    known at compile time: the bytecode generator still knows the constant the optimiser has forgotten"""
    k = r.randint(1, 5)
    c = r.choice(['+' * k, '-' * k, '+' * (k + 120)])
    body = r.choice(['>[-]' + c + '.<,', '>[-]' + c + '.<-', '>>[-]' + c + '.<<,', '>[-]' + c + '.>[-]+.<<,'])
    s = r.choice(['+', ',', '++']) + '[' + body + ']'
    op = r.choice(['[->-<]', '[->+<]', '[->--<]', '[->-<]'])
    s += '>>' + r.choice([',', ',', '+++']) + '<' + op + '>.' + r.choice(['', '<.', '>.'])
    return s


def jmpsweep(r):
    """loops (with an output, so that they survive optimisation, iterating at least twice) whose body is a
    chain of k small independent instructions, j of them in a one-byte-longer encoding: over the population
    the machine-code distance between a loop head and its closing branch takes every value in a wide range
    around the reach of a short jump (126/127/128 bytes)"""
    k = r.randint(14, 24) if r.below(4) else r.randint(3, 30)
    j = r.randint(0, k)
    fw, bw = ('>', '<') if r.below(3) else ('<', '>')
    body = ''.join(fw + (r.choice(['++', '--']) if i < j else r.choice(['+', '-'])) for i in range(k)) + bw * k
    if r.below(3) == 0:
        body = body + r.choice(['>+<', '<->', '+-+', '>>+<<'])
    return r.choice(['++', '+++', ',']) + '[' + r.choice(['.', '', '.']) + body + r.choice(['.-', '-.', '-']) + ']' + r.choice(['.', '>.', '<.>.', '+.'])


def evenstep(r):
    """loops that change their own condition cell by an even constant per iteration (2, 4, 6, -2, ...) starting
    from an input or from a value computed by a loop the optimiser cannot fold: they terminate exactly when
    the start value is a suitable multiple (else they run through the whole cycle of the cell width or for
    ever), and their effect on another cell is observed by a later loop or output"""
    step = r.choice(['--', '++', '----', '++++', '------', '--', '++'])
    src = r.choice([',', ',', ',+', ',[->+<]>', '+++[->++<]>'])
    eff = r.choice(['>+<', '>++<', '>-<', '<+>', '>+>+<<'])
    s = src + '[' + step + eff + ']'
    s += r.choice(['>[.]', '>.', '>[.-]', '>[-.]', '<.>>.', '>[>+<-]>.'])
    return s


def ifedge(r):
    """`if`s whose block never touches the condition cell, the condition being the outermost cell the program
    ever names: a block that ends in an infinite loop (`[<[-]+[]]`), or two loops that close together after a
    pointer move (`[<[.,<]]`), inside an input-driven loop; both directions and several distances"""
    fw, bw = ('>', '<') if r.below(2) else ('<', '>')
    a = r.randint(2, 4)
    if r.below(2):
        b = r.randint(1, a - 1)
        blk = '[' + bw * b + r.choice(['[-]+[]', '[-]+[.]', '[-]-[]', '+[]']) + ']'
        s = ',[' + fw * a + blk + bw * a + ',]'
    else:
        blk = '[' + bw + '[' + r.choice(['.,', ',', '.-', '-']) + bw + ']]'
        s = ',[' + fw * a + blk + bw * (a - 2) + ',]'
    return s + r.choice(['', '.', '+.'])


GENS = {"evenstep": evenstep, "ifedge": ifedge, "jmpsweep": jmpsweep, "scancond": scancond, "subconst": subconst, "gvnif": gvnif, "ifclear": ifclear, "framealias": framealias, "runwalk": runwalk, "scanclear": scanclear, "stridescan": stridescan, "emptyspin": emptyspin, "deepnest": deepnest, "mulcounter": mulcounter, "tailloop": tailloop, "loopio": loopio, "shiftif": shiftif, "ifnest": ifnest, "uniform": uniform, "nestuse": nestuse, "longrun": longrun, "iopressure": iopressure, "squares": squares, "macro": macro, "pressure": pressure, "affine": affine, "bigconst": bigconst,
        "roam": roam, "diverge": diverge}


def shrink_program(src, still_fails, budget=300):
    """bracket-aware delta debugging: remove balanced chunks / single commands while still failing"""
    def balanced(s):
        d = 0
        for ch in s:
            if ch == '[':
                d += 1
            elif ch == ']':
                d -= 1
                if d < 0:
                    return False
        return d == 0
    cur = src
    tries = 0
    changed = True
    while changed and tries < budget:
        changed = False
        n = len(cur)
        size = max(1, n // 2)
        while size >= 1 and tries < budget:
            i = 0
            while i + size <= len(cur) and tries < budget:
                cand = cur[:i] + cur[i + size:]
                if balanced(cand) and cand != cur:
                    tries += 1
                    if still_fails(cand):
                        cur = cand
                        changed = True
                        continue
                i += 1
            size //= 2
    return cur

"""Form-level correspondence (DESIGN §4 C02/C03): every normalised instruction shape, wrapped in
load-operands / instruction / store-results, is run by the bytecode interpreter and by the baseline
JIT (on the CPU) and compared with the BC.v model, for random contents, three liveness variants and
four widths."""
from . import common as C

OBS_TEMPS = [0, 1, 2, 4, 5, 11, 12]
CELL_OF = {0: 4, 1: 5, 2: 6, 4: 7, 5: 8, 11: 9, 12: 10}


def boundary_imms(w):
    """immediates at the encoding boundaries of the x86 instruction set (imm8 / imm32 sign extension,
    byte and dword wrap) — substituted for the generic immediate 5 of a shape"""
    M = 1 << w
    vals = [127, 128, 129, 200, 255, 256, 32767, 32768, 65535, 65536, (1 << 31) - 1, 1 << 31, (1 << 32) - 1, 1 << 32, (1 << 63) - 1, 1 << 63]
    out = []
    for v in vals:
        for x in (v, M - v):
            if 5 < x < M - 5 and x not in out:
                out.append(x)
    return out


def with_boundary_imms(shapes, w, stride=1, phase=0):
    """(shape, variants) list: every shape with all liveness variants, plus, for shapes whose
    immediate is the generic 5, copies with each boundary immediate (exact liveness only)"""
    out = [(sh, ("exact", "alllive", "deadsrc")) for sh in shapes]
    k = 0
    for sh in shapes:
        body = sh[:-2] if sh.endswith(" F") else sh
        toks = body.split()
        if "#" in toks and toks[toks.index("#") + 1] == "5":
            for v in boundary_imms(w):
                k += 1
                if (k + phase) % stride:
                    continue
                t = list(toks)
                t[t.index("#") + 1] = str(v)
                out.append((" ".join(t) + (" F" if sh.endswith(" F") else ""), ("exact",)))
    return out


def temps_in(toks):
    out = []
    i = 0
    while i < len(toks):
        if toks[i] == "t":
            out.append(int(toks[i + 1]))
            i += 2
        else:
            i += 1
    return out


def build(shape, w, rng, variant, bigimm, want_instr=False):
    M = 1 << w
    toks = shape.split()
    if bigimm and "#" in toks:
        k = toks.index("#")
        toks[k + 1] = str(((1 << 40) + 12345) % M if w > 32 else ((1 << 31) + 7) % M if w == 32 else (M - 2))
    used = temps_in(toks)
    dst_tmp = int(toks[2]) if toks[1] == "t" else None
    srcs = [t for t in used[(1 if dst_tmp is not None else 0):]]
    pre = []
    for t in OBS_TEMPS:
        pre.append("65535 c t %d # %d" % (t, rng.choice([0, 1, M - 1, M >> 1, rng.below(M), rng.below(256)])))
    for k in (0, 1):
        pre.append("65535 c m %d # %d" % (k, rng.choice([0, 1, M - 1, rng.below(M), rng.below(256)])))
    if variant == "deadsrc":
        observed = [t for t in OBS_TEMPS if t not in srcs or t == dst_tmp]
    else:
        observed = list(OBS_TEMPS)
    live = 0
    for t in observed:
        if t < 11 and t != dst_tmp:
            live |= 1 << t
    if variant == "alllive":
        live = 65535
    post = ["65535 c m %d t %d" % (CELL_OF[t], t) for t in observed]
    insts = pre + ["%d %s" % (live, " ".join(toks))] + post
    if want_instr:
        return "14 -2 12 %d %s" % (len(insts), " ".join(insts)), "%d %s" % (live, " ".join(toks)), len(pre)
    return "14 -2 12 %d %s" % (len(insts), " ".join(insts))


def shape_signature(sh):
    """(operation, kind of each operand, which operands coincide): the instruction selectors branch on this"""
    toks = (sh[:-2] if sh.endswith(" F") else sh).split()
    locs, i = [], 1
    while i < len(toks):
        locs.append((toks[i], toks[i + 1]))
        i += 2

    def kind(l):
        if l[0] == "t":
            return "r" if int(l[1]) < 11 else "s"
        return l[0]
    eq = tuple(locs[i] == locs[j] for i in range(len(locs)) for j in range(i + 1, len(locs)))
    return (toks[0], tuple(kind(l) for l in locs), eq, sh.endswith(" F"))


def sample_shapes(shapes, sample, seed):
    """a 1-in-`sample` selection of the shapes that still contains at least one shape of every signature
    (so that every branch of the selectors is exercised by every run, whatever the seed)"""
    if not sample:
        return shapes
    keep = [(i * 7919 + seed) % sample == 0 for i in range(len(shapes))]
    seen = set(shape_signature(s) for s, k in zip(shapes, keep) if k)
    for i, s in enumerate(shapes):
        g = shape_signature(s)
        if g not in seen:
            seen.add(g)
            keep[i] = True
    return [s for s, k in zip(shapes, keep) if k]


def run_forms(res, backends, widths=(8, 16, 32, 64), sample=None, max_report=4):
    rng = C.Rng(res.seed * 104729 + 3)
    driver = C.build_driver()
    hv = C.build_harness("debug")
    hvr = C.build_harness("release")
    stats = {"forms": 0, "runs": 0, "disagreements": 0}
    rep = 0
    for w in widths:
        shapes = C.run_lines(driver, ["shapes|%d" % w], shards=1)[0].split(";")
        shapes = sample_shapes(shapes, sample, res.seed)
        tests = []
        for sh, variants in with_boundary_imms(shapes, w, stride=max(1, (sample or 1) // 2), phase=res.seed):
            fused = sh.endswith(" F")
            body = sh[:-2] if fused else sh
            for variant in variants:
                for big in ((False, True) if "#" in body and w >= 32 and len(variants) > 1 else (False,)):
                    tests.append((build(body, w, rng, variant, big), fused, body, variant))
        stats["forms"] += len(shapes)
        mlines = ["bcmem|%d|0|10|%s" % (w, t[0]) for t in tests]
        model = C.run_lines(driver, mlines)
        for backend in backends:
            for exe, prof in ((hv, "debug"), (hvr, "release")):
                if backend == "jit" and prof == "release":
                    continue
                sel = [i for i, t in enumerate(tests) if not (t[1] and backend == "jit")]
                out = C.run_lines(exe, ["runbcmem|%s|%d|0|10|%s" % (backend, w, tests[i][0]) for i in sel])
                for i, o in zip(sel, out):
                    stats["runs"] += 1
                    if o != model[i]:
                        stats["disagreements"] += 1
                        if rep < max_report:
                            rep += 1
                            res.violation("instruction form `%s` (width %d, %s liveness) executed by the %s (%s build) gives cells %s, the bytecode semantics BC.v gives %s"
                                          % (tests[i][2], w, tests[i][3], "baseline JIT" if backend == "jit" else "bytecode interpreter", prof, o[:120], model[i][:120]),
                                          {"form_case": "runbcmem|%s|%d|0|10|%s" % (backend, w, tests[i][0]), "implementation": o, "model": model[i], "profile": prof})
    return stats


def run_x86_forms(res, widths=(8, 16, 32, 64), sample=None, max_report=4):
    """Certified per-form validation of the JIT's arithmetic instruction selection: the machine
    code emitted for every normalised Copy/Add/Sub/Mul shape x liveness variant (x an immediate
    beyond 32 bits) is disassembled, translated to X86.v syntax and checked by the extracted
    [X86.form_ok] (sound for all operand values by theorem C03_form_sound).  A rejected form is
    re-run on the CPU with fresh random contents to look for a concrete failing input."""
    from . import x86tr
    rng = C.Rng(res.seed * 15485863 + 11)
    driver = C.build_driver()
    hv = C.build_harness("debug")
    stats = {"forms_checked": 0, "accepted": 0, "rejected": 0, "unsupported": 0, "instructions": 0}
    rep = 0
    for w in widths:
        shapes = [s for s in C.run_lines(driver, ["shapes|%d" % w], shards=1)[0].split(";") if not s.endswith(" F")]
        shapes = sample_shapes(shapes, sample, res.seed)
        tests = []
        for sh, variants in with_boundary_imms(shapes, w, stride=max(1, (sample or 1) // 2), phase=res.seed):
            for variant in variants:
                for big in ((False, True) if "#" in sh and w >= 32 and len(variants) > 1 else (False,)):
                    prog, instr, idx = build(sh, w, rng, variant, big, want_instr=True)
                    tests.append((sh, variant, big, prog, instr, idx))
        outs = C.run_lines(hv, ["mcinstr|%d|%d|%s" % (w, t[5], t[3]) for t in tests])
        for t, o in zip(tests, outs):
            if not o.startswith("ok "):
                raise C.CheckFailure("mcinstr failed for form %s: %s" % (t[0], o[:200]))
        dis = x86tr.disasm_many([o.split()[1] for o in outs])
        lines, meta = [], []
        for t, ins in zip(tests, dis):
            stats["forms_checked"] += 1
            stats["instructions"] += len(ins)
            try:
                code = ";".join(x86tr.translate(i, w) for i in ins)
            except x86tr.Unsupported as e:
                stats["unsupported"] += 1
                if rep < max_report:
                    rep += 1
                    res.violation("the JIT emits code outside the modelled x86 subset for instruction form `%s` (width %d, %s): %s; code: %s"
                                  % (t[0], w, t[1], e, " ; ".join(ins)[:300]),
                                  {"form_case": "mcinstr|%d|%d|%s" % (w, t[5], t[3]), "disassembly": ins, "theorem": "C03_form_sound"}, no_failing_input=True)
                continue
            lines.append("x86form|%d|14 -2 12 1 %s|%s" % (w, t[4], code))
            meta.append((t, ins))
        verdicts = C.run_lines(driver, lines)
        for (t, ins), v, line in zip(meta, verdicts, lines):
            if v == "ok":
                stats["accepted"] += 1
                continue
            stats["rejected"] += 1
            if rep >= max_report:
                continue
            rep += 1
            # look for a concrete operand assignment on which the machine code misbehaves
            found = None
            for attempt in range(40):
                prog = build(t[0], w, rng, t[1], t[2])
                m = C.run_lines(driver, ["bcmem|%d|0|10|%s" % (w, prog)], shards=1)[0]
                a = C.run_lines(hv, ["runbcmem|jit|%d|0|10|%s" % (w, prog)], shards=1)[0]
                if a != m:
                    found = (prog, a, m)
                    break
            what = "the machine code the JIT emits for instruction form `%s` (width %d, %s liveness) is rejected by the certified checker X86.form_ok (%s): %s" % (t[0], w, t[1], v, " ; ".join(ins)[:300])
            if found:
                res.violation(what + "; on the CPU it gives cells %s where the bytecode semantics gives %s" % (found[1][:100], found[2][:100]),
                              {"form_case": "runbcmem|jit|%d|0|10|%s" % (w, found[0]), "implementation": found[1], "model": found[2], "x86form": line, "disassembly": ins})
            else:
                res.violation(what, {"x86form": line, "disassembly": ins, "theorem": "C03_form_sound"}, no_failing_input=True)
    return stats


def run_x86_calls(res, widths=(8, 16, 32, 64), masks=None, max_report=4):
    """Certified validation of the JIT's runtime-call templates: the code emitted for Inp/Out under
    every mask of live caller-saved temporaries (x a few masks of the callee-saved ones) is
    disassembled, translated to X86Call.v syntax (the conditional jump must target the termination
    path) and checked by the extracted [X86Call.call_ok] (theorems C03_input_template /
    C03_output_template).  A rejected template is re-run on the CPU (a small program around the
    I/O instruction, failing and non-failing environments) to look for a concrete failing input."""
    from . import x86tr
    driver = C.build_driver()
    hv = C.build_harness("debug")
    stats = {"templates_checked": 0, "accepted": 0, "rejected": 0, "unsupported": 0}
    rep = 0
    masks = masks or range(128)
    for w in widths:
        tests = []
        for hi in masks:
            for lo in (0, 15, 5):
                live = (hi << 4) | lo
                for instr in ("i -1", "i 2", "o 1", "o -2"):
                    tests.append((live, instr, "14 -2 12 1 %d %s" % (live, instr)))
        outs = C.run_lines(hv, ["mcinstr|%d|0|%s" % (w, t[2]) for t in tests])
        for t, o in zip(tests, outs):
            if not o.startswith("ok "):
                raise C.CheckFailure("mcinstr failed for %s: %s" % (t[2], o[:200]))
        dis = x86tr.disasm_many([o.split()[1] for o in outs])
        lines, meta = [], []
        for t, o, ins in zip(tests, outs, dis):
            stats["templates_checked"] += 1
            _, hx, a, term = o.split()
            try:
                code = ";".join(x86tr.translate_call(i, w, int(a), int(term)) for i in ins)
            except x86tr.Unsupported as e:
                stats["unsupported"] += 1
                if rep < max_report:
                    rep += 1
                    res.violation("the JIT's runtime-call template for `%s` (width %d, live mask %#x) is outside the modelled subset: %s; code: %s"
                                  % (t[1], w, t[0], e, " ; ".join(ins)[:400]),
                                  {"template_case": "mcinstr|%d|0|%s" % (w, t[2]), "disassembly": ins, "theorem": "C03_input_template/C03_output_template"}, no_failing_input=True)
                continue
            lines.append("x86call|%s|%s" % (t[2], code))
            meta.append((t, ins))
        verdicts = C.run_lines(driver, lines)
        for (t, ins), v, line in zip(meta, verdicts, lines):
            if v == "ok":
                stats["accepted"] += 1
                continue
            stats["rejected"] += 1
            if rep < max_report:
                rep += 1
                res.violation("the runtime-call template the JIT emits for `%s` (width %d, live mask %#x) is rejected by the certified checker X86Call.call_ok (%s): %s"
                              % (t[1], w, t[0], v, " ; ".join(ins)[:400]),
                              {"x86call": line, "disassembly": ins, "theorem": "C03_input_template/C03_output_template"}, no_failing_input=True)
    return stats


def run_jit_programs(res, cases, levels, max_report=4, limited=False, safe=True):
    """Per-instruction certified validation of the machine code of whole programs: every generated
    program is compiled once (bytecode + machine code + code offset of each bytecode instruction);
    each instruction's code is disassembled and handed to the certified checker of its kind —
    arithmetic: X86.form_ok, Inp/Out: X86Call.call_ok, BrZ/BrNZ: X86Call.br_ok plus the check that
    the jump lands on the code of instruction pc+off, Noop: no code, Mov: X86Mov.mov_ok (the emitted code equals the template whose behaviour is
    theorem C03_mov_template; the jb must jump to the end of the template)."""
    from . import x86tr
    from . import pipeline as P
    driver = C.build_driver()
    hv = C.build_harness("debug")
    stats = {"programs": 0, "instructions": 0, "accepted": {"arith": 0, "io": 0, "branch": 0, "noop": 0, "mov": 0},
             "rejected": 0, "unsupported": 0}
    rep = 0
    kind_of = {"m": "mov", "a": "arith", "u": "arith", "x": "arith", "c": "arith", "i": "io", "o": "io", "z": "branch", "nz": "branch"}
    for level in levels:
        outs = C.run_lines(hv, ["mcprog|%d|%d|%d|%d|%s" % (c.w, level, 1 if limited else 0, 1 if safe else 0, P.hexs(c.src)) for c in cases])
        jobs = []
        frames = []
        for c, o in zip(cases, outs):
            if not o.startswith("ok "):
                continue
            stats["programs"] += 1
            bc, hx, locs, term = [x.strip() for x in o[3:].split(" | ")]
            hdr, ins = x86tr.split_bc(bc)
            locs = [int(x) for x in locs.split(",")]
            code = bytes.fromhex(hx)
            if len(locs) != len(ins) + 1:
                raise C.CheckFailure("mcprog: %d locations for %d instructions" % (len(locs), len(ins)))
            frames.append((c, level, hdr, code[:locs[0]].hex(), code[locs[-1]:].hex(), int(term) - locs[-1], len(code) - locs[-1]))
            for i, (live, tk) in enumerate(ins):
                jobs.append((c, i, tk, live, code[locs[i]:locs[i + 1]].hex(), locs, int(term), level, hdr))
        # prologue / epilogue: the frame holds every stack temporary and keeps the stack 16-byte aligned
        fd = x86tr.disasm_many([f[3] for f in frames] + [f[4] for f in frames])
        flines, fmeta = [], []
        for k, f in enumerate(frames):
            try:
                pushes, sub, jtarget = x86tr.frame_of(fd[k], fd[len(frames) + k], f[5])
                # the `return 1` path must join the common tail right after `mov eax, 0` (5 or 6 bytes after the termination label)
                if not (f[5] < jtarget < f[6]):
                    raise x86tr.Unsupported("epilogue jump target %#x outside the tail" % jtarget)
                flines.append("x86frame|%s|%d|%d" % (f[2][0], pushes, sub))
                fmeta.append(f)
            except x86tr.Unsupported as e:
                stats["unsupported"] += 1
                if rep < max_report:
                    rep += 1
                    res.violation("JIT prologue/epilogue of %r (width %d, level %d) is not the expected frame code: %s" % (f[0].src[:150], f[0].w, f[1], str(e)[:300]),
                                  {"case": f[0].to_json(), "backend": "jit", "level": f[1]}, no_failing_input=True)
        for f, v in zip(fmeta, C.run_lines(driver, flines)):
            if v == "ok":
                stats["accepted"]["frame"] = stats["accepted"].get("frame", 0) + 1
            else:
                stats["rejected"] += 1
                if rep < max_report:
                    rep += 1
                    res.violation("JIT frame of %r (width %d, level %d, %s temporaries) does not hold the stack temporaries or misaligns the stack" % (f[0].src[:150], f[0].w, f[1], f[2][0]),
                                  {"case": f[0].to_json(), "backend": "jit", "level": f[1]}, no_failing_input=True)
        dis = x86tr.disasm_many([j[4] for j in jobs])
        lines, meta = [], []
        for j, di in zip(jobs, dis):
            c, i, tk, live, _, locs, term, lvl, hdr = j
            stats["instructions"] += 1
            k, w = tk[0], c.w
            one = "14 -2 12 1 %s %s" % (live, " ".join(tk))
            try:
                if k == "n":
                    if di:
                        raise x86tr.Unsupported("code emitted for a no-op: " + " ; ".join(di))
                    stats["accepted"]["noop"] += 1
                    continue
                if k == "m":
                    lines.append("x86mov|%d|14 %s %s 1 %s %s|%s" % (w, j[8][1], j[8][2], live, " ".join(tk), x86tr.translate_mov(di, w, len(j[4]) // 2)))
                    meta.append((j, di))
                    continue
                if k in "auxc":
                    lines.append("x86form|%d|%s|%s" % (w, one, ";".join(x86tr.translate(t, w) for t in di)))
                elif k in ("i", "o"):
                    lines.append("x86call|%s|%s" % (one, ";".join(x86tr.translate_call(t, w, locs[i], term) for t in di)))
                elif k in ("z", "nz"):
                    if limited:          # the budget check comes first
                        lines.append("x86limit|%s" % x86tr.translate_limit(di[:5], locs[i], term))
                        meta.append((j, di))
                        di = di[5:]
                    lines.append("x86br|%s|%s" % (one, x86tr.translate_br(di, w, locs[i], locs[i + int(tk[2])])))
                else:
                    raise x86tr.Unsupported("bytecode instruction kind " + k)
                meta.append((j, di))
            except x86tr.Unsupported as e:
                stats["unsupported"] += 1
                if rep < max_report:
                    rep += 1
                    res.violation("JIT code of instruction %d (`%s`) of %r (width %d, level %d) is outside the modelled subset: %s"
                                  % (i, " ".join(tk), c.src[:150], w, lvl, str(e)[:300]),
                                  {"case": c.to_json(), "backend": "jit", "level": lvl, "instruction": tk, "disassembly": di}, no_failing_input=True)
        verdicts = C.run_lines(driver, lines)
        for (j, di), v, line in zip(meta, verdicts, lines):
            if v == ("ok-unchecked" if (line.startswith("x86mov") and not safe) else "ok"):
                key = "limit" if line.startswith("x86limit") else kind_of[j[2][0]]
                stats["accepted"][key] = stats["accepted"].get(key, 0) + 1
                continue
            stats["rejected"] += 1
            if rep < max_report:
                rep += 1
                res.violation("JIT code of instruction %d (`%s`, live %s) of %r (width %d, level %d) is rejected by its certified checker (%s): %s"
                              % (j[1], " ".join(j[2]), j[3], j[0].src[:150], j[0].w, j[7], v, " ; ".join(di)[:300]),
                              {"case": j[0].to_json(), "backend": "jit", "level": j[7], "checker_line": line, "disassembly": di}, no_failing_input=True)
    return stats

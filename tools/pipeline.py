"""Shared differential machinery for the program-level properties (C01-C08, C10, C11)."""
import os
from . import common as C
from . import gen

FUEL = 400000
TIMEOUT_MS = 10000


def hexs(b):
    if isinstance(b, str):
        b = b.encode("utf-8")
    return b.hex()


def env_text(inp=b"", absent=False, in_fail=None, out_present=True, out_fail=None):
    return "%s,%d,%s,%d,%s" % (inp.hex(), 1 if absent else 0, "-" if in_fail is None else in_fail,
                               1 if out_present else 0, "-" if out_fail is None else out_fail)


class Case:
    __slots__ = ("src", "w", "env", "gen", "canon", "meta")

    def __init__(self, src, w, env, gen_name):
        self.src = src
        self.w = w
        self.env = env
        self.gen = gen_name
        self.canon = None
        self.meta = {}

    def key(self):
        return (self.src, self.w, self.env)

    def to_json(self):
        return {"src": self.src, "w": self.w, "env": self.env, "gen": self.gen, "canonical": self.canon}


def split_result(line):
    """'<status> <fin> <trace...>' -> (status, fin, trace)"""
    if line is None:
        return ("CRASH", "?", "")
    f = line.split(" ", 2)
    if len(f) < 3:
        return (line, "?", "")
    return (f[0], f[1], f[2])


def corpus_cases():
    """minimised failures and hand-written stress inputs; always run first"""
    path = os.path.join(C.VERIF, "corpus", "programs.txt")
    out = []
    if os.path.exists(path):
        for line in open(path):
            line = line.rstrip("\n")
            if not line or line.startswith("#"):
                continue
            f = line.split("|")
            w = int(f[0])
            inp = bytes.fromhex(f[1])
            out.append(Case(f[2], w, env_text(inp), "corpus"))
    return out


def build_population(rng, counts, widths=(8, 8, 8, 16, 32, 64), with_corpus=True):
    cases = corpus_cases() if with_corpus else []
    seen = set(c.key() for c in cases)
    for name, n in counts.items():
        g = gen.GENS[name]
        for _ in range(n):
            r = rng.fork()
            src = g(r)
            w = r.choice(list(widths))
            inp = gen.random_input(r)
            c = Case(src, w, env_text(inp), name)
            if c.key() in seen:
                continue
            seen.add(c.key())
            cases.append(c)
    return cases


def canonical(driver, cases, fuel=FUEL):
    lines = ["bf|%d|%d|%s|%s" % (c.w, fuel, hexs(c.src), c.env) for c in cases]
    res = C.run_lines(driver, lines)
    for c, r in zip(cases, res):
        c.canon = r
    return res


def halting(cases):
    return [c for c in cases if c.canon and c.canon.startswith(("done ", "stopped "))]


def run_backend_lines(cases, backend, level, mode="exec", budget=0, timeout=TIMEOUT_MS):
    return ["run|%s|%d|%d|%s|%d|%d|%s|%s" % (backend, c.w, level, mode, budget, timeout, hexs(c.src), c.env) for c in cases]


def trace_of(line):
    return split_result(line)[2]


def nontrivial(c):
    """a program counts as non-trivial if it contains a loop and its canonical run has events"""
    return "[" in c.src and c.canon is not None and split_result(c.canon)[2] not in ("", "-")


def shrink_case(case, fails):
    """fails(src) -> bool ; returns a locally minimal failing source"""
    try:
        return gen.shrink_program(case.src, fails, budget=120)
    except Exception:
        return case.src


# ------------------------------------------------------------------ generic validation
def validate(res, prop, cases, backend, levels, profiles=("debug",), dump=None, fuel=FUEL,
             what="I/O event sequence", max_report=4):
    """For every canonically halting case and every level: implementation trace must equal the
    canonical trace; if `dump` is 'ir' or ('bc', regs, fuse) the dumped representation is also run
    through the proved model semantics and must equal the canonical trace (translation validation).
    Returns a dict of counters."""
    driver = C.build_driver()
    H = halting(cases)
    stats = {"programs": len(H), "pairs": 0, "impl_disagreements": 0, "tv_disagreements": 0,
             "engine_disagreements": 0, "dump_failures": 0}
    reported = 0
    for profile in profiles:
        hv = C.build_harness(profile)
        for level in levels:
            impl = C.run_lines(hv, run_backend_lines(H, backend, level))
            model = None
            dumps = None
            if dump and profile == profiles[0]:
                if dump == "ir":
                    dl = ["dumpir|%d|%d|%s" % (c.w, level, hexs(c.src)) for c in H]
                else:
                    dl = ["dumpbc|%d|%d|%d|%d|%s" % (c.w, level, dump[1], 1 if dump[2] else 0, hexs(c.src)) for c in H]
                dumps = C.run_lines(hv, dl)
                ml = []
                for c, d in zip(H, dumps):
                    if d.startswith("ok "):
                        ml.append("%s|%d|0|0|%d|%s|%s" % ("ir" if dump == "ir" else "bc", c.w, fuel, d[3:], c.env))
                    else:
                        ml.append("# no dump")
                idx = [i for i, l in enumerate(ml) if not l.startswith("#")]
                mres = C.run_lines(driver, [ml[i] for i in idx])
                model = [None] * len(H)
                for i, r in zip(idx, mres):
                    model[i] = r
            for i, c in enumerate(H):
                stats["pairs"] += 1
                want = trace_of(c.canon)
                st, fin, tr = split_result(impl[i])
                bad = None
                if st != "ok" or tr != want:
                    bad = "implementation"
                    stats["impl_disagreements"] += 1
                if dumps is not None:
                    if not dumps[i].startswith("ok "):
                        stats["dump_failures"] += 1
                        bad = bad or "dump"
                    elif model[i] is not None:
                        mst, mfin, mtr = split_result(model[i])
                        if mst == "fuel":
                            pass
                        elif mtr != want:
                            stats["tv_disagreements"] += 1
                            bad = bad or "validated-representation"
                        if mst != "fuel" and st == "ok" and mtr != tr:
                            stats["engine_disagreements"] += 1
                if bad and reported < max_report:
                    reported += 1
                    replay = {"case": c.to_json(), "backend": backend, "level": level, "profile": profile,
                              "implementation": impl[i], "canonical": c.canon,
                              "dump": dumps[i] if dumps else None, "model_on_dump": model[i] if model else None,
                              "which": bad}
                    # shrink against the implementation
                    if bad == "implementation":
                        def fails(src, c=c, level=level, hv=hv):
                            cc = Case(src, c.w, c.env, c.gen)
                            canonical(driver, [cc])
                            if not cc.canon.startswith(("done ", "stopped ")):
                                return False
                            r = C.run_lines(hv, run_backend_lines([cc], backend, level), shards=1)[0]
                            s2, _, t2 = split_result(r)
                            return s2 != "ok" or t2 != trace_of(cc.canon)
                        small = shrink_case(c, fails)
                        replay["minimised_src"] = small
                    res.violation("%s: backend %s level %d width %d (%s build) differs from canonical %s on %r input %s: got %s want %s"
                                  % (bad, backend, level, c.w, profile, what, replay.get("minimised_src", c.src)[:200], c.env, impl[i][:200], c.canon[:200]), replay)
    return stats


def distribution(cases):
    d = {}
    for c in cases:
        k = "%s/w%d" % (c.gen, c.w)
        d[k] = d.get(k, 0) + 1
    outcomes = {}
    for c in cases:
        o = (c.canon or "?").split(" ")[0]
        outcomes[o] = outcomes.get(o, 0) + 1
    lens = sorted(len(c.src) for c in cases)
    return {"by_generator_width": d, "canonical_outcomes": outcomes,
            "source_length_min_med_max": [lens[0], lens[len(lens) // 2], lens[-1]] if lens else []}

#!/bin/bash
# usage: coqshow.sh <file.v> <line> : print the goals just before <line> (1-based) of the file
f="$1"; n="$2"
tmp=$(mktemp -d)
head -n $((n-1)) "$f" > "$tmp/Show_tmp.v"
echo "Show. Abort." >> "$tmp/Show_tmp.v"
cd /verif/coq
args=$(grep '^-Q' _CoqProject | tr '\n' ' ')
timeout 300 coqc $args "$tmp/Show_tmp.v" 2>&1 | tail -n ${3:-40}
rm -rf "$tmp"

"""Certificate inference for the IR -> bytecode translation validator (Engines/TV.v, theorem
C02_validated_translation).  UNTRUSTED: this module co-executes the dumped IR and bytecode
symbolically, guesses the facts that hold at every loop head and if-join (iterated weakening) and
prints them as a certificate; the extracted Coq checker [tv_check] re-checks everything, so a bug
here can only make a certificate be rejected, never make a wrong translation be accepted."""


class Reject(Exception):
    pass


# ---- polynomials over atoms: dict {tuple(sorted atoms): coeff}, atoms = ('c',k) | ('t',t) | ('i',j)
def pconst(c, M):
    c %= M
    return {(): c} if c else {}


def patom(a):
    return {(a,): 1}


def padd(p, q, M, sign=1):
    r = dict(p)
    for m, c in q.items():
        v = (r.get(m, 0) + sign * c) % M
        if v:
            r[m] = v
        else:
            r.pop(m, None)
    return r


def pmul(p, q, M):
    r = {}
    for m1, c1 in p.items():
        for m2, c2 in q.items():
            m = tuple(sorted(m1 + m2))
            v = (r.get(m, 0) + c1 * c2) % M
            if v:
                r[m] = v
            else:
                r.pop(m, None)
    return r


def psubst(p, f, M):
    out = {}
    for m, c in p.items():
        t = pconst(c, M)
        for a in m:
            t = pmul(t, f(a), M)
        out = padd(out, t, M)
    return out


def atoms(p):
    return set(a for m in p for a in m)


# ---- parsing the dumps
def parse_ir(toks):
    def block(i):
        assert toks[i] == "{"
        shift = int(toks[i + 1]); i += 2
        insts = []
        while toks[i] != "}":
            t = toks[i]
            if t == "o":
                insts.append(("o", int(toks[i + 1]))); i += 2
            elif t == "i":
                insts.append(("i", int(toks[i + 1]))); i += 2
            elif t == "c":
                n = int(toks[i + 1]); i += 2
                calcs = []
                for _ in range(n):
                    v = int(toks[i]); np = int(toks[i + 1]); i += 2
                    parts = []
                    for _ in range(np):
                        c = int(toks[i]); nv = int(toks[i + 1]); i += 2
                        vs = [int(x) for x in toks[i:i + nv]]; i += nv
                        parts.append((c, vs))
                    calcs.append((v, parts))
                insts.append(("c", calcs))
            elif t == "l":
                cond = int(toks[i + 1]); once = toks[i + 2] == "1"
                (sh, body), i = block(i + 3)
                insts.append(("l", cond, sh, body, once))
            elif t == "f":
                cond = int(toks[i + 1])
                (sh, body), i = block(i + 2)
                insts.append(("f", cond, sh, body))
            else:
                raise ValueError(t)
        return (shift, insts), i + 1
    b, _ = block(0)
    return b


def parse_bc(toks):
    temps, mn, mx, n = (int(x) for x in toks[:4])
    i = 4
    code = []

    def loc(i):
        k = toks[i]
        return ({"m": "m", "mz": "mz", "t": "t", "#": "#"}[k], int(toks[i + 1])), i + 2
    for _ in range(n):
        i += 1  # live
        t = toks[i]
        if t == "n":
            code.append(("n",)); i += 1
        elif t in ("s", "z", "nz"):
            code.append((t, int(toks[i + 1]), int(toks[i + 2]))); i += 3
        elif t in ("m", "i", "o"):
            code.append((t, int(toks[i + 1]))); i += 2
        elif t in ("a", "u", "x"):
            d, i = loc(i + 1); a, i = loc(i); b, i = loc(i)
            code.append((t, d, a, b))
        elif t == "c":
            d, i = loc(i + 1); a, i = loc(i)
            code.append((t, d, a))
        else:
            raise ValueError(t)
    return code


# ---- symbolic state (relative to an anchor = the concrete states at the last re-anchoring point)
#  Ci, Cb : cell -> poly   value of the cell on the IR side / bytecode side (absent: see cell())
#  D  : set of cells whose values at the anchor may differ between the sides (side atoms)
#  T  : temp -> poly       bytecode temporaries with a known value
#  NZ : set of polys known to be non-zero
#  n  : number of inputs consumed since the anchor
def key(p):
    return frozenset(p.items())


class St:
    def __init__(self, Ci=None, Cb=None, T=None, NZ=None, n=0, D=None, bot=False):
        self.Ci = dict(Ci or {}); self.Cb = dict(Cb or {}); self.T = dict(T or {})
        self.NZ = set(NZ or ()); self.n = n; self.D = set(D or ())
        self.bot = bot      # unreachable (the checker marks it by the fact "0 is non-zero")

    def cell(self, k, side):
        m = self.Ci if side == "i" else self.Cb
        if k in m:
            return m[k]
        if k in self.D:
            return patom(("x" + side, k))
        return patom(("c", k))

    def agree(self, k):
        return self.cell(k, "i") == self.cell(k, "b")

    def cells(self):
        return set(self.Ci) | set(self.Cb) | self.D

    def copy(self):
        return St(self.Ci, self.Cb, self.T, self.NZ, self.n, self.D, self.bot)


def single_atom(p):
    if len(p) == 1:
        (m, c), = p.items()
        if c == 1 and len(m) == 1:
            return m[0]
    return None


def atom_plus_const(p):
    """(a, c) if p = a + c for an atom a and a constant c"""
    a, c = None, 0
    for m, k in p.items():
        if m == ():
            c = k
        elif len(m) == 1 and k == 1 and a is None:
            a = m[0]
        else:
            return None
    return (a, c) if a is not None else None


def nonzero(st, p):
    if list(p.keys()) == [()]:
        return True
    return key(p) in st.NZ or is_bot(st)


def subst_state(q, st, M):
    def f(a):
        if a[0] == "c":
            if not st.agree(a[1]):
                raise Reject("fact mentions a cell on which the sides differ")
            return st.cell(a[1], "b")
        if a[0] == "t":
            if a[1] not in st.T:
                raise Reject("fact mentions undefined temp")
            return st.T[a[1]]
        if a[0] in ("xi", "xb"):
            return st.cell(a[1], a[0][1])
        raise Reject("foreign atom in fact")
    return psubst(q, f, M)


def is_bot(st):
    """unreachable: flagged, or claiming that the zero polynomial is non-zero (the checker's marker)"""
    return st.bot or key({}) in st.NZ


def entails_all(st, new, M):
    """failing facts of `new` (a state at a fresh anchor placed at the current point) in `st`"""
    bad = []
    if is_bot(st):
        return bad
    for k in st.cells() | set(new.Cb):
        if k in new.D:
            continue
        if not st.agree(k):
            bad.append(("differs", k))
            continue
        if k in new.Cb:
            try:
                ok = st.cell(k, "b") == subst_state(new.Cb[k], st, M)
            except Reject:
                ok = False
            if not ok:
                bad.append(("cell", k))
    for t, q in new.T.items():
        try:
            ok = t in st.T and st.T[t] == subst_state(q, st, M)
        except Reject:
            ok = False
        if not ok:
            bad.append(("temp", t))
    for q in new.NZ:
        try:
            ok = nonzero(st, subst_state(dict(q), st, M))
        except Reject:
            ok = False
        if not ok:
            bad.append(("nz", q))
    return bad


def entails(st, new, M):
    """a failing fact to weaken next: facts that were only hoped for (constants, temporaries,
    non-zero values) go before declaring that the two tapes differ on a cell"""
    bad = entails_all(st, new, M)
    for f in bad:
        if f[0] != "differs":
            return f
    return bad[0] if bad else None


def weaken(new, why):
    """drop / weaken the fact that failed; False if nothing can be done"""
    kind, x = why
    if kind == "differs":
        new.D.add(x); new.Ci.pop(x, None); new.Cb.pop(x, None)
        new.NZ = set(q for q in new.NZ if not any(a == ("c", x) for a in atoms(dict(q))))
        for t, p in list(new.T.items()):
            if ("c", x) in atoms(p):
                new.T[t] = patom(("t", t))
        return True
    if kind == "cell":
        new.Ci.pop(x, None); new.Cb.pop(x, None)
        return True
    if kind == "temp":
        if new.T[x] != patom(("t", x)):
            new.T[x] = patom(("t", x))
        else:
            del new.T[x]
        return True
    if kind == "nz":
        new.NZ.discard(x)
        return True
    return False


def is_arith(i):
    return i[0] in ("n", "a", "u", "x", "c", "i", "o")


def write_sets(code, lo, hi):
    cells, temps, allc = set(), set(), False
    for i in code[lo:hi]:
        if i[0] in ("m",) or (i[0] == "s" and i[2] != 0):
            allc = True
        if i[0] == "i":
            cells.add(i[1])
        if i[0] in ("a", "u", "x", "c"):
            for l in i[1:]:
                if l[0] == "mz":
                    cells.add(l[1])
            d = i[1]
            if d[0] in ("m", "mz"):
                cells.add(d[1])
            elif d[0] == "t":
                temps.add(d[1])
    return cells, temps, allc


def ir_writes(insts):
    cells, allc = set(), False
    for i in insts:
        if i[0] == "i":
            cells.add(i[1])
        elif i[0] == "c":
            for v, _ in i[1]:
                cells.add(v)
        elif i[0] in ("l", "f"):
            c2, a2 = ir_writes(i[3])
            cells |= c2
            allc = allc or a2 or i[2] != 0
    return cells, allc


def loop_hints(ir, code, fuse):
    """(head pc, back-edge pc) of every IR loop that is not fused into a scan, keyed by the loop's
    preorder index: the back edges appear in the bytecode in the loops' postorder"""
    pre = [0]
    post = []

    def walk(insts):
        for i in insts:
            if i[0] == "l":
                idx = pre[0]; pre[0] += 1
                walk(i[3])
                if not (fuse and not i[3]):
                    post.append(idx)
            elif i[0] == "f":
                walk(i[3])
    walk(ir[1])
    nzs = [pc for pc, i in enumerate(code) if i[0] == "nz"]
    if len(nzs) != len(post):
        raise Reject("%d back edges for %d loops" % (len(nzs), len(post)))
    return {idx: (pc + code[pc][2], pc) for idx, pc in zip(post, nzs)}


class TV:
    def __init__(self, w, ir, code, stats, fuse, optimistic=True):
        self.optimistic = optimistic
        self.M = 1 << w
        self.ir = ir
        self.code = code
        self.stats = stats
        self.fuse = fuse
        self.hints = loop_hints(ir, code, fuse)
        self.loop_idx = 0
        self.cert = []

    def region(self, insts, pc, stop, st, head):
        """straight-line co-execution up to the next control point (a control instruction, `stop`,
        or the hinted head of the once-loop that follows); returns (rest of IR, pc, state)"""
        M = self.M
        Ci = dict(st.Ci)
        ev_i = []
        n = st.n
        k = 0

        def celli(x):
            return Ci[x] if x in Ci else st.cell(x, "i")
        while k < len(insts) and insts[k][0] in ("o", "i", "c"):
            i = insts[k]
            if i[0] == "o":
                ev_i.append(("o", celli(i[1])))
            elif i[0] == "i":
                Ci[i[1]] = patom(("i", n)); n += 1
                ev_i.append(("i",))
            else:
                vals = []
                for v, parts in i[1]:
                    p = {}
                    for c, vs in parts:
                        t = pconst(c, M)
                        for x in vs:
                            t = pmul(t, celli(x), M)
                        p = padd(p, t, M)
                    vals.append((v, p))
                for v, p in vals:
                    Ci[v] = p
            k += 1
        Cb = dict(st.Cb); T = dict(st.T)
        ev_b = []
        n = st.n

        def cellb(x):
            return Cb[x] if x in Cb else st.cell(x, "b")

        def read(l):
            if l[0] == "m":
                return cellb(l[1])
            if l[0] == "mz":
                v = cellb(l[1]); Cb[l[1]] = {}
                return v
            if l[0] == "t":
                if l[1] not in T:
                    raise Reject("read of undefined temp %d at %d" % (l[1], pc))
                return T[l[1]]
            return pconst(l[1], M)

        def write(l, v):
            if l[0] in ("m", "mz"):
                Cb[l[1]] = v
            elif l[0] == "t":
                T[l[1]] = v
        while pc < stop and is_arith(self.code[pc]) and pc != head:
            i = self.code[pc]
            if i[0] == "o":
                ev_b.append(("o", cellb(i[1])))
            elif i[0] == "i":
                Cb[i[1]] = patom(("i", n)); n += 1
                ev_b.append(("i",))
            elif i[0] == "c":
                write(i[1], read(i[2]))
            elif i[0] in ("a", "u", "x"):
                d, a, b = i[1:]
                if d == a and d[0] in ("m", "t"):
                    vb = read(b); va = read(a)
                else:
                    va = read(a); vb = read(b)
                v = padd(va, vb, M) if i[0] == "a" else padd(va, vb, M, -1) if i[0] == "u" else pmul(va, vb, M)
                write(d, v)
            pc += 1
        if ev_i != ev_b:
            raise Reject("events differ before pc %d: %s vs %s" % (pc, ev_i, ev_b))
        return insts[k:], pc, St(Ci, Cb, T, st.NZ, n, st.D, st.bot)

    def candidate(self, st, wc, wt, allc, extra_nz=(), optimistic=False):
        """heuristic: facts at a new anchor that are likely to hold in st and survive writes wc/wt"""
        M = self.M
        new = St(D=set(k for k in st.cells() if not st.agree(k)))
        if is_bot(st):
            new.NZ.add(key({}))     # stays unreachable
        rev = {}
        by_val = {}
        if not allc:
            for k, p in st.Cb.items():
                if k in wc or k in new.D:
                    continue
                ac = atom_plus_const(p)
                if ac is not None:
                    # cell k holds (old atom a) + c: the old atom is (cell k) - c
                    rev.setdefault(ac[0], padd(patom(("c", k)), pconst(-ac[1], M), M))
                by_val.setdefault(key(p), k)

        def keep_atom(a):
            if a[0] == "c" and a[1] not in st.Cb and a[1] not in new.D and not allc and a[1] not in wc:
                return patom(a)
            if a in rev:
                return rev[a]
            if a[0] == "t" and st.T.get(a[1]) == patom(a) and a[1] not in wt:
                return patom(a)
            return None

        def rename(p, skip=None, combos=True):
            ren = {a: keep_atom(a) for a in atoms(p)}
            if all(v is not None for v in ren.values()):
                return psubst(p, lambda a: ren[a], M)
            # p = (current value of an unwritten cell k) + constant ?
            if not allc:
                for k, pk in st.Cb.items():
                    if k in wc or k in new.D or k == skip:
                        continue
                    d = padd(p, pk, M, -1)
                    if not d or list(d.keys()) == [()]:
                        return padd(patom(("c", k)), d, M)
                # p = an integer combination of current values of unwritten cells + something renamable ?
                # (eliminate, a few times, a monomial with an unstable atom against a cell whose current value
                # has that monomial with coefficient +-1)
                rest, combo = dict(p), {}
                for _ in range(4 if combos else 0):
                    ren = {a: keep_atom(a) for a in atoms(rest)}
                    if all(v is not None for v in ren.values()):
                        q = psubst(rest, lambda a: ren[a], M)
                        for k, x in combo.items():
                            q = padd(q, pmul(pconst(x, M), patom(("c", k)), M), M)
                        return q
                    step = None
                    for mono, coef in rest.items():
                        if not any(ren.get(a) is None for a in mono):
                            continue
                        for k, pk in st.Cb.items():
                            if k in wc or k in new.D or k == skip or k in combo:
                                continue
                            c = pk.get(mono)
                            if not c:
                                continue
                            if c % 2 == 1:
                                step = (k, (coef * pow(c, -1, M)) % M, pk)     # x with x * c = coef (mod M)
                                break
                            if coef % c == 0:
                                step = (k, coef // c, pk)
                                break
                        if step:
                            break
                    if not step:
                        break
                    k, x, pk = step
                    combo[k] = x
                    rest = padd(rest, pmul(pconst(x, M), pk, M), M, -1)
            return None
        if not allc:
            for k, p in st.Cb.items():
                if k in new.D or (k in wc and not optimistic):
                    continue
                q = rename(p, skip=k, combos=False)    # cells keep their own atom unless they are another cell + constant
                if q is not None and q != patom(("c", k)):
                    new.Cb[k] = q; new.Ci[k] = q
        for t, p in st.T.items():
            if t in wt:
                continue
            q = rename(p)
            if q is not None:
                new.T[t] = q
            elif key(p) in by_val:
                new.T[t] = patom(("c", by_val[key(p)]))
            else:
                new.T[t] = patom(("t", t))
        if not allc:
            for k in st.cells() | set(a[1] for q in st.NZ for a in atoms(dict(q)) if a[0] == "c"):
                if (k not in wc or optimistic) and k not in new.D and k not in new.Cb and nonzero(st, st.cell(k, "b")):
                    new.NZ.add(key(patom(("c", k))))
            for k in new.D:
                if (k not in wc or optimistic) and nonzero(st, st.cell(k, "i")):
                    new.NZ.add(key(patom(("xi", k))))
        for k in extra_nz:
            new.NZ.add(key(patom(("c", k))))
        self.canonical_aliases(new)
        return new

    def canonical_aliases(self, new):
        """cells known to be equal ("cell k = cell j") get one representative (the smallest index),
        which keeps its own atom; every other fact is written over representatives, so that the two
        sides cannot name the same value by different atoms"""
        M = self.M
        parent = {}

        def find(x):
            while parent.get(x, x) != x:
                x = parent[x]
            return x
        for k, q in new.Cb.items():
            a = single_atom(q)
            if a is not None and a[0] == "c":
                ra, rb = find(k), find(a[1])
                if ra != rb:
                    parent[max(ra, rb)] = min(ra, rb)
        if not parent:
            return
        rep = lambda a: patom(("c", find(a[1]))) if a[0] == "c" else patom(a)
        members = set(parent) | set(parent.values())
        for k in members:
            r = find(k)
            if k == r:
                new.Cb.pop(k, None); new.Ci.pop(k, None)
            else:
                new.Cb[k] = patom(("c", r)); new.Ci[k] = patom(("c", r))
        for k, q in list(new.Cb.items()):
            if k not in members:
                q2 = psubst(q, rep, M)
                new.Cb[k] = q2; new.Ci[k] = q2
        for t, q in list(new.T.items()):
            new.T[t] = psubst(q, rep, M)
        new.NZ = set(key(psubst(dict(q), rep, M)) for q in new.NZ)

    def moved(self, st, shift):
        """state after a pointer move: nothing is known about the cells relative to the new pointer,
        the cells on which the sides differ move with it"""
        return St({}, {}, {t: (p if not atoms(p) else patom(("t", t))) for t, p in st.T.items()}, (), 0,
                  set(k - shift for k in st.cells() if not st.agree(k)))

    def cond_ok(self, st, cond, pc):
        if not st.agree(cond):
            raise Reject("condition cell %d may differ between the sides at pc %d" % (cond, pc))

    def block(self, insts, pc, stop, st):
        while True:
            head = None
            for i in insts:
                if i[0] in ("l", "f"):
                    if i[0] == "l" and i[4] and not (self.fuse and not i[3]):
                        head = self.hints[self.peek_loop_idx(insts)][0]
                    break
            insts, pc, st = self.region(insts, pc, stop, st, head)
            if not insts:
                return pc, st
            i = insts[0]
            insts = insts[1:]
            cond, shift, body = i[1], i[2], i[3]
            is_loop = i[0] == "l"
            once = is_loop and i[4]
            if is_loop:
                my_idx = self.loop_idx
                self.loop_idx += 1
            if pc >= stop:
                raise Reject("bytecode ends before IR control instruction")
            if not once:
                self.cond_ok(st, cond, pc)
            b = self.code[pc]
            if is_loop and not body and self.fuse:
                if not (b[0] == "s" and b[1] == cond and b[2] == shift):
                    raise Reject("scan mismatch at %d" % pc)
                self.stats["scan"] += 1
                if shift != 0:
                    if any(not st.agree(k) for k in st.cells()):
                        raise Reject("moving scan with differing cells")
                    st = self.moved(st, shift)
                pc += 1
                continue
            if is_loop:
                head_pc, back_pc = self.hints[my_idx]
            if once:
                if not nonzero(st, st.cell(cond, "i")):
                    raise Reject("once-loop at pc %d: condition %d not known non-zero (%s)" % (pc, cond, st.cell(cond, "i")))
                if head_pc != pc:
                    raise Reject("once-loop head hint %d but pc %d" % (head_pc, pc))
                start = pc
                exit_pc = back_pc + 1
            else:
                if not (b[0] == "z" and b[1] == cond):
                    raise Reject("expected brz %d at %d, found %s" % (cond, pc, b))
                start = pc + 1
                exit_pc = pc + b[2]
                if is_loop and (head_pc != start or back_pc + 1 != exit_pc):
                    raise Reject("guarded loop at %d does not match its back edge" % pc)
            if exit_pc > stop or exit_pc < start:
                raise Reject("exit out of range")
            body_hi = exit_pc - (1 if is_loop else 0)
            wc, wt, allc = write_sets(self.code, start, body_hi)
            iw, ia = ir_writes(body)
            wc |= iw
            allc = allc or ia or shift != 0
            if is_loop:
                self.stats["loop"] += 1
                inv = self.candidate(st, wc, wt, allc, optimistic=self.optimistic)
                inv.NZ.discard(key(patom(("c", cond)))); inv.NZ.discard(key(patom(("xi", cond))))
                saved = self.loop_idx
                while True:
                    why = entails(st, inv, self.M)
                    if why:
                        if not weaken(inv, why):
                            raise Reject("loop entry facts at %d: %s" % (pc, why))
                        continue
                    self.loop_idx = saved
                    ent = inv.copy(); ent.NZ.add(key(patom(("xi", cond) if cond in inv.D else ("c", cond))))
                    ncert = len(self.cert)
                    self.cert.append(None)
                    pc2, stb = self.block(body, start, body_hi, ent)
                    if shift != 0:
                        pc2 = self.expect_mov(pc2, body_hi, shift)
                        stb = self.moved(stb, shift)
                    if pc2 != body_hi:
                        raise Reject("loop body does not end at the back edge (%d vs %d)" % (pc2, body_hi))
                    bn = self.code[body_hi]
                    if not (bn[0] == "nz" and bn[1] == cond and body_hi + bn[2] == start):
                        raise Reject("back edge mismatch at %d" % body_hi)
                    self.cond_ok(stb, cond, body_hi)
                    why = entails(stb, inv, self.M)
                    if why:
                        if not weaken(inv, why):
                            raise Reject("loop back-edge facts at %d: %s" % (body_hi, why))
                        self.stats["weakened"] = self.stats.get("weakened", 0) + 1
                        del self.cert[ncert:]
                        continue
                    break
                never_left_at_back_edge = nonzero(stb, stb.cell(cond, "i"))
                if once:
                    exitf = St()
                    st = stb
                    if never_left_at_back_edge:
                        st = stb.copy(); st.bot = True      # the loop is never left
                elif never_left_at_back_edge:
                    # left only at its guard: what held before the loop still holds after it
                    exitf = self.candidate(st, set(), set(), False, optimistic=self.optimistic)
                    while True:
                        why = entails(st, exitf, self.M)
                        if not why:
                            break
                        if not weaken(exitf, why):
                            raise Reject("loop exit facts at %d: %s" % (pc, why))
                    st = exitf
                else:
                    exitf = inv
                    st = inv
                self.cert[ncert] = ("loop", head_pc, back_pc, inv.copy(), exitf.copy())
                pc = exit_pc
            else:
                self.stats["if"] += 1
                ent = st.copy()
                ent.NZ.add(key(st.cell(cond, "b")))
                ncert = len(self.cert)
                self.cert.append(None)
                pc2, stb = self.block(body, start, exit_pc, ent)
                if shift != 0:
                    pc2 = self.expect_mov(pc2, exit_pc, shift)
                    stb = self.moved(stb, shift)
                if pc2 != exit_pc:
                    raise Reject("if body does not end at the join (%d vs %d)" % (pc2, exit_pc))
                join = self.candidate(st, wc, wt, allc, optimistic=self.optimistic)
                join.D |= set(k for k in stb.cells() if not stb.agree(k))
                for k in join.D:
                    join.Ci.pop(k, None); join.Cb.pop(k, None)
                join.NZ = set(q for q in join.NZ if not any(a[0] == "c" and a[1] in join.D for a in atoms(dict(q))))
                while True:
                    why = entails(st, join, self.M) or entails(stb, join, self.M)
                    if not why:
                        break
                    if not weaken(join, why):
                        raise Reject("if join facts at %d: %s" % (exit_pc, why))
                self.cert[ncert] = ("if", join.copy())
                st = join
                pc = exit_pc

    def peek_loop_idx(self, insts):
        return self.loop_idx

    def expect_mov(self, pc, hi, shift):
        if pc < hi and self.code[pc] == ("m", shift):
            return pc + 1
        raise Reject("missing move %d at %d" % (shift, pc))

    def zero_cells(self, cap=96):
        """cells named by the bytecode (the tape starts all-zero; any choice is sound)"""
        zs = []
        for i in self.code:
            for x in i[1:]:
                k = x[1] if isinstance(x, tuple) and x[0] in ("m", "mz") else (x if i[0] in ("i", "o") else None)
                if k is not None and k not in zs:
                    zs.append(k)
            if i[0] in ("s", "z", "nz") and i[1] not in zs:
                zs.append(i[1])
        return zs[:cap]

    def run(self):
        shift, insts = self.ir
        self.zeros = self.zero_cells()
        pc, st = self.block(insts, 0, len(self.code), St(Ci={k: {} for k in self.zeros}, Cb={k: {} for k in self.zeros}))
        if pc < len(self.code) and self.code[pc][0] == "m":
            pc += 1
        if pc != len(self.code):
            raise Reject("bytecode continues after the IR program (pc %d of %d)" % (pc, len(self.code)))


ATOM = {"c": 0, "xi": 1, "xb": 2, "t": 3, "i": 4}


def poly_text(p):
    out = [str(len(p))]
    for m, c in sorted(p.items()):
        out.append("%d %d" % (c, len(m)))
        out += [str(5 * a[1] + ATOM[a[0]]) for a in m]
    return " ".join(out)


def facts_text(st):
    cs = [(k, p) for k, p in sorted(st.Cb.items()) if k not in st.D]
    out = [str(len(cs))] + ["%d %s" % (k, poly_text(p)) for k, p in cs]
    out += [str(len(st.D))] + [str(k) for k in sorted(st.D)]
    out += [str(len(st.T))] + ["%d %s" % (t, poly_text(p)) for t, p in sorted(st.T.items())]
    out += [str(len(st.NZ))] + [poly_text(dict(q)) for q in sorted(st.NZ, key=lambda q: sorted(q))]
    return " ".join(out)


def cert_text(cert):
    out = []
    for c in cert:
        if c[0] == "loop":
            out.append("L %d %d %s %s" % (c[1], c[2], facts_text(c[3]), facts_text(c[4])))
        else:
            out.append("F %s" % facts_text(c[1]))
    return " ".join(out)


def validate(w, ir_text, bc_text, fuse):
    """two search strategies: hoped-for facts first (and weakening), then only facts about
    cells / temporaries the region does not write"""
    v, st = validate_with(w, ir_text, bc_text, fuse, True)
    if v != "ok":
        v2, st2 = validate_with(w, ir_text, bc_text, fuse, False)
        if v2 == "ok":
            st2["strategy"] = "pessimistic"
            return v2, st2
    return v, st


def validate_with(w, ir_text, bc_text, fuse, optimistic):
    stats = {"loop": 0, "if": 0, "scan": 0}
    try:
        tv = TV(w, parse_ir(ir_text.split()), parse_bc(bc_text.split()), stats, fuse, optimistic)
        tv.run()
        stats["cert"] = cert_text(tv.cert)
        stats["zeros"] = " ".join(str(k) for k in tv.zeros)
        return "ok", stats
    except Reject as e:
        return "reject: %s" % e, stats

#!/bin/bash
# usage: tools/try_seed.sh <seed-id> [tier] : apply the seeded change to /repo, run the property's check, undo
id=$1; tier=${2:-quick}; prop=$(echo ${id%%-*} | tr a-z A-Z)
cd /verif
git -C /repo status --porcelain | grep -q . && { echo "/repo not clean"; exit 2; }
git -C /repo apply /verif/seeded/$id/patch.diff || exit 2
timeout 3000 ./check $prop --tier $tier > /tmp/try-$id.log 2>&1; rc=$?
git -C /repo checkout -- .
echo "$id rc=$rc $(grep -c VIOLATION /tmp/try-$id.log) violation lines"; grep VIOLATION /tmp/try-$id.log | head -3

"""Shared machinery for the hpbf verification checks (see DESIGN.md §2.3)."""
import hashlib
import json
import os
import re
import subprocess
import sys
import time

VERIF = os.path.dirname(os.path.dirname(os.path.abspath(__file__)))
REPO = "/repo"
BUILD = os.path.join(VERIF, ".build")
COQ = os.path.join(VERIF, "coq")
CARGO_TARGET = os.path.join(BUILD, "cargo")
OCAML_BUILD = os.path.join(BUILD, "ocaml")
EVIDENCE = os.path.join(VERIF, "evidence")
REPLAYS = os.path.join(VERIF, "replays")
NPROC = os.cpu_count() or 4

ALLOWED_AXIOMS = set()  # no axiom is used by any Props/ theorem (DESIGN §8)

BASE_ENV = dict(os.environ)
BASE_ENV.update({"CARGO_NET_OFFLINE": "true", "CARGO_TARGET_DIR": CARGO_TARGET, "RUST_BACKTRACE": "0"})


class CheckFailure(Exception):
    pass


def log(*a):
    print(*a, file=sys.stderr, flush=True)


def run(cmd, cwd=None, env=None, input=None, timeout=None, check=True, text=True):
    t0 = time.time()
    p = subprocess.run(cmd, cwd=cwd, env=env or BASE_ENV, input=input, timeout=timeout,
                       stdout=subprocess.PIPE, stderr=subprocess.PIPE, text=text)
    if check and p.returncode != 0:
        raise CheckFailure("command failed (%s): %s\n%s\n%s" % (p.returncode, cmd, p.stdout[-3000:] if text else "", p.stderr[-3000:] if text else ""))
    p.wall = time.time() - t0
    return p


# ------------------------------------------------------------------ PRNG (SplitMix64)
class Rng:
    def __init__(self, seed):
        self.s = seed & 0xFFFFFFFFFFFFFFFF

    def next(self):
        self.s = (self.s + 0x9E3779B97F4A7C15) & 0xFFFFFFFFFFFFFFFF
        z = self.s
        z = ((z ^ (z >> 30)) * 0xBF58476D1CE4E5B9) & 0xFFFFFFFFFFFFFFFF
        z = ((z ^ (z >> 27)) * 0x94D049BB133111EB) & 0xFFFFFFFFFFFFFFFF
        return z ^ (z >> 31)

    def below(self, n):
        return self.next() % n

    def randint(self, a, b):
        return a + self.below(b - a + 1)

    def random(self):
        return self.next() / 2.0 ** 64

    def choice(self, xs):
        return xs[self.below(len(xs))]

    def sample(self, xs, k):
        xs = list(xs)
        out = []
        for _ in range(k):
            out.append(xs.pop(self.below(len(xs))))
        return out

    def fork(self):
        return Rng(self.next())


def seed_from_env():
    try:
        return int(os.environ.get("VERIF_SEED", "1"))
    except ValueError:
        return 1


# ------------------------------------------------------------------ builds
def coq_args():
    out = []
    for line in open(os.path.join(COQ, "_CoqProject")):
        line = line.strip()
        if line.startswith("-Q") or line.startswith("-R"):
            out += line.split()
    return out


def build_coq(targets=None, timeout=3000):
    """Full .vo build through coq_makefile (never -vos)."""
    if not os.path.exists(os.path.join(COQ, "Makefile")) or \
            os.path.getmtime(os.path.join(COQ, "Makefile")) < os.path.getmtime(os.path.join(COQ, "_CoqProject")):
        run(["coq_makefile", "-f", "_CoqProject", "-o", "Makefile"], cwd=COQ)
    os.makedirs(os.path.join(COQ, "extract"), exist_ok=True)
    cmd = ["make", "-j%d" % NPROC]
    if targets:
        cmd += targets
    p = run(cmd, cwd=COQ, timeout=timeout, check=False)
    if p.returncode != 0:
        raise CheckFailure("coq build failed:\n" + (p.stdout + p.stderr)[-4000:])
    return p.wall


FORBIDDEN = re.compile(r"\b(Admitted|admit|Axiom|Axioms|Parameter|Parameters|Conjecture|Hypothesis|Variable|Unset\s+Guard|bypass_check|type-in-type|impredicative-set|Admit\s+Obligations)\b")


def strip_coq_comments(s):
    out = []
    depth = 0
    i = 0
    while i < len(s):
        if s.startswith("(*", i):
            depth += 1
            i += 2
        elif s.startswith("*)", i) and depth > 0:
            depth -= 1
            i += 2
        else:
            if depth == 0:
                out.append(s[i])
            i += 1
    return "".join(out)


def audit_sources():
    """grep the whole development for forbidden declarations (outside comments).
    `Variable`/`Hypothesis` are allowed only inside a Section."""
    bad = []
    for root, _, files in os.walk(os.path.join(COQ, "theories")):
        for f in files:
            if not f.endswith(".v"):
                continue
            path = os.path.join(root, f)
            src = strip_coq_comments(open(path).read())
            depth = 0
            for ln, line in enumerate(src.split("\n"), 1):
                if re.match(r"\s*Section\b", line):
                    depth += 1
                if re.match(r"\s*End\b", line) and depth > 0:
                    depth -= 1
                for m in FORBIDDEN.finditer(line):
                    w = m.group(1)
                    if w in ("Variable", "Hypothesis") and depth > 0:
                        continue
                    bad.append("%s:%d: %s" % (path, ln, line.strip()))
    return bad


def audit_props(prop_file):
    """Recompile Props/<file> (output to a scratch .vo) and parse `Print Assumptions`.
    Returns (n_theorems, n_closed, axioms_seen, raw_output)."""
    path = os.path.join(COQ, "theories", "Props", prop_file)
    src = strip_coq_comments(open(path).read())
    theorems = re.findall(r"^\s*Theorem\s+(\w+)", src, flags=re.M)
    prints = re.findall(r"^\s*Print Assumptions\s+(\w+)", src, flags=re.M)
    missing = [t for t in theorems if t not in prints]
    if missing:
        raise CheckFailure("Props/%s: theorems without Print Assumptions: %s" % (prop_file, missing))
    scratch = os.path.join(BUILD, "audit")
    os.makedirs(scratch, exist_ok=True)
    out_vo = os.path.join(scratch, prop_file + "o")
    p = run(["coqc"] + coq_args() + ["-o", out_vo, path], cwd=COQ, timeout=1200, check=False)
    if p.returncode != 0:
        raise CheckFailure("Props/%s does not compile:\n%s" % (prop_file, (p.stdout + p.stderr)[-3000:]))
    text = p.stdout
    closed = text.count("Closed under the global context")
    axioms = []
    in_ax = False
    for line in text.split("\n"):
        if line.startswith("Axioms:"):
            in_ax = True
            continue
        if in_ax:
            m = re.match(r"^(\S+)\s*:", line)
            if m:
                axioms.append(m.group(1))
            elif line.strip() == "" or not line.startswith(" "):
                in_ax = False if not line.startswith(" ") and not m else in_ax
    return len(theorems), closed, axioms, text


def build_driver():
    """Compile the extracted model + hand-written driver."""
    os.makedirs(OCAML_BUILD, exist_ok=True)
    srcs = [os.path.join(COQ, "extract", "model.mli"), os.path.join(COQ, "extract", "model.ml"),
            os.path.join(VERIF, "ocaml", "driver.ml")]
    exe = os.path.join(OCAML_BUILD, "driver")
    stamp = os.path.join(OCAML_BUILD, "stamp")
    h = hashlib.sha256()
    for s in srcs:
        h.update(open(s, "rb").read())
    dig = h.hexdigest()
    if os.path.exists(exe) and os.path.exists(stamp) and open(stamp).read() == dig:
        return exe
    for s in srcs:
        run(["cp", s, OCAML_BUILD])
    run(["ocamlfind", "ocamlopt", "-O3", "-package", "zarith,str", "-linkpkg", "-w", "-a",
         "model.mli", "model.ml", "driver.ml", "-o", "driver"], cwd=OCAML_BUILD, timeout=1200)
    open(stamp, "w").write(dig)
    return exe


def build_harness(profile="debug", extra_cfg=None):
    """Build the Rust harness against /repo's current working tree with the hook cfg on."""
    cmd = ["cargo", "build", "--offline"]
    if profile == "release":
        cmd.append("--release")
    p = run(cmd, cwd=os.path.join(VERIF, "harness"), timeout=3000, check=False)
    if p.returncode != 0:
        raise CheckFailure("harness build failed against /repo:\n" + p.stderr[-4000:])
    return os.path.join(CARGO_TARGET, profile, "hv")


def build_hpbf_bin(profile="release"):
    """Build /repo's own binary (hooks off) into our target dir."""
    env = dict(BASE_ENV)
    env["CARGO_TARGET_DIR"] = os.path.join(BUILD, "cargo-repo")
    cmd = ["cargo", "build", "--offline", "--bin", "hpbf"]
    if profile == "release":
        cmd.append("--release")
    p = run(cmd, cwd=REPO, env=env, timeout=3000, check=False)
    if p.returncode != 0:
        raise CheckFailure("hpbf build failed:\n" + p.stderr[-4000:])
    return os.path.join(BUILD, "cargo-repo", profile, "hpbf")


RETRY_KINDS = ("run", "rung", "runfail", "runnoas", "runir", "runbc", "tape", "tapefail", "svec", "expr", "cell")


def run_lines(exe, lines, timeout=3000, shards=None, args=None, retry=True):
    """Feed case lines to exe (sharded over cores), return result lines in order.
    A per-case wall-clock timeout reported by the harness is re-run once on its own (single
    shard, idle machine) before it is believed: a loaded machine must not look like a hang."""
    if not lines:
        return []
    if retry:
        out = run_lines(exe, lines, timeout=timeout, shards=shards, args=args, retry=False)
        again = [i for i, o in enumerate(out) if o.startswith("timeout") and lines[i].split("|", 1)[0] in RETRY_KINDS]
        if again and len(again) <= 24:
            redo = run_lines(exe, [lines[i] for i in again], timeout=timeout, shards=1, args=args, retry=False)
            for i, r in zip(again, redo):
                out[i] = r
        return out
    shards = shards or min(NPROC, max(1, len(lines) // 8))
    chunks = [lines[i::shards] for i in range(shards)]
    procs = []
    for ch in chunks:
        p = subprocess.Popen([exe] + (args or []), stdin=subprocess.PIPE, stdout=subprocess.PIPE,
                             stderr=subprocess.PIPE, text=True, env=BASE_ENV)
        procs.append((p, ch))
    import threading
    results = [None] * shards
    errs = [None] * shards

    def work(i, p, ch):
        try:
            o, e = p.communicate("\n".join(ch) + "\n", timeout=timeout)
            results[i] = o.split("\n")
            if results[i] and results[i][-1] == "":
                results[i].pop()
            errs[i] = (p.returncode, e)
        except subprocess.TimeoutExpired:
            p.kill()
            errs[i] = (-999, "timeout")
            results[i] = []

    ths = [threading.Thread(target=work, args=(i, p, ch)) for i, (p, ch) in enumerate(procs)]
    for t in ths:
        t.start()
    for t in ths:
        t.join()
    out = [None] * len(lines)
    for i in range(shards):
        rc, e = errs[i]
        ch = chunks[i]
        res = results[i]
        for j in range(len(ch)):
            out[i + j * shards] = res[j] if j < len(res) else "CRASH rc=%s %s" % (rc, (e or "").strip().split("\n")[-1][:200])
    return out


# ------------------------------------------------------------------ evidence / violations
def repo_state():
    p = run(["git", "-C", REPO, "rev-parse", "HEAD"], check=False)
    d = run(["git", "-C", REPO, "diff", "HEAD"], check=False)
    return {"head": p.stdout.strip(), "diff_sha": hashlib.sha256(d.stdout.encode()).hexdigest()[:16],
            "dirty": bool(d.stdout.strip())}


def load_known_findings():
    path = os.path.join(VERIF, "known_findings.json")
    if os.path.exists(path):
        return json.load(open(path))
    return {"open": [], "fixed": []}


class Result:
    """Accumulates what a check did; writes evidence; prints VIOLATION lines."""

    def __init__(self, prop, tier, seed, level):
        self.prop = prop
        self.tier = tier
        self.seed = seed
        self.level = level
        self.t0 = time.time()
        self.coverage = {}
        self.assumptions = []
        self.violations = []   # (replay_path, no_input)
        self.known = []

    def violation(self, what, replay, no_failing_input=False):
        os.makedirs(REPLAYS, exist_ok=True)
        body = dict(replay)
        body.update({"property": self.prop, "what": what, "seed": self.seed, "tier": self.tier,
                     "repo": repo_state(), "rerun": "cd /verif && VERIF_SEED=%d ./check %s --tier %s" % (self.seed, self.prop, self.tier)})
        h = hashlib.sha256(json.dumps(body, sort_keys=True, default=str).encode()).hexdigest()[:12]
        path = os.path.join(REPLAYS, "%s-%s.json" % (self.prop, h))
        with open(path, "w") as f:
            json.dump(body, f, indent=1, default=str)
        self.violations.append((path, no_failing_input, what))

    def known_finding(self, what):
        self.known.append(what)

    def finish(self):
        os.makedirs(EVIDENCE, exist_ok=True)
        ev = {"property_id": self.prop, "tier": self.tier, "seed": self.seed, "level": self.level,
              "coverage": self.coverage, "assumptions": self.assumptions,
              "wall_s": round(time.time() - self.t0, 2), "violations": len(self.violations)}
        with open(os.path.join(EVIDENCE, self.prop + ".json"), "w") as f:
            json.dump(ev, f, indent=1, default=str)
        for k in self.known:
            print("KNOWN-FINDING: property=%s %s" % (self.prop, k))
        seen = set()
        for path, noinp, what in self.violations:
            if path in seen:
                continue
            seen.add(path)
            log("violation: " + what)
            print("VIOLATION property=%s replay=%s%s" % (self.prop, path, " no-failing-input-found" if noinp else ""))
        sys.stdout.flush()
        return 1 if self.violations else 0


def proof_audit(res, prop_file, extra_obligations=0, extra_discharged=0):
    """Steps 1-2 of DESIGN §2.3. Returns True if the proof side is intact; on failure records
    a broken-proof marker (the caller then searches for a concrete failing input)."""
    broken = []
    try:
        build_coq()
    except CheckFailure as e:
        broken.append("coq build: " + str(e)[-1500:])
    bad = audit_sources()
    if bad:
        broken.append("forbidden declarations: " + "; ".join(bad[:5]))
    n_thm = closed = 0
    axioms = []
    if not broken:
        try:
            n_thm, closed, axioms, _ = audit_props(prop_file)
        except CheckFailure as e:
            broken.append(str(e)[-1500:])
        unexpected = [a for a in axioms if a not in ALLOWED_AXIOMS]
        if unexpected:
            broken.append("unexpected axioms: %s" % unexpected)
        if not broken and closed != n_thm and not axioms:
            broken.append("Print Assumptions count mismatch: %d theorems, %d closed" % (n_thm, closed))
    res.coverage["obligations"] = n_thm + extra_obligations
    res.coverage["discharged"] = (closed if not broken else 0) + extra_discharged
    res.coverage["checker_cmd"] = "make -C /verif/coq (coq_makefile, full .vo) ; coqc Props/%s (Print Assumptions) ; source audit grep" % prop_file
    res.coverage["trusted_base"] = [
        "Coq 8.16.1 kernel (coqc; vm_compute where a theorem is closed by computation); no native_compute",
        "axioms: none (every Props theorem prints 'Closed under the global context')",
        "extraction: ExtrOcamlBasic only (bool, option, list, prod, unit, sumbool -> OCaml types); Z/positive/N/nat stay inductive; no Extract Constant",
        "ocaml/driver.ml (case parsing/printing, zarith only for decimal I/O), harness/ (Rust), tools/*.py",
    ]
    res.coverage["axioms_seen"] = axioms
    return broken

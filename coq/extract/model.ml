
(** val implb : bool -> bool -> bool **)

let implb b1 b2 =
  if b1 then b2 else true

(** val negb : bool -> bool **)

let negb = function
| true -> false
| false -> true

type nat =
| O
| S of nat

(** val option_map : ('a1 -> 'a2) -> 'a1 option -> 'a2 option **)

let option_map f = function
| Some a -> Some (f a)
| None -> None

type ('a, 'b) sum =
| Inl of 'a
| Inr of 'b

(** val fst : ('a1 * 'a2) -> 'a1 **)

let fst = function
| (x, _) -> x

(** val snd : ('a1 * 'a2) -> 'a2 **)

let snd = function
| (_, y) -> y

(** val length : 'a1 list -> nat **)

let rec length = function
| [] -> O
| _ :: l' -> S (length l')

(** val app : 'a1 list -> 'a1 list -> 'a1 list **)

let rec app l m =
  match l with
  | [] -> m
  | a :: l1 -> a :: (app l1 m)

type comparison =
| Eq
| Lt
| Gt

(** val compOpp : comparison -> comparison **)

let compOpp = function
| Eq -> Eq
| Lt -> Gt
| Gt -> Lt

(** val pred : nat -> nat **)

let pred n0 = match n0 with
| O -> n0
| S u -> u

module Coq__1 = struct
 (** val add : nat -> nat -> nat **)
 let rec add n0 m =
   match n0 with
   | O -> m
   | S p -> S (add p m)
end
include Coq__1

(** val mul : nat -> nat -> nat **)

let rec mul n0 m =
  match n0 with
  | O -> O
  | S p -> add m (mul p m)

type positive =
| XI of positive
| XO of positive
| XH

type n =
| N0
| Npos of positive

type z =
| Z0
| Zpos of positive
| Zneg of positive

(** val eqb : bool -> bool -> bool **)

let eqb b1 b2 =
  if b1 then b2 else if b2 then false else true

module Nat =
 struct
  (** val add : nat -> nat -> nat **)

  let rec add n0 m =
    match n0 with
    | O -> m
    | S p -> S (add p m)

  (** val mul : nat -> nat -> nat **)

  let rec mul n0 m =
    match n0 with
    | O -> O
    | S p -> add m (mul p m)

  (** val eqb : nat -> nat -> bool **)

  let rec eqb n0 m =
    match n0 with
    | O -> (match m with
            | O -> true
            | S _ -> false)
    | S n' -> (match m with
               | O -> false
               | S m' -> eqb n' m')

  (** val leb : nat -> nat -> bool **)

  let rec leb n0 m =
    match n0 with
    | O -> true
    | S n' -> (match m with
               | O -> false
               | S m' -> leb n' m')

  (** val ltb : nat -> nat -> bool **)

  let ltb n0 m =
    leb (S n0) m

  (** val min : nat -> nat -> nat **)

  let rec min n0 m =
    match n0 with
    | O -> O
    | S n' -> (match m with
               | O -> O
               | S m' -> S (min n' m'))

  (** val even : nat -> bool **)

  let rec even = function
  | O -> true
  | S n1 -> (match n1 with
             | O -> false
             | S n' -> even n')

  (** val odd : nat -> bool **)

  let odd n0 =
    negb (even n0)
 end

module Pos =
 struct
  (** val succ : positive -> positive **)

  let rec succ = function
  | XI p -> XO (succ p)
  | XO p -> XI p
  | XH -> XO XH

  (** val add : positive -> positive -> positive **)

  let rec add x y =
    match x with
    | XI p ->
      (match y with
       | XI q -> XO (add_carry p q)
       | XO q -> XI (add p q)
       | XH -> XO (succ p))
    | XO p ->
      (match y with
       | XI q -> XI (add p q)
       | XO q -> XO (add p q)
       | XH -> XI p)
    | XH -> (match y with
             | XI q -> XO (succ q)
             | XO q -> XI q
             | XH -> XO XH)

  (** val add_carry : positive -> positive -> positive **)

  and add_carry x y =
    match x with
    | XI p ->
      (match y with
       | XI q -> XI (add_carry p q)
       | XO q -> XO (add_carry p q)
       | XH -> XI (succ p))
    | XO p ->
      (match y with
       | XI q -> XO (add_carry p q)
       | XO q -> XI (add p q)
       | XH -> XO (succ p))
    | XH ->
      (match y with
       | XI q -> XI (succ q)
       | XO q -> XO (succ q)
       | XH -> XI XH)

  (** val pred_double : positive -> positive **)

  let rec pred_double = function
  | XI p -> XI (XO p)
  | XO p -> XI (pred_double p)
  | XH -> XH

  (** val pred_N : positive -> n **)

  let pred_N = function
  | XI p -> Npos (XO p)
  | XO p -> Npos (pred_double p)
  | XH -> N0

  (** val mul : positive -> positive -> positive **)

  let rec mul x y =
    match x with
    | XI p -> add y (XO (mul p y))
    | XO p -> XO (mul p y)
    | XH -> y

  (** val iter : ('a1 -> 'a1) -> 'a1 -> positive -> 'a1 **)

  let rec iter f x = function
  | XI n' -> f (iter f (iter f x n') n')
  | XO n' -> iter f (iter f x n') n'
  | XH -> f x

  (** val div2 : positive -> positive **)

  let div2 = function
  | XI p0 -> p0
  | XO p0 -> p0
  | XH -> XH

  (** val div2_up : positive -> positive **)

  let div2_up = function
  | XI p0 -> succ p0
  | XO p0 -> p0
  | XH -> XH

  (** val compare_cont : comparison -> positive -> positive -> comparison **)

  let rec compare_cont r x y =
    match x with
    | XI p ->
      (match y with
       | XI q -> compare_cont r p q
       | XO q -> compare_cont Gt p q
       | XH -> Gt)
    | XO p ->
      (match y with
       | XI q -> compare_cont Lt p q
       | XO q -> compare_cont r p q
       | XH -> Gt)
    | XH -> (match y with
             | XH -> r
             | _ -> Lt)

  (** val compare : positive -> positive -> comparison **)

  let compare =
    compare_cont Eq

  (** val eqb : positive -> positive -> bool **)

  let rec eqb p q =
    match p with
    | XI p0 -> (match q with
                | XI q0 -> eqb p0 q0
                | _ -> false)
    | XO p0 -> (match q with
                | XO q0 -> eqb p0 q0
                | _ -> false)
    | XH -> (match q with
             | XH -> true
             | _ -> false)

  (** val coq_Nsucc_double : n -> n **)

  let coq_Nsucc_double = function
  | N0 -> Npos XH
  | Npos p -> Npos (XI p)

  (** val coq_Ndouble : n -> n **)

  let coq_Ndouble = function
  | N0 -> N0
  | Npos p -> Npos (XO p)

  (** val coq_lor : positive -> positive -> positive **)

  let rec coq_lor p q =
    match p with
    | XI p0 ->
      (match q with
       | XI q0 -> XI (coq_lor p0 q0)
       | XO q0 -> XI (coq_lor p0 q0)
       | XH -> p)
    | XO p0 ->
      (match q with
       | XI q0 -> XI (coq_lor p0 q0)
       | XO q0 -> XO (coq_lor p0 q0)
       | XH -> XI p0)
    | XH -> (match q with
             | XO q0 -> XI q0
             | _ -> q)

  (** val coq_land : positive -> positive -> n **)

  let rec coq_land p q =
    match p with
    | XI p0 ->
      (match q with
       | XI q0 -> coq_Nsucc_double (coq_land p0 q0)
       | XO q0 -> coq_Ndouble (coq_land p0 q0)
       | XH -> Npos XH)
    | XO p0 ->
      (match q with
       | XI q0 -> coq_Ndouble (coq_land p0 q0)
       | XO q0 -> coq_Ndouble (coq_land p0 q0)
       | XH -> N0)
    | XH -> (match q with
             | XO _ -> N0
             | _ -> Npos XH)

  (** val ldiff : positive -> positive -> n **)

  let rec ldiff p q =
    match p with
    | XI p0 ->
      (match q with
       | XI q0 -> coq_Ndouble (ldiff p0 q0)
       | XO q0 -> coq_Nsucc_double (ldiff p0 q0)
       | XH -> Npos (XO p0))
    | XO p0 ->
      (match q with
       | XI q0 -> coq_Ndouble (ldiff p0 q0)
       | XO q0 -> coq_Ndouble (ldiff p0 q0)
       | XH -> Npos p)
    | XH -> (match q with
             | XO _ -> Npos XH
             | _ -> N0)

  (** val testbit : positive -> n -> bool **)

  let rec testbit p n0 =
    match p with
    | XI p0 -> (match n0 with
                | N0 -> true
                | Npos n1 -> testbit p0 (pred_N n1))
    | XO p0 -> (match n0 with
                | N0 -> false
                | Npos n1 -> testbit p0 (pred_N n1))
    | XH -> (match n0 with
             | N0 -> true
             | Npos _ -> false)

  (** val iter_op : ('a1 -> 'a1 -> 'a1) -> positive -> 'a1 -> 'a1 **)

  let rec iter_op op p a =
    match p with
    | XI p0 -> op a (iter_op op p0 (op a a))
    | XO p0 -> iter_op op p0 (op a a)
    | XH -> a

  (** val to_nat : positive -> nat **)

  let to_nat x =
    iter_op Coq__1.add x (S O)

  (** val of_succ_nat : nat -> positive **)

  let rec of_succ_nat = function
  | O -> XH
  | S x -> succ (of_succ_nat x)
 end

module N =
 struct
  (** val succ_pos : n -> positive **)

  let succ_pos = function
  | N0 -> XH
  | Npos p -> Pos.succ p

  (** val add : n -> n -> n **)

  let add n0 m =
    match n0 with
    | N0 -> m
    | Npos p -> (match m with
                 | N0 -> n0
                 | Npos q -> Npos (Pos.add p q))

  (** val mul : n -> n -> n **)

  let mul n0 m =
    match n0 with
    | N0 -> N0
    | Npos p -> (match m with
                 | N0 -> N0
                 | Npos q -> Npos (Pos.mul p q))

  (** val coq_lor : n -> n -> n **)

  let coq_lor n0 m =
    match n0 with
    | N0 -> m
    | Npos p -> (match m with
                 | N0 -> n0
                 | Npos q -> Npos (Pos.coq_lor p q))

  (** val coq_land : n -> n -> n **)

  let coq_land n0 m =
    match n0 with
    | N0 -> N0
    | Npos p -> (match m with
                 | N0 -> N0
                 | Npos q -> Pos.coq_land p q)

  (** val ldiff : n -> n -> n **)

  let ldiff n0 m =
    match n0 with
    | N0 -> N0
    | Npos p -> (match m with
                 | N0 -> n0
                 | Npos q -> Pos.ldiff p q)

  (** val testbit : n -> n -> bool **)

  let testbit a n0 =
    match a with
    | N0 -> false
    | Npos p -> Pos.testbit p n0

  (** val to_nat : n -> nat **)

  let to_nat = function
  | N0 -> O
  | Npos p -> Pos.to_nat p
 end

module Z =
 struct
  (** val double : z -> z **)

  let double = function
  | Z0 -> Z0
  | Zpos p -> Zpos (XO p)
  | Zneg p -> Zneg (XO p)

  (** val succ_double : z -> z **)

  let succ_double = function
  | Z0 -> Zpos XH
  | Zpos p -> Zpos (XI p)
  | Zneg p -> Zneg (Pos.pred_double p)

  (** val pred_double : z -> z **)

  let pred_double = function
  | Z0 -> Zneg XH
  | Zpos p -> Zpos (Pos.pred_double p)
  | Zneg p -> Zneg (XI p)

  (** val pos_sub : positive -> positive -> z **)

  let rec pos_sub x y =
    match x with
    | XI p ->
      (match y with
       | XI q -> double (pos_sub p q)
       | XO q -> succ_double (pos_sub p q)
       | XH -> Zpos (XO p))
    | XO p ->
      (match y with
       | XI q -> pred_double (pos_sub p q)
       | XO q -> double (pos_sub p q)
       | XH -> Zpos (Pos.pred_double p))
    | XH ->
      (match y with
       | XI q -> Zneg (XO q)
       | XO q -> Zneg (Pos.pred_double q)
       | XH -> Z0)

  (** val add : z -> z -> z **)

  let add x y =
    match x with
    | Z0 -> y
    | Zpos x' ->
      (match y with
       | Z0 -> x
       | Zpos y' -> Zpos (Pos.add x' y')
       | Zneg y' -> pos_sub x' y')
    | Zneg x' ->
      (match y with
       | Z0 -> x
       | Zpos y' -> pos_sub y' x'
       | Zneg y' -> Zneg (Pos.add x' y'))

  (** val opp : z -> z **)

  let opp = function
  | Z0 -> Z0
  | Zpos x0 -> Zneg x0
  | Zneg x0 -> Zpos x0

  (** val pred : z -> z **)

  let pred x =
    add x (Zneg XH)

  (** val sub : z -> z -> z **)

  let sub m n0 =
    add m (opp n0)

  (** val mul : z -> z -> z **)

  let mul x y =
    match x with
    | Z0 -> Z0
    | Zpos x' ->
      (match y with
       | Z0 -> Z0
       | Zpos y' -> Zpos (Pos.mul x' y')
       | Zneg y' -> Zneg (Pos.mul x' y'))
    | Zneg x' ->
      (match y with
       | Z0 -> Z0
       | Zpos y' -> Zneg (Pos.mul x' y')
       | Zneg y' -> Zpos (Pos.mul x' y'))

  (** val pow_pos : z -> positive -> z **)

  let pow_pos z0 =
    Pos.iter (mul z0) (Zpos XH)

  (** val pow : z -> z -> z **)

  let pow x = function
  | Z0 -> Zpos XH
  | Zpos p -> pow_pos x p
  | Zneg _ -> Z0

  (** val compare : z -> z -> comparison **)

  let compare x y =
    match x with
    | Z0 -> (match y with
             | Z0 -> Eq
             | Zpos _ -> Lt
             | Zneg _ -> Gt)
    | Zpos x' -> (match y with
                  | Zpos y' -> Pos.compare x' y'
                  | _ -> Gt)
    | Zneg x' ->
      (match y with
       | Zneg y' -> compOpp (Pos.compare x' y')
       | _ -> Lt)

  (** val leb : z -> z -> bool **)

  let leb x y =
    match compare x y with
    | Gt -> false
    | _ -> true

  (** val ltb : z -> z -> bool **)

  let ltb x y =
    match compare x y with
    | Lt -> true
    | _ -> false

  (** val eqb : z -> z -> bool **)

  let eqb x y =
    match x with
    | Z0 -> (match y with
             | Z0 -> true
             | _ -> false)
    | Zpos p -> (match y with
                 | Zpos q -> Pos.eqb p q
                 | _ -> false)
    | Zneg p -> (match y with
                 | Zneg q -> Pos.eqb p q
                 | _ -> false)

  (** val max : z -> z -> z **)

  let max n0 m =
    match compare n0 m with
    | Lt -> m
    | _ -> n0

  (** val min : z -> z -> z **)

  let min n0 m =
    match compare n0 m with
    | Gt -> m
    | _ -> n0

  (** val to_nat : z -> nat **)

  let to_nat = function
  | Zpos p -> Pos.to_nat p
  | _ -> O

  (** val of_nat : nat -> z **)

  let of_nat = function
  | O -> Z0
  | S n1 -> Zpos (Pos.of_succ_nat n1)

  (** val of_N : n -> z **)

  let of_N = function
  | N0 -> Z0
  | Npos p -> Zpos p

  (** val pos_div_eucl : positive -> z -> z * z **)

  let rec pos_div_eucl a b =
    match a with
    | XI a' ->
      let (q, r) = pos_div_eucl a' b in
      let r' = add (mul (Zpos (XO XH)) r) (Zpos XH) in
      if ltb r' b
      then ((mul (Zpos (XO XH)) q), r')
      else ((add (mul (Zpos (XO XH)) q) (Zpos XH)), (sub r' b))
    | XO a' ->
      let (q, r) = pos_div_eucl a' b in
      let r' = mul (Zpos (XO XH)) r in
      if ltb r' b
      then ((mul (Zpos (XO XH)) q), r')
      else ((add (mul (Zpos (XO XH)) q) (Zpos XH)), (sub r' b))
    | XH -> if leb (Zpos (XO XH)) b then (Z0, (Zpos XH)) else ((Zpos XH), Z0)

  (** val div_eucl : z -> z -> z * z **)

  let div_eucl a b =
    match a with
    | Z0 -> (Z0, Z0)
    | Zpos a' ->
      (match b with
       | Z0 -> (Z0, a)
       | Zpos _ -> pos_div_eucl a' b
       | Zneg b' ->
         let (q, r) = pos_div_eucl a' (Zpos b') in
         (match r with
          | Z0 -> ((opp q), Z0)
          | _ -> ((opp (add q (Zpos XH))), (add b r))))
    | Zneg a' ->
      (match b with
       | Z0 -> (Z0, a)
       | Zpos _ ->
         let (q, r) = pos_div_eucl a' b in
         (match r with
          | Z0 -> ((opp q), Z0)
          | _ -> ((opp (add q (Zpos XH))), (sub b r)))
       | Zneg b' -> let (q, r) = pos_div_eucl a' (Zpos b') in (q, (opp r)))

  (** val div : z -> z -> z **)

  let div a b =
    let (q, _) = div_eucl a b in q

  (** val modulo : z -> z -> z **)

  let modulo a b =
    let (_, r) = div_eucl a b in r

  (** val odd : z -> bool **)

  let odd = function
  | Z0 -> false
  | Zpos p -> (match p with
               | XO _ -> false
               | _ -> true)
  | Zneg p -> (match p with
               | XO _ -> false
               | _ -> true)

  (** val div2 : z -> z **)

  let div2 = function
  | Z0 -> Z0
  | Zpos p -> (match p with
               | XH -> Z0
               | _ -> Zpos (Pos.div2 p))
  | Zneg p -> Zneg (Pos.div2_up p)

  (** val testbit : z -> z -> bool **)

  let testbit a = function
  | Z0 -> odd a
  | Zpos p ->
    (match a with
     | Z0 -> false
     | Zpos a0 -> Pos.testbit a0 (Npos p)
     | Zneg a0 -> negb (N.testbit (Pos.pred_N a0) (Npos p)))
  | Zneg _ -> false

  (** val shiftl : z -> z -> z **)

  let shiftl a = function
  | Z0 -> a
  | Zpos p -> Pos.iter (mul (Zpos (XO XH))) a p
  | Zneg p -> Pos.iter div2 a p

  (** val shiftr : z -> z -> z **)

  let shiftr a n0 =
    shiftl a (opp n0)

  (** val coq_lor : z -> z -> z **)

  let coq_lor a b =
    match a with
    | Z0 -> b
    | Zpos a0 ->
      (match b with
       | Z0 -> a
       | Zpos b0 -> Zpos (Pos.coq_lor a0 b0)
       | Zneg b0 -> Zneg (N.succ_pos (N.ldiff (Pos.pred_N b0) (Npos a0))))
    | Zneg a0 ->
      (match b with
       | Z0 -> a
       | Zpos b0 -> Zneg (N.succ_pos (N.ldiff (Pos.pred_N a0) (Npos b0)))
       | Zneg b0 ->
         Zneg (N.succ_pos (N.coq_land (Pos.pred_N a0) (Pos.pred_N b0))))

  (** val coq_land : z -> z -> z **)

  let coq_land a b =
    match a with
    | Z0 -> Z0
    | Zpos a0 ->
      (match b with
       | Z0 -> Z0
       | Zpos b0 -> of_N (Pos.coq_land a0 b0)
       | Zneg b0 -> of_N (N.ldiff (Npos a0) (Pos.pred_N b0)))
    | Zneg a0 ->
      (match b with
       | Z0 -> Z0
       | Zpos b0 -> of_N (N.ldiff (Npos b0) (Pos.pred_N a0))
       | Zneg b0 ->
         Zneg (N.succ_pos (N.coq_lor (Pos.pred_N a0) (Pos.pred_N b0))))

  (** val lnot : z -> z **)

  let lnot a =
    pred (opp a)

  (** val ones : z -> z **)

  let ones n0 =
    pred (shiftl (Zpos XH) n0)
 end

(** val tl : 'a1 list -> 'a1 list **)

let tl = function
| [] -> []
| _ :: m -> m

(** val nth : nat -> 'a1 list -> 'a1 -> 'a1 **)

let rec nth n0 l default =
  match n0 with
  | O -> (match l with
          | [] -> default
          | x :: _ -> x)
  | S m -> (match l with
            | [] -> default
            | _ :: t0 -> nth m t0 default)

(** val nth_error : 'a1 list -> nat -> 'a1 option **)

let rec nth_error l = function
| O -> (match l with
        | [] -> None
        | x :: _ -> Some x)
| S n1 -> (match l with
           | [] -> None
           | _ :: l0 -> nth_error l0 n1)

(** val rev : 'a1 list -> 'a1 list **)

let rec rev = function
| [] -> []
| x :: l' -> app (rev l') (x :: [])

(** val map : ('a1 -> 'a2) -> 'a1 list -> 'a2 list **)

let rec map f = function
| [] -> []
| a :: t0 -> (f a) :: (map f t0)

(** val flat_map : ('a1 -> 'a2 list) -> 'a1 list -> 'a2 list **)

let rec flat_map f = function
| [] -> []
| x :: t0 -> app (f x) (flat_map f t0)

(** val fold_left : ('a1 -> 'a2 -> 'a1) -> 'a2 list -> 'a1 -> 'a1 **)

let rec fold_left f l a0 =
  match l with
  | [] -> a0
  | b :: t0 -> fold_left f t0 (f a0 b)

(** val fold_right : ('a2 -> 'a1 -> 'a1) -> 'a1 -> 'a2 list -> 'a1 **)

let rec fold_right f a0 = function
| [] -> a0
| b :: t0 -> f b (fold_right f a0 t0)

(** val existsb : ('a1 -> bool) -> 'a1 list -> bool **)

let rec existsb f = function
| [] -> false
| a :: l0 -> (||) (f a) (existsb f l0)

(** val forallb : ('a1 -> bool) -> 'a1 list -> bool **)

let rec forallb f = function
| [] -> true
| a :: l0 -> (&&) (f a) (forallb f l0)

(** val filter : ('a1 -> bool) -> 'a1 list -> 'a1 list **)

let rec filter f = function
| [] -> []
| x :: l0 -> if f x then x :: (filter f l0) else filter f l0

(** val find : ('a1 -> bool) -> 'a1 list -> 'a1 option **)

let rec find f = function
| [] -> None
| x :: tl0 -> if f x then Some x else find f tl0

(** val combine : 'a1 list -> 'a2 list -> ('a1 * 'a2) list **)

let rec combine l l' =
  match l with
  | [] -> []
  | x :: tl0 ->
    (match l' with
     | [] -> []
     | y :: tl' -> (x, y) :: (combine tl0 tl'))

(** val firstn : nat -> 'a1 list -> 'a1 list **)

let rec firstn n0 l =
  match n0 with
  | O -> []
  | S n1 -> (match l with
             | [] -> []
             | a :: l0 -> a :: (firstn n1 l0))

(** val skipn : nat -> 'a1 list -> 'a1 list **)

let rec skipn n0 l =
  match n0 with
  | O -> l
  | S n1 -> (match l with
             | [] -> []
             | _ :: l0 -> skipn n1 l0)

(** val seq : nat -> nat -> nat list **)

let rec seq start = function
| O -> []
| S len0 -> start :: (seq (S start) len0)

(** val list_sum : nat list -> nat **)

let list_sum l =
  fold_right add O l

type ascii =
| Ascii of bool * bool * bool * bool * bool * bool * bool * bool

(** val eqb0 : ascii -> ascii -> bool **)

let eqb0 a b =
  let Ascii (a0, a1, a2, a3, a4, a5, a6, a7) = a in
  let Ascii (b0, b1, b2, b3, b4, b5, b6, b7) = b in
  if if if if if if if eqb a0 b0 then eqb a1 b1 else false
                 then eqb a2 b2
                 else false
              then eqb a3 b3
              else false
           then eqb a4 b4
           else false
        then eqb a5 b5
        else false
     then eqb a6 b6
     else false
  then eqb a7 b7
  else false

(** val n_of_digits : bool list -> n **)

let rec n_of_digits = function
| [] -> N0
| b :: l' ->
  N.add (if b then Npos XH else N0) (N.mul (Npos (XO XH)) (n_of_digits l'))

(** val n_of_ascii : ascii -> n **)

let n_of_ascii = function
| Ascii (a0, a1, a2, a3, a4, a5, a6, a7) ->
  n_of_digits
    (a0 :: (a1 :: (a2 :: (a3 :: (a4 :: (a5 :: (a6 :: (a7 :: []))))))))

(** val nat_of_ascii : ascii -> nat **)

let nat_of_ascii a =
  N.to_nat (n_of_ascii a)

type string =
| EmptyString
| String of ascii * string

(** val eqb1 : string -> string -> bool **)

let rec eqb1 s1 s2 =
  match s1 with
  | EmptyString ->
    (match s2 with
     | EmptyString -> true
     | String (_, _) -> false)
  | String (c1, s1') ->
    (match s2 with
     | EmptyString -> false
     | String (c2, s2') -> if eqb0 c1 c2 then eqb1 s1' s2' else false)

(** val append : string -> string -> string **)

let rec append s1 s2 =
  match s1 with
  | EmptyString -> s2
  | String (c, s1') -> String (c, (append s1' s2))

(** val neg_one : z -> z **)

let neg_one w =
  Z.sub (Z.pow (Zpos (XO XH)) w) (Zpos XH)

(** val wadd : z -> z -> z -> z **)

let wadd w a b =
  Z.modulo (Z.add a b) (Z.pow (Zpos (XO XH)) w)

(** val wmul : z -> z -> z -> z **)

let wmul w a b =
  Z.modulo (Z.mul a b) (Z.pow (Zpos (XO XH)) w)

(** val wneg : z -> z -> z **)

let wneg w a =
  Z.modulo (Z.opp a) (Z.pow (Zpos (XO XH)) w)

(** val wand : z -> z -> z **)

let wand =
  Z.coq_land

(** val wshr : z -> z -> z -> z **)

let wshr w a by_ =
  if Z.ltb by_ w then Z.shiftr a by_ else Z0

(** val wshl : z -> z -> z -> z **)

let wshl w a by_ =
  if Z.ltb by_ w
  then Z.modulo (Z.shiftl a by_) (Z.pow (Zpos (XO XH)) w)
  else Z0

(** val tz_pos : positive -> z **)

let rec tz_pos = function
| XO p' -> Z.add (Zpos XH) (tz_pos p')
| _ -> Z0

(** val tz : z -> z -> z **)

let tz w = function
| Z0 -> w
| Zpos p -> tz_pos p
| Zneg _ -> Z0

(** val is_odd : z -> bool **)

let is_odd a =
  Z.eqb (Z.coq_land a (Zpos XH)) (Zpos XH)

(** val wpow_loop : nat -> z -> z -> z -> z -> z **)

let rec wpow_loop fuel w base exp result =
  match fuel with
  | O -> result
  | S f ->
    if Z.eqb exp Z0
    then result
    else let result' = if is_odd exp then wmul w result base else result in
         wpow_loop f w (wmul w base base) (wshr w exp (Zpos XH)) result'

(** val wpow : z -> z -> z -> z **)

let wpow w b e =
  wpow_loop (Z.to_nat w) w b e (Zpos XH)

(** val winv : z -> z -> z option **)

let winv w x =
  if is_odd x
  then let tot = wshl w (Zpos XH) (Z.sub w (Zpos XH)) in
       Some (wpow w x (wadd w tot (neg_one w)))
  else None

(** val wdiv_reaches_sub : z -> z -> z -> bool **)

let wdiv_reaches_sub w n0 d =
  (&&) (negb (Z.eqb n0 Z0)) (negb (Z.ltb (tz w n0) (tz w d)))

(** val wdiv : z -> z -> z -> z option **)

let wdiv w n0 d =
  let shift = tz w d in
  if Z.eqb n0 Z0
  then Some Z0
  else if Z.ltb (tz w n0) shift
       then None
       else let d' = wshr w d shift in
            let tot = wshl w (Zpos XH) (Z.sub (Z.sub w shift) (Zpos XH)) in
            let inv = wpow w d' (wadd w tot (neg_one w)) in
            let result = wmul w inv (wshr w n0 shift) in
            Some
            (wand result
              (wadd w (wshl w (Zpos XH) (Z.sub w shift)) (neg_one w)))

(** val into_u64 : z -> z -> z **)

let into_u64 _ c =
  c

(** val from_u64 : z -> z -> z **)

let from_u64 w v =
  Z.modulo v (Z.pow (Zpos (XO XH)) w)

(** val into_i64 : z -> z -> z **)

let into_i64 w c =
  if Z.ltb c (Z.pow (Zpos (XO XH)) (Z.sub w (Zpos XH)))
  then c
  else Z.sub c (Z.pow (Zpos (XO XH)) w)

(** val from_u8 : z -> z -> z **)

let from_u8 =
  from_u64

(** val into_u8 : z -> z -> z **)

let into_u8 w c =
  Z.modulo (into_u64 w c) (Zpos (XO (XO (XO (XO (XO (XO (XO (XO XH)))))))))

(** val from_i16 : z -> z -> z **)

let from_i16 w v =
  from_u64 w
    (Z.modulo v
      (Z.pow (Zpos (XO XH)) (Zpos (XO (XO (XO (XO (XO (XO XH)))))))))

(** val try_into_i16 : z -> z -> z option **)

let try_into_i16 w c =
  let s = into_i64 w c in
  if (&&)
       (Z.leb (Zneg (XO (XO (XO (XO (XO (XO (XO (XO (XO (XO (XO (XO (XO (XO
         (XO XH)))))))))))))))) s)
       (Z.leb s (Zpos (XI (XI (XI (XI (XI (XI (XI (XI (XI (XI (XI (XI (XI (XI
         XH))))))))))))))))
  then Some s
  else None

(** val append0 : positive -> positive -> positive **)

let rec append0 i j =
  match i with
  | XI ii -> XI (append0 ii j)
  | XO ii -> XO (append0 ii j)
  | XH -> j

module PositiveMap =
 struct
  type key = positive

  type 'a tree =
  | Leaf
  | Node of 'a tree * 'a option * 'a tree

  type 'a t = 'a tree

  (** val empty : 'a1 t **)

  let empty =
    Leaf

  (** val find : key -> 'a1 t -> 'a1 option **)

  let rec find i = function
  | Leaf -> None
  | Node (l, o, r) ->
    (match i with
     | XI ii -> find ii r
     | XO ii -> find ii l
     | XH -> o)

  (** val add : key -> 'a1 -> 'a1 t -> 'a1 t **)

  let rec add i v = function
  | Leaf ->
    (match i with
     | XI ii -> Node (Leaf, None, (add ii v Leaf))
     | XO ii -> Node ((add ii v Leaf), None, Leaf)
     | XH -> Node (Leaf, (Some v), Leaf))
  | Node (l, o, r) ->
    (match i with
     | XI ii -> Node (l, o, (add ii v r))
     | XO ii -> Node ((add ii v l), o, r)
     | XH -> Node (l, (Some v), r))

  (** val xelements : 'a1 t -> key -> (key * 'a1) list **)

  let rec xelements m i =
    match m with
    | Leaf -> []
    | Node (l, o, r) ->
      (match o with
       | Some x ->
         app (xelements l (append0 i (XO XH))) ((i,
           x) :: (xelements r (append0 i (XI XH))))
       | None ->
         app (xelements l (append0 i (XO XH)))
           (xelements r (append0 i (XI XH))))

  (** val elements : 'a1 t -> (key * 'a1) list **)

  let elements m =
    xelements m XH
 end

type event =
| EvIn of z
| EvEof
| EvInFail
| EvOut of z
| EvOutFail of z

type env = { input : z list; in_absent : bool; in_fail_at : nat option;
             out_present : bool; out_fail_at : nat option }

type iost = { in_pos : nat; out_cnt : nat; trace : event list }

(** val io0 : iost **)

let io0 =
  { in_pos = O; out_cnt = O; trace = [] }

type 'a io_res =
| IoOk of 'a * iost
| IoFail of iost

(** val opt_nat_eqb : nat option -> nat -> bool **)

let opt_nat_eqb o n0 =
  match o with
  | Some k -> Nat.eqb k n0
  | None -> false

(** val do_input : env -> iost -> z io_res **)

let do_input e s =
  if e.in_absent
  then IoFail s
  else if opt_nat_eqb e.in_fail_at s.in_pos
       then IoFail { in_pos = (S s.in_pos); out_cnt = s.out_cnt; trace =
              (EvInFail :: s.trace) }
       else (match nth_error e.input s.in_pos with
             | Some b ->
               IoOk (b, { in_pos = (S s.in_pos); out_cnt = s.out_cnt; trace =
                 ((EvIn b) :: s.trace) })
             | None ->
               IoOk (Z0, { in_pos = (S s.in_pos); out_cnt = s.out_cnt;
                 trace = (EvEof :: s.trace) }))

(** val do_output : env -> iost -> z -> unit io_res **)

let do_output e s b =
  if negb e.out_present
  then IoOk ((), s)
  else if opt_nat_eqb e.out_fail_at s.out_cnt
       then IoFail { in_pos = s.in_pos; out_cnt = (S s.out_cnt); trace =
              ((EvOutFail b) :: s.trace) }
       else IoOk ((), { in_pos = s.in_pos; out_cnt = (S s.out_cnt); trace =
              ((EvOut b) :: s.trace) })

type 'a outcome =
| Done of 'a
| Stopped of 'a
| Interrupted of 'a
| Errored of z * 'a
| OutOfFuel of 'a

(** val outcome_state : 'a1 outcome -> 'a1 **)

let outcome_state = function
| Done a -> a
| Stopped a -> a
| Interrupted a -> a
| Errored (_, a) -> a
| OutOfFuel a -> a

(** val key_of : z -> positive **)

let key_of = function
| Z0 -> XH
| Zpos p -> XO p
| Zneg p -> XI p

type tmap = z PositiveMap.t

(** val tempty : tmap **)

let tempty =
  PositiveMap.empty

(** val tget : tmap -> z -> z **)

let tget t0 k =
  match PositiveMap.find (key_of k) t0 with
  | Some v -> v
  | None -> Z0

(** val tset : tmap -> z -> z -> tmap **)

let tset t0 k v =
  PositiveMap.add (key_of k) v t0

type cmd =
| Inc
| Dec
| Left
| Right
| Out
| In
| Loop of cmd list

(** val ch_plus : z **)

let ch_plus =
  Zpos (XI (XI (XO (XI (XO XH)))))

(** val ch_comma : z **)

let ch_comma =
  Zpos (XO (XO (XI (XI (XO XH)))))

(** val ch_minus : z **)

let ch_minus =
  Zpos (XI (XO (XI (XI (XO XH)))))

(** val ch_dot : z **)

let ch_dot =
  Zpos (XO (XI (XI (XI (XO XH)))))

(** val ch_lt : z **)

let ch_lt =
  Zpos (XO (XO (XI (XI (XI XH)))))

(** val ch_gt : z **)

let ch_gt =
  Zpos (XO (XI (XI (XI (XI XH)))))

(** val ch_open : z **)

let ch_open =
  Zpos (XI (XI (XO (XI (XI (XO XH))))))

(** val ch_close : z **)

let ch_close =
  Zpos (XI (XO (XI (XI (XI (XO XH))))))

(** val parse_seg : nat -> z list -> (cmd list * z list) option **)

let rec parse_seg fuel cs =
  match fuel with
  | O -> None
  | S f ->
    (match cs with
     | [] -> Some ([], [])
     | c :: r ->
       if Z.eqb c ch_close
       then Some ([], cs)
       else if Z.eqb c ch_open
            then (match parse_seg f r with
                  | Some p ->
                    let (body, after) = p in
                    (match after with
                     | [] -> None
                     | _ :: r2 ->
                       (match parse_seg f r2 with
                        | Some p0 ->
                          let (more, a) = p0 in
                          Some (((Loop body) :: more), a)
                        | None -> None))
                  | None -> None)
            else (match parse_seg f r with
                  | Some p ->
                    let (more, a) = p in
                    if Z.eqb c ch_plus
                    then Some ((Inc :: more), a)
                    else if Z.eqb c ch_minus
                         then Some ((Dec :: more), a)
                         else if Z.eqb c ch_lt
                              then Some ((Left :: more), a)
                              else if Z.eqb c ch_gt
                                   then Some ((Right :: more), a)
                                   else if Z.eqb c ch_dot
                                        then Some ((Out :: more), a)
                                        else if Z.eqb c ch_comma
                                             then Some ((In :: more), a)
                                             else Some (more, a)
                  | None -> None))

(** val ast_of_source : z list -> cmd list option **)

let ast_of_source cs =
  match parse_seg (S (length cs)) cs with
  | Some p0 -> let (p, l) = p0 in (match l with
                                   | [] -> Some p
                                   | _ :: _ -> None)
  | None -> None

(** val balanced_from : z list -> nat -> bool **)

let rec balanced_from cs depth =
  match cs with
  | [] -> Nat.eqb depth O
  | c :: cs' ->
    if Z.eqb c ch_open
    then balanced_from cs' (S depth)
    else if Z.eqb c ch_close
         then (match depth with
               | O -> false
               | S d -> balanced_from cs' d)
         else balanced_from cs' depth

(** val balanced : z list -> bool **)

let balanced cs =
  balanced_from cs O

type bfst = { tape : tmap; ptr : z; io : iost }

(** val bf0 : bfst **)

let bf0 =
  { tape = tempty; ptr = Z0; io = io0 }

(** val cur : bfst -> z **)

let cur s =
  tget s.tape s.ptr

(** val set_cur : bfst -> z -> bfst **)

let set_cur s v =
  { tape = (tset s.tape s.ptr v); ptr = s.ptr; io = s.io }

(** val set_io : bfst -> iost -> bfst **)

let set_io s i =
  { tape = s.tape; ptr = s.ptr; io = i }

(** val move : bfst -> z -> bfst **)

let move s d =
  { tape = s.tape; ptr = (Z.add s.ptr d); io = s.io }

(** val bf_simple : z -> env -> cmd -> bfst -> (bfst, bfst) sum **)

let bf_simple w e c s =
  match c with
  | Inc -> Inl (set_cur s (wadd w (cur s) (Zpos XH)))
  | Dec -> Inl (set_cur s (wadd w (cur s) (neg_one w)))
  | Left -> Inl (move s (Zneg XH))
  | Right -> Inl (move s (Zpos XH))
  | Out ->
    (match do_output e s.io (into_u8 w (cur s)) with
     | IoOk (_, i) -> Inl (set_io s i)
     | IoFail i -> Inr (set_io s i))
  | In ->
    (match do_input e s.io with
     | IoOk (b, i) -> Inl (set_io (set_cur s (from_u8 w b)) i)
     | IoFail i -> Inr (set_io s i))
  | Loop _ -> Inl s

(** val bf_exec : z -> env -> nat -> cmd list -> bfst -> bfst outcome **)

let rec bf_exec w e fuel p s =
  match fuel with
  | O -> OutOfFuel s
  | S f ->
    (match p with
     | [] -> Done s
     | c :: rest ->
       (match c with
        | Loop body ->
          if Z.eqb (cur s) Z0
          then bf_exec w e f rest s
          else (match bf_exec w e f body s with
                | Done s' -> bf_exec w e f p s'
                | x -> x)
        | _ ->
          (match bf_simple w e c s with
           | Inl s' -> bf_exec w e f rest s'
           | Inr s' -> Stopped s')))

(** val bf_run : z -> env -> nat -> z list -> bfst outcome option **)

let bf_run w e fuel src =
  match ast_of_source src with
  | Some p -> Some (bf_exec w e fuel p bf0)
  | None -> None

(** val events : ('a1 -> iost) -> 'a1 outcome -> event list **)

let events get_io o =
  rev (get_io (outcome_state o)).trace

type part = z * z list

type expr = part list

(** val lcmp : z list -> z list -> comparison **)

let rec lcmp a b =
  match a with
  | [] -> (match b with
           | [] -> Eq
           | _ :: _ -> Lt)
  | x :: a' ->
    (match b with
     | [] -> Gt
     | y :: b' -> (match Z.compare x y with
                   | Eq -> lcmp a' b'
                   | x0 -> x0))

(** val list_eqb : z list -> z list -> bool **)

let rec list_eqb a b =
  match a with
  | [] -> (match b with
           | [] -> true
           | _ :: _ -> false)
  | x :: a' ->
    (match b with
     | [] -> false
     | y :: b' -> (&&) (Z.eqb x y) (list_eqb a' b'))

(** val mem : z -> z list -> bool **)

let rec mem v = function
| [] -> false
| x :: t0 -> (||) (Z.eqb x v) (mem v t0)

(** val count : z -> z list -> nat **)

let rec count v = function
| [] -> O
| x :: t0 -> if Z.eqb x v then S (count v t0) else count v t0

(** val dedup : z list -> z list **)

let rec dedup = function
| [] -> []
| x :: t0 ->
  (match t0 with
   | [] -> x :: []
   | y :: _ -> if Z.eqb x y then dedup t0 else x :: (dedup t0))

(** val insert_z : z -> z list -> z list **)

let rec insert_z x l = match l with
| [] -> x :: []
| y :: t0 -> if Z.leb x y then x :: l else y :: (insert_z x t0)

(** val sort_z : z list -> z list **)

let sort_z l =
  fold_right insert_z [] l

(** val insert_part : part -> expr -> expr **)

let rec insert_part p l = match l with
| [] -> p :: []
| q :: t0 ->
  (match lcmp (snd p) (snd q) with
   | Gt -> q :: (insert_part p t0)
   | _ -> p :: l)

(** val sort_parts : expr -> expr **)

let sort_parts l =
  fold_right insert_part [] l

(** val nonzero : part -> bool **)

let nonzero p =
  negb (Z.eqb (fst p) Z0)

(** val e_val : z -> expr **)

let e_val c =
  if Z.eqb c Z0 then [] else (c, []) :: []

(** val e_var : z -> expr **)

let e_var v =
  ((Zpos XH), (v :: [])) :: []

(** val eval_part : z -> (z -> z) -> part -> z **)

let eval_part w get0 p =
  fold_left (fun pv v -> wmul w pv (get0 v)) (snd p) (fst p)

(** val eval : z -> expr -> (z -> z) -> z **)

let eval w e get0 =
  fold_left (fun val0 p -> wadd w val0 (eval_part w get0 p)) e Z0

(** val e_add : z -> expr -> expr -> expr **)

let rec e_add w a b =
  match a with
  | [] -> b
  | pa :: a' ->
    let rec go = function
    | [] -> pa :: a'
    | pb :: b' ->
      (match lcmp (snd pa) (snd pb) with
       | Eq ->
         let c = wadd w (fst pa) (fst pb) in
         if Z.eqb c Z0
         then e_add w a' b'
         else (c, (snd pa)) :: (e_add w a' b')
       | Lt -> pa :: (e_add w a' (pb :: b'))
       | Gt -> pb :: (go b'))
    in go b

(** val scale_parts : z -> expr -> part -> expr **)

let scale_parts w ps q =
  filter nonzero
    (map (fun p -> ((wmul w (fst p) (fst q)), (app (snd p) (snd q)))) ps)

type amap = (z list * z) list

(** val acc_add : z -> z list -> z -> amap -> amap **)

let rec acc_add w k c = function
| [] -> (k, (wadd w Z0 c)) :: []
| p :: m' ->
  let (k', c') = p in
  if list_eqb k k'
  then (k', (wadd w c' c)) :: m'
  else (k', c') :: (acc_add w k c m')

(** val amap_parts : amap -> expr **)

let amap_parts m =
  sort_parts (filter nonzero (map (fun kc -> ((snd kc), (fst kc))) m))

(** val mul_general : z -> expr -> expr -> expr **)

let mul_general w a b =
  amap_parts
    (fold_left (fun m pa ->
      fold_left (fun m0 pb ->
        acc_add w (sort_z (app (snd pa) (snd pb))) (wmul w (fst pa) (fst pb))
          m0) b m) a [])

(** val e_mul : z -> expr -> expr -> expr **)

let e_mul w a b =
  match a with
  | [] -> []
  | q :: l ->
    (match l with
     | [] -> (match b with
              | [] -> []
              | _ :: _ -> scale_parts w b q)
     | _ :: _ ->
       (match b with
        | [] -> []
        | q0 :: l1 ->
          (match l1 with
           | [] -> scale_parts w a q0
           | _ :: _ -> mul_general w a b)))

(** val e_neg : z -> expr -> expr **)

let e_neg w a =
  map (fun p -> ((wneg w (fst p)), (snd p))) a

(** val e_half : z -> expr -> expr option **)

let e_half w a =
  if forallb (fun p -> negb (is_odd (fst p))) a
  then Some (map (fun p -> ((wshr w (fst p) (Zpos XH)), (snd p))) a)
  else None

(** val e_is_zero : expr -> bool **)

let e_is_zero = function
| [] -> true
| _ :: _ -> false

(** val e_add_count : expr -> nat **)

let e_add_count a =
  pred (length a)

(** val e_op_count : z -> expr -> nat **)

let e_op_count w a =
  pred
    (Nat.add
      (fold_left (fun n0 p ->
        Nat.add n0 (Nat.mul (S (S O)) (length (snd p)))) a O)
      (length
        (filter (fun p ->
          (&&) (negb (Z.eqb (fst p) (Zpos XH)))
            (negb (Z.eqb (fst p) (neg_one w)))) a)))

(** val e_constant : expr -> z option **)

let e_constant = function
| [] -> Some Z0
| p :: l ->
  let (c, l0) = p in
  (match l0 with
   | [] -> (match l with
            | [] -> Some c
            | _ :: _ -> None)
   | _ :: _ -> None)

(** val is_single : z -> part -> bool **)

let is_single v p =
  match snd p with
  | [] -> false
  | x :: l -> (match l with
               | [] -> Z.eqb x v
               | _ :: _ -> false)

(** val e_inc_of : expr -> z -> expr option **)

let e_inc_of a v =
  if (&&)
       (existsb (fun p -> (&&) (Z.eqb (fst p) (Zpos XH)) (is_single v p)) a)
       (forallb (fun p ->
         (||) (negb (mem v (snd p))) (Nat.eqb (length (snd p)) (S O))) a)
  then Some (filter (fun p -> negb (is_single v p)) a)
  else None

(** val e_prod_inc_of : expr -> z -> (expr * z) option **)

let e_prod_inc_of a v =
  if forallb (fun p ->
       (||) (negb (mem v (snd p))) (Nat.eqb (length (snd p)) (S O))) a
  then Some ((filter (fun p -> negb (is_single v p)) a),
         (fold_left (fun m p -> if is_single v p then fst p else m) a Z0))
  else None

(** val e_const_inc_of : expr -> z -> z option **)

let e_const_inc_of a v =
  match a with
  | [] -> None
  | p :: l ->
    let (c0, l0) = p in
    (match l0 with
     | [] ->
       (match l with
        | [] -> None
        | p0 :: l1 ->
          let (c1, l2) = p0 in
          (match l2 with
           | [] -> None
           | x :: l3 ->
             (match l3 with
              | [] ->
                (match l1 with
                 | [] ->
                   if (&&) (Z.eqb c1 (Zpos XH)) (Z.eqb x v)
                   then Some c0
                   else None
                 | _ :: _ -> None)
              | _ :: _ -> None)))
     | x :: l1 ->
       (match l1 with
        | [] ->
          (match l with
           | [] ->
             if (&&) (Z.eqb c0 (Zpos XH)) (Z.eqb x v) then Some Z0 else None
           | _ :: _ -> None)
        | _ :: _ -> None))

(** val remove_var : z -> z list -> z list **)

let remove_var v l =
  filter (fun x -> negb (Z.eqb x v)) l

(** val e_prod_of : z -> expr -> z -> expr option **)

let e_prod_of w a v =
  if forallb (fun p -> Nat.eqb (count v (snd p)) (S O)) a
  then Some
         (fold_left (fun acc p ->
           e_add w acc (((fst p), (remove_var v (snd p))) :: [])) a [])
  else None

(** val e_constant_part : expr -> z **)

let e_constant_part = function
| [] -> Z0
| p :: _ -> let (c, l0) = p in (match l0 with
                                | [] -> c
                                | _ :: _ -> Z0)

(** val e_identity : expr -> z option **)

let e_identity = function
| [] -> None
| p :: l ->
  let (c, l0) = p in
  (match l0 with
   | [] -> None
   | x :: l1 ->
     (match l1 with
      | [] ->
        (match l with
         | [] -> if Z.eqb c (Zpos XH) then Some x else None
         | _ :: _ -> None)
      | _ :: _ -> None))

(** val e_variables : expr -> z list **)

let e_variables a =
  flat_map snd a

(** val assoc_z : z -> (z * 'a1) list -> 'a1 option **)

let rec assoc_z v = function
| [] -> None
| p :: m' -> let (k, x) = p in if Z.eqb k v then Some x else assoc_z v m'

(** val e_split_along :
    z -> expr -> z list -> (z * expr) list -> ((expr * expr) * (expr * expr)
    list) option **)

let e_split_along w a constant linear =
  let isc = fun v -> mem v constant in
  let isl = fun v ->
    match assoc_z v linear with
    | Some _ -> true
    | None -> false
  in
  fold_left (fun acc p ->
    match acc with
    | Some y ->
      let (y0, lp) = y in
      let (cp, op) = y0 in
      if forallb isc (snd p)
      then Some (((app cp (p :: [])), op), lp)
      else if (&&) (forallb (fun v -> (||) (isc v) (isl v)) (snd p))
                (Nat.eqb (length (filter (fun x -> negb (isc x)) (snd p))) (S
                  O))
           then (match filter (fun x -> negb (isc x)) (snd p) with
                 | [] -> None
                 | lv :: _ ->
                   (match assoc_z lv linear with
                    | Some li ->
                      Some ((cp, op),
                        (app lp (((p :: []),
                          (e_mul w (((fst p), (remove_var lv (snd p))) :: [])
                            li)) :: [])))
                    | None -> None))
           else Some ((cp, (app op (p :: []))), lp)
    | None -> None) a (Some (([], []), []))

(** val half_mod : z -> z **)

let half_mod w =
  wshl w (Zpos XH) (Z.sub w (Zpos XH))

(** val chunk_sum : z -> part option -> expr -> expr **)

let rec chunk_sum w head = function
| [] -> (match head with
         | Some h -> h :: []
         | None -> [])
| p :: t0 ->
  (match head with
   | Some h ->
     if list_eqb (snd h) (snd p)
     then chunk_sum w (Some ((wadd w (fst h) (fst p)), (snd h))) t0
     else h :: (chunk_sum w (Some p) t0)
   | None -> chunk_sum w (Some p) t0)

(** val norm_phase1 : z -> expr -> expr **)

let norm_phase1 w a =
  let hm = half_mod w in
  if existsb (fun p ->
       (&&) (Nat.leb (S (S O)) (length (snd p))) (Z.eqb (fst p) hm)) a
  then let a' =
         map (fun p ->
           if Z.eqb (fst p) hm then ((fst p), (dedup (snd p))) else p) a
       in
       let need =
         existsb (fun pq ->
           negb (Nat.eqb (length (snd (fst pq))) (length (snd (snd pq)))))
           (combine a a')
       in
       if need then filter nonzero (chunk_sum w None (sort_parts a')) else a'
  else a

(** val upd_coef : nat -> z -> expr -> expr **)

let rec upd_coef i c = function
| [] -> []
| p :: t0 ->
  (match i with
   | O -> (c, (snd p)) :: t0
   | S i' -> p :: (upd_coef i' c t0))

(** val coef_at : expr -> nat -> z **)

let coef_at l i =
  fst (nth i l (Z0, []))

(** val vars_at : expr -> nat -> z list **)

let vars_at l i =
  snd (nth i l (Z0, []))

(** val assoc_l : z list -> (z list * 'a1) list -> 'a1 option **)

let rec assoc_l k = function
| [] -> None
| p :: m' -> let (k', x) = p in if list_eqb k k' then Some x else assoc_l k m'

(** val assoc_l_push :
    z list -> nat -> (z list * nat list) list -> (z list * nat list) list **)

let rec assoc_l_push k i = function
| [] -> (k, (i :: [])) :: []
| p :: m' ->
  let (k', x) = p in
  if list_eqb k k'
  then (k', (app x (i :: []))) :: m'
  else (k', x) :: (assoc_l_push k i m')

(** val norm_cond : z -> z -> z -> bool **)

let norm_cond w ci cj =
  let hm = half_mod w in
  let hp = wadd w hm (Zpos XH) in
  let hmm = wadd w hm (neg_one w) in
  (||)
    ((&&) ((||) (Z.leb ci hp) (Z.leb hmm ci))
      ((||) (Z.ltb (Zpos XH) cj) (Z.ltb cj (neg_one w))))
    ((&&) ((&&) (Z.ltb (Zpos XH) ci) (Z.ltb ci (neg_one w)))
      ((||) (Z.leb cj hp) (Z.leb hmm cj)))

(** val phase2_inner :
    z -> nat -> nat list -> (expr * bool) -> expr * bool **)

let phase2_inner w i others pn =
  fold_left (fun pn0 j ->
    let ps = fst pn0 in
    if norm_cond w (coef_at ps i) (coef_at ps j)
    then let ni = wadd w (coef_at ps i) (half_mod w) in
         let nj = wadd w (coef_at ps j) (half_mod w) in
         ((upd_coef j nj (upd_coef i ni ps)),
         ((||) ((||) (snd pn0) (Z.eqb ni Z0)) (Z.eqb nj Z0)))
    else pn0) others pn

(** val phase2_step :
    z -> ((expr * (z list * nat list) list) * bool) -> nat -> (expr * (z
    list * nat list) list) * bool **)

let phase2_step w st i =
  let parts = fst (fst st) in
  let by_red = snd (fst st) in
  let need = snd st in
  if Nat.eqb (length (vars_at parts i)) O
  then st
  else let key0 = dedup (vars_at parts i) in
       (match assoc_l key0 by_red with
        | Some others ->
          let r = phase2_inner w i others (parts, need) in
          (((fst r), (assoc_l_push key0 i by_red)), (snd r))
        | None -> ((parts, (assoc_l_push key0 i by_red)), need))

(** val norm_phase2 : z -> expr -> expr **)

let norm_phase2 w a =
  let hm = half_mod w in
  let hp = wadd w hm (Zpos XH) in
  let hmm = wadd w hm (neg_one w) in
  if existsb (fun p ->
       (&&) (negb (Nat.eqb (length (snd p)) O))
         ((||) (Z.leb (fst p) hp) (Z.leb hmm (fst p)))) a
  then let r = fold_left (phase2_step w) (seq O (length a)) ((a, []), false)
       in
       if snd r then filter nonzero (fst (fst r)) else fst (fst r)
  else a

(** val e_normalize : z -> expr -> expr **)

let e_normalize w a =
  if (&&) (negb (e_is_zero a))
       (existsb (fun p -> Nat.leb (S (S O)) (length (snd p))) a)
  then norm_phase2 w (norm_phase1 w a)
  else a

(** val scale_sorted : z -> expr -> part -> expr **)

let scale_sorted w ps q =
  filter nonzero
    (map (fun p -> ((wmul w (fst p) (fst q)),
      (sort_z (app (snd p) (snd q))))) ps)

(** val amap_list : amap -> expr **)

let amap_list m =
  filter nonzero (map (fun kc -> ((snd kc), (fst kc))) m)

(** val mul_parts : z -> expr -> expr -> expr **)

let mul_parts w left right =
  match left with
  | [] -> []
  | q :: l ->
    (match l with
     | [] -> (match right with
              | [] -> []
              | _ :: _ -> scale_sorted w right q)
     | _ :: _ ->
       (match right with
        | [] -> []
        | q0 :: l1 ->
          (match l1 with
           | [] -> scale_sorted w left q0
           | _ :: _ ->
             amap_list
               (fold_left (fun m pr ->
                 fold_left (fun m0 pl ->
                   acc_add w (sort_z (app (snd pr) (snd pl)))
                     (wmul w (fst pr) (fst pl)) m0) left m) right []))))

(** val e_symb_evaluate : z -> expr -> (z -> expr option) -> expr option **)

let e_symb_evaluate w a func =
  match e_identity a with
  | Some v -> func v
  | None ->
    (match e_constant a with
     | Some c -> Some (e_val c)
     | None ->
       let step = fun acc p ->
         match acc with
         | Some m ->
           (match snd p with
            | [] -> Some (acc_add w [] (fst p) m)
            | v :: vs ->
              (match vs with
               | [] ->
                 (match func v with
                  | Some ev ->
                    Some
                      (fold_left (fun m0 vp ->
                        acc_add w (snd vp) (wmul w (fst p) (fst vp)) m0) ev m)
                  | None -> None)
               | _ :: _ ->
                 (match func v with
                  | Some ev ->
                    (match fold_left (fun partial v' ->
                             match partial with
                             | Some pr ->
                               (match func v' with
                                | Some e' -> Some (mul_parts w pr e')
                                | None -> None)
                             | None -> None) vs (Some ev) with
                     | Some partial ->
                       Some
                         (fold_left (fun m0 vp ->
                           acc_add w (snd vp) (wmul w (fst p) (fst vp)) m0)
                           partial m)
                     | None -> None)
                  | None -> None)))
         | None -> None
       in
       (match fold_left step a (Some []) with
        | Some m -> Some (amap_parts m)
        | None -> None))

(** val singles_unique_b : z -> expr -> bool **)

let singles_unique_b v a =
  Nat.leb (length (filter (is_single v) a)) (S O)

(** val const_first_b : expr -> bool **)

let const_first_b a =
  forallb (fun p -> negb (Nat.eqb (length (snd p)) O)) (tl a)

(** val shape_ok_b : expr -> bool **)

let shape_ok_b a =
  (&&) (const_first_b a)
    (forallb (fun v -> singles_unique_b v a) (e_variables a))

type ipst = { ip_tape : tmap; ip_ptr : z; ip_io : iost; ip_budget : z;
              ip_stack : z list list }

(** val ip0 : z -> ipst **)

let ip0 budget =
  { ip_tape = tempty; ip_ptr = Z0; ip_io = io0; ip_budget = budget;
    ip_stack = [] }

(** val ip_cur : ipst -> z **)

let ip_cur s =
  tget s.ip_tape s.ip_ptr

(** val ip_set_cur : ipst -> z -> ipst **)

let ip_set_cur s v =
  { ip_tape = (tset s.ip_tape s.ip_ptr v); ip_ptr = s.ip_ptr; ip_io =
    s.ip_io; ip_budget = s.ip_budget; ip_stack = s.ip_stack }

(** val ip_set_io : ipst -> iost -> ipst **)

let ip_set_io s i =
  { ip_tape = s.ip_tape; ip_ptr = s.ip_ptr; ip_io = i; ip_budget =
    s.ip_budget; ip_stack = s.ip_stack }

(** val ip_move : ipst -> z -> ipst **)

let ip_move s d =
  { ip_tape = s.ip_tape; ip_ptr = (Z.add s.ip_ptr d); ip_io = s.ip_io;
    ip_budget = s.ip_budget; ip_stack = s.ip_stack }

(** val ip_set_stack : ipst -> z list list -> ipst **)

let ip_set_stack s st =
  { ip_tape = s.ip_tape; ip_ptr = s.ip_ptr; ip_io = s.ip_io; ip_budget =
    s.ip_budget; ip_stack = st }

(** val ip_set_budget : ipst -> z -> ipst **)

let ip_set_budget s b =
  { ip_tape = s.ip_tape; ip_ptr = s.ip_ptr; ip_io = s.ip_io; ip_budget = b;
    ip_stack = s.ip_stack }

(** val ip_scan : z list -> nat -> z list **)

let rec ip_scan rest cnt =
  match rest with
  | [] -> []
  | c :: rest' ->
    if Z.eqb c ch_close
    then (match cnt with
          | O -> rest'
          | S n0 -> ip_scan rest' n0)
    else if Z.eqb c ch_open then ip_scan rest' (S cnt) else ip_scan rest' cnt

(** val ip_exec :
    z -> env -> bool -> z -> nat -> z list -> ipst -> ipst outcome **)

let rec ip_exec w e limited total fuel rest s =
  match fuel with
  | O -> OutOfFuel s
  | S f ->
    (match rest with
     | [] -> Done s
     | c :: rest' ->
       if Z.eqb c ch_lt
       then ip_exec w e limited total f rest' (ip_move s (Zneg XH))
       else if Z.eqb c ch_gt
            then ip_exec w e limited total f rest' (ip_move s (Zpos XH))
            else if Z.eqb c ch_plus
                 then ip_exec w e limited total f rest'
                        (ip_set_cur s (wadd w (ip_cur s) (Zpos XH)))
                 else if Z.eqb c ch_minus
                      then ip_exec w e limited total f rest'
                             (ip_set_cur s (wadd w (ip_cur s) (neg_one w)))
                      else if Z.eqb c ch_dot
                           then (match do_output e s.ip_io
                                         (into_u8 w (ip_cur s)) with
                                 | IoOk (_, i) ->
                                   ip_exec w e limited total f rest'
                                     (ip_set_io s i)
                                 | IoFail i -> Stopped (ip_set_io s i))
                           else if Z.eqb c ch_comma
                                then (match do_input e s.ip_io with
                                      | IoOk (b, i) ->
                                        ip_exec w e limited total f rest'
                                          (ip_set_io
                                            (ip_set_cur s (from_u8 w b)) i)
                                      | IoFail i -> Stopped (ip_set_io s i))
                                else if Z.eqb c ch_open
                                     then if Z.eqb (ip_cur s) Z0
                                          then ip_exec w e limited total f
                                                 (ip_scan rest' O) s
                                          else ip_exec w e limited total f
                                                 rest'
                                                 (ip_set_stack s
                                                   (rest' :: s.ip_stack))
                                     else if Z.eqb c ch_close
                                          then if (&&) limited
                                                    (Z.eqb s.ip_budget Z0)
                                               then Interrupted s
                                               else let s1 =
                                                      if limited
                                                      then ip_set_budget s
                                                             (Z.sub
                                                               s.ip_budget
                                                               (Zpos XH))
                                                      else s
                                                    in
                                                    (match s1.ip_stack with
                                                     | [] ->
                                                       Errored
                                                         ((Z.sub total
                                                            (Z.of_nat
                                                              (length rest))),
                                                         s1)
                                                     | target :: st' ->
                                                       if Z.eqb (ip_cur s1) Z0
                                                       then ip_exec w e
                                                              limited total f
                                                              rest'
                                                              (ip_set_stack
                                                                s1 st')
                                                       else ip_exec w e
                                                              limited total f
                                                              target s1)
                                          else ip_exec w e limited total f
                                                 rest' s)

(** val ip_run : z -> env -> bool -> z -> nat -> z list -> ipst outcome **)

let ip_run w e limited budget fuel src =
  ip_exec w e limited (Z.of_nat (length src)) fuel src (ip0 budget)

type instr =
| IOut of z
| IIn of z
| ICalc of (z * expr) list
| ILoop of z * z * instr list * bool
| IIf of z * z * instr list

type block = z * instr list

type irst = { ir_tape : tmap; ir_ptr : z; ir_io : iost; ir_budget : z }

(** val ir0 : z -> irst **)

let ir0 budget =
  { ir_tape = tempty; ir_ptr = Z0; ir_io = io0; ir_budget = budget }

(** val ir_read : irst -> z -> z **)

let ir_read s off =
  tget s.ir_tape (Z.add s.ir_ptr off)

(** val ir_write : irst -> z -> z -> irst **)

let ir_write s off v =
  { ir_tape = (tset s.ir_tape (Z.add s.ir_ptr off) v); ir_ptr = s.ir_ptr;
    ir_io = s.ir_io; ir_budget = s.ir_budget }

(** val ir_set_io : irst -> iost -> irst **)

let ir_set_io s i =
  { ir_tape = s.ir_tape; ir_ptr = s.ir_ptr; ir_io = i; ir_budget =
    s.ir_budget }

(** val ir_move : irst -> z -> irst **)

let ir_move s d =
  { ir_tape = s.ir_tape; ir_ptr = (Z.add s.ir_ptr d); ir_io = s.ir_io;
    ir_budget = s.ir_budget }

(** val ir_set_budget : irst -> z -> irst **)

let ir_set_budget s b =
  { ir_tape = s.ir_tape; ir_ptr = s.ir_ptr; ir_io = s.ir_io; ir_budget = b }

(** val ir_calc : z -> (z * expr) list -> irst -> irst **)

let ir_calc w calcs s =
  let vals = map (fun ce -> ((fst ce), (eval w (snd ce) (ir_read s)))) calcs
  in
  fold_left (fun s0 vv -> ir_write s0 (fst vv) (snd vv)) vals s

(** val ir_exec :
    z -> env -> bool -> nat -> instr list -> irst -> irst outcome **)

let rec ir_exec w e limited fuel insts s =
  match fuel with
  | O -> OutOfFuel s
  | S f ->
    (match insts with
     | [] -> Done s
     | i :: rest ->
       (match i with
        | IOut src ->
          (match do_output e s.ir_io (into_u8 w (ir_read s src)) with
           | IoOk (_, i0) -> ir_exec w e limited f rest (ir_set_io s i0)
           | IoFail i0 -> Stopped (ir_set_io s i0))
        | IIn dst ->
          (match do_input e s.ir_io with
           | IoOk (b, i0) ->
             ir_exec w e limited f rest
               (ir_write (ir_set_io s i0) dst (from_u8 w b))
           | IoFail i0 -> Stopped (ir_set_io s i0))
        | ICalc calcs -> ir_exec w e limited f rest (ir_calc w calcs s)
        | ILoop (cond, shift, body, _) ->
          if Z.eqb (ir_read s cond) Z0
          then ir_exec w e limited f rest s
          else (match ir_exec w e limited f body s with
                | Done s' ->
                  let s'' = ir_move s' shift in
                  if limited
                  then if Z.eqb s''.ir_budget Z0
                       then Interrupted s''
                       else ir_exec w e limited f insts
                              (ir_set_budget s''
                                (Z.sub s''.ir_budget (Zpos XH)))
                  else ir_exec w e limited f insts s''
                | Interrupted s' ->
                  let s'' = ir_move s' shift in
                  if limited
                  then if Z.eqb s''.ir_budget Z0
                       then Interrupted s''
                       else ir_exec w e limited f insts
                              (ir_set_budget s''
                                (Z.sub s''.ir_budget (Zpos XH)))
                  else ir_exec w e limited f insts s''
                | x -> x)
        | IIf (cond, shift, body) ->
          if Z.eqb (ir_read s cond) Z0
          then ir_exec w e limited f rest s
          else (match ir_exec w e limited f body s with
                | Done s' ->
                  let s'' = ir_move s' shift in
                  if limited
                  then if Z.eqb s''.ir_budget Z0
                       then Interrupted s''
                       else ir_exec w e limited f rest
                              (ir_set_budget s''
                                (Z.sub s''.ir_budget (Zpos XH)))
                  else ir_exec w e limited f rest s''
                | Interrupted s' ->
                  let s'' = ir_move s' shift in
                  if limited
                  then if Z.eqb s''.ir_budget Z0
                       then Interrupted s''
                       else ir_exec w e limited f rest
                              (ir_set_budget s''
                                (Z.sub s''.ir_budget (Zpos XH)))
                  else ir_exec w e limited f rest s''
                | x -> x)))

(** val ir_run : z -> env -> bool -> z -> nat -> block -> irst outcome **)

let ir_run w e limited budget fuel p =
  ir_exec w e limited fuel (snd p) (ir0 budget)

(** val finished_flag : 'a1 outcome -> bool **)

let finished_flag = function
| Interrupted _ -> false
| _ -> true

type loc =
| Mem of z
| MemZero of z
| Tmp of z
| Imm of z

type binstr =
| Noop
| Scan of z * z
| MovP of z
| Inp of z
| Outp of z
| BrZ of z * z
| BrNZ of z * z
| Add of loc * loc * loc
| Sub of loc * loc * loc
| Mul of loc * loc * loc
| Copy of loc * loc

type bprog = { bp_temps : z; bp_min : z; bp_max : z; bp_live : z list;
               bp_code : binstr list }

type bcst = { bc_tape : tmap; bc_ptr : z; bc_tmps : tmap; bc_pc : z;
              bc_io : iost; bc_budget : z; bc_lo : z; bc_hi : z }

(** val bc0 : z -> bcst **)

let bc0 budget =
  { bc_tape = tempty; bc_ptr = Z0; bc_tmps = tempty; bc_pc = Z0; bc_io = io0;
    bc_budget = budget; bc_lo = Z0; bc_hi = Z0 }

(** val bc_mem : bcst -> z -> z **)

let bc_mem s k =
  tget s.bc_tape (Z.add s.bc_ptr k)

(** val bc_set_mem : bcst -> z -> z -> bcst **)

let bc_set_mem s k v =
  { bc_tape = (tset s.bc_tape (Z.add s.bc_ptr k) v); bc_ptr = s.bc_ptr;
    bc_tmps = s.bc_tmps; bc_pc = s.bc_pc; bc_io = s.bc_io; bc_budget =
    s.bc_budget; bc_lo = s.bc_lo; bc_hi = s.bc_hi }

(** val bc_set_tmp : bcst -> z -> z -> bcst **)

let bc_set_tmp s t0 v =
  { bc_tape = s.bc_tape; bc_ptr = s.bc_ptr; bc_tmps = (tset s.bc_tmps t0 v);
    bc_pc = s.bc_pc; bc_io = s.bc_io; bc_budget = s.bc_budget; bc_lo =
    s.bc_lo; bc_hi = s.bc_hi }

(** val bc_set_pc : bcst -> z -> bcst **)

let bc_set_pc s pc =
  { bc_tape = s.bc_tape; bc_ptr = s.bc_ptr; bc_tmps = s.bc_tmps; bc_pc = pc;
    bc_io = s.bc_io; bc_budget = s.bc_budget; bc_lo = s.bc_lo; bc_hi =
    s.bc_hi }

(** val bc_set_io : bcst -> iost -> bcst **)

let bc_set_io s i =
  { bc_tape = s.bc_tape; bc_ptr = s.bc_ptr; bc_tmps = s.bc_tmps; bc_pc =
    s.bc_pc; bc_io = i; bc_budget = s.bc_budget; bc_lo = s.bc_lo; bc_hi =
    s.bc_hi }

(** val bc_move : bcst -> z -> bcst **)

let bc_move s d =
  { bc_tape = s.bc_tape; bc_ptr = (Z.add s.bc_ptr d); bc_tmps = s.bc_tmps;
    bc_pc = s.bc_pc; bc_io = s.bc_io; bc_budget = s.bc_budget; bc_lo =
    (Z.min s.bc_lo (Z.add s.bc_ptr d)); bc_hi =
    (Z.max s.bc_hi (Z.add s.bc_ptr d)) }

(** val bc_set_budget : bcst -> z -> bcst **)

let bc_set_budget s b =
  { bc_tape = s.bc_tape; bc_ptr = s.bc_ptr; bc_tmps = s.bc_tmps; bc_pc =
    s.bc_pc; bc_io = s.bc_io; bc_budget = b; bc_lo = s.bc_lo; bc_hi =
    s.bc_hi }

(** val bc_read : z -> bcst -> loc -> z * bcst **)

let bc_read _ s = function
| Mem k -> ((bc_mem s k), s)
| MemZero k -> ((bc_mem s k), (bc_set_mem s k Z0))
| Tmp t0 -> ((tget s.bc_tmps t0), s)
| Imm c -> (c, s)

(** val bc_write : bcst -> loc -> z -> bcst **)

let bc_write s l v =
  match l with
  | Mem k -> bc_set_mem s k v
  | MemZero k -> bc_set_mem s k v
  | Tmp t0 -> bc_set_tmp s t0 v
  | Imm _ -> s

(** val loc_eqb : loc -> loc -> bool **)

let loc_eqb a b =
  match a with
  | Mem x -> (match b with
              | Mem y -> Z.eqb x y
              | _ -> false)
  | Tmp x -> (match b with
              | Tmp y -> Z.eqb x y
              | _ -> false)
  | _ -> false

(** val bc_binop : z -> (z -> z -> z) -> bcst -> loc -> loc -> loc -> bcst **)

let bc_binop w op s d a b =
  if loc_eqb d a
  then let (vb0, s1) = bc_read w s b in
       let (va0, s2) = bc_read w s1 a in bc_write s2 d (op va0 vb0)
  else let (va0, s1) = bc_read w s a in
       let (vb0, s2) = bc_read w s1 b in bc_write s2 d (op va0 vb0)

(** val bc_scan : nat -> z -> z -> bcst -> bcst option **)

let rec bc_scan fuel cond shift s =
  match fuel with
  | O -> None
  | S f ->
    if Z.eqb (bc_mem s cond) Z0
    then Some s
    else bc_scan f cond shift (bc_move s shift)

(** val next : bcst -> bcst **)

let next s =
  bc_set_pc s (Z.add s.bc_pc (Zpos XH))

(** val bc_limit : z -> bcst -> bcst option **)

let bc_limit cost s =
  if Z.leb s.bc_budget cost
  then None
  else Some (bc_set_budget s (Z.sub s.bc_budget cost))

(** val usize_max : z **)

let usize_max =
  Z.sub (Z.pow (Zpos (XO XH)) (Zpos (XO (XO (XO (XO (XO (XO XH)))))))) (Zpos
    XH)

(** val bc_exec :
    z -> env -> bool -> (z -> binstr option) -> z -> nat -> bcst -> bcst
    outcome **)

let rec bc_exec w e limited fetch len fuel s =
  match fuel with
  | O -> OutOfFuel s
  | S f ->
    if Z.eqb s.bc_pc len
    then Done s
    else (match fetch s.bc_pc with
          | Some i ->
            (match i with
             | Noop -> bc_exec w e limited fetch len f (next s)
             | Scan (cond, shift) ->
               if (&&) limited (Z.eqb shift Z0)
               then if Z.eqb (bc_mem s cond) Z0
                    then bc_exec w e limited fetch len f (next s)
                    else (match bc_limit usize_max s with
                          | Some s0 ->
                            (match bc_scan fuel cond shift s0 with
                             | Some s' ->
                               bc_exec w e limited fetch len f (next s')
                             | None -> OutOfFuel s0)
                          | None -> Interrupted (bc_set_budget s Z0))
               else (match bc_scan fuel cond shift s with
                     | Some s' -> bc_exec w e limited fetch len f (next s')
                     | None -> OutOfFuel s)
             | MovP shift ->
               bc_exec w e limited fetch len f (next (bc_move s shift))
             | Inp dst ->
               (match do_input e s.bc_io with
                | IoOk (b, i') ->
                  bc_exec w e limited fetch len f
                    (next (bc_set_mem (bc_set_io s i') dst (from_u8 w b)))
                | IoFail i' -> Stopped (bc_set_io s i'))
             | Outp src ->
               (match do_output e s.bc_io (into_u8 w (bc_mem s src)) with
                | IoOk (_, i') ->
                  bc_exec w e limited fetch len f (next (bc_set_io s i'))
                | IoFail i' -> Stopped (bc_set_io s i'))
             | BrZ (cond, off) ->
               (match if limited then bc_limit (Zpos XH) s else Some s with
                | Some s0 ->
                  if Z.eqb (bc_mem s0 cond) Z0
                  then bc_exec w e limited fetch len f
                         (bc_set_pc s0 (Z.add s0.bc_pc off))
                  else bc_exec w e limited fetch len f (next s0)
                | None -> Interrupted (bc_set_budget s Z0))
             | BrNZ (cond, off) ->
               (match if limited then bc_limit (Zpos XH) s else Some s with
                | Some s0 ->
                  if Z.eqb (bc_mem s0 cond) Z0
                  then bc_exec w e limited fetch len f (next s0)
                  else bc_exec w e limited fetch len f
                         (bc_set_pc s0 (Z.add s0.bc_pc off))
                | None -> Interrupted (bc_set_budget s Z0))
             | Add (d, a, b) ->
               bc_exec w e limited fetch len f
                 (next (bc_binop w (wadd w) s d a b))
             | Sub (d, a, b) ->
               bc_exec w e limited fetch len f
                 (next (bc_binop w (fun x y -> wadd w x (wneg w y)) s d a b))
             | Mul (d, a, b) ->
               bc_exec w e limited fetch len f
                 (next (bc_binop w (wmul w) s d a b))
             | Copy (d, a) ->
               let (v, s1) = bc_read w s a in
               bc_exec w e limited fetch len f (next (bc_write s1 d v)))
          | None -> Errored (s.bc_pc, s))

(** val code_map :
    binstr list -> z -> binstr PositiveMap.t -> binstr PositiveMap.t **)

let rec code_map l i m =
  match l with
  | [] -> m
  | x :: t0 ->
    code_map t0 (Z.add i (Zpos XH)) (PositiveMap.add (key_of i) x m)

(** val fetch_of : bprog -> z -> binstr option **)

let fetch_of p =
  let m = code_map p.bp_code Z0 PositiveMap.empty in
  (fun pc -> if Z.ltb pc Z0 then None else PositiveMap.find (key_of pc) m)

(** val bc_run : z -> env -> bool -> z -> nat -> bprog -> bcst outcome **)

let bc_run w e limited budget fuel p =
  if (&&) limited (Z.eqb budget Z0)
  then Interrupted (bc0 budget)
  else bc_exec w e limited (fetch_of p) (Z.of_nat (length p.bp_code)) fuel
         (bc0 budget)

type buff = (z * z) list

(** val buff_get : buff -> z -> z option **)

let rec buff_get b k =
  match b with
  | [] -> None
  | p :: b' -> let (k', v) = p in if Z.eqb k' k then Some v else buff_get b' k

(** val buff_set : buff -> z -> z -> buff **)

let rec buff_set b k v =
  match b with
  | [] -> (k, v) :: []
  | p :: b' ->
    let (k', v') = p in
    if Z.eqb k k'
    then (k, v) :: b'
    else if Z.ltb k k' then (k, v) :: b else (k', v') :: (buff_set b' k v)

(** val buff_val : buff -> z -> z **)

let buff_val b k =
  match buff_get b k with
  | Some v -> v
  | None -> Z0

(** val i_add : z -> z -> instr **)

let i_add var val0 =
  ICalc ((var, ((val0, []) :: (((Zpos XH), (var :: [])) :: []))) :: [])

(** val i_load : z -> z -> instr **)

let i_load var val0 =
  ICalc ((var, (e_val val0)) :: [])

type frame = { f_shift : z; f_moved : bool; f_insts : instr list;
               f_buff : buff }

type perr =
| LoopNotClosed
| LoopNotOpened

type parse_res =
| POk of block
| PErr of perr * z

(** val flush_nonzero : buff -> instr list -> instr list **)

let flush_nonzero b insts =
  fold_left (fun acc kv ->
    if Z.eqb (snd kv) Z0 then acc else (i_add (fst kv) (snd kv)) :: acc) b
    insts

(** val flush_key : z -> (instr list * buff) -> instr list * buff **)

let flush_key k = function
| (insts, b) ->
  let v = buff_val b k in
  if Z.eqb v Z0
  then (insts, (buff_set b k Z0))
  else (((i_add k v) :: insts), (buff_set b k Z0))

(** val zero_all : buff -> buff **)

let zero_all b =
  map (fun kv -> ((fst kv), Z0)) b

(** val is_clear_loop : z -> frame -> instr list -> z -> bool **)

let is_clear_loop _ sub0 sub_insts shift =
  (&&) ((&&) (negb sub0.f_moved) (Z.eqb sub0.f_shift shift))
    (match sub_insts with
     | [] -> false
     | i :: l ->
       (match i with
        | ICalc calcs ->
          (match calcs with
           | [] -> false
           | p :: l0 ->
             let (var, ex) = p in
             (match l0 with
              | [] ->
                (match l with
                 | [] ->
                   (&&) (Z.eqb var shift)
                     (match e_const_inc_of ex shift with
                      | Some inc -> is_odd inc
                      | None -> false)
                 | _ :: _ -> false)
              | _ :: _ -> false))
        | _ -> false))

(** val close_loop : z -> frame -> frame -> frame **)

let close_loop w sub0 parent =
  let sub_insts = rev (flush_nonzero sub0.f_buff sub0.f_insts) in
  let shift = parent.f_shift in
  if is_clear_loop w sub0 sub_insts shift
  then { f_shift = shift; f_moved = parent.f_moved; f_insts =
         ((i_load shift Z0) :: parent.f_insts); f_buff =
         (buff_set parent.f_buff shift Z0) }
  else let (insts1, b1) =
         fold_left (fun st kv -> flush_key (fst kv) st) sub0.f_buff
           (parent.f_insts, parent.f_buff)
       in
       let moves = (||) sub0.f_moved (negb (Z.eqb sub0.f_shift shift)) in
       if moves
       then let insts2 = flush_nonzero b1 insts1 in
            let b2 = zero_all b1 in
            let (insts3, b3) = flush_key shift (insts2, b2) in
            { f_shift = shift; f_moved = ((||) parent.f_moved moves);
            f_insts = ((ILoop (shift, (Z.sub sub0.f_shift shift), sub_insts,
            false)) :: insts3); f_buff = b3 }
       else let (insts3, b3) = flush_key shift (insts1, b1) in
            { f_shift = shift; f_moved = ((||) parent.f_moved moves);
            f_insts = ((ILoop (shift, (Z.sub sub0.f_shift shift), sub_insts,
            false)) :: insts3); f_buff = b3 }

(** val frame0 : z -> frame **)

let frame0 shift =
  { f_shift = shift; f_moved = false; f_insts = []; f_buff = [] }

(** val with_shift : frame -> z -> frame **)

let with_shift f s =
  { f_shift = s; f_moved = f.f_moved; f_insts = f.f_insts; f_buff = f.f_buff }

(** val with_insts_buff : frame -> instr list -> buff -> frame **)

let with_insts_buff f i b =
  { f_shift = f.f_shift; f_moved = f.f_moved; f_insts = i; f_buff = b }

(** val parse_go :
    z -> z list -> z -> frame -> frame list -> z list -> parse_res **)

let rec parse_go w cs i top0 stack positions =
  match cs with
  | [] ->
    (match stack with
     | [] ->
       POk (top0.f_shift, (rev (flush_nonzero top0.f_buff top0.f_insts)))
     | _ :: _ ->
       (match positions with
        | [] -> PErr (LoopNotClosed, Z0)
        | p :: _ -> PErr (LoopNotClosed, p)))
  | c :: cs' ->
    if Z.eqb c ch_gt
    then parse_go w cs' (Z.add i (Zpos XH))
           (with_shift top0 (Z.add top0.f_shift (Zpos XH))) stack positions
    else if Z.eqb c ch_lt
         then parse_go w cs' (Z.add i (Zpos XH))
                (with_shift top0 (Z.sub top0.f_shift (Zpos XH))) stack
                positions
         else if Z.eqb c ch_plus
              then parse_go w cs' (Z.add i (Zpos XH))
                     (with_insts_buff top0 top0.f_insts
                       (buff_set top0.f_buff top0.f_shift
                         (wadd w (buff_val top0.f_buff top0.f_shift) (Zpos
                           XH)))) stack positions
              else if Z.eqb c ch_minus
                   then parse_go w cs' (Z.add i (Zpos XH))
                          (with_insts_buff top0 top0.f_insts
                            (buff_set top0.f_buff top0.f_shift
                              (wadd w (buff_val top0.f_buff top0.f_shift)
                                (neg_one w)))) stack positions
                   else if Z.eqb c ch_dot
                        then let (insts, b) =
                               flush_key top0.f_shift (top0.f_insts,
                                 top0.f_buff)
                             in
                             parse_go w cs' (Z.add i (Zpos XH))
                               (with_insts_buff top0 ((IOut
                                 top0.f_shift) :: insts) b) stack positions
                        else if Z.eqb c ch_comma
                             then parse_go w cs' (Z.add i (Zpos XH))
                                    (with_insts_buff top0 ((IIn
                                      top0.f_shift) :: top0.f_insts)
                                      (buff_set top0.f_buff top0.f_shift Z0))
                                    stack positions
                             else if Z.eqb c ch_open
                                  then parse_go w cs' (Z.add i (Zpos XH))
                                         (frame0 top0.f_shift)
                                         (top0 :: stack) (i :: positions)
                                  else if Z.eqb c ch_close
                                       then (match positions with
                                             | [] -> PErr (LoopNotOpened, i)
                                             | _ :: positions' ->
                                               (match stack with
                                                | [] ->
                                                  PErr (LoopNotOpened, i)
                                                | parent :: stack' ->
                                                  parse_go w cs'
                                                    (Z.add i (Zpos XH))
                                                    (close_loop w top0 parent)
                                                    stack' positions'))
                                       else parse_go w cs'
                                              (Z.add i (Zpos XH)) top0 stack
                                              positions

(** val parse : z -> z list -> parse_res **)

let parse w cs =
  parse_go w cs Z0 (frame0 Z0) [] []

type bfcfg = { c_ctl : cmd list; c_kont : (cmd list * cmd list) list;
               c_st : bfst }

type 'a step_res =
| Next of 'a
| Final of bfst outcome

(** val bf_step : z -> env -> bfcfg -> bfcfg step_res **)

let bf_step w e c =
  match c.c_ctl with
  | [] ->
    (match c.c_kont with
     | [] -> Final (Done c.c_st)
     | p :: k ->
       let (body, rest) = p in
       if Z.eqb (cur c.c_st) Z0
       then Next { c_ctl = rest; c_kont = k; c_st = c.c_st }
       else Next { c_ctl = body; c_kont = ((body, rest) :: k); c_st = c.c_st })
  | x :: rest ->
    (match x with
     | Loop body ->
       if Z.eqb (cur c.c_st) Z0
       then Next { c_ctl = rest; c_kont = c.c_kont; c_st = c.c_st }
       else Next { c_ctl = body; c_kont = ((body, rest) :: c.c_kont); c_st =
              c.c_st }
     | _ ->
       (match bf_simple w e x c.c_st with
        | Inl s' -> Next { c_ctl = rest; c_kont = c.c_kont; c_st = s' }
        | Inr s' -> Final (Stopped s')))

(** val bf_steps : z -> env -> nat -> bfcfg -> bfst outcome **)

let rec bf_steps w e n0 c =
  match n0 with
  | O -> OutOfFuel c.c_st
  | S n' ->
    (match bf_step w e c with
     | Next c' -> bf_steps w e n' c'
     | Final o -> o)

(** val bf_machine_run : z -> env -> nat -> z list -> bfst outcome option **)

let bf_machine_run w e n0 src =
  match ast_of_source src with
  | Some p -> Some (bf_steps w e n0 { c_ctl = p; c_kont = []; c_st = bf0 })
  | None -> None

type ircfg = { i_ctl : instr list; i_kont : (z * instr list) list; i_st : irst }

type istep_res =
| INext of ircfg
| IFinal of irst outcome

(** val ir_step : z -> env -> bool -> ircfg -> istep_res **)

let ir_step w e limited c =
  let s = c.i_st in
  (match c.i_ctl with
   | [] ->
     (match c.i_kont with
      | [] -> IFinal (Done s)
      | p :: k ->
        let (shift, next0) = p in
        let s' = ir_move s shift in
        if limited
        then if Z.eqb s'.ir_budget Z0
             then IFinal (Interrupted s')
             else INext { i_ctl = next0; i_kont = k; i_st =
                    (ir_set_budget s' (Z.sub s'.ir_budget (Zpos XH))) }
        else INext { i_ctl = next0; i_kont = k; i_st = s' })
   | i :: rest ->
     (match i with
      | IOut src ->
        (match do_output e s.ir_io (into_u8 w (ir_read s src)) with
         | IoOk (_, i0) ->
           INext { i_ctl = rest; i_kont = c.i_kont; i_st = (ir_set_io s i0) }
         | IoFail i0 -> IFinal (Stopped (ir_set_io s i0)))
      | IIn dst ->
        (match do_input e s.ir_io with
         | IoOk (b, i0) ->
           INext { i_ctl = rest; i_kont = c.i_kont; i_st =
             (ir_write (ir_set_io s i0) dst (from_u8 w b)) }
         | IoFail i0 -> IFinal (Stopped (ir_set_io s i0)))
      | ICalc calcs ->
        INext { i_ctl = rest; i_kont = c.i_kont; i_st = (ir_calc w calcs s) }
      | ILoop (cond, shift, body, once) ->
        if Z.eqb (ir_read s cond) Z0
        then INext { i_ctl = rest; i_kont = c.i_kont; i_st = s }
        else INext { i_ctl = body; i_kont = ((shift, ((ILoop (cond, shift,
               body, once)) :: rest)) :: c.i_kont); i_st = s }
      | IIf (cond, shift, body) ->
        if Z.eqb (ir_read s cond) Z0
        then INext { i_ctl = rest; i_kont = c.i_kont; i_st = s }
        else INext { i_ctl = body; i_kont = ((shift, rest) :: c.i_kont);
               i_st = s }))

(** val ir_steps : z -> env -> bool -> nat -> ircfg -> irst outcome **)

let rec ir_steps w e limited n0 c =
  match n0 with
  | O -> OutOfFuel c.i_st
  | S n' ->
    (match ir_step w e limited c with
     | INext c' -> ir_steps w e limited n' c'
     | IFinal o -> o)

(** val ir_machine_run :
    z -> env -> bool -> z -> nat -> block -> irst outcome **)

let ir_machine_run w e limited budget n0 p =
  ir_steps w e limited n0 { i_ctl = (snd p); i_kont = []; i_st =
    (ir0 budget) }

(** val cmd_eqb : cmd -> cmd -> bool **)

let rec cmd_eqb a b =
  match a with
  | Inc -> (match b with
            | Inc -> true
            | _ -> false)
  | Dec -> (match b with
            | Dec -> true
            | _ -> false)
  | Left -> (match b with
             | Left -> true
             | _ -> false)
  | Right -> (match b with
              | Right -> true
              | _ -> false)
  | Out -> (match b with
            | Out -> true
            | _ -> false)
  | In -> (match b with
           | In -> true
           | _ -> false)
  | Loop x ->
    (match b with
     | Loop y ->
       let rec leq x0 y0 =
         match x0 with
         | [] -> (match y0 with
                  | [] -> true
                  | _ :: _ -> false)
         | c :: x' ->
           (match y0 with
            | [] -> false
            | d :: y' -> (&&) (cmd_eqb c d) (leq x' y'))
       in leq x y
     | _ -> false)

(** val cmds_eqb : cmd list -> cmd list -> bool **)

let rec cmds_eqb x y =
  match x with
  | [] -> (match y with
           | [] -> true
           | _ :: _ -> false)
  | c :: x' ->
    (match y with
     | [] -> false
     | d :: y' -> (&&) (cmd_eqb c d) (cmds_eqb x' y'))

(** val kont_eqb :
    (cmd list * cmd list) list -> (cmd list * cmd list) list -> bool **)

let rec kont_eqb x y =
  match x with
  | [] -> (match y with
           | [] -> true
           | _ :: _ -> false)
  | p :: x' ->
    let (a1, b1) = p in
    (match y with
     | [] -> false
     | p0 :: y' ->
       let (a2, b2) = p0 in
       (&&) ((&&) (cmds_eqb a1 a2) (cmds_eqb b1 b2)) (kont_eqb x' y'))

(** val tgetp : tmap -> positive -> z **)

let tgetp t0 p =
  match PositiveMap.find p t0 with
  | Some v -> v
  | None -> Z0

(** val tmap_sub : tmap -> tmap -> bool **)

let tmap_sub a b =
  forallb (fun kv -> Z.eqb (tgetp b (fst kv)) (snd kv))
    (PositiveMap.elements a)

(** val tmap_eqb : tmap -> tmap -> bool **)

let tmap_eqb a b =
  (&&) (tmap_sub a b) (tmap_sub b a)

(** val eff_in_pos : env -> bfst -> nat **)

let eff_in_pos e s =
  Nat.min s.io.in_pos (length e.input)

(** val cfg_equiv : env -> bfcfg -> bfcfg -> bool **)

let cfg_equiv e c1 c2 =
  (&&)
    ((&&)
      ((&&)
        ((&&) (Z.eqb c1.c_st.ptr c2.c_st.ptr)
          (Nat.eqb (eff_in_pos e c1.c_st) (eff_in_pos e c2.c_st)))
        (cmds_eqb c1.c_ctl c2.c_ctl)) (kont_eqb c1.c_kont c2.c_kont))
    (tmap_eqb c1.c_st.tape c2.c_st.tape)

(** val bf_cfg_after : z -> env -> nat -> bfcfg -> bfcfg option **)

let rec bf_cfg_after w e n0 c =
  match n0 with
  | O -> Some c
  | S n' ->
    (match bf_step w e c with
     | Next c' -> bf_cfg_after w e n' c'
     | Final _ -> None)

(** val env_fault_free : env -> bool **)

let env_fault_free e =
  (&&)
    ((&&) (negb e.in_absent)
      (match e.in_fail_at with
       | Some _ -> false
       | None -> true))
    (match e.out_fail_at with
     | Some _ -> false
     | None -> true)

(** val cert_ok : z -> env -> cmd list -> nat -> nat -> bool **)

let cert_ok w e p i d =
  (&&) (env_fault_free e)
    (match bf_cfg_after w e i { c_ctl = p; c_kont = []; c_st = bf0 } with
     | Some ci ->
       (match bf_cfg_after w e (S d) ci with
        | Some cj -> cfg_equiv e ci cj
        | None -> false)
     | None -> false)

(** val u64 : z **)

let u64 =
  Z.pow (Zpos (XO XH)) (Zpos (XO (XO (XO (XO (XO (XO XH)))))))

(** val wrap64 : z -> z **)

let wrap64 x =
  Z.modulo x u64

(** val to_signed : z -> z **)

let to_signed x =
  if Z.ltb x (Z.pow (Zpos (XO XH)) (Zpos (XI (XI (XI (XI (XI XH)))))))
  then x
  else Z.sub x u64

(** val sIZE_LIMIT : z **)

let sIZE_LIMIT =
  Z.pow (Zpos (XO XH)) (Zpos (XO (XI (XI (XI (XI XH))))))

type rtape = { t_buf : (z -> z); t_size : z; t_off : z }

(** val rtape0 : rtape **)

let rtape0 =
  { t_buf = (fun _ -> Z0); t_size = Z0; t_off = Z0 }

type policy = z -> z -> z -> z * z

(** val rust_policy : policy **)

let rust_policy size nb na =
  let new_size = Z.add size (Z.max (Z.div size (Zpos (XO XH))) (Z.add nb na))
  in
  let added_below =
    if Z.eqb nb Z0
    then Z0
    else if Z.eqb na Z0
         then Z.sub new_size size
         else Z.min (Z.max nb (Z.div (Z.sub new_size size) (Zpos (XO XH))))
                (Z.sub (Z.sub new_size size) na)
  in
  (new_size, added_below)

type 'a tres =
| TOk of 'a
| RawOob of z
| TooLarge
| AllocFail

(** val t_mov : rtape -> z -> rtape **)

let t_mov t0 d =
  { t_buf = t0.t_buf; t_size = t0.t_size; t_off =
    (wrap64 (Z.add t0.t_off d)) }

(** val t_ptr : rtape -> z -> z **)

let t_ptr t0 o =
  wrap64 (Z.add t0.t_off o)

(** val t_read : rtape -> z -> z **)

let t_read t0 o =
  let p = t_ptr t0 o in if Z.ltb p t0.t_size then t0.t_buf p else Z0

(** val t_check : rtape -> z -> bool **)

let t_check t0 o =
  Z.ltb (t_ptr t0 o) t0.t_size

(** val needed_below : z -> z **)

let needed_below start_ptr =
  if Z.ltb start_ptr Z0 then Z.opp start_ptr else Z0

(** val needed_above : z -> z -> z **)

let needed_above end_ptr size =
  if Z.ltb size end_ptr then Z.sub end_ptr size else Z0

(** val t_make_accessible :
    policy -> bool -> rtape -> z -> z -> rtape tres **)

let t_make_accessible pol alloc_ok t0 a b =
  let start_ptr = Z.add (to_signed t0.t_off) a in
  let end_ptr = Z.add (to_signed t0.t_off) b in
  let nb = needed_below start_ptr in
  let na = needed_above end_ptr t0.t_size in
  if (&&) (Z.eqb nb Z0) (Z.eqb na Z0)
  then TOk t0
  else let (new_size, added_below) = pol t0.t_size nb na in
       if Z.leb sIZE_LIMIT new_size
       then TooLarge
       else if negb alloc_ok
            then AllocFail
            else let old = t0.t_buf in
                 let sz = t0.t_size in
                 TOk { t_buf = (fun i ->
                 if (&&) (Z.leb added_below i)
                      (Z.ltb i (Z.add added_below sz))
                 then old (Z.sub i added_below)
                 else Z0); t_size = new_size; t_off =
                 (wrap64 (Z.add t0.t_off added_below)) }

(** val t_raw_write : rtape -> z -> z -> rtape tres **)

let t_raw_write t0 p v =
  if (&&) (Z.leb Z0 p) (Z.ltb p t0.t_size)
  then TOk { t_buf = (fun i -> if Z.eqb i p then v else t0.t_buf i); t_size =
         t0.t_size; t_off = t0.t_off }
  else RawOob p

(** val t_write : policy -> bool -> rtape -> z -> z -> rtape tres **)

let t_write pol alloc_ok t0 o v =
  let p = t_ptr t0 o in
  if Z.ltb p t0.t_size
  then t_raw_write t0 p v
  else (match t_make_accessible pol alloc_ok t0 o (Z.add o (Zpos XH)) with
        | TOk t' -> t_raw_write t' (t_ptr t' o) v
        | x -> x)

type top =
| TMov of z
| TRead of z
| TWrite of z * z
| TAcc of z * z
| TCheck of z

type tobs =
| ORead of z
| OCheck of bool
| ONone

(** val next_alloc : bool list -> bool * bool list **)

let next_alloc = function
| [] -> (true, [])
| x :: r -> (x, r)

(** val grows : rtape -> z -> z -> bool **)

let grows t0 a b =
  negb
    ((&&) (Z.eqb (needed_below (Z.add (to_signed t0.t_off) a)) Z0)
      (Z.eqb (needed_above (Z.add (to_signed t0.t_off) b) t0.t_size) Z0))

(** val t_run :
    policy -> top list -> bool list -> rtape -> (tobs list * rtape) tres **)

let rec t_run pol ops allocs t0 =
  match ops with
  | [] -> TOk ([], t0)
  | op :: rest ->
    let continue = fun o t' allocs' ->
      match t_run pol rest allocs' t' with
      | TOk a -> let (obs, tf) = a in TOk ((o :: obs), tf)
      | x -> x
    in
    (match op with
     | TMov d -> continue ONone (t_mov t0 d) allocs
     | TRead o -> continue (ORead (t_read t0 o)) t0 allocs
     | TWrite (o, v) ->
       let (ok, allocs') =
         if t_check t0 o then (true, allocs) else next_alloc allocs
       in
       (match t_write pol ok t0 o v with
        | TOk t' -> continue ONone t' allocs'
        | RawOob i -> RawOob i
        | TooLarge -> TooLarge
        | AllocFail -> AllocFail)
     | TAcc (a, b) ->
       let (ok, allocs') =
         if grows t0 a b then next_alloc allocs else (true, allocs)
       in
       (match t_make_accessible pol ok t0 a b with
        | TOk t' -> continue ONone t' allocs'
        | RawOob i -> RawOob i
        | TooLarge -> TooLarge
        | AllocFail -> AllocFail)
     | TCheck o -> continue (OCheck (t_check t0 o)) t0 allocs)

type tspec = { s_cells : (z -> z); s_pos : z; s_acc : (z * z) list }

(** val spec0 : tspec **)

let spec0 =
  { s_cells = (fun _ -> Z0); s_pos = Z0; s_acc = [] }

(** val in_acc : (z * z) list -> z -> bool **)

let in_acc acc k =
  existsb (fun r -> (&&) (Z.leb (fst r) k) (Z.ltb k (snd r))) acc

type sobs =
| SRead of z
| SCheck of bool
| SNone

(** val s_run : top list -> tspec -> sobs list * tspec **)

let rec s_run ops s =
  match ops with
  | [] -> ([], s)
  | op :: rest ->
    let (o, s') =
      match op with
      | TMov d ->
        (SNone, { s_cells = s.s_cells; s_pos = (Z.add s.s_pos d); s_acc =
          s.s_acc })
      | TRead o -> ((SRead (s.s_cells (Z.add s.s_pos o))), s)
      | TWrite (o, v) ->
        let k = Z.add s.s_pos o in
        (SNone, { s_cells = (fun i -> if Z.eqb i k then v else s.s_cells i);
        s_pos = s.s_pos; s_acc = ((k, (Z.add k (Zpos XH))) :: s.s_acc) })
      | TAcc (a, b) ->
        (SNone, { s_cells = s.s_cells; s_pos = s.s_pos; s_acc =
          (((Z.add s.s_pos a), (Z.add s.s_pos b)) :: s.s_acc) })
      | TCheck o -> ((SCheck (in_acc s.s_acc (Z.add s.s_pos o))), s)
    in
    let (obs, sf) = s_run rest s' in ((o :: obs), sf)

(** val obs_match : tobs -> sobs -> bool **)

let obs_match a b =
  match a with
  | ORead x -> (match b with
                | SRead y -> Z.eqb x y
                | _ -> false)
  | OCheck x -> (match b with
                 | SCheck must -> implb must x
                 | _ -> false)
  | ONone -> (match b with
              | SNone -> true
              | _ -> false)

(** val all_match : tobs list -> sobs list -> bool **)

let rec all_match a b =
  match a with
  | [] -> (match b with
           | [] -> true
           | _ :: _ -> false)
  | x :: a' ->
    (match b with
     | [] -> false
     | y :: b' -> (&&) (obs_match x y) (all_match a' b'))

(** val mAG : z **)

let mAG =
  Z.pow (Zpos (XO XH)) (Zpos (XO (XO (XI (XI (XI XH))))))

(** val small : z -> bool **)

let small x =
  (&&) (Z.leb (Z.opp mAG) x) (Z.leb x mAG)

(** val ops_small : top list -> z -> bool **)

let rec ops_small ops pos =
  match ops with
  | [] -> true
  | op :: rest ->
    (match op with
     | TMov d ->
       (&&) ((&&) (small d) (small (Z.add pos d)))
         (ops_small rest (Z.add pos d))
     | TRead o -> (&&) (small o) (ops_small rest pos)
     | TWrite (o, _) -> (&&) (small o) (ops_small rest pos)
     | TAcc (a, b) -> (&&) ((&&) (small a) (small b)) (ops_small rest pos)
     | TCheck o -> (&&) (small o) (ops_small rest pos))

type elem = nat * z

type svec =
| SInline of elem list
| SHeap of elem list

(** val view : svec -> elem list **)

let view = function
| SInline l -> l
| SHeap l -> l

(** val is_heap : svec -> bool **)

let is_heap = function
| SInline _ -> false
| SHeap _ -> true

type sstate = { va : svec; vb : svec; next_id : nat; dropped : nat list }

(** val sstate0 : sstate **)

let sstate0 =
  { va = (SInline []); vb = (SInline []); next_id = O; dropped = [] }

(** val get : sstate -> bool -> svec **)

let get s = function
| true -> s.vb
| false -> s.va

(** val set : sstate -> bool -> svec -> sstate **)

let set s r v =
  if r
  then { va = s.va; vb = v; next_id = s.next_id; dropped = s.dropped }
  else { va = v; vb = s.vb; next_id = s.next_id; dropped = s.dropped }

(** val drop_ids : sstate -> nat list -> sstate **)

let drop_ids s ids0 =
  { va = s.va; vb = s.vb; next_id = s.next_id; dropped =
    (app s.dropped ids0) }

(** val ids : elem list -> nat list **)

let ids l =
  map fst l

(** val sv_push : nat -> svec -> elem -> svec **)

let sv_push n0 v x =
  match v with
  | SInline l ->
    if Nat.ltb (length l) n0
    then SInline (app l (x :: []))
    else SHeap (app l (x :: []))
  | SHeap l -> SHeap (app l (x :: []))

(** val sv_with_capacity : nat -> nat -> svec **)

let sv_with_capacity n0 n1 =
  if Nat.leb n1 n0 then SInline [] else SHeap []

(** val retain_split : elem list -> bool list -> elem list * elem list **)

let rec retain_split l keep =
  match l with
  | [] -> ([], [])
  | x :: t0 ->
    let k = match keep with
            | [] -> true
            | b :: _ -> b in
    let (kept, rej) = retain_split t0 (tl keep) in
    if k then ((x :: kept), rej) else (kept, (x :: rej))

(** val dedup_split : z option -> elem list -> elem list * elem list **)

let rec dedup_split prev = function
| [] -> ([], [])
| x :: t0 ->
  let dup = match prev with
            | Some p -> Z.eqb p (snd x)
            | None -> false in
  let (kept, rej) = dedup_split (Some (snd x)) t0 in
  if dup then (kept, (x :: rej)) else ((x :: kept), rej)

(** val with_view : svec -> elem list -> svec **)

let with_view v l =
  match v with
  | SInline _ -> SInline l
  | SHeap _ -> SHeap l

(** val insert_elem : elem -> elem list -> elem list **)

let rec insert_elem x l = match l with
| [] -> x :: []
| y :: t0 -> if Z.leb (snd x) (snd y) then x :: l else y :: (insert_elem x t0)

(** val sort_elems : elem list -> elem list **)

let sort_elems l =
  fold_right insert_elem [] l

(** val cmp_vals : elem list -> elem list -> comparison **)

let rec cmp_vals a b =
  match a with
  | [] -> (match b with
           | [] -> Eq
           | _ :: _ -> Lt)
  | x :: a' ->
    (match b with
     | [] -> Gt
     | y :: b' ->
       (match Z.compare (snd x) (snd y) with
        | Eq -> cmp_vals a' b'
        | x0 -> x0))

(** val eq_vals : elem list -> elem list -> bool **)

let eq_vals a b =
  match cmp_vals a b with
  | Eq -> true
  | _ -> false

(** val fresh : nat -> z list -> elem list **)

let rec fresh next0 = function
| [] -> []
| v :: t0 -> (next0, v) :: (fresh (S next0) t0)

type sop =
| ONew of bool
| OWithCap of bool * nat
| OPush of bool * z
| OExtend of bool * z list
| OClear of bool
| ORetain of bool * bool list
| ODedup of bool
| OClone of bool
| OEq
| OCmp
| OSort of bool
| OIntoIter of bool * nat
| OIter of bool

type sobs0 =
| SView of elem list * bool
| SBool of bool
| SOrd of comparison
| SItems of elem list

(** val bump : sstate -> nat -> sstate **)

let bump s n0 =
  { va = s.va; vb = s.vb; next_id = (add s.next_id n0); dropped = s.dropped }

(** val sv_step : nat -> sstate -> sop -> sstate * sobs0 **)

let sv_step n0 s = function
| ONew r ->
  let s1 = drop_ids s (ids (view (get s r))) in
  ((set s1 r (SInline [])), (SView ([], false)))
| OWithCap (r, n1) ->
  let s1 = drop_ids s (ids (view (get s r))) in
  let v = sv_with_capacity n0 n1 in ((set s1 r v), (SView ([], (is_heap v))))
| OPush (r, val0) ->
  let v = sv_push n0 (get s r) (s.next_id, val0) in
  ((bump (set s r v) (S O)), (SView ((view v), (is_heap v))))
| OExtend (r, vals) ->
  let v = fold_left (sv_push n0) (fresh s.next_id vals) (get s r) in
  ((bump (set s r v) (length vals)), (SView ((view v), (is_heap v))))
| OClear r ->
  let v = get s r in
  let s1 = drop_ids s (ids (view v)) in
  let v' = with_view v [] in ((set s1 r v'), (SView ([], (is_heap v'))))
| ORetain (r, keep) ->
  let v = get s r in
  let (kept, rej) = retain_split (view v) keep in
  let v' = with_view v kept in
  ((set (drop_ids s (ids rej)) r v'), (SView (kept, (is_heap v'))))
| ODedup r ->
  let v = get s r in
  let (kept, rej) = dedup_split None (view v) in
  let v' = with_view v kept in
  ((set (drop_ids s (ids rej)) r v'), (SView (kept, (is_heap v'))))
| OClone src ->
  let l = view (get s src) in
  let l' = fresh s.next_id (map snd l) in
  let v' = if Nat.leb (length l) n0 then SInline l' else SHeap l' in
  let s1 = drop_ids s (ids (view (get s (negb src)))) in
  ((bump (set s1 (negb src) v') (length l)), (SView (l', (is_heap v'))))
| OEq -> (s, (SBool (eq_vals (view s.va) (view s.vb))))
| OCmp -> (s, (SOrd (cmp_vals (view s.va) (view s.vb))))
| OSort r ->
  let v = get s r in
  let v' = with_view v (sort_elems (view v)) in
  ((set s r v'), (SView ((view v'), (is_heap v'))))
| OIntoIter (r, take) ->
  let l = view (get s r) in
  ((set (drop_ids s (app (ids (firstn take l)) (ids (skipn take l)))) r
     (SInline [])), (SItems (firstn take l)))
| OIter r -> (s, (SView ((view (get s r)), (is_heap (get s r)))))

(** val sv_run : nat -> sop list -> sstate -> sobs0 list * sstate **)

let rec sv_run n0 ops s =
  match ops with
  | [] -> ([], s)
  | o :: rest ->
    let (s', ob) = sv_step n0 s o in
    let (obs, sf) = sv_run n0 rest s' in ((ob :: obs), sf)

(** val sv_final : sstate -> nat list **)

let sv_final s =
  app s.dropped (app (ids (view s.va)) (ids (view s.vb)))

(** val bit : z -> z **)

let bit t0 =
  Z.shiftl (Zpos XH) t0

(** val bset_sub : z -> z -> bool **)

let bset_sub a b =
  Z.eqb (Z.coq_land a (Z.lnot b)) Z0

(** val loc_tmp_use : loc -> z **)

let loc_tmp_use = function
| Tmp t0 -> bit t0
| _ -> Z0

(** val uses : binstr -> z **)

let uses = function
| Add (_, a, b) -> Z.coq_lor (loc_tmp_use a) (loc_tmp_use b)
| Sub (_, a, b) -> Z.coq_lor (loc_tmp_use a) (loc_tmp_use b)
| Mul (_, a, b) -> Z.coq_lor (loc_tmp_use a) (loc_tmp_use b)
| Copy (_, a) -> loc_tmp_use a
| _ -> Z0

(** val defs : binstr -> z **)

let defs = function
| Add (d, _, _) -> loc_tmp_use d
| Sub (d, _, _) -> loc_tmp_use d
| Mul (d, _, _) -> loc_tmp_use d
| Copy (d, _) -> loc_tmp_use d
| _ -> Z0

(** val is_branch : binstr -> bool **)

let is_branch = function
| BrZ (_, _) -> true
| BrNZ (_, _) -> true
| _ -> false

(** val succs : z -> binstr -> z list **)

let succs pc = function
| BrZ (_, off) -> (Z.add pc off) :: ((Z.add pc (Zpos XH)) :: [])
| BrNZ (_, off) -> (Z.add pc off) :: ((Z.add pc (Zpos XH)) :: [])
| _ -> (Z.add pc (Zpos XH)) :: []

(** val cell_ok : bprog -> z -> bool **)

let cell_ok p k =
  (&&) (Z.leb p.bp_min k) (Z.leb k p.bp_max)

(** val loc_ok : bprog -> bool -> loc -> bool **)

let loc_ok p fuse = function
| Mem k -> cell_ok p k
| MemZero k -> (&&) fuse (cell_ok p k)
| Tmp t0 -> (&&) (Z.leb Z0 t0) (Z.ltb t0 p.bp_temps)
| Imm _ -> true

(** val is_memzero : loc -> bool **)

let is_memzero = function
| MemZero _ -> true
| _ -> false

(** val mentions_cell : loc -> z -> bool **)

let mentions_cell l k =
  match l with
  | Mem j -> Z.eqb j k
  | MemZero j -> Z.eqb j k
  | _ -> false

(** val memzero_ok : loc -> loc -> loc -> bool **)

let memzero_ok d a b =
  (&&)
    ((&&) (negb (is_memzero d))
      (match a with
       | MemZero k -> negb (mentions_cell b k)
       | _ -> true))
    (if loc_eqb d a
     then (match b with
           | MemZero k -> (match d with
                           | Mem j -> negb (Z.eqb k j)
                           | _ -> true)
           | _ -> true)
     else true)

(** val dst_ok : loc -> bool **)

let dst_ok = function
| Mem _ -> true
| Tmp _ -> true
| _ -> false

(** val instr_ok : bprog -> bool -> z -> z -> binstr -> bool **)

let instr_ok p fuse len pc = function
| Scan (c, _) -> (&&) fuse (cell_ok p c)
| Inp d -> cell_ok p d
| Outp s -> cell_ok p s
| BrZ (c, off) ->
  (&&) ((&&) (cell_ok p c) (Z.leb Z0 (Z.add pc off)))
    (Z.leb (Z.add pc off) len)
| BrNZ (c, off) ->
  (&&) ((&&) (cell_ok p c) (Z.leb Z0 (Z.add pc off)))
    (Z.leb (Z.add pc off) len)
| Add (d, a, b) ->
  (&&)
    ((&&) ((&&) ((&&) (dst_ok d) (loc_ok p fuse d)) (loc_ok p fuse a))
      (loc_ok p fuse b)) (memzero_ok d a b)
| Sub (d, a, b) ->
  (&&)
    ((&&) ((&&) ((&&) (dst_ok d) (loc_ok p fuse d)) (loc_ok p fuse a))
      (loc_ok p fuse b)) (memzero_ok d a b)
| Mul (d, a, b) ->
  (&&)
    ((&&) ((&&) ((&&) (dst_ok d) (loc_ok p fuse d)) (loc_ok p fuse a))
      (loc_ok p fuse b)) (memzero_ok d a b)
| Copy (d, a) -> (&&) ((&&) (dst_ok d) (loc_ok p fuse d)) (loc_ok p fuse a)
| _ -> true

(** val all_instr_ok : bprog -> bool -> z -> z -> binstr list -> bool **)

let rec all_instr_ok p fuse len pc = function
| [] -> true
| i :: rest ->
  (&&) (instr_ok p fuse len pc i)
    (all_instr_ok p fuse len (Z.add pc (Zpos XH)) rest)

type arr = z PositiveMap.t

(** val aget : arr -> z -> z -> z **)

let aget a dflt i =
  match PositiveMap.find (key_of i) a with
  | Some v -> v
  | None -> dflt

(** val aset : arr -> z -> z -> arr **)

let aset a i v =
  PositiveMap.add (key_of i) v a

(** val fwd_pass : z -> binstr list -> z -> arr -> arr -> arr **)

let rec fwd_pass full code pc old new0 =
  match code with
  | [] -> new0
  | i :: rest ->
    let out = Z.coq_lor (aget old full pc) (defs i) in
    let new' =
      fold_left (fun n0 s -> aset n0 s (Z.coq_land (aget n0 full s) out))
        (succs pc i) new0
    in
    fwd_pass full rest (Z.add pc (Zpos XH)) old new'

(** val arr_eqb : z -> arr -> arr -> nat -> z -> bool **)

let rec arr_eqb full a b n0 pc =
  match n0 with
  | O -> true
  | S n' ->
    (&&) (Z.eqb (aget a full pc) (aget b full pc))
      (arr_eqb full a b n' (Z.add pc (Zpos XH)))

(** val fwd_fix : nat -> z -> binstr list -> arr -> arr option **)

let rec fwd_fix fuel full code cur0 =
  match fuel with
  | O -> None
  | S f ->
    let nxt = fwd_pass full code Z0 cur0 (aset PositiveMap.empty Z0 Z0) in
    let nxt0 = aset nxt Z0 Z0 in
    if arr_eqb full cur0 nxt0 (S (length code)) Z0
    then Some cur0
    else fwd_fix f full code nxt0

(** val uses_defined : z -> binstr list -> z -> arr -> bool **)

let rec uses_defined full code pc inn =
  match code with
  | [] -> true
  | i :: rest ->
    (&&) (bset_sub (uses i) (aget inn full pc))
      (uses_defined full rest (Z.add pc (Zpos XH)) inn)

(** val bwd_pass : binstr list -> z -> arr -> arr -> arr **)

let rec bwd_pass code pc old new0 =
  match code with
  | [] -> new0
  | i :: rest ->
    let out =
      fold_left (fun acc s -> Z.coq_lor acc (aget old Z0 s)) (succs pc i) Z0
    in
    let inn = Z.coq_lor (uses i) (Z.coq_land out (Z.lnot (defs i))) in
    bwd_pass rest (Z.add pc (Zpos XH)) old (aset new0 pc inn)

(** val bwd_fix : nat -> binstr list -> arr -> arr option **)

let rec bwd_fix fuel code cur0 =
  match fuel with
  | O -> None
  | S f ->
    let nxt = bwd_pass code Z0 cur0 PositiveMap.empty in
    if arr_eqb Z0 cur0 nxt (S (length code)) Z0
    then Some cur0
    else bwd_fix f code nxt

(** val reg_mask : z -> z **)

let reg_mask num_regs =
  Z.ones (Z.min num_regs (Zpos (XO (XO (XO (XO XH))))))

(** val live_ok : z -> binstr list -> z list -> z -> arr -> bool **)

let rec live_ok num_regs code live pc lin =
  match code with
  | [] -> (match live with
           | [] -> true
           | _ :: _ -> false)
  | i :: rest ->
    (match live with
     | [] -> false
     | l :: lrest ->
       (&&)
         (if is_branch i
          then true
          else let out =
                 fold_left (fun acc s -> Z.coq_lor acc (aget lin Z0 s))
                   (succs pc i) Z0
               in
               bset_sub
                 (Z.coq_land (Z.coq_land out (Z.lnot (defs i)))
                   (reg_mask num_regs)) l)
         (live_ok num_regs rest lrest (Z.add pc (Zpos XH)) lin))

(** val fwd_valid : z -> binstr list -> z -> arr -> bool **)

let rec fwd_valid full code pc inn =
  match code with
  | [] -> true
  | i :: rest ->
    (&&)
      (forallb (fun s ->
        bset_sub (aget inn full s) (Z.coq_lor (aget inn full pc) (defs i)))
        (succs pc i)) (fwd_valid full rest (Z.add pc (Zpos XH)) inn)

(** val bwd_valid : binstr list -> z -> arr -> bool **)

let rec bwd_valid code pc lin =
  match code with
  | [] -> true
  | i :: rest ->
    let out =
      fold_left (fun acc s -> Z.coq_lor acc (aget lin Z0 s)) (succs pc i) Z0
    in
    (&&)
      (bset_sub (Z.coq_lor (uses i) (Z.coq_land out (Z.lnot (defs i))))
        (aget lin Z0 pc)) (bwd_valid rest (Z.add pc (Zpos XH)) lin)

(** val bc_wf : z -> bool -> bprog -> bool **)

let bc_wf num_regs fuse p =
  let code = p.bp_code in
  let len = Z.of_nat (length code) in
  let full = Z.ones (Z.max p.bp_temps Z0) in
  let fuel = S (mul (length code) (S (Z.to_nat p.bp_temps))) in
  (&&)
    ((&&)
      ((&&)
        ((&&)
          ((&&) ((&&) (Z.leb p.bp_min Z0) (Z.leb Z0 p.bp_max))
            (Z.leb Z0 p.bp_temps)) (Nat.eqb (length p.bp_live) (length code)))
        (all_instr_ok p fuse len Z0 code))
      (match fwd_fix fuel full code (aset PositiveMap.empty Z0 Z0) with
       | Some inn ->
         (&&)
           ((&&) (Z.eqb (aget inn full Z0) Z0) (fwd_valid full code Z0 inn))
           (uses_defined full code Z0 inn)
       | None -> false))
    (match bwd_fix fuel code PositiveMap.empty with
     | Some lin ->
       (&&) (bwd_valid code Z0 lin) (live_ok num_regs code p.bp_live Z0 lin)
     | None -> false)

(** val live_regs_ok : z -> bprog -> bool **)

let live_regs_ok num_regs p =
  forallb (fun l -> (&&) (Z.leb Z0 l) (bset_sub l (reg_mask num_regs)))
    p.bp_live

(** val bc_wf_why : z -> bool -> bprog -> z **)

let bc_wf_why num_regs fuse p =
  let code = p.bp_code in
  let len = Z.of_nat (length code) in
  let full = Z.ones (Z.max p.bp_temps Z0) in
  let fuel = S (mul (length code) (S (Z.to_nat p.bp_temps))) in
  if negb
       ((&&) ((&&) (Z.leb p.bp_min Z0) (Z.leb Z0 p.bp_max))
         (Z.leb Z0 p.bp_temps))
  then Zpos (XO XH)
  else if negb (Nat.eqb (length p.bp_live) (length code))
       then Zpos (XI XH)
       else if negb (all_instr_ok p fuse len Z0 code)
            then Zpos XH
            else (match fwd_fix fuel full code (aset PositiveMap.empty Z0 Z0) with
                  | Some inn ->
                    if negb
                         ((&&) (Z.eqb (aget inn full Z0) Z0)
                           (fwd_valid full code Z0 inn))
                    then Zpos (XI (XO (XO (XI (XO XH)))))
                    else if negb (uses_defined full code Z0 inn)
                         then Zpos (XO (XO XH))
                         else (match bwd_fix fuel code PositiveMap.empty with
                               | Some lin ->
                                 if negb (bwd_valid code Z0 lin)
                                 then Zpos (XI (XI (XO (XO (XI XH)))))
                                 else if live_ok num_regs code p.bp_live Z0
                                           lin
                                      then Z0
                                      else Zpos (XI (XO XH))
                               | None -> Zpos (XO (XI (XO (XO (XI XH))))))
                  | None -> Zpos (XO (XO (XO (XI (XO XH))))))

type rop =
| REnter
| RMov of z
| RMovJ of z
| RMovU of z
| RGet of z
| RSet of z * z
| RPre of z * z

type robs =
| RVal of z
| RProbe of bool

(** val r_get : rtape -> z -> z tres **)

let r_get t0 k =
  let p = t_ptr t0 k in
  if Z.ltb p t0.t_size then TOk (t0.t_buf p) else RawOob p

(** val r_set : rtape -> z -> z -> rtape tres **)

let r_set t0 k v =
  t_raw_write t0 (t_ptr t0 k) v

(** val r_probe : policy -> z -> z -> bool -> rtape -> z -> rtape tres **)

let r_probe pol mn mx ok t1 d =
  if t_check t1 (if Z.ltb d Z0 then mn else mx)
  then TOk t1
  else t_make_accessible pol ok t1 mn (Z.add mx (Zpos XH))

(** val r_probe_jit : policy -> z -> z -> bool -> rtape -> z -> rtape tres **)

let r_probe_jit pol mn mx ok t1 d =
  let probe = if Z.ltb d Z0 then mn else mx in
  if t_check t1 probe
  then TOk t1
  else t_make_accessible pol ok t1 probe (Z.add probe (Zpos XH))

(** val r_run :
    policy -> z -> z -> rop list -> bool list -> rtape -> (robs list * rtape)
    tres **)

let rec r_run pol mn mx ops allocs t0 =
  match ops with
  | [] -> TOk ([], t0)
  | op :: rest ->
    (match op with
     | REnter ->
       let (ok, allocs') =
         if grows t0 mn (Z.add mx (Zpos XH))
         then next_alloc allocs
         else (true, allocs)
       in
       (match t_make_accessible pol ok t0 mn (Z.add mx (Zpos XH)) with
        | TOk t' -> r_run pol mn mx rest allocs' t'
        | RawOob i -> RawOob i
        | TooLarge -> TooLarge
        | AllocFail -> AllocFail)
     | RMov d ->
       let t1 = t_mov t0 d in
       let (ok, allocs') =
         if grows t1 mn (Z.add mx (Zpos XH))
         then next_alloc allocs
         else (true, allocs)
       in
       (match r_probe pol mn mx ok t1 d with
        | TOk t' ->
          (match r_run pol mn mx rest allocs' t' with
           | TOk a ->
             let (vs, tf) = a in
             TOk (((RProbe
             (t_check t1 (if Z.ltb d Z0 then mn else mx))) :: vs), tf)
           | x -> x)
        | RawOob i -> RawOob i
        | TooLarge -> TooLarge
        | AllocFail -> AllocFail)
     | RMovJ d ->
       let t1 = t_mov t0 d in
       let probe = if Z.ltb d Z0 then mn else mx in
       let (ok, allocs') =
         if grows t1 probe (Z.add probe (Zpos XH))
         then next_alloc allocs
         else (true, allocs)
       in
       (match r_probe_jit pol mn mx ok t1 d with
        | TOk t' ->
          (match r_run pol mn mx rest allocs' t' with
           | TOk a ->
             let (vs, tf) = a in TOk (((RProbe (t_check t1 probe)) :: vs), tf)
           | x -> x)
        | RawOob i -> RawOob i
        | TooLarge -> TooLarge
        | AllocFail -> AllocFail)
     | RMovU d -> r_run pol mn mx rest allocs (t_mov t0 d)
     | RGet k ->
       (match r_get t0 k with
        | TOk v ->
          (match r_run pol mn mx rest allocs t0 with
           | TOk a -> let (vs, tf) = a in TOk (((RVal v) :: vs), tf)
           | x -> x)
        | RawOob i -> RawOob i
        | TooLarge -> TooLarge
        | AllocFail -> AllocFail)
     | RSet (k, v) ->
       (match r_set t0 k v with
        | TOk t' -> r_run pol mn mx rest allocs t'
        | RawOob i -> RawOob i
        | TooLarge -> TooLarge
        | AllocFail -> AllocFail)
     | RPre (a, b) ->
       let (ok, allocs') =
         if grows t0 a b then next_alloc allocs else (true, allocs)
       in
       (match t_make_accessible pol ok t0 a b with
        | TOk t' -> r_run pol mn mx rest allocs' t'
        | RawOob i -> RawOob i
        | TooLarge -> TooLarge
        | AllocFail -> AllocFail))

(** val r_spec : rop list -> (z -> z) -> z -> z list **)

let rec r_spec ops cells pos =
  match ops with
  | [] -> []
  | r :: rest ->
    (match r with
     | RMov d -> r_spec rest cells (Z.add pos d)
     | RMovJ d -> r_spec rest cells (Z.add pos d)
     | RMovU d -> r_spec rest cells (Z.add pos d)
     | RGet k -> (cells (Z.add pos k)) :: (r_spec rest cells pos)
     | RSet (k, v) ->
       r_spec rest (fun i -> if Z.eqb i (Z.add pos k) then v else cells i) pos
     | _ -> r_spec rest cells pos)

(** val rops_ok : z -> z -> rop list -> z -> bool **)

let rec rops_ok mn mx ops pos =
  match ops with
  | [] -> true
  | r :: rest ->
    (match r with
     | REnter -> rops_ok mn mx rest pos
     | RMov d -> (&&) (small (Z.add pos d)) (rops_ok mn mx rest (Z.add pos d))
     | RMovJ d ->
       (&&) (small (Z.add pos d)) (rops_ok mn mx rest (Z.add pos d))
     | RGet k ->
       (&&) ((&&) (Z.leb mn k) (Z.leb k mx)) (rops_ok mn mx rest pos)
     | RSet (k, _) ->
       (&&) ((&&) (Z.leb mn k) (Z.leb k mx)) (rops_ok mn mx rest pos)
     | _ -> false)

type xop =
| XReg of z * z
| XCell of z
| XSlot of z
| XImm of z

type xins =
| XMov of xop * xop
| XAdd of xop * xop
| XSub of xop * xop
| XInc of xop
| XDec of xop
| XImul2 of xop * xop
| XImul3 of xop * xop * z
| XLea of z * z * z option * z

(** val areg : z -> z **)

let areg r =
  Z.add (Z.mul (Zpos (XO (XO XH))) r) (Zpos XH)

(** val acell : z -> z **)

let acell k =
  Z.add (Z.mul (Zpos (XO (XO XH))) k) (Zpos (XO XH))

(** val aslot : z -> z **)

let aslot t0 =
  Z.add (Z.mul (Zpos (XO (XO XH))) t0) (Zpos (XI XH))

type amap0 = (z * expr) list

(** val alook : z -> amap0 -> expr -> expr **)

let rec alook k l dflt =
  match l with
  | [] -> dflt
  | p :: l' -> let (k', v) = p in if Z.eqb k' k then v else alook k l' dflt

type sst = { sr : amap0; sc : amap0; ss : amap0 }

(** val sst0 : sst **)

let sst0 =
  { sr = []; sc = []; ss = [] }

(** val sget_r : sst -> z -> expr **)

let sget_r s r =
  alook r s.sr (e_var (areg r))

(** val sget_c : sst -> z -> expr **)

let sget_c s k =
  alook k s.sc (e_var (acell k))

(** val sget_s : sst -> z -> expr **)

let sget_s s t0 =
  alook t0 s.ss (e_var (aslot t0))

(** val size_ok : z -> bool **)

let size_ok sz =
  (||)
    ((||)
      ((||) (Z.eqb sz (Zpos (XO (XO (XO XH)))))
        (Z.eqb sz (Zpos (XO (XO (XO (XO XH)))))))
      (Z.eqb sz (Zpos (XO (XO (XO (XO (XO XH))))))))
    (Z.eqb sz (Zpos (XO (XO (XO (XO (XO (XO XH))))))))

(** val sread : z -> sst -> xop -> expr option **)

let sread w s = function
| XReg (r, sz) ->
  if (&&) (size_ok sz) (Z.leb w sz) then Some (sget_r s r) else None
| XCell k -> Some (sget_c s k)
| XSlot t0 -> Some (sget_s s t0)
| XImm v -> Some (e_val (Z.modulo v (Z.pow (Zpos (XO XH)) w)))

(** val swrite : z -> sst -> xop -> expr -> z option -> sst option **)

let swrite w s o v const_src =
  match o with
  | XReg (r, sz) ->
    if (&&) (size_ok sz) (Z.leb w sz)
    then Some { sr = ((r, v) :: s.sr); sc = s.sc; ss = s.ss }
    else (match const_src with
          | Some c ->
            if (&&)
                 ((&&) (Z.eqb sz (Zpos (XO (XO (XO (XO (XO XH)))))))
                   (Z.leb Z0 c))
                 (Z.ltb c
                   (Z.pow (Zpos (XO XH)) (Zpos (XO (XO (XO (XO (XO XH))))))))
            then Some { sr = ((r,
                   (e_val (Z.modulo c (Z.pow (Zpos (XO XH)) w)))) :: s.sr);
                   sc = s.sc; ss = s.ss }
            else None
          | None -> None)
  | XCell k -> Some { sr = s.sr; sc = ((k, v) :: s.sc); ss = s.ss }
  | XSlot t0 -> Some { sr = s.sr; sc = s.sc; ss = ((t0, v) :: s.ss) }
  | XImm _ -> None

(** val sstep : z -> sst -> xins -> sst option **)

let sstep w s = function
| XMov (d, src) ->
  (match sread w s src with
   | Some v -> swrite w s d v (match src with
                               | XImm c -> Some c
                               | _ -> None)
   | None -> None)
| XAdd (d, src) ->
  (match sread w s d with
   | Some a ->
     (match sread w s src with
      | Some b -> swrite w s d (e_add w a b) None
      | None -> None)
   | None -> None)
| XSub (d, src) ->
  (match sread w s d with
   | Some a ->
     (match sread w s src with
      | Some b -> swrite w s d (e_add w a (e_neg w b)) None
      | None -> None)
   | None -> None)
| XInc d ->
  (match sread w s d with
   | Some a ->
     swrite w s d
       (e_add w a (e_val (Z.modulo (Zpos XH) (Z.pow (Zpos (XO XH)) w)))) None
   | None -> None)
| XDec d ->
  (match sread w s d with
   | Some a ->
     swrite w s d
       (e_add w a
         (e_neg w (e_val (Z.modulo (Zpos XH) (Z.pow (Zpos (XO XH)) w))))) None
   | None -> None)
| XImul2 (d, src) ->
  (match sread w s d with
   | Some a ->
     (match sread w s src with
      | Some b -> swrite w s d (e_mul w a b) None
      | None -> None)
   | None -> None)
| XImul3 (d, src, i0) ->
  (match sread w s src with
   | Some b ->
     swrite w s d (e_mul w b (e_val (Z.modulo i0 (Z.pow (Zpos (XO XH)) w))))
       None
   | None -> None)
| XLea (d, b, idx, disp) ->
  let vb0 = sget_r s b in
  let vi = match idx with
           | Some x -> sget_r s x
           | None -> [] in
  swrite w s (XReg (d, (Zpos (XO (XO (XO (XO (XO (XO XH)))))))))
    (e_add w (e_add w vb0 vi)
      (e_val (Z.modulo disp (Z.pow (Zpos (XO XH)) w)))) None

(** val srun : z -> xins list -> sst -> sst option **)

let rec srun w code s =
  match code with
  | [] -> Some s
  | i :: rest ->
    (match sstep w s i with
     | Some s' -> srun w rest s'
     | None -> None)

(** val tmp_reg : z -> z option **)

let tmp_reg t0 =
  nth_error ((Zpos (XO (XO (XI XH)))) :: ((Zpos (XI (XO (XI XH)))) :: ((Zpos
    (XO (XI (XI XH)))) :: ((Zpos (XI (XI (XI XH)))) :: ((Zpos (XO (XI
    XH))) :: ((Zpos (XI (XI XH))) :: ((Zpos (XO XH)) :: ((Zpos (XO (XO (XO
    XH)))) :: ((Zpos (XI (XO (XO XH)))) :: ((Zpos (XO (XI (XO
    XH)))) :: ((Zpos (XI (XI (XO XH)))) :: []))))))))))) (Z.to_nat t0)

type xloc =
| LReg of z
| LCell of z
| LSlot of z

(** val home : loc -> xloc option **)

let home = function
| Mem k -> Some (LCell k)
| Tmp t0 ->
  if Z.ltb t0 Z0
  then None
  else (match tmp_reg t0 with
        | Some r -> Some (LReg r)
        | None -> Some (LSlot t0))
| _ -> None

(** val loc_expr : z -> loc -> expr option **)

let loc_expr w l = match l with
| MemZero _ -> None
| Imm c -> Some (e_val (Z.modulo c (Z.pow (Zpos (XO XH)) w)))
| _ ->
  (match home l with
   | Some x ->
     (match x with
      | LReg r -> Some (e_var (areg r))
      | LCell k -> Some (e_var (acell k))
      | LSlot t0 -> Some (e_var (aslot t0)))
   | None -> None)

(** val form_spec : z -> binstr -> (xloc * expr) option **)

let form_spec w i =
  let two = fun d a b f ->
    match home d with
    | Some h ->
      (match loc_expr w a with
       | Some ea ->
         (match loc_expr w b with
          | Some eb -> Some (h, (f ea eb))
          | None -> None)
       | None -> None)
    | None -> None
  in
  (match i with
   | Add (d, a, b) -> two d a b (e_add w)
   | Sub (d, a, b) -> two d a b (fun x y -> e_add w x (e_neg w y))
   | Mul (d, a, b) -> two d a b (e_mul w)
   | Copy (d, a) ->
     (match home d with
      | Some h ->
        (match loc_expr w a with
         | Some ea -> Some (h, ea)
         | None -> None)
      | None -> None)
   | _ -> None)

(** val part_eqb : expr -> expr -> bool **)

let rec part_eqb a b =
  match a with
  | [] -> (match b with
           | [] -> true
           | _ :: _ -> false)
  | p :: a' ->
    let (c, vs) = p in
    (match b with
     | [] -> false
     | p0 :: b' ->
       let (c', vs') = p0 in
       (&&) ((&&) (Z.eqb c c') (list_eqb vs vs')) (part_eqb a' b'))

(** val canon : z -> expr -> expr **)

let canon w e =
  e_normalize w (sort_parts (map (fun p -> ((fst p), (sort_z (snd p)))) e))

(** val same_poly : z -> expr -> expr -> bool **)

let same_poly w a b =
  part_eqb (canon w a) (canon w b)

(** val xloc_eqb : xloc -> xloc -> bool **)

let xloc_eqb a b =
  match a with
  | LReg x -> (match b with
               | LReg y -> Z.eqb x y
               | _ -> false)
  | LCell x -> (match b with
                | LCell y -> Z.eqb x y
                | _ -> false)
  | LSlot x -> (match b with
                | LSlot y -> Z.eqb x y
                | _ -> false)

(** val may_clobber : z -> z -> bool **)

let may_clobber live r =
  (||) ((||) (Z.eqb r Z0) (Z.eqb r (Zpos XH)))
    (existsb (fun t0 ->
      match tmp_reg t0 with
      | Some r' -> (&&) (Z.eqb r' r) (negb (Z.testbit live t0))
      | None -> false) (Z0 :: ((Zpos XH) :: ((Zpos (XO XH)) :: ((Zpos (XI
      XH)) :: ((Zpos (XO (XO XH))) :: ((Zpos (XI (XO XH))) :: ((Zpos (XO (XI
      XH))) :: ((Zpos (XI (XI XH))) :: ((Zpos (XO (XO (XO XH)))) :: ((Zpos
      (XI (XO (XO XH)))) :: ((Zpos (XO (XI (XO XH)))) :: []))))))))))))

(** val dest_reg : xins -> z option **)

let dest_reg = function
| XMov (d, _) -> (match d with
                  | XReg (r, _) -> Some r
                  | _ -> None)
| XAdd (d, _) -> (match d with
                  | XReg (r, _) -> Some r
                  | _ -> None)
| XSub (d, _) -> (match d with
                  | XReg (r, _) -> Some r
                  | _ -> None)
| XInc d -> (match d with
             | XReg (r, _) -> Some r
             | _ -> None)
| XDec d -> (match d with
             | XReg (r, _) -> Some r
             | _ -> None)
| XImul2 (d, _) -> (match d with
                    | XReg (r, _) -> Some r
                    | _ -> None)
| XImul3 (d, _, _) -> (match d with
                       | XReg (r, _) -> Some r
                       | _ -> None)
| XLea (d, _, _, _) -> Some d

(** val pinned : z -> bool **)

let pinned r =
  (||) ((||) (Z.eqb r (Zpos (XI XH))) (Z.eqb r (Zpos (XO (XO XH)))))
    (Z.eqb r (Zpos (XI (XO XH))))

(** val keeps_pinned : xins list -> bool **)

let keeps_pinned code =
  forallb (fun i ->
    match dest_reg i with
    | Some r -> negb (pinned r)
    | None -> true) code

(** val form_ok : z -> binstr -> z -> xins list -> bool **)

let form_ok w i live code =
  match form_spec w i with
  | Some p ->
    let (dst, want) = p in
    (match srun w code sst0 with
     | Some s ->
       (&&) (keeps_pinned code)
         (let got =
            match dst with
            | LReg r -> sget_r s r
            | LCell k -> sget_c s k
            | LSlot t0 -> sget_s s t0
          in
          (&&)
            ((&&)
              ((&&) (same_poly w got want)
                (forallb (fun kv ->
                  (||) (xloc_eqb dst (LCell (fst kv)))
                    (same_poly w (sget_c s (fst kv)) (e_var (acell (fst kv)))))
                  s.sc))
              (forallb (fun kv ->
                (||) (xloc_eqb dst (LSlot (fst kv)))
                  (same_poly w (sget_s s (fst kv)) (e_var (aslot (fst kv)))))
                s.ss))
            (forallb (fun kv ->
              (||)
                ((||) (xloc_eqb dst (LReg (fst kv)))
                  (may_clobber live (fst kv)))
                (same_poly w (sget_r s (fst kv)) (e_var (areg (fst kv)))))
              s.sr))
     | None -> false)
  | None -> false

type kins =
| KPush of z
| KPop of z
| KSubRsp
| KAddRsp
| KMovRR of z * z
| KLoad of z * z
| KMovI of z * z
| KCall of z
| KTest8 of z
| KCmp64 of z * z
| KCmpCell of z
| KJe
| KJne
| KStore of z * z

type kval =
| VInit of z
| VCell of z
| VRet of z
| VImm of z
| VJunk

type ktest =
| TNone
| TTest8 of kval
| TCmp64 of kval * z

type ksym = { yr : (z * kval) list; ystore : (z * kval) list; yk : kval list;
              ycalls : (kval * kval) list; ytest : ktest; ycalled : bool;
              yexit : (bool * ktest) option }

(** val ksym0 : ksym **)

let ksym0 =
  { yr = []; ystore = []; yk = []; ycalls = []; ytest = TNone; ycalled =
    false; yexit = None }

(** val klook : z -> (z * kval) list -> kval -> kval **)

let rec klook r l d =
  match l with
  | [] -> d
  | p :: l' -> let (r', v) = p in if Z.eqb r' r then v else klook r l' d

(** val yget : ksym -> z -> kval **)

let yget y r =
  klook r y.yr (VInit r)

(** val yset : ksym -> z -> kval -> ksym **)

let yset y r v =
  { yr = ((r, v) :: y.yr); ystore = y.ystore; yk = y.yk; ycalls = y.ycalls;
    ytest = y.ytest; ycalled = y.ycalled; yexit = y.yexit }

(** val ystep : ksym -> kins -> ksym option **)

let ystep y i = match i with
| KPush r ->
  Some { yr = y.yr; ystore = y.ystore; yk = ((yget y r) :: y.yk); ycalls =
    y.ycalls; ytest = y.ytest; ycalled = y.ycalled; yexit = y.yexit }
| KPop r ->
  if pinned r
  then None
  else (match y.yk with
        | [] -> None
        | v :: k' ->
          Some { yr = ((r, v) :: y.yr); ystore = y.ystore; yk = k'; ycalls =
            y.ycalls; ytest = y.ytest; ycalled = y.ycalled; yexit = y.yexit })
| KSubRsp ->
  Some { yr = y.yr; ystore = y.ystore; yk = (VJunk :: y.yk); ycalls =
    y.ycalls; ytest = y.ytest; ycalled = y.ycalled; yexit = y.yexit }
| KAddRsp ->
  (match y.yk with
   | [] -> None
   | _ :: k' ->
     Some { yr = y.yr; ystore = y.ystore; yk = k'; ycalls = y.ycalls; ytest =
       y.ytest; ycalled = y.ycalled; yexit = y.yexit })
| KMovRR (d, s) -> if pinned d then None else Some (yset y d (yget y s))
| KLoad (d, k) ->
  if pinned d
  then None
  else if existsb (fun kv -> Z.eqb (fst kv) k) y.ystore
       then None
       else Some (yset y d (VCell k))
| KMovI (d, c) -> if pinned d then None else Some (yset y d (VImm c))
| KCall _ ->
  if (||) y.ycalled (negb (Nat.even (length y.yk)))
  then None
  else Some { yr =
         (app
           (map (fun r -> (r, (VRet r))) (Z0 :: ((Zpos XH) :: ((Zpos (XO
             XH)) :: ((Zpos (XO (XI XH))) :: ((Zpos (XI (XI XH))) :: ((Zpos
             (XO (XO (XO XH)))) :: ((Zpos (XI (XO (XO XH)))) :: ((Zpos (XO
             (XI (XO XH)))) :: ((Zpos (XI (XI (XO XH)))) :: [])))))))))) y.yr);
         ystore = y.ystore; yk = y.yk; ycalls =
         (((yget y (Zpos (XI (XI XH)))),
         (yget y (Zpos (XO (XI XH))))) :: []); ytest = y.ytest; ycalled =
         true; yexit = y.yexit }
| KTest8 r ->
  Some { yr = y.yr; ystore = y.ystore; yk = y.yk; ycalls = y.ycalls; ytest =
    (TTest8 (yget y r)); ycalled = y.ycalled; yexit = y.yexit }
| KCmp64 (r, c) ->
  Some { yr = y.yr; ystore = y.ystore; yk = y.yk; ycalls = y.ycalls; ytest =
    (TCmp64 ((yget y r), c)); ycalled = y.ycalled; yexit = y.yexit }
| KCmpCell _ -> None
| KStore (k, r) ->
  (match y.yexit with
   | Some _ ->
     Some { yr = y.yr; ystore = ((k, (yget y r)) :: y.ystore); yk = y.yk;
       ycalls = y.ycalls; ytest = y.ytest; ycalled = y.ycalled; yexit =
       y.yexit }
   | None -> None)
| _ ->
  (match y.yexit with
   | Some _ -> None
   | None ->
     (match y.yk with
      | [] ->
        if negb y.ycalled
        then None
        else Some { yr = y.yr; ystore = y.ystore; yk = y.yk; ycalls =
               y.ycalls; ytest = y.ytest; ycalled = y.ycalled; yexit = (Some
               ((match i with
                 | KJe -> true
                 | _ -> false), y.ytest)) }
      | _ :: _ -> None))

(** val yrun : kins list -> ksym -> ksym option **)

let rec yrun code y =
  match code with
  | [] -> Some y
  | i :: rest -> (match ystep y i with
                  | Some y' -> yrun rest y'
                  | None -> None)

(** val kval_eqb : kval -> kval -> bool **)

let kval_eqb a b =
  match a with
  | VInit x -> (match b with
                | VInit y -> Z.eqb x y
                | _ -> false)
  | VCell x -> (match b with
                | VCell y -> Z.eqb x y
                | _ -> false)
  | VRet x -> (match b with
               | VRet y -> Z.eqb x y
               | _ -> false)
  | VImm x -> (match b with
               | VImm y -> Z.eqb x y
               | _ -> false)
  | VJunk -> false

(** val must_keep : z -> z -> bool **)

let must_keep live r =
  (||) (pinned r)
    (existsb (fun t0 ->
      match tmp_reg t0 with
      | Some r' -> (&&) (Z.eqb r' r) (Z.testbit live t0)
      | None -> false) (Z0 :: ((Zpos XH) :: ((Zpos (XO XH)) :: ((Zpos (XI
      XH)) :: ((Zpos (XO (XO XH))) :: ((Zpos (XI (XO XH))) :: ((Zpos (XO (XI
      XH))) :: ((Zpos (XI (XI XH))) :: ((Zpos (XO (XO (XO XH)))) :: ((Zpos
      (XI (XO (XO XH)))) :: ((Zpos (XO (XI (XO XH)))) :: []))))))))))))

(** val regs_restored : z -> ksym -> bool **)

let regs_restored live y =
  forallb (fun r ->
    (||) (negb (must_keep live r)) (kval_eqb (yget y r) (VInit r)))
    (Z0 :: ((Zpos XH) :: ((Zpos (XO XH)) :: ((Zpos (XI XH)) :: ((Zpos (XO (XO
    XH))) :: ((Zpos (XI (XO XH))) :: ((Zpos (XO (XI XH))) :: ((Zpos (XI (XI
    XH))) :: ((Zpos (XO (XO (XO XH)))) :: ((Zpos (XI (XO (XO XH)))) :: ((Zpos
    (XO (XI (XO XH)))) :: ((Zpos (XI (XI (XO XH)))) :: ((Zpos (XO (XO (XI
    XH)))) :: ((Zpos (XI (XO (XI XH)))) :: ((Zpos (XO (XI (XI
    XH)))) :: ((Zpos (XI (XI (XI XH)))) :: []))))))))))))))))

(** val u64M1 : z **)

let u64M1 =
  Z.sub (Z.pow (Zpos (XO XH)) (Zpos (XO (XO (XO (XO (XO (XO XH)))))))) (Zpos
    XH)

(** val call_ok : binstr -> z -> kins list -> bool **)

let call_ok i live code =
  match yrun code ksym0 with
  | Some y ->
    (&&)
      ((&&) ((&&) (match y.yk with
                   | [] -> true
                   | _ :: _ -> false) y.ycalled) (regs_restored live y))
      (match i with
       | Inp dst ->
         (&&)
           ((&&)
             (match y.ycalls with
              | [] -> false
              | p :: l ->
                let (a, _) = p in
                (match l with
                 | [] -> kval_eqb a (VInit (Zpos (XI XH)))
                 | _ :: _ -> false))
             (match y.yexit with
              | Some p ->
                let (b, k) = p in
                if b
                then (match k with
                      | TCmp64 (v, c) ->
                        (&&) (kval_eqb v (VRet Z0)) (Z.eqb c u64M1)
                      | _ -> false)
                else false
              | None -> false))
           (match y.ystore with
            | [] -> false
            | p :: l ->
              let (k, v) = p in
              (match l with
               | [] -> (&&) (Z.eqb k dst) (kval_eqb v (VRet Z0))
               | _ :: _ -> false))
       | Outp src ->
         (&&)
           ((&&)
             (match y.ycalls with
              | [] -> false
              | p :: l ->
                let (a, b) = p in
                (match l with
                 | [] ->
                   (&&) (kval_eqb a (VInit (Zpos (XI XH))))
                     (kval_eqb b (VCell src))
                 | _ :: _ -> false))
             (match y.yexit with
              | Some p ->
                let (b, k) = p in
                if b
                then false
                else (match k with
                      | TTest8 v -> kval_eqb v (VRet Z0)
                      | _ -> false)
              | None -> false))
           (match y.ystore with
            | [] -> true
            | _ :: _ -> false)
       | _ -> false)
  | None -> false

(** val br_ok : binstr -> kins list -> bool **)

let br_ok i code =
  match i with
  | BrZ (c, _) ->
    (match code with
     | [] -> false
     | k0 :: l ->
       (match k0 with
        | KCmpCell k ->
          (match l with
           | [] -> false
           | k1 :: l0 ->
             (match k1 with
              | KJe -> (match l0 with
                        | [] -> Z.eqb k c
                        | _ :: _ -> false)
              | _ -> false))
        | _ -> false))
  | BrNZ (c, _) ->
    (match code with
     | [] -> false
     | k0 :: l ->
       (match k0 with
        | KCmpCell k ->
          (match l with
           | [] -> false
           | k1 :: l0 ->
             (match k1 with
              | KJne -> (match l0 with
                         | [] -> Z.eqb k c
                         | _ :: _ -> false)
              | _ -> false))
        | _ -> false))
  | _ -> false

type mins =
| MAddRbp of z
| MLeaRaxRbp of z
| MSubRaxBase
| MSarRax of z
| MCmpRaxSize
| MJb
| MStoreOff
| MPush of z
| MPop of z
| MSubRsp
| MAddRsp
| MMovRR of z * z
| MMovI of z * z
| MCall of z
| MLoadRbpBase
| MLoadRaxOff
| MLeaRbpIdx of z * z

(** val mins_eqb : mins -> mins -> bool **)

let mins_eqb a b =
  match a with
  | MAddRbp x -> (match b with
                  | MAddRbp y -> Z.eqb x y
                  | _ -> false)
  | MLeaRaxRbp x -> (match b with
                     | MLeaRaxRbp y -> Z.eqb x y
                     | _ -> false)
  | MSubRaxBase -> (match b with
                    | MSubRaxBase -> true
                    | _ -> false)
  | MSarRax x -> (match b with
                  | MSarRax y -> Z.eqb x y
                  | _ -> false)
  | MCmpRaxSize -> (match b with
                    | MCmpRaxSize -> true
                    | _ -> false)
  | MJb -> (match b with
            | MJb -> true
            | _ -> false)
  | MStoreOff -> (match b with
                  | MStoreOff -> true
                  | _ -> false)
  | MPush x -> (match b with
                | MPush y -> Z.eqb x y
                | _ -> false)
  | MPop x -> (match b with
               | MPop y -> Z.eqb x y
               | _ -> false)
  | MSubRsp -> (match b with
                | MSubRsp -> true
                | _ -> false)
  | MAddRsp -> (match b with
                | MAddRsp -> true
                | _ -> false)
  | MMovRR (a1, a2) ->
    (match b with
     | MMovRR (b1, b2) -> (&&) (Z.eqb a1 b1) (Z.eqb a2 b2)
     | _ -> false)
  | MMovI (a1, a2) ->
    (match b with
     | MMovI (b1, b2) -> (&&) (Z.eqb a1 b1) (Z.eqb a2 b2)
     | _ -> false)
  | MCall x -> (match b with
                | MCall y -> Z.eqb x y
                | _ -> false)
  | MLoadRbpBase -> (match b with
                     | MLoadRbpBase -> true
                     | _ -> false)
  | MLoadRaxOff -> (match b with
                    | MLoadRaxOff -> true
                    | _ -> false)
  | MLeaRbpIdx (a1, a2) ->
    (match b with
     | MLeaRbpIdx (b1, b2) -> (&&) (Z.eqb a1 b1) (Z.eqb a2 b2)
     | _ -> false)

(** val code_eqb : mins list -> mins list -> bool **)

let rec code_eqb a b =
  match a with
  | [] -> (match b with
           | [] -> true
           | _ :: _ -> false)
  | x :: a' ->
    (match b with
     | [] -> false
     | y :: b' -> (&&) (mins_eqb x y) (code_eqb a' b'))

(** val saved_regs : z -> z list **)

let saved_regs live =
  flat_map (fun t0 ->
    if Z.testbit live t0
    then (match tmp_reg t0 with
          | Some r -> r :: []
          | None -> [])
    else []) ((Zpos (XO (XO XH))) :: ((Zpos (XI (XO XH))) :: ((Zpos (XO (XI
    XH))) :: ((Zpos (XI (XI XH))) :: ((Zpos (XO (XO (XO XH)))) :: ((Zpos (XI
    (XO (XO XH)))) :: ((Zpos (XO (XI (XO XH)))) :: [])))))))

(** val mov_template : z -> z -> z -> z -> z -> z -> mins list **)

let mov_template sz sh d probe live fn =
  let rs = saved_regs live in
  let odd0 = Nat.odd (length rs) in
  app ((MAddRbp (Z.mul sz d)) :: ((MLeaRaxRbp
    (Z.mul sz probe)) :: (MSubRaxBase :: [])))
    (app (if Z.eqb sz (Zpos XH) then [] else (MSarRax sh) :: [])
      (app (MCmpRaxSize :: (MJb :: (MStoreOff :: [])))
        (app (map (fun x -> MPush x) rs)
          (app (if odd0 then MSubRsp :: [] else [])
            (app ((MMovRR ((Zpos (XI (XI XH))), (Zpos (XI XH)))) :: ((MMovI
              ((Zpos (XO (XI XH))), Z0)) :: ((MMovI ((Zpos (XO XH)), (Zpos
              XH))) :: ((MMovI (Z0, fn)) :: ((MCall Z0) :: [])))))
              (app (if odd0 then MAddRsp :: [] else [])
                (app (map (fun x -> MPop x) (rev rs))
                  (MLoadRbpBase :: (MLoadRaxOff :: ((MLeaRbpIdx (sz,
                  (Z.opp (Z.mul sz probe)))) :: []))))))))))

(** val find_fn : mins list -> z **)

let find_fn code =
  fold_right (fun i acc ->
    match i with
    | MMovI (d, c) -> (match d with
                       | Z0 -> c
                       | _ -> acc)
    | _ -> acc) Z0 code

(** val mov_ok : z -> binstr -> z -> z -> z -> mins list -> bool **)

let mov_ok w i mn mx live code =
  match i with
  | MovP d ->
    let sz = Z.div w (Zpos (XO (XO (XO XH)))) in
    let sh =
      if Z.eqb w (Zpos (XO (XO (XO XH))))
      then Z0
      else if Z.eqb w (Zpos (XO (XO (XO (XO XH)))))
           then Zpos XH
           else if Z.eqb w (Zpos (XO (XO (XO (XO (XO XH))))))
                then Zpos (XO XH)
                else Zpos (XI XH)
    in
    let probe = if Z.ltb d Z0 then mn else mx in
    (&&)
      ((||)
        ((||)
          ((||) (Z.eqb w (Zpos (XO (XO (XO XH)))))
            (Z.eqb w (Zpos (XO (XO (XO (XO XH)))))))
          (Z.eqb w (Zpos (XO (XO (XO (XO (XO XH))))))))
        (Z.eqb w (Zpos (XO (XO (XO (XO (XO (XO XH)))))))))
      (code_eqb code (mov_template sz sh d probe live (find_fn code)))
  | _ -> false

type lins =
| LLoadBudget
| LCmpRax of z
| LJbTerm
| LDecRax
| LStoreBudget

(** val lins_eqb : lins -> lins -> bool **)

let lins_eqb a b =
  match a with
  | LLoadBudget -> (match b with
                    | LLoadBudget -> true
                    | _ -> false)
  | LCmpRax x -> (match b with
                  | LCmpRax y -> Z.eqb x y
                  | _ -> false)
  | LJbTerm -> (match b with
                | LJbTerm -> true
                | _ -> false)
  | LDecRax -> (match b with
                | LDecRax -> true
                | _ -> false)
  | LStoreBudget -> (match b with
                     | LStoreBudget -> true
                     | _ -> false)

(** val limit_ok : lins list -> bool **)

let limit_ok = function
| [] -> false
| a :: l ->
  (match l with
   | [] -> false
   | b :: l0 ->
     (match l0 with
      | [] -> false
      | c :: l1 ->
        (match l1 with
         | [] -> false
         | d :: l2 ->
           (match l2 with
            | [] -> false
            | e :: l3 ->
              (match l3 with
               | [] ->
                 (&&)
                   ((&&)
                     ((&&)
                       ((&&) (lins_eqb a LLoadBudget)
                         (lins_eqb b (LCmpRax (Zpos (XO XH)))))
                       (lins_eqb c LJbTerm)) (lins_eqb d LDecRax))
                   (lins_eqb e LStoreBudget)
               | _ :: _ -> false)))))

(** val frame_ok : z -> z -> z -> bool **)

let frame_ok temps pushes sub_bytes =
  (&&)
    ((&&)
      ((&&) (Z.eqb (Z.modulo sub_bytes (Zpos (XO (XO (XO XH))))) Z0)
        (Z.leb Z0 temps))
      (Z.leb (Z.mul (Zpos (XO (XO (XO XH)))) temps) sub_bytes))
    (Z.eqb
      (Z.modulo
        (Z.add
          (Z.add (Zpos (XO (XO (XO XH))))
            (Z.mul (Zpos (XO (XO (XO XH)))) pushes)) sub_bytes) (Zpos (XO (XO
        (XO (XO XH)))))) Z0)

(** val mov_unsafe_ok : z -> binstr -> mins list -> bool **)

let mov_unsafe_ok w i code =
  match i with
  | MovP d ->
    (&&)
      ((||)
        ((||)
          ((||) (Z.eqb w (Zpos (XO (XO (XO XH)))))
            (Z.eqb w (Zpos (XO (XO (XO (XO XH)))))))
          (Z.eqb w (Zpos (XO (XO (XO (XO (XO XH))))))))
        (Z.eqb w (Zpos (XO (XO (XO (XO (XO (XO XH)))))))))
      (code_eqb code ((MAddRbp
        (Z.mul (Z.div w (Zpos (XO (XO (XO XH))))) d)) :: []))
  | _ -> false

(** val acell0 : z -> z **)

let acell0 k =
  Z.mul (Zpos (XI (XO XH))) k

(** val axi : z -> z **)

let axi k =
  Z.add (Z.mul (Zpos (XI (XO XH))) k) (Zpos XH)

(** val axb : z -> z **)

let axb k =
  Z.add (Z.mul (Zpos (XI (XO XH))) k) (Zpos (XO XH))

(** val atmp : z -> z **)

let atmp t0 =
  Z.add (Z.mul (Zpos (XI (XO XH))) t0) (Zpos (XI XH))

(** val ainp : z -> z **)

let ainp j =
  Z.add (Z.mul (Zpos (XI (XO XH))) j) (Zpos (XO (XO XH)))

type amap1 = (z * expr) list

(** val look : z -> amap1 -> expr option **)

let rec look k = function
| [] -> None
| p :: m' -> let (k', v) = p in if Z.eqb k' k then Some v else look k m'

(** val memz : z -> z list -> bool **)

let rec memz k = function
| [] -> false
| x :: l' -> (||) (Z.eqb x k) (memz k l')

type sst1 = { s_ci : amap1; s_cb : amap1; s_d : z list; s_t : amap1;
              s_nz : expr list; s_n : z }

(** val cell_i : sst1 -> z -> expr **)

let cell_i st k =
  match look k st.s_ci with
  | Some p -> p
  | None -> if memz k st.s_d then e_var (axi k) else e_var (acell0 k)

(** val cell_b : sst1 -> z -> expr **)

let cell_b st k =
  match look k st.s_cb with
  | Some p -> p
  | None -> if memz k st.s_d then e_var (axb k) else e_var (acell0 k)

(** val set_ci : sst1 -> amap1 -> sst1 **)

let set_ci st m =
  { s_ci = m; s_cb = st.s_cb; s_d = st.s_d; s_t = st.s_t; s_nz = st.s_nz;
    s_n = st.s_n }

(** val set_cb : sst1 -> amap1 -> sst1 **)

let set_cb st m =
  { s_ci = st.s_ci; s_cb = m; s_d = st.s_d; s_t = st.s_t; s_nz = st.s_nz;
    s_n = st.s_n }

(** val set_t : sst1 -> amap1 -> sst1 **)

let set_t st m =
  { s_ci = st.s_ci; s_cb = st.s_cb; s_d = st.s_d; s_t = m; s_nz = st.s_nz;
    s_n = st.s_n }

(** val set_n : sst1 -> z -> sst1 **)

let set_n st n0 =
  { s_ci = st.s_ci; s_cb = st.s_cb; s_d = st.s_d; s_t = st.s_t; s_nz =
    st.s_nz; s_n = n0 }

(** val add_nz : sst1 -> expr -> sst1 **)

let add_nz st p =
  { s_ci = st.s_ci; s_cb = st.s_cb; s_d = st.s_d; s_t = st.s_t; s_nz =
    (p :: st.s_nz); s_n = st.s_n }

(** val pcanon : z -> expr -> expr **)

let pcanon w e =
  amap_parts
    (fold_left (fun m p -> acc_add w (sort_z (snd p)) (fst p) m) e [])

(** val tv_same : z -> expr -> expr -> bool **)

let tv_same w a b =
  part_eqb (pcanon w a) (pcanon w b)

(** val psubst : z -> (z -> expr) -> expr -> expr **)

let psubst w f e =
  fold_right (fun p acc ->
    e_add w (fold_right (fun v m -> e_mul w (f v) m) (e_val (fst p)) (snd p))
      acc) [] e

type sev =
| SOut of expr
| SIn

(** val is_simple : instr -> bool **)

let is_simple = function
| ILoop (_, _, _, _) -> false
| IIf (_, _, _) -> false
| _ -> true

(** val split_simple : instr list -> instr list * instr list **)

let rec split_simple l = match l with
| [] -> ([], [])
| i :: l' ->
  if is_simple i
  then let (a, b) = split_simple l' in ((i :: a), b)
  else ([], l)

(** val sym_ir_step : z -> sst1 -> instr -> sst1 * sev list **)

let sym_ir_step w st = function
| IOut src -> (st, ((SOut (cell_i st src)) :: []))
| IIn dst ->
  ((set_n (set_ci st ((dst, (e_var (ainp st.s_n))) :: st.s_ci))
     (Z.add st.s_n (Zpos XH))), (SIn :: []))
| ICalc calcs ->
  let vals = map (fun ce -> ((fst ce), (psubst w (cell_i st) (snd ce)))) calcs
  in
  ((set_ci st (fold_left (fun m kv -> kv :: m) vals st.s_ci)), [])
| _ -> (st, [])

(** val sym_ir : z -> instr list -> sst1 -> sst1 * sev list **)

let rec sym_ir w l st =
  match l with
  | [] -> (st, [])
  | i :: l' ->
    let (st1, e1) = sym_ir_step w st i in
    let (st2, e2) = sym_ir w l' st1 in (st2, (app e1 e2))

(** val is_arith : binstr -> bool **)

let is_arith = function
| Scan (_, _) -> false
| MovP _ -> false
| BrZ (_, _) -> false
| BrNZ (_, _) -> false
| _ -> true

(** val imm_ok : z -> z -> bool **)

let imm_ok w c =
  (&&) (Z.leb Z0 c) (Z.ltb c (Z.pow (Zpos (XO XH)) w))

(** val sym_read : z -> sst1 -> loc -> (expr * sst1) option **)

let sym_read w st = function
| Mem k -> Some ((cell_b st k), st)
| MemZero k -> Some ((cell_b st k), (set_cb st ((k, []) :: st.s_cb)))
| Tmp t0 -> (match look t0 st.s_t with
             | Some p -> Some (p, st)
             | None -> None)
| Imm c -> if imm_ok w c then Some ((e_val c), st) else None

(** val sym_write : sst1 -> loc -> expr -> sst1 **)

let sym_write st l v =
  match l with
  | Mem k -> set_cb st ((k, v) :: st.s_cb)
  | MemZero k -> set_cb st ((k, v) :: st.s_cb)
  | Tmp t0 -> set_t st ((t0, v) :: st.s_t)
  | Imm _ -> st

(** val sym_binop :
    z -> (expr -> expr -> expr) -> sst1 -> loc -> loc -> loc -> sst1 option **)

let sym_binop w f st d a b =
  if loc_eqb d a
  then (match sym_read w st b with
        | Some p ->
          let (vb0, s1) = p in
          (match sym_read w s1 a with
           | Some p0 ->
             let (va0, s2) = p0 in Some (sym_write s2 d (f va0 vb0))
           | None -> None)
        | None -> None)
  else (match sym_read w st a with
        | Some p ->
          let (va0, s1) = p in
          (match sym_read w s1 b with
           | Some p0 ->
             let (vb0, s2) = p0 in Some (sym_write s2 d (f va0 vb0))
           | None -> None)
        | None -> None)

(** val sym_bc_step : z -> sst1 -> binstr -> (sst1 * sev list) option **)

let sym_bc_step w st = function
| Noop -> Some (st, [])
| Inp dst ->
  Some
    ((set_n (set_cb st ((dst, (e_var (ainp st.s_n))) :: st.s_cb))
       (Z.add st.s_n (Zpos XH))), (SIn :: []))
| Outp src -> Some (st, ((SOut (cell_b st src)) :: []))
| Add (d, a, b) ->
  option_map (fun s -> (s, [])) (sym_binop w (e_add w) st d a b)
| Sub (d, a, b) ->
  option_map (fun s -> (s, []))
    (sym_binop w (fun x y -> e_add w x (e_neg w y)) st d a b)
| Mul (d, a, b) ->
  option_map (fun s -> (s, [])) (sym_binop w (e_mul w) st d a b)
| Copy (d, a) ->
  (match sym_read w st a with
   | Some p -> let (v, s1) = p in Some ((sym_write s1 d v), [])
   | None -> None)
| _ -> None

(** val sym_bc : z -> binstr list -> sst1 -> (sst1 * sev list) option **)

let rec sym_bc w l st =
  match l with
  | [] -> Some (st, [])
  | i :: l' ->
    (match sym_bc_step w st i with
     | Some p ->
       let (st1, e1) = p in
       (match sym_bc w l' st1 with
        | Some p0 -> let (st2, e2) = p0 in Some (st2, (app e1 e2))
        | None -> None)
     | None -> None)

(** val ev_eq : z -> sev list -> sev list -> bool **)

let rec ev_eq w a b =
  match a with
  | [] -> (match b with
           | [] -> true
           | _ :: _ -> false)
  | s :: a' ->
    (match s with
     | SOut p ->
       (match b with
        | [] -> false
        | s0 :: b' ->
          (match s0 with
           | SOut q -> (&&) (tv_same w p q) (ev_eq w a' b')
           | SIn -> false))
     | SIn ->
       (match b with
        | [] -> false
        | s0 :: b' -> (match s0 with
                       | SOut _ -> false
                       | SIn -> ev_eq w a' b')))

(** val sym_region : z -> instr list -> binstr list -> sst1 -> sst1 option **)

let sym_region w pre seg st =
  let (sti, evi) = sym_ir w pre st in
  (match sym_bc w seg st with
   | Some p ->
     let (stb, evb) = p in
     if (&&) (ev_eq w evi evb) (Z.eqb sti.s_n stb.s_n)
     then Some { s_ci = sti.s_ci; s_cb = stb.s_cb; s_d = st.s_d; s_t =
            stb.s_t; s_nz = st.s_nz; s_n = sti.s_n }
     else None
   | None -> None)

(** val code_at : binstr list -> z -> binstr option **)

let code_at code pc =
  if Z.ltb pc Z0 then None else nth_error code (Z.to_nat pc)

(** val at_head : z option -> z -> bool **)

let at_head head pc =
  match head with
  | Some h -> Z.eqb h pc
  | None -> false

(** val seg_from : binstr list -> z -> z -> z option -> binstr list **)

let rec seg_from l pc stop head =
  match l with
  | [] -> []
  | i :: l' ->
    if (&&) ((&&) (Z.ltb pc stop) (is_arith i)) (negb (at_head head pc))
    then i :: (seg_from l' (Z.add pc (Zpos XH)) stop head)
    else []

(** val bc_segment : binstr list -> z -> z -> z option -> binstr list **)

let bc_segment code pc stop head =
  if Z.ltb pc Z0 then [] else seg_from (skipn (Z.to_nat pc) code) pc stop head

type facts = { f_c : amap1; f_d : z list; f_t : amap1; f_nz : expr list }

type cert =
| CLoop of z * z * facts * facts
| CIf of facts

(** val st_of_facts : facts -> sst1 **)

let st_of_facts f =
  { s_ci = f.f_c; s_cb = f.f_c; s_d = f.f_d; s_t = f.f_t; s_nz = f.f_nz;
    s_n = Z0 }

(** val agree : z -> sst1 -> z -> bool **)

let agree w st k =
  tv_same w (cell_i st k) (cell_b st k)

(** val keys : sst1 -> z list **)

let keys st =
  app (map fst st.s_ci) (app (map fst st.s_cb) st.s_d)

(** val atom_ok : z -> sst1 -> z -> bool **)

let atom_ok w st a =
  let m = Z.modulo a (Zpos (XI (XO XH))) in
  if Z.eqb m Z0
  then agree w st (Z.div a (Zpos (XI (XO XH))))
  else if Z.eqb m (Zpos XH)
       then true
       else if Z.eqb m (Zpos (XO XH))
            then true
            else if Z.eqb m (Zpos (XI XH))
                 then (match look (Z.div a (Zpos (XI (XO XH)))) st.s_t with
                       | Some _ -> true
                       | None -> false)
                 else false

(** val atom_val : sst1 -> z -> expr **)

let atom_val st a =
  let m = Z.modulo a (Zpos (XI (XO XH))) in
  if Z.eqb m Z0
  then cell_b st (Z.div a (Zpos (XI (XO XH))))
  else if Z.eqb m (Zpos XH)
       then cell_i st (Z.div a (Zpos (XI (XO XH))))
       else if Z.eqb m (Zpos (XO XH))
            then cell_b st (Z.div a (Zpos (XI (XO XH))))
            else (match look (Z.div a (Zpos (XI (XO XH)))) st.s_t with
                  | Some p -> p
                  | None -> [])

(** val subst_ok : z -> sst1 -> expr -> bool **)

let subst_ok w st q =
  forallb (atom_ok w st) (e_variables q)

(** val subst_st : z -> sst1 -> expr -> expr **)

let subst_st w st q =
  psubst w (atom_val st) q

(** val is_bot : sst1 -> bool **)

let is_bot st =
  existsb (fun p -> match p with
                    | [] -> true
                    | _ :: _ -> false) st.s_nz

(** val is_nz_const : z -> expr -> bool **)

let is_nz_const w = function
| [] -> false
| p0 :: l ->
  let (c, l0) = p0 in
  (match l0 with
   | [] ->
     (match l with
      | [] -> negb (Z.eqb (Z.modulo c (Z.pow (Zpos (XO XH)) w)) Z0)
      | _ :: _ -> false)
   | _ :: _ -> false)

(** val nonzero_in : z -> sst1 -> expr -> bool **)

let nonzero_in w st p =
  (||) ((||) (is_bot st) (is_nz_const w p)) (existsb (tv_same w p) st.s_nz)

(** val entails : z -> sst1 -> facts -> bool **)

let entails w st f =
  (||) (is_bot st)
    ((&&)
      ((&&)
        ((&&)
          (forallb (fun k ->
            negb (match look k f.f_c with
                  | Some _ -> true
                  | None -> false)) f.f_d)
          (forallb (fun k ->
            (||) (memz k f.f_d)
              ((&&) (agree w st k)
                (match look k f.f_c with
                 | Some q ->
                   (&&) (subst_ok w st q)
                     (tv_same w (cell_b st k) (subst_st w st q))
                 | None -> true))) (app (keys st) (map fst f.f_c))))
        (forallb (fun tq ->
          match look (fst tq) st.s_t with
          | Some p ->
            (&&) (subst_ok w st (snd tq))
              (tv_same w p (subst_st w st (snd tq)))
          | None -> false) f.f_t))
      (forallb (fun q ->
        (&&) (subst_ok w st q) (nonzero_in w st (subst_st w st q))) f.f_nz))

(** val once_exit : z -> sst1 -> z -> sst1 **)

let once_exit w stb cond =
  if nonzero_in w stb (cell_i stb cond) then add_nz stb [] else stb

(** val is_const : expr -> bool **)

let is_const = function
| [] -> true
| p0 :: l ->
  let (_, l0) = p0 in
  (match l0 with
   | [] -> (match l with
            | [] -> true
            | _ :: _ -> false)
   | _ :: _ -> false)

(** val moved : z -> sst1 -> z -> sst1 **)

let moved w st shift =
  { s_ci = []; s_cb = []; s_d =
    (map (fun k -> Z.sub k shift)
      (filter (fun k -> negb (agree w st k)) (keys st))); s_t =
    (map (fun tp -> ((fst tp),
      (if is_const (snd tp) then snd tp else e_var (atmp (fst tp))))) st.s_t);
    s_nz = []; s_n = Z0 }

(** val all_agree : z -> sst1 -> bool **)

let all_agree w st =
  forallb (agree w st) (keys st)

(** val is_nil : 'a1 list -> bool **)

let is_nil = function
| [] -> true
| _ :: _ -> false

(** val next_head : bool -> instr list -> cert list -> z option **)

let next_head fuse rest cs =
  match rest with
  | [] -> None
  | i :: _ ->
    (match i with
     | ILoop (_, _, body, once) ->
       if once
       then if (&&) fuse (is_nil body)
            then None
            else (match cs with
                  | [] -> None
                  | c :: _ ->
                    (match c with
                     | CLoop (h, _, _, _) -> Some h
                     | CIf _ -> None))
       else None
     | _ -> None)

(** val after_move :
    z -> binstr list -> z -> sst1 -> z -> (z * sst1) option **)

let after_move w code pc st shift =
  if Z.eqb shift Z0
  then Some (pc, st)
  else (match code_at code pc with
        | Some b ->
          (match b with
           | MovP sh ->
             if Z.eqb sh shift
             then Some ((Z.add pc (Zpos XH)), (moved w st shift))
             else None
           | _ -> None)
        | None -> None)

(** val tv_block :
    nat -> z -> bool -> binstr list -> instr list -> z -> z -> sst1 -> cert
    list -> ((z * sst1) * cert list) option **)

let rec tv_block fuel w fuse code insts pc stop st cs =
  match fuel with
  | O -> None
  | S fuel' ->
    let (pre, rest) = split_simple insts in
    let seg = bc_segment code pc stop (next_head fuse rest cs) in
    (match sym_region w pre seg st with
     | Some st1 ->
       let pc1 = Z.add pc (Z.of_nat (length seg)) in
       (match rest with
        | [] -> Some ((pc1, st1), cs)
        | i :: rest' ->
          (match i with
           | ILoop (cond, shift, body, once) ->
             (match code_at code pc1 with
              | Some b ->
                if (&&) fuse (is_nil body)
                then (match b with
                      | Scan (c, sh) ->
                        if (&&)
                             ((&&)
                               ((&&) ((&&) (Z.eqb c cond) (Z.eqb sh shift))
                                 (Z.ltb pc1 stop)) (agree w st1 cond))
                             ((||) (Z.eqb shift Z0) (all_agree w st1))
                        then tv_block fuel' w fuse code rest'
                               (Z.add pc1 (Zpos XH)) stop
                               (if Z.eqb shift Z0
                                then st1
                                else moved w st1 shift) cs
                        else None
                      | _ -> None)
                else (match cs with
                      | [] -> None
                      | c :: cs1 ->
                        (match c with
                         | CLoop (head, back, inv, exitf) ->
                           let fi = st_of_facts inv in
                           let entry_ok =
                             if once
                             then (&&) (nonzero_in w st1 (cell_i st1 cond))
                                    (Z.eqb pc1 head)
                             else (&&)
                                    ((&&) (agree w st1 cond)
                                      (Z.eqb head (Z.add pc1 (Zpos XH))))
                                    (match b with
                                     | BrZ (c0, off) ->
                                       (&&) (Z.eqb c0 cond)
                                         (Z.eqb (Z.add pc1 off)
                                           (Z.add back (Zpos XH)))
                                     | _ -> false)
                           in
                           let back_ok =
                             match code_at code back with
                             | Some b0 ->
                               (match b0 with
                                | BrNZ (c0, off) ->
                                  (&&) (Z.eqb c0 cond)
                                    (Z.eqb (Z.add back off) head)
                                | _ -> false)
                             | None -> false
                           in
                           if (&&)
                                ((&&)
                                  ((&&)
                                    ((&&)
                                      ((&&) ((&&) entry_ok back_ok)
                                        (Z.leb (Z.add back (Zpos XH)) stop))
                                      (Z.leb head back)) (Z.leb Z0 pc1))
                                  (entails w st1 inv))
                                ((||) once (entails w st1 exitf))
                           then let ent =
                                  add_nz fi
                                    (e_var
                                      (if memz cond inv.f_d
                                       then axi cond
                                       else acell0 cond))
                                in
                                (match tv_block fuel' w fuse code body head
                                         back ent cs1 with
                                 | Some p ->
                                   let (p0, cs2) = p in
                                   let (pc2, stb) = p0 in
                                   (match after_move w code pc2 stb shift with
                                    | Some p1 ->
                                      let (pc3, stb') = p1 in
                                      if (&&)
                                           ((&&)
                                             ((&&) (Z.eqb pc3 back)
                                               (agree w stb' cond))
                                             (entails w stb' inv))
                                           ((||) once
                                             (entails w
                                               (once_exit w stb' cond) exitf))
                                      then tv_block fuel' w fuse code rest'
                                             (Z.add back (Zpos XH)) stop
                                             (if once
                                              then once_exit w stb' cond
                                              else st_of_facts exitf) cs2
                                      else None
                                    | None -> None)
                                 | None -> None)
                           else None
                         | CIf _ -> None))
              | None -> None)
           | IIf (cond, shift, body) ->
             (match code_at code pc1 with
              | Some b ->
                (match b with
                 | BrZ (c, off) ->
                   (match cs with
                    | [] -> None
                    | c0 :: cs1 ->
                      (match c0 with
                       | CLoop (_, _, _, _) -> None
                       | CIf join ->
                         let exit = Z.add pc1 off in
                         if (&&)
                              ((&&)
                                ((&&)
                                  ((&&) (Z.eqb c cond) (agree w st1 cond))
                                  (Z.leb (Z.add pc1 (Zpos XH)) exit))
                                (Z.leb exit stop)) (Z.leb Z0 pc1)
                         then (match tv_block fuel' w fuse code body
                                       (Z.add pc1 (Zpos XH)) exit
                                       (add_nz st1 (cell_b st1 cond)) cs1 with
                               | Some p ->
                                 let (p0, cs2) = p in
                                 let (pc2, stb) = p0 in
                                 (match after_move w code pc2 stb shift with
                                  | Some p1 ->
                                    let (pc3, stb') = p1 in
                                    if (&&)
                                         ((&&) (Z.eqb pc3 exit)
                                           (entails w st1 join))
                                         (entails w stb' join)
                                    then tv_block fuel' w fuse code rest'
                                           exit stop (st_of_facts join) cs2
                                    else None
                                  | None -> None)
                               | None -> None)
                         else None))
                 | _ -> None)
              | None -> None)
           | _ -> None))
     | None -> None)

(** val st0 : z list -> sst1 **)

let st0 zs =
  { s_ci = (map (fun k -> (k, [])) zs); s_cb = (map (fun k -> (k, [])) zs);
    s_d = []; s_t = []; s_nz = []; s_n = Z0 }

(** val tvsize : instr -> nat **)

let rec tvsize = function
| ILoop (_, _, body, _) -> S (list_sum (map tvsize body))
| IIf (_, _, body) -> S (list_sum (map tvsize body))
| _ -> S O

(** val isize : instr list -> nat **)

let isize l =
  S (list_sum (map tvsize l))

(** val tv_check :
    z -> bool -> block -> binstr list -> z list -> cert list -> bool **)

let tv_check w fuse ir code zs cs =
  (&&) (Z.leb Z0 w)
    (match tv_block (S (isize (snd ir))) w fuse code (snd ir) Z0
             (Z.of_nat (length code)) (st0 zs) cs with
     | Some p ->
       let (p0, l) = p in
       let (pc, _) = p0 in
       (match l with
        | [] ->
          (||) (Z.eqb pc (Z.of_nat (length code)))
            ((&&) (Z.eqb (Z.add pc (Zpos XH)) (Z.of_nat (length code)))
              (match code_at code pc with
               | Some b -> (match b with
                            | MovP _ -> true
                            | _ -> false)
               | None -> false))
        | _ :: _ -> false)
     | None -> false)

type kind =
| KPrintIr
| KPrintBc
| KPrintBc2
| KInplace
| KIrInt
| KBcInt
| KPrintMc
| KBaseJit

type action =
| ASetKind of kind
| ASetOpt of z
| ASetBits of z
| AHelp
| ANextFile
| ANextLimit
| AStatic
| ATime

type table = (string * action) list

(** val spec_table : table **)

let spec_table =
  ((String ((Ascii (true, false, true, true, false, true, false, false)),
    (String ((Ascii (true, false, true, true, false, true, false, false)),
    (String ((Ascii (false, false, false, false, true, true, true, false)),
    (String ((Ascii (false, true, false, false, true, true, true, false)),
    (String ((Ascii (true, false, false, true, false, true, true, false)),
    (String ((Ascii (false, true, true, true, false, true, true, false)),
    (String ((Ascii (false, false, true, false, true, true, true, false)),
    (String ((Ascii (true, false, true, true, false, true, false, false)),
    (String ((Ascii (true, false, false, true, false, true, true, false)),
    (String ((Ascii (false, true, false, false, true, true, true, false)),
    EmptyString)))))))))))))))))))), (ASetKind KPrintIr)) :: (((String
    ((Ascii (true, false, true, true, false, true, false, false)), (String
    ((Ascii (true, false, true, true, false, true, false, false)), (String
    ((Ascii (false, false, false, false, true, true, true, false)), (String
    ((Ascii (false, true, false, false, true, true, true, false)), (String
    ((Ascii (true, false, false, true, false, true, true, false)), (String
    ((Ascii (false, true, true, true, false, true, true, false)), (String
    ((Ascii (false, false, true, false, true, true, true, false)), (String
    ((Ascii (true, false, true, true, false, true, false, false)), (String
    ((Ascii (false, true, false, false, false, true, true, false)), (String
    ((Ascii (true, true, false, false, false, true, true, false)),
    EmptyString)))))))))))))))))))), (ASetKind KPrintBc)) :: (((String
    ((Ascii (true, false, true, true, false, true, false, false)), (String
    ((Ascii (true, false, true, true, false, true, false, false)), (String
    ((Ascii (false, false, false, false, true, true, true, false)), (String
    ((Ascii (false, true, false, false, true, true, true, false)), (String
    ((Ascii (true, false, false, true, false, true, true, false)), (String
    ((Ascii (false, true, true, true, false, true, true, false)), (String
    ((Ascii (false, false, true, false, true, true, true, false)), (String
    ((Ascii (true, false, true, true, false, true, false, false)), (String
    ((Ascii (false, true, false, true, false, true, true, false)), (String
    ((Ascii (true, false, false, true, false, true, true, false)), (String
    ((Ascii (false, false, true, false, true, true, true, false)), (String
    ((Ascii (true, false, true, true, false, true, false, false)), (String
    ((Ascii (false, true, false, false, false, true, true, false)), (String
    ((Ascii (true, true, false, false, false, true, true, false)),
    EmptyString)))))))))))))))))))))))))))), (ASetKind
    KPrintBc2)) :: (((String ((Ascii (true, false, true, true, false, true,
    false, false)), (String ((Ascii (true, false, true, true, false, true,
    false, false)), (String ((Ascii (true, false, false, true, false, true,
    true, false)), (String ((Ascii (false, true, true, true, false, true,
    true, false)), (String ((Ascii (false, false, false, false, true, true,
    true, false)), (String ((Ascii (false, false, true, true, false, true,
    true, false)), (String ((Ascii (true, false, false, false, false, true,
    true, false)), (String ((Ascii (true, true, false, false, false, true,
    true, false)), (String ((Ascii (true, false, true, false, false, true,
    true, false)), EmptyString)))))))))))))))))), (ASetKind
    KInplace)) :: (((String ((Ascii (true, false, true, true, false, true,
    false, false)), (String ((Ascii (true, false, true, true, false, true,
    false, false)), (String ((Ascii (true, false, false, true, false, true,
    true, false)), (String ((Ascii (false, true, false, false, true, true,
    true, false)), (String ((Ascii (true, false, true, true, false, true,
    false, false)), (String ((Ascii (true, false, false, true, false, true,
    true, false)), (String ((Ascii (false, true, true, true, false, true,
    true, false)), (String ((Ascii (false, false, true, false, true, true,
    true, false)), EmptyString)))))))))))))))), (ASetKind
    KIrInt)) :: (((String ((Ascii (true, false, true, true, false, true,
    false, false)), (String ((Ascii (true, false, true, true, false, true,
    false, false)), (String ((Ascii (false, true, false, false, false, true,
    true, false)), (String ((Ascii (true, true, false, false, false, true,
    true, false)), (String ((Ascii (true, false, true, true, false, true,
    false, false)), (String ((Ascii (true, false, false, true, false, true,
    true, false)), (String ((Ascii (false, true, true, true, false, true,
    true, false)), (String ((Ascii (false, false, true, false, true, true,
    true, false)), EmptyString)))))))))))))))), (ASetKind
    KBcInt)) :: (((String ((Ascii (true, false, true, true, false, true,
    false, false)), (String ((Ascii (true, false, true, true, false, true,
    false, false)), (String ((Ascii (false, false, false, false, true, true,
    true, false)), (String ((Ascii (false, true, false, false, true, true,
    true, false)), (String ((Ascii (true, false, false, true, false, true,
    true, false)), (String ((Ascii (false, true, true, true, false, true,
    true, false)), (String ((Ascii (false, false, true, false, true, true,
    true, false)), (String ((Ascii (true, false, true, true, false, true,
    false, false)), (String ((Ascii (false, true, false, true, false, true,
    true, false)), (String ((Ascii (true, false, false, true, false, true,
    true, false)), (String ((Ascii (false, false, true, false, true, true,
    true, false)), (String ((Ascii (true, false, true, true, false, true,
    false, false)), (String ((Ascii (true, false, true, true, false, true,
    true, false)), (String ((Ascii (true, true, false, false, false, true,
    true, false)), EmptyString)))))))))))))))))))))))))))), (ASetKind
    KPrintMc)) :: (((String ((Ascii (true, false, true, true, false, true,
    false, false)), (String ((Ascii (true, false, true, true, false, true,
    false, false)), (String ((Ascii (false, true, false, false, false, true,
    true, false)), (String ((Ascii (true, false, false, false, false, true,
    true, false)), (String ((Ascii (true, true, false, false, true, true,
    true, false)), (String ((Ascii (true, false, true, false, false, true,
    true, false)), (String ((Ascii (true, false, true, true, false, true,
    false, false)), (String ((Ascii (false, true, false, true, false, true,
    true, false)), (String ((Ascii (true, false, false, true, false, true,
    true, false)), (String ((Ascii (false, false, true, false, true, true,
    true, false)), EmptyString)))))))))))))))))))), (ASetKind
    KBaseJit)) :: (((String ((Ascii (true, false, true, true, false, true,
    false, false)), (String ((Ascii (true, true, true, true, false, false,
    true, false)), (String ((Ascii (false, false, false, false, true, true,
    false, false)), EmptyString)))))), (ASetOpt Z0)) :: (((String ((Ascii
    (true, false, true, true, false, true, false, false)), (String ((Ascii
    (true, true, true, true, false, false, true, false)), (String ((Ascii
    (true, false, false, false, true, true, false, false)),
    EmptyString)))))), (ASetOpt (Zpos XH))) :: (((String ((Ascii (true,
    false, true, true, false, true, false, false)), (String ((Ascii (true,
    true, true, true, false, false, true, false)), (String ((Ascii (false,
    true, false, false, true, true, false, false)), EmptyString)))))),
    (ASetOpt (Zpos (XO XH)))) :: (((String ((Ascii (true, false, true, true,
    false, true, false, false)), (String ((Ascii (true, true, true, true,
    false, false, true, false)), (String ((Ascii (true, true, false, false,
    true, true, false, false)), EmptyString)))))), (ASetOpt (Zpos (XI
    XH)))) :: (((String ((Ascii (true, false, true, true, false, true, false,
    false)), (String ((Ascii (true, true, true, true, false, false, true,
    false)), (String ((Ascii (false, false, true, false, true, true, false,
    false)), EmptyString)))))), (ASetOpt (Zpos (XO (XO XH))))) :: (((String
    ((Ascii (true, false, true, true, false, true, false, false)), (String
    ((Ascii (true, true, true, true, false, false, true, false)), (String
    ((Ascii (true, false, true, false, true, true, false, false)),
    EmptyString)))))), (ASetOpt (Zpos (XI (XO XH))))) :: (((String ((Ascii
    (true, false, true, true, false, true, false, false)), (String ((Ascii
    (true, false, false, true, false, true, true, false)), (String ((Ascii
    (false, false, false, true, true, true, false, false)),
    EmptyString)))))), (ASetBits (Zpos (XO (XO (XO XH)))))) :: (((String
    ((Ascii (true, false, true, true, false, true, false, false)), (String
    ((Ascii (true, false, false, true, false, true, true, false)), (String
    ((Ascii (true, false, false, false, true, true, false, false)), (String
    ((Ascii (false, true, true, false, true, true, false, false)),
    EmptyString)))))))), (ASetBits (Zpos (XO (XO (XO (XO
    XH))))))) :: (((String ((Ascii (true, false, true, true, false, true,
    false, false)), (String ((Ascii (true, false, false, true, false, true,
    true, false)), (String ((Ascii (true, true, false, false, true, true,
    false, false)), (String ((Ascii (false, true, false, false, true, true,
    false, false)), EmptyString)))))))), (ASetBits (Zpos (XO (XO (XO (XO (XO
    XH)))))))) :: (((String ((Ascii (true, false, true, true, false, true,
    false, false)), (String ((Ascii (true, false, false, true, false, true,
    true, false)), (String ((Ascii (false, true, true, false, true, true,
    false, false)), (String ((Ascii (false, false, true, false, true, true,
    false, false)), EmptyString)))))))), (ASetBits (Zpos (XO (XO (XO (XO (XO
    (XO XH))))))))) :: (((String ((Ascii (true, false, true, true, false,
    true, false, false)), (String ((Ascii (false, false, false, true, false,
    true, true, false)), EmptyString)))), AHelp) :: (((String ((Ascii (true,
    false, true, true, false, true, false, false)), (String ((Ascii (false,
    false, false, true, false, true, true, false)), (String ((Ascii (true,
    false, true, false, false, true, true, false)), (String ((Ascii (false,
    false, true, true, false, true, true, false)), (String ((Ascii (false,
    false, false, false, true, true, true, false)), EmptyString)))))))))),
    AHelp) :: (((String ((Ascii (true, false, true, true, false, true, false,
    false)), (String ((Ascii (true, false, true, true, false, true, false,
    false)), (String ((Ascii (false, false, false, true, false, true, true,
    false)), (String ((Ascii (true, false, true, false, false, true, true,
    false)), (String ((Ascii (false, false, true, true, false, true, true,
    false)), (String ((Ascii (false, false, false, false, true, true, true,
    false)), EmptyString)))))))))))), AHelp) :: (((String ((Ascii (true,
    false, true, true, false, true, false, false)), (String ((Ascii (false,
    true, true, false, false, true, true, false)), EmptyString)))),
    ANextFile) :: (((String ((Ascii (true, false, true, true, false, true,
    false, false)), (String ((Ascii (false, true, true, false, false, true,
    true, false)), (String ((Ascii (true, false, false, true, false, true,
    true, false)), (String ((Ascii (false, false, true, true, false, true,
    true, false)), (String ((Ascii (true, false, true, false, false, true,
    true, false)), EmptyString)))))))))), ANextFile) :: (((String ((Ascii
    (true, false, true, true, false, true, false, false)), (String ((Ascii
    (true, false, true, true, false, true, false, false)), (String ((Ascii
    (false, true, true, false, false, true, true, false)), (String ((Ascii
    (true, false, false, true, false, true, true, false)), (String ((Ascii
    (false, false, true, true, false, true, true, false)), (String ((Ascii
    (true, false, true, false, false, true, true, false)),
    EmptyString)))))))))))), ANextFile) :: (((String ((Ascii (true, false,
    true, true, false, true, false, false)), (String ((Ascii (true, false,
    true, true, false, true, false, false)), (String ((Ascii (false, false,
    true, true, false, true, true, false)), (String ((Ascii (true, false,
    false, true, false, true, true, false)), (String ((Ascii (true, false,
    true, true, false, true, true, false)), (String ((Ascii (true, false,
    false, true, false, true, true, false)), (String ((Ascii (false, false,
    true, false, true, true, true, false)), EmptyString)))))))))))))),
    ANextLimit) :: (((String ((Ascii (true, false, true, true, false, true,
    false, false)), (String ((Ascii (true, false, true, true, false, true,
    false, false)), (String ((Ascii (true, true, false, false, true, true,
    true, false)), (String ((Ascii (false, false, true, false, true, true,
    true, false)), (String ((Ascii (true, false, false, false, false, true,
    true, false)), (String ((Ascii (false, false, true, false, true, true,
    true, false)), (String ((Ascii (true, false, false, true, false, true,
    true, false)), (String ((Ascii (true, true, false, false, false, true,
    true, false)), EmptyString)))))))))))))))), AStatic) :: (((String ((Ascii
    (true, false, true, true, false, true, false, false)), (String ((Ascii
    (true, false, true, true, false, true, false, false)), (String ((Ascii
    (false, false, true, false, true, true, true, false)), (String ((Ascii
    (true, false, false, true, false, true, true, false)), (String ((Ascii
    (true, false, true, true, false, true, true, false)), (String ((Ascii
    (true, false, true, false, false, true, true, false)),
    EmptyString)))))))))))), ATime) :: []))))))))))))))))))))))))))

type defaults = { d_bits : z; d_opt : z; d_kind : kind }

(** val spec_defaults : defaults **)

let spec_defaults =
  { d_bits = (Zpos (XO (XO (XO XH)))); d_opt = (Zpos (XO XH)); d_kind =
    KBaseJit }

(** val spec_widths : (z * z) list **)

let spec_widths =
  ((Zpos (XO (XO (XO XH)))), (Zpos (XO (XO (XO XH))))) :: (((Zpos (XO (XO (XO
    (XO XH))))), (Zpos (XO (XO (XO (XO XH)))))) :: (((Zpos (XO (XO (XO (XO
    (XO XH)))))), (Zpos (XO (XO (XO (XO (XO XH))))))) :: (((Zpos (XO (XO (XO
    (XO (XO (XO XH))))))), (Zpos (XO (XO (XO (XO (XO (XO XH)))))))) :: [])))

(** val lookup : table -> string -> action option **)

let rec lookup t0 a =
  match t0 with
  | [] -> None
  | p :: r -> let (k, v) = p in if eqb1 k a then Some v else lookup r a

(** val digit_of : ascii -> z option **)

let digit_of c =
  let n0 = Z.of_nat (nat_of_ascii c) in
  if (&&) (Z.leb (Zpos (XO (XO (XO (XO (XI XH)))))) n0)
       (Z.leb n0 (Zpos (XI (XO (XO (XI (XI XH)))))))
  then Some (Z.sub n0 (Zpos (XO (XO (XO (XO (XI XH)))))))
  else None

(** val parse_digits : string -> z -> z option **)

let rec parse_digits s acc =
  match s with
  | EmptyString -> Some acc
  | String (c, r) ->
    (match digit_of c with
     | Some d -> parse_digits r (Z.add (Z.mul acc (Zpos (XO (XI (XO XH))))) d)
     | None -> None)

(** val parse_usize : string -> z option **)

let parse_usize s =
  let body =
    match s with
    | EmptyString -> s
    | String (a, r) ->
      let Ascii (b, b0, b1, b2, b3, b4, b5, b6) = a in
      if b
      then if b0
           then if b1
                then s
                else if b2
                     then if b3
                          then s
                          else if b4
                               then if b5 then s else if b6 then s else r
                               else s
                     else s
           else s
      else s
  in
  (match body with
   | EmptyString -> None
   | String (_, _) ->
     (match parse_digits body Z0 with
      | Some v ->
        if Z.ltb v
             (Z.pow (Zpos (XO XH)) (Zpos (XO (XO (XO (XO (XO (XO XH))))))))
        then Some v
        else None
      | None -> None))

type fileres =
| FOk of string
| FBadEncoding of string
| FMissing

type cstate = { c_bits : z; c_kind : kind; c_opt : z; c_limit : z option;
                c_safe : bool; c_err : bool; c_help : bool; c_nfile : 
                bool; c_nlimit : bool; c_time : bool; c_code : string;
                c_diag : string list }

(** val cstate0 : defaults -> cstate **)

let cstate0 d =
  { c_bits = d.d_bits; c_kind = d.d_kind; c_opt = d.d_opt; c_limit = None;
    c_safe = true; c_err = false; c_help = false; c_nfile = false; c_nlimit =
    false; c_time = false; c_code = EmptyString; c_diag = [] }

(** val apply_action : cstate -> action -> cstate **)

let apply_action s = function
| ASetKind k ->
  { c_bits = s.c_bits; c_kind = k; c_opt = s.c_opt; c_limit = s.c_limit;
    c_safe = s.c_safe; c_err = s.c_err; c_help = s.c_help; c_nfile =
    s.c_nfile; c_nlimit = s.c_nlimit; c_time = s.c_time; c_code = s.c_code;
    c_diag = s.c_diag }
| ASetOpt n0 ->
  { c_bits = s.c_bits; c_kind = s.c_kind; c_opt = n0; c_limit = s.c_limit;
    c_safe = s.c_safe; c_err = s.c_err; c_help = s.c_help; c_nfile =
    s.c_nfile; c_nlimit = s.c_nlimit; c_time = s.c_time; c_code = s.c_code;
    c_diag = s.c_diag }
| ASetBits n0 ->
  { c_bits = n0; c_kind = s.c_kind; c_opt = s.c_opt; c_limit = s.c_limit;
    c_safe = s.c_safe; c_err = s.c_err; c_help = s.c_help; c_nfile =
    s.c_nfile; c_nlimit = s.c_nlimit; c_time = s.c_time; c_code = s.c_code;
    c_diag = s.c_diag }
| AHelp ->
  { c_bits = s.c_bits; c_kind = s.c_kind; c_opt = s.c_opt; c_limit =
    s.c_limit; c_safe = s.c_safe; c_err = s.c_err; c_help = true; c_nfile =
    s.c_nfile; c_nlimit = s.c_nlimit; c_time = s.c_time; c_code = s.c_code;
    c_diag = s.c_diag }
| ANextFile ->
  { c_bits = s.c_bits; c_kind = s.c_kind; c_opt = s.c_opt; c_limit =
    s.c_limit; c_safe = s.c_safe; c_err = s.c_err; c_help = s.c_help;
    c_nfile = true; c_nlimit = s.c_nlimit; c_time = s.c_time; c_code =
    s.c_code; c_diag = s.c_diag }
| ANextLimit ->
  { c_bits = s.c_bits; c_kind = s.c_kind; c_opt = s.c_opt; c_limit =
    s.c_limit; c_safe = s.c_safe; c_err = s.c_err; c_help = s.c_help;
    c_nfile = s.c_nfile; c_nlimit = true; c_time = s.c_time; c_code =
    s.c_code; c_diag = s.c_diag }
| AStatic ->
  { c_bits = s.c_bits; c_kind = s.c_kind; c_opt = s.c_opt; c_limit =
    s.c_limit; c_safe = false; c_err = s.c_err; c_help = s.c_help; c_nfile =
    s.c_nfile; c_nlimit = s.c_nlimit; c_time = s.c_time; c_code = s.c_code;
    c_diag = s.c_diag }
| ATime ->
  { c_bits = s.c_bits; c_kind = s.c_kind; c_opt = s.c_opt; c_limit =
    s.c_limit; c_safe = s.c_safe; c_err = s.c_err; c_help = s.c_help;
    c_nfile = s.c_nfile; c_nlimit = s.c_nlimit; c_time = true; c_code =
    s.c_code; c_diag = s.c_diag }

(** val with_code :
    cstate -> string -> bool -> string list -> bool -> bool -> z option ->
    cstate **)

let with_code s code err diag nfile nlimit lim =
  { c_bits = s.c_bits; c_kind = s.c_kind; c_opt = s.c_opt; c_limit = lim;
    c_safe = s.c_safe; c_err = ((||) s.c_err err); c_help = s.c_help;
    c_nfile = nfile; c_nlimit = nlimit; c_time = s.c_time; c_code = code;
    c_diag = (app s.c_diag diag) }

(** val cli_step :
    table -> (string -> fileres) -> cstate -> string -> cstate **)

let cli_step t0 fs s arg =
  if s.c_nfile
  then (match fs arg with
        | FOk content ->
          with_code s (append s.c_code content) false [] false s.c_nlimit
            s.c_limit
        | FBadEncoding partial ->
          with_code s (append s.c_code partial) true
            ((append (String ((Ascii (true, false, true, false, false, true,
               true, false)), (String ((Ascii (false, true, true, true,
               false, true, true, false)), (String ((Ascii (true, true,
               false, false, false, true, true, false)), (String ((Ascii
               (true, true, true, true, false, true, true, false)), (String
               ((Ascii (false, false, true, false, false, true, true,
               false)), (String ((Ascii (true, false, false, true, false,
               true, true, false)), (String ((Ascii (false, true, true, true,
               false, true, true, false)), (String ((Ascii (true, true, true,
               false, false, true, true, false)), (String ((Ascii (false,
               true, false, true, true, true, false, false)),
               EmptyString)))))))))))))))))) arg) :: []) false s.c_nlimit
            s.c_limit
        | FMissing ->
          with_code s s.c_code true
            ((append (String ((Ascii (true, true, true, true, false, true,
               true, false)), (String ((Ascii (false, false, false, false,
               true, true, true, false)), (String ((Ascii (true, false, true,
               false, false, true, true, false)), (String ((Ascii (false,
               true, true, true, false, true, true, false)), (String ((Ascii
               (false, true, false, true, true, true, false, false)),
               EmptyString)))))))))) arg) :: []) false s.c_nlimit s.c_limit)
  else if s.c_nlimit
       then (match parse_usize arg with
             | Some v ->
               with_code s s.c_code false [] s.c_nfile false (Some v)
             | None ->
               with_code s s.c_code false
                 ((append (String ((Ascii (false, true, false, false, false,
                    true, true, false)), (String ((Ascii (true, false, false,
                    false, false, true, true, false)), (String ((Ascii
                    (false, false, true, false, false, true, true, false)),
                    (String ((Ascii (false, false, true, true, false, true,
                    true, false)), (String ((Ascii (true, false, false, true,
                    false, true, true, false)), (String ((Ascii (true, false,
                    true, true, false, true, true, false)), (String ((Ascii
                    (true, false, false, true, false, true, true, false)),
                    (String ((Ascii (false, false, true, false, true, true,
                    true, false)), (String ((Ascii (false, true, false, true,
                    true, true, false, false)), EmptyString))))))))))))))))))
                    arg) :: []) s.c_nfile false s.c_limit)
       else (match lookup t0 arg with
             | Some a -> apply_action s a
             | None ->
               with_code s (append s.c_code arg) false [] s.c_nfile
                 s.c_nlimit s.c_limit)

(** val cli_run :
    table -> defaults -> (string -> fileres) -> string list -> cstate **)

let cli_run t0 d fs args =
  fold_left (cli_step t0 fs) args (cstate0 d)

type decision =
| DHelp of z
| DNothing of z
| DRun of z * kind * z * string * z * string
| DPanic

(** val decide : (z * z) list -> cstate -> decision **)

let decide widths s =
  if s.c_help
  then DHelp (if s.c_err then Zpos XH else Z0)
  else if s.c_err
       then DNothing (Zpos XH)
       else (match find (fun p -> Z.eqb (fst p) s.c_bits) widths with
             | Some p ->
               let (_, w) = p in
               (match s.c_limit with
                | Some l ->
                  DRun (w, s.c_kind, s.c_opt, (String ((Ascii (false, false,
                    true, true, false, true, true, false)), (String ((Ascii
                    (true, false, false, true, false, true, true, false)),
                    (String ((Ascii (true, false, true, true, false, true,
                    true, false)), (String ((Ascii (true, false, false, true,
                    false, true, true, false)), (String ((Ascii (false,
                    false, true, false, true, true, true, false)), (String
                    ((Ascii (true, false, true, false, false, true, true,
                    false)), (String ((Ascii (false, false, true, false,
                    false, true, true, false)), EmptyString)))))))))))))), l,
                    s.c_code)
                | None ->
                  DRun (w, s.c_kind, s.c_opt,
                    (if s.c_safe
                     then String ((Ascii (true, true, false, false, false,
                            true, true, false)), (String ((Ascii (false,
                            false, false, true, false, true, true, false)),
                            (String ((Ascii (true, false, true, false, false,
                            true, true, false)), (String ((Ascii (true, true,
                            false, false, false, true, true, false)), (String
                            ((Ascii (true, true, false, true, false, true,
                            true, false)), (String ((Ascii (true, false,
                            true, false, false, true, true, false)), (String
                            ((Ascii (false, false, true, false, false, true,
                            true, false)), EmptyString)))))))))))))
                     else String ((Ascii (true, true, false, false, true,
                            true, true, false)), (String ((Ascii (false,
                            false, true, false, true, true, true, false)),
                            (String ((Ascii (true, false, false, false,
                            false, true, true, false)), (String ((Ascii
                            (false, false, true, false, true, true, true,
                            false)), (String ((Ascii (true, false, false,
                            true, false, true, true, false)), (String ((Ascii
                            (true, true, false, false, false, true, true,
                            false)), EmptyString)))))))))))), Z0, s.c_code))
             | None -> DPanic)

(** val is_imm : loc -> bool **)

let is_imm = function
| Imm _ -> true
| _ -> false

(** val loc_eq : loc -> loc -> bool **)

let loc_eq a b =
  match a with
  | Mem x -> (match b with
              | Mem y -> Z.eqb x y
              | _ -> false)
  | MemZero x -> (match b with
                  | MemZero y -> Z.eqb x y
                  | _ -> false)
  | Tmp x -> (match b with
              | Tmp y -> Z.eqb x y
              | _ -> false)
  | Imm x -> (match b with
              | Imm y -> Z.eqb x y
              | _ -> false)

(** val commute : loc -> loc -> loc -> loc * loc **)

let commute d a b =
  match a with
  | Tmp t0 ->
    (match b with
     | Tmp t1 ->
       if Z.ltb t1 t0
       then if is_imm b
            then if loc_eq d b then (b, a) else (a, b)
            else if loc_eq d a then (a, b) else (b, a)
       else if is_imm a
            then if loc_eq d a then (a, b) else (b, a)
            else if loc_eq d b then (b, a) else (a, b)
     | _ ->
       if is_imm b
       then if loc_eq d b then (b, a) else (a, b)
       else if loc_eq d a then (a, b) else (b, a))
  | _ ->
    if is_imm a
    then if loc_eq d a then (a, b) else (b, a)
    else if loc_eq d b then (b, a) else (a, b)

(** val reorder : z -> binstr -> binstr **)

let reorder w i =
  let i1 =
    match i with
    | Add (d, a, b) ->
      (match a with
       | Imm x ->
         (match b with
          | Imm y -> Copy (d, (Imm (wadd w x y)))
          | _ -> i)
       | _ -> i)
    | Sub (d, a, b) ->
      (match a with
       | Imm x ->
         (match b with
          | Imm y -> Copy (d, (Imm (wadd w x (wneg w y))))
          | _ -> i)
       | _ -> i)
    | Mul (d, a, b) ->
      (match a with
       | Imm x ->
         (match b with
          | Imm y -> Copy (d, (Imm (wmul w x y)))
          | _ -> i)
       | _ -> i)
    | _ -> i
  in
  let i2 =
    match i1 with
    | Sub (d, a, b) ->
      (match b with
       | Imm y -> Add (d, a, (Imm (wneg w y)))
       | _ -> i1)
    | _ -> i1
  in
  (match i2 with
   | Add (d, a, b) -> let (a', b') = commute d a b in Add (d, a', b')
   | Mul (d, a, b) -> let (a', b') = commute d a b in Mul (d, a', b')
   | _ -> i2)

(** val jit_covers : binstr -> bool **)

let jit_covers = function
| Scan (_, _) -> false
| Add (d, a, b) ->
  (match d with
   | Mem _ ->
     (match a with
      | Mem _ -> (match b with
                  | MemZero _ -> false
                  | _ -> true)
      | Tmp _ -> (match b with
                  | Mem _ -> false
                  | MemZero _ -> false
                  | _ -> true)
      | _ -> false)
   | Tmp t0 ->
     (match a with
      | Mem _ -> (match b with
                  | MemZero _ -> false
                  | _ -> true)
      | Tmp t1 ->
        (match b with
         | Mem _ -> Z.eqb t0 t1
         | MemZero _ -> false
         | _ -> true)
      | _ -> false)
   | _ -> false)
| Sub (d, a, b) ->
  (match d with
   | Mem _ ->
     (match a with
      | Mem _ -> (match b with
                  | Mem _ -> true
                  | Tmp _ -> true
                  | _ -> false)
      | MemZero _ -> false
      | Tmp _ -> (match b with
                  | Mem _ -> true
                  | Tmp _ -> true
                  | _ -> false)
      | Imm _ -> (match b with
                  | Mem _ -> true
                  | Tmp _ -> true
                  | _ -> false))
   | Tmp _ ->
     (match a with
      | Mem _ -> (match b with
                  | Mem _ -> true
                  | Tmp _ -> true
                  | _ -> false)
      | MemZero _ -> false
      | Tmp _ -> (match b with
                  | Mem _ -> true
                  | Tmp _ -> true
                  | _ -> false)
      | Imm _ -> (match b with
                  | Mem _ -> true
                  | Tmp _ -> true
                  | _ -> false))
   | _ -> false)
| Mul (d, a, b) ->
  (match d with
   | Mem _ ->
     (match a with
      | Mem _ -> (match b with
                  | MemZero _ -> false
                  | _ -> true)
      | Tmp _ -> (match b with
                  | Mem _ -> false
                  | MemZero _ -> false
                  | _ -> true)
      | _ -> false)
   | Tmp t0 ->
     (match a with
      | Mem _ -> (match b with
                  | MemZero _ -> false
                  | _ -> true)
      | Tmp t1 ->
        (match b with
         | Mem _ -> Z.eqb t0 t1
         | MemZero _ -> false
         | _ -> true)
      | _ -> false)
   | _ -> false)
| Copy (d, a) ->
  (match d with
   | Mem _ -> (match a with
               | MemZero _ -> false
               | _ -> true)
   | Tmp _ -> (match a with
               | MemZero _ -> false
               | _ -> true)
   | _ -> false)
| _ -> true

(** val dst_writable : loc -> bool **)

let dst_writable = function
| Mem _ -> true
| Tmp _ -> true
| _ -> false

(** val int_covers : binstr -> bool **)

let int_covers = function
| Add (d, _, _) -> dst_writable d
| Sub (d, _, _) -> dst_writable d
| Mul (d, _, _) -> dst_writable d
| Copy (d, _) -> dst_writable d
| _ -> true

(** val src_plain : loc -> bool **)

let src_plain = function
| MemZero _ -> false
| _ -> true

(** val pre_shape : binstr -> bool **)

let pre_shape = function
| Scan (_, _) -> false
| Add (d, a, b) -> (&&) ((&&) (dst_writable d) (src_plain a)) (src_plain b)
| Sub (d, a, b) -> (&&) ((&&) (dst_writable d) (src_plain a)) (src_plain b)
| Mul (d, a, b) -> (&&) ((&&) (dst_writable d) (src_plain a)) (src_plain b)
| Copy (d, a) -> (&&) (dst_writable d) (src_plain a)
| _ -> true

(** val unzero : loc -> loc **)

let unzero l = match l with
| MemZero k -> Mem k
| _ -> l

(** val unzero_instr : binstr -> binstr **)

let unzero_instr i = match i with
| Add (d, a, b) -> Add (d, (unzero a), (unzero b))
| Sub (d, a, b) -> Sub (d, (unzero a), (unzero b))
| Mul (d, a, b) -> Mul (d, (unzero a), (unzero b))
| Copy (d, a) -> Copy (d, (unzero a))
| _ -> i


(** val negb : bool -> bool **)

let negb = function
| true -> false
| false -> true

type nat =
| O
| S of nat

type comparison =
| Eq
| Lt
| Gt

(** val compOpp : comparison -> comparison **)

let compOpp = function
| Eq -> Eq
| Lt -> Gt
| Gt -> Lt

module Coq__1 = struct
 (** val add : nat -> nat -> nat **)
 let rec add n0 m =
   match n0 with
   | O -> m
   | S p -> S (add p m)
end
include Coq__1

type positive =
| XI of positive
| XO of positive
| XH

type n =
| N0
| Npos of positive

type z =
| Z0
| Zpos of positive
| Zneg of positive

module Pos =
 struct
  (** val succ : positive -> positive **)

  let rec succ = function
  | XI p -> XO (succ p)
  | XO p -> XI p
  | XH -> XO XH

  (** val add : positive -> positive -> positive **)

  let rec add x y =
    match x with
    | XI p ->
      (match y with
       | XI q -> XO (add_carry p q)
       | XO q -> XI (add p q)
       | XH -> XO (succ p))
    | XO p ->
      (match y with
       | XI q -> XI (add p q)
       | XO q -> XO (add p q)
       | XH -> XI p)
    | XH -> (match y with
             | XI q -> XO (succ q)
             | XO q -> XI q
             | XH -> XO XH)

  (** val add_carry : positive -> positive -> positive **)

  and add_carry x y =
    match x with
    | XI p ->
      (match y with
       | XI q -> XI (add_carry p q)
       | XO q -> XO (add_carry p q)
       | XH -> XI (succ p))
    | XO p ->
      (match y with
       | XI q -> XO (add_carry p q)
       | XO q -> XI (add p q)
       | XH -> XO (succ p))
    | XH ->
      (match y with
       | XI q -> XI (succ q)
       | XO q -> XO (succ q)
       | XH -> XI XH)

  (** val pred_double : positive -> positive **)

  let rec pred_double = function
  | XI p -> XI (XO p)
  | XO p -> XI (pred_double p)
  | XH -> XH

  (** val pred_N : positive -> n **)

  let pred_N = function
  | XI p -> Npos (XO p)
  | XO p -> Npos (pred_double p)
  | XH -> N0

  (** val mul : positive -> positive -> positive **)

  let rec mul x y =
    match x with
    | XI p -> add y (XO (mul p y))
    | XO p -> XO (mul p y)
    | XH -> y

  (** val iter : ('a1 -> 'a1) -> 'a1 -> positive -> 'a1 **)

  let rec iter f x = function
  | XI n' -> f (iter f (iter f x n') n')
  | XO n' -> iter f (iter f x n') n'
  | XH -> f x

  (** val div2 : positive -> positive **)

  let div2 = function
  | XI p0 -> p0
  | XO p0 -> p0
  | XH -> XH

  (** val div2_up : positive -> positive **)

  let div2_up = function
  | XI p0 -> succ p0
  | XO p0 -> p0
  | XH -> XH

  (** val compare_cont : comparison -> positive -> positive -> comparison **)

  let rec compare_cont r x y =
    match x with
    | XI p ->
      (match y with
       | XI q -> compare_cont r p q
       | XO q -> compare_cont Gt p q
       | XH -> Gt)
    | XO p ->
      (match y with
       | XI q -> compare_cont Lt p q
       | XO q -> compare_cont r p q
       | XH -> Gt)
    | XH -> (match y with
             | XH -> r
             | _ -> Lt)

  (** val compare : positive -> positive -> comparison **)

  let compare =
    compare_cont Eq

  (** val eqb : positive -> positive -> bool **)

  let rec eqb p q =
    match p with
    | XI p0 -> (match q with
                | XI q0 -> eqb p0 q0
                | _ -> false)
    | XO p0 -> (match q with
                | XO q0 -> eqb p0 q0
                | _ -> false)
    | XH -> (match q with
             | XH -> true
             | _ -> false)

  (** val coq_Nsucc_double : n -> n **)

  let coq_Nsucc_double = function
  | N0 -> Npos XH
  | Npos p -> Npos (XI p)

  (** val coq_Ndouble : n -> n **)

  let coq_Ndouble = function
  | N0 -> N0
  | Npos p -> Npos (XO p)

  (** val coq_lor : positive -> positive -> positive **)

  let rec coq_lor p q =
    match p with
    | XI p0 ->
      (match q with
       | XI q0 -> XI (coq_lor p0 q0)
       | XO q0 -> XI (coq_lor p0 q0)
       | XH -> p)
    | XO p0 ->
      (match q with
       | XI q0 -> XI (coq_lor p0 q0)
       | XO q0 -> XO (coq_lor p0 q0)
       | XH -> XI p0)
    | XH -> (match q with
             | XO q0 -> XI q0
             | _ -> q)

  (** val coq_land : positive -> positive -> n **)

  let rec coq_land p q =
    match p with
    | XI p0 ->
      (match q with
       | XI q0 -> coq_Nsucc_double (coq_land p0 q0)
       | XO q0 -> coq_Ndouble (coq_land p0 q0)
       | XH -> Npos XH)
    | XO p0 ->
      (match q with
       | XI q0 -> coq_Ndouble (coq_land p0 q0)
       | XO q0 -> coq_Ndouble (coq_land p0 q0)
       | XH -> N0)
    | XH -> (match q with
             | XO _ -> N0
             | _ -> Npos XH)

  (** val ldiff : positive -> positive -> n **)

  let rec ldiff p q =
    match p with
    | XI p0 ->
      (match q with
       | XI q0 -> coq_Ndouble (ldiff p0 q0)
       | XO q0 -> coq_Nsucc_double (ldiff p0 q0)
       | XH -> Npos (XO p0))
    | XO p0 ->
      (match q with
       | XI q0 -> coq_Ndouble (ldiff p0 q0)
       | XO q0 -> coq_Ndouble (ldiff p0 q0)
       | XH -> Npos p)
    | XH -> (match q with
             | XO _ -> Npos XH
             | _ -> N0)

  (** val iter_op : ('a1 -> 'a1 -> 'a1) -> positive -> 'a1 -> 'a1 **)

  let rec iter_op op p a =
    match p with
    | XI p0 -> op a (iter_op op p0 (op a a))
    | XO p0 -> iter_op op p0 (op a a)
    | XH -> a

  (** val to_nat : positive -> nat **)

  let to_nat x =
    iter_op Coq__1.add x (S O)
 end

module N =
 struct
  (** val succ_pos : n -> positive **)

  let succ_pos = function
  | N0 -> XH
  | Npos p -> Pos.succ p

  (** val coq_lor : n -> n -> n **)

  let coq_lor n0 m =
    match n0 with
    | N0 -> m
    | Npos p -> (match m with
                 | N0 -> n0
                 | Npos q -> Npos (Pos.coq_lor p q))

  (** val ldiff : n -> n -> n **)

  let ldiff n0 m =
    match n0 with
    | N0 -> N0
    | Npos p -> (match m with
                 | N0 -> n0
                 | Npos q -> Pos.ldiff p q)
 end

module Z =
 struct
  (** val double : z -> z **)

  let double = function
  | Z0 -> Z0
  | Zpos p -> Zpos (XO p)
  | Zneg p -> Zneg (XO p)

  (** val succ_double : z -> z **)

  let succ_double = function
  | Z0 -> Zpos XH
  | Zpos p -> Zpos (XI p)
  | Zneg p -> Zneg (Pos.pred_double p)

  (** val pred_double : z -> z **)

  let pred_double = function
  | Z0 -> Zneg XH
  | Zpos p -> Zpos (Pos.pred_double p)
  | Zneg p -> Zneg (XI p)

  (** val pos_sub : positive -> positive -> z **)

  let rec pos_sub x y =
    match x with
    | XI p ->
      (match y with
       | XI q -> double (pos_sub p q)
       | XO q -> succ_double (pos_sub p q)
       | XH -> Zpos (XO p))
    | XO p ->
      (match y with
       | XI q -> pred_double (pos_sub p q)
       | XO q -> double (pos_sub p q)
       | XH -> Zpos (Pos.pred_double p))
    | XH ->
      (match y with
       | XI q -> Zneg (XO q)
       | XO q -> Zneg (Pos.pred_double q)
       | XH -> Z0)

  (** val add : z -> z -> z **)

  let add x y =
    match x with
    | Z0 -> y
    | Zpos x' ->
      (match y with
       | Z0 -> x
       | Zpos y' -> Zpos (Pos.add x' y')
       | Zneg y' -> pos_sub x' y')
    | Zneg x' ->
      (match y with
       | Z0 -> x
       | Zpos y' -> pos_sub y' x'
       | Zneg y' -> Zneg (Pos.add x' y'))

  (** val opp : z -> z **)

  let opp = function
  | Z0 -> Z0
  | Zpos x0 -> Zneg x0
  | Zneg x0 -> Zpos x0

  (** val sub : z -> z -> z **)

  let sub m n0 =
    add m (opp n0)

  (** val mul : z -> z -> z **)

  let mul x y =
    match x with
    | Z0 -> Z0
    | Zpos x' ->
      (match y with
       | Z0 -> Z0
       | Zpos y' -> Zpos (Pos.mul x' y')
       | Zneg y' -> Zneg (Pos.mul x' y'))
    | Zneg x' ->
      (match y with
       | Z0 -> Z0
       | Zpos y' -> Zneg (Pos.mul x' y')
       | Zneg y' -> Zpos (Pos.mul x' y'))

  (** val pow_pos : z -> positive -> z **)

  let pow_pos z0 =
    Pos.iter (mul z0) (Zpos XH)

  (** val pow : z -> z -> z **)

  let pow x = function
  | Z0 -> Zpos XH
  | Zpos p -> pow_pos x p
  | Zneg _ -> Z0

  (** val compare : z -> z -> comparison **)

  let compare x y =
    match x with
    | Z0 -> (match y with
             | Z0 -> Eq
             | Zpos _ -> Lt
             | Zneg _ -> Gt)
    | Zpos x' -> (match y with
                  | Zpos y' -> Pos.compare x' y'
                  | _ -> Gt)
    | Zneg x' ->
      (match y with
       | Zneg y' -> compOpp (Pos.compare x' y')
       | _ -> Lt)

  (** val leb : z -> z -> bool **)

  let leb x y =
    match compare x y with
    | Gt -> false
    | _ -> true

  (** val ltb : z -> z -> bool **)

  let ltb x y =
    match compare x y with
    | Lt -> true
    | _ -> false

  (** val eqb : z -> z -> bool **)

  let eqb x y =
    match x with
    | Z0 -> (match y with
             | Z0 -> true
             | _ -> false)
    | Zpos p -> (match y with
                 | Zpos q -> Pos.eqb p q
                 | _ -> false)
    | Zneg p -> (match y with
                 | Zneg q -> Pos.eqb p q
                 | _ -> false)

  (** val to_nat : z -> nat **)

  let to_nat = function
  | Zpos p -> Pos.to_nat p
  | _ -> O

  (** val of_N : n -> z **)

  let of_N = function
  | N0 -> Z0
  | Npos p -> Zpos p

  (** val pos_div_eucl : positive -> z -> z * z **)

  let rec pos_div_eucl a b =
    match a with
    | XI a' ->
      let (q, r) = pos_div_eucl a' b in
      let r' = add (mul (Zpos (XO XH)) r) (Zpos XH) in
      if ltb r' b
      then ((mul (Zpos (XO XH)) q), r')
      else ((add (mul (Zpos (XO XH)) q) (Zpos XH)), (sub r' b))
    | XO a' ->
      let (q, r) = pos_div_eucl a' b in
      let r' = mul (Zpos (XO XH)) r in
      if ltb r' b
      then ((mul (Zpos (XO XH)) q), r')
      else ((add (mul (Zpos (XO XH)) q) (Zpos XH)), (sub r' b))
    | XH -> if leb (Zpos (XO XH)) b then (Z0, (Zpos XH)) else ((Zpos XH), Z0)

  (** val div_eucl : z -> z -> z * z **)

  let div_eucl a b =
    match a with
    | Z0 -> (Z0, Z0)
    | Zpos a' ->
      (match b with
       | Z0 -> (Z0, a)
       | Zpos _ -> pos_div_eucl a' b
       | Zneg b' ->
         let (q, r) = pos_div_eucl a' (Zpos b') in
         (match r with
          | Z0 -> ((opp q), Z0)
          | _ -> ((opp (add q (Zpos XH))), (add b r))))
    | Zneg a' ->
      (match b with
       | Z0 -> (Z0, a)
       | Zpos _ ->
         let (q, r) = pos_div_eucl a' b in
         (match r with
          | Z0 -> ((opp q), Z0)
          | _ -> ((opp (add q (Zpos XH))), (sub b r)))
       | Zneg b' -> let (q, r) = pos_div_eucl a' (Zpos b') in (q, (opp r)))

  (** val modulo : z -> z -> z **)

  let modulo a b =
    let (_, r) = div_eucl a b in r

  (** val div2 : z -> z **)

  let div2 = function
  | Z0 -> Z0
  | Zpos p -> (match p with
               | XH -> Z0
               | _ -> Zpos (Pos.div2 p))
  | Zneg p -> Zneg (Pos.div2_up p)

  (** val shiftl : z -> z -> z **)

  let shiftl a = function
  | Z0 -> a
  | Zpos p -> Pos.iter (mul (Zpos (XO XH))) a p
  | Zneg p -> Pos.iter div2 a p

  (** val shiftr : z -> z -> z **)

  let shiftr a n0 =
    shiftl a (opp n0)

  (** val coq_land : z -> z -> z **)

  let coq_land a b =
    match a with
    | Z0 -> Z0
    | Zpos a0 ->
      (match b with
       | Z0 -> Z0
       | Zpos b0 -> of_N (Pos.coq_land a0 b0)
       | Zneg b0 -> of_N (N.ldiff (Npos a0) (Pos.pred_N b0)))
    | Zneg a0 ->
      (match b with
       | Z0 -> Z0
       | Zpos b0 -> of_N (N.ldiff (Npos b0) (Pos.pred_N a0))
       | Zneg b0 ->
         Zneg (N.succ_pos (N.coq_lor (Pos.pred_N a0) (Pos.pred_N b0))))
 end

(** val neg_one : z -> z **)

let neg_one w =
  Z.sub (Z.pow (Zpos (XO XH)) w) (Zpos XH)

(** val wadd : z -> z -> z -> z **)

let wadd w a b =
  Z.modulo (Z.add a b) (Z.pow (Zpos (XO XH)) w)

(** val wmul : z -> z -> z -> z **)

let wmul w a b =
  Z.modulo (Z.mul a b) (Z.pow (Zpos (XO XH)) w)

(** val wneg : z -> z -> z **)

let wneg w a =
  Z.modulo (Z.opp a) (Z.pow (Zpos (XO XH)) w)

(** val wand : z -> z -> z **)

let wand =
  Z.coq_land

(** val wshr : z -> z -> z -> z **)

let wshr w a by_ =
  if Z.ltb by_ w then Z.shiftr a by_ else Z0

(** val wshl : z -> z -> z -> z **)

let wshl w a by_ =
  if Z.ltb by_ w
  then Z.modulo (Z.shiftl a by_) (Z.pow (Zpos (XO XH)) w)
  else Z0

(** val tz_pos : positive -> z **)

let rec tz_pos = function
| XO p' -> Z.add (Zpos XH) (tz_pos p')
| _ -> Z0

(** val tz : z -> z -> z **)

let tz w = function
| Z0 -> w
| Zpos p -> tz_pos p
| Zneg _ -> Z0

(** val is_odd : z -> bool **)

let is_odd a =
  Z.eqb (Z.coq_land a (Zpos XH)) (Zpos XH)

(** val wpow_loop : nat -> z -> z -> z -> z -> z **)

let rec wpow_loop fuel w base exp result =
  match fuel with
  | O -> result
  | S f ->
    if Z.eqb exp Z0
    then result
    else let result' = if is_odd exp then wmul w result base else result in
         wpow_loop f w (wmul w base base) (wshr w exp (Zpos XH)) result'

(** val wpow : z -> z -> z -> z **)

let wpow w b e =
  wpow_loop (Z.to_nat w) w b e (Zpos XH)

(** val winv : z -> z -> z option **)

let winv w x =
  if is_odd x
  then let tot = wshl w (Zpos XH) (Z.sub w (Zpos XH)) in
       Some (wpow w x (wadd w tot (neg_one w)))
  else None

(** val wdiv_reaches_sub : z -> z -> z -> bool **)

let wdiv_reaches_sub w n0 d =
  (&&) (negb (Z.eqb n0 Z0)) (negb (Z.ltb (tz w n0) (tz w d)))

(** val wdiv : z -> z -> z -> z option **)

let wdiv w n0 d =
  let shift = tz w d in
  if Z.eqb n0 Z0
  then Some Z0
  else if Z.ltb (tz w n0) shift
       then None
       else let d' = wshr w d shift in
            let tot = wshl w (Zpos XH) (Z.sub (Z.sub w shift) (Zpos XH)) in
            let inv = wpow w d' (wadd w tot (neg_one w)) in
            let result = wmul w inv (wshr w n0 shift) in
            Some
            (wand result
              (wadd w (wshl w (Zpos XH) (Z.sub w shift)) (neg_one w)))

(** val into_u64 : z -> z -> z **)

let into_u64 _ c =
  c

(** val from_u64 : z -> z -> z **)

let from_u64 w v =
  Z.modulo v (Z.pow (Zpos (XO XH)) w)

(** val into_i64 : z -> z -> z **)

let into_i64 w c =
  if Z.ltb c (Z.pow (Zpos (XO XH)) (Z.sub w (Zpos XH)))
  then c
  else Z.sub c (Z.pow (Zpos (XO XH)) w)

(** val from_u8 : z -> z -> z **)

let from_u8 =
  from_u64

(** val into_u8 : z -> z -> z **)

let into_u8 w c =
  Z.modulo (into_u64 w c) (Zpos (XO (XO (XO (XO (XO (XO (XO (XO XH)))))))))

(** val from_i16 : z -> z -> z **)

let from_i16 w v =
  from_u64 w
    (Z.modulo v
      (Z.pow (Zpos (XO XH)) (Zpos (XO (XO (XO (XO (XO (XO XH)))))))))

(** val try_into_i16 : z -> z -> z option **)

let try_into_i16 w c =
  let s = into_i64 w c in
  if (&&)
       (Z.leb (Zneg (XO (XO (XO (XO (XO (XO (XO (XO (XO (XO (XO (XO (XO (XO
         (XO XH)))))))))))))))) s)
       (Z.leb s (Zpos (XI (XI (XI (XI (XI (XI (XI (XI (XI (XI (XI (XI (XI (XI
         XH))))))))))))))))
  then Some s
  else None

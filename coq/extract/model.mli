
val implb : bool -> bool -> bool

val negb : bool -> bool

type nat =
| O
| S of nat

val option_map : ('a1 -> 'a2) -> 'a1 option -> 'a2 option

type ('a, 'b) sum =
| Inl of 'a
| Inr of 'b

val fst : ('a1 * 'a2) -> 'a1

val snd : ('a1 * 'a2) -> 'a2

val length : 'a1 list -> nat

val app : 'a1 list -> 'a1 list -> 'a1 list

type comparison =
| Eq
| Lt
| Gt

val compOpp : comparison -> comparison

val pred : nat -> nat

val add : nat -> nat -> nat

val mul : nat -> nat -> nat

type positive =
| XI of positive
| XO of positive
| XH

type n =
| N0
| Npos of positive

type z =
| Z0
| Zpos of positive
| Zneg of positive

val eqb : bool -> bool -> bool

module Nat :
 sig
  val add : nat -> nat -> nat

  val mul : nat -> nat -> nat

  val eqb : nat -> nat -> bool

  val leb : nat -> nat -> bool

  val ltb : nat -> nat -> bool

  val min : nat -> nat -> nat

  val even : nat -> bool

  val odd : nat -> bool
 end

module Pos :
 sig
  val succ : positive -> positive

  val add : positive -> positive -> positive

  val add_carry : positive -> positive -> positive

  val pred_double : positive -> positive

  val pred_N : positive -> n

  val mul : positive -> positive -> positive

  val iter : ('a1 -> 'a1) -> 'a1 -> positive -> 'a1

  val div2 : positive -> positive

  val div2_up : positive -> positive

  val compare_cont : comparison -> positive -> positive -> comparison

  val compare : positive -> positive -> comparison

  val eqb : positive -> positive -> bool

  val coq_Nsucc_double : n -> n

  val coq_Ndouble : n -> n

  val coq_lor : positive -> positive -> positive

  val coq_land : positive -> positive -> n

  val ldiff : positive -> positive -> n

  val testbit : positive -> n -> bool

  val iter_op : ('a1 -> 'a1 -> 'a1) -> positive -> 'a1 -> 'a1

  val to_nat : positive -> nat

  val of_succ_nat : nat -> positive
 end

module N :
 sig
  val succ_pos : n -> positive

  val add : n -> n -> n

  val mul : n -> n -> n

  val coq_lor : n -> n -> n

  val coq_land : n -> n -> n

  val ldiff : n -> n -> n

  val testbit : n -> n -> bool

  val to_nat : n -> nat
 end

module Z :
 sig
  val double : z -> z

  val succ_double : z -> z

  val pred_double : z -> z

  val pos_sub : positive -> positive -> z

  val add : z -> z -> z

  val opp : z -> z

  val pred : z -> z

  val sub : z -> z -> z

  val mul : z -> z -> z

  val pow_pos : z -> positive -> z

  val pow : z -> z -> z

  val compare : z -> z -> comparison

  val leb : z -> z -> bool

  val ltb : z -> z -> bool

  val eqb : z -> z -> bool

  val max : z -> z -> z

  val min : z -> z -> z

  val to_nat : z -> nat

  val of_nat : nat -> z

  val of_N : n -> z

  val pos_div_eucl : positive -> z -> z * z

  val div_eucl : z -> z -> z * z

  val div : z -> z -> z

  val modulo : z -> z -> z

  val odd : z -> bool

  val div2 : z -> z

  val testbit : z -> z -> bool

  val shiftl : z -> z -> z

  val shiftr : z -> z -> z

  val coq_lor : z -> z -> z

  val coq_land : z -> z -> z

  val lnot : z -> z

  val ones : z -> z
 end

val tl : 'a1 list -> 'a1 list

val nth : nat -> 'a1 list -> 'a1 -> 'a1

val nth_error : 'a1 list -> nat -> 'a1 option

val rev : 'a1 list -> 'a1 list

val map : ('a1 -> 'a2) -> 'a1 list -> 'a2 list

val flat_map : ('a1 -> 'a2 list) -> 'a1 list -> 'a2 list

val fold_left : ('a1 -> 'a2 -> 'a1) -> 'a2 list -> 'a1 -> 'a1

val fold_right : ('a2 -> 'a1 -> 'a1) -> 'a1 -> 'a2 list -> 'a1

val existsb : ('a1 -> bool) -> 'a1 list -> bool

val forallb : ('a1 -> bool) -> 'a1 list -> bool

val filter : ('a1 -> bool) -> 'a1 list -> 'a1 list

val find : ('a1 -> bool) -> 'a1 list -> 'a1 option

val combine : 'a1 list -> 'a2 list -> ('a1 * 'a2) list

val firstn : nat -> 'a1 list -> 'a1 list

val skipn : nat -> 'a1 list -> 'a1 list

val seq : nat -> nat -> nat list

val list_sum : nat list -> nat

type ascii =
| Ascii of bool * bool * bool * bool * bool * bool * bool * bool

val eqb0 : ascii -> ascii -> bool

val n_of_digits : bool list -> n

val n_of_ascii : ascii -> n

val nat_of_ascii : ascii -> nat

type string =
| EmptyString
| String of ascii * string

val eqb1 : string -> string -> bool

val append : string -> string -> string

val neg_one : z -> z

val wadd : z -> z -> z -> z

val wmul : z -> z -> z -> z

val wneg : z -> z -> z

val wand : z -> z -> z

val wshr : z -> z -> z -> z

val wshl : z -> z -> z -> z

val tz_pos : positive -> z

val tz : z -> z -> z

val is_odd : z -> bool

val wpow_loop : nat -> z -> z -> z -> z -> z

val wpow : z -> z -> z -> z

val winv : z -> z -> z option

val wdiv_reaches_sub : z -> z -> z -> bool

val wdiv : z -> z -> z -> z option

val into_u64 : z -> z -> z

val from_u64 : z -> z -> z

val into_i64 : z -> z -> z

val from_u8 : z -> z -> z

val into_u8 : z -> z -> z

val from_i16 : z -> z -> z

val try_into_i16 : z -> z -> z option

val append0 : positive -> positive -> positive

module PositiveMap :
 sig
  type key = positive

  type 'a tree =
  | Leaf
  | Node of 'a tree * 'a option * 'a tree

  type 'a t = 'a tree

  val empty : 'a1 t

  val find : key -> 'a1 t -> 'a1 option

  val add : key -> 'a1 -> 'a1 t -> 'a1 t

  val xelements : 'a1 t -> key -> (key * 'a1) list

  val elements : 'a1 t -> (key * 'a1) list
 end

type event =
| EvIn of z
| EvEof
| EvInFail
| EvOut of z
| EvOutFail of z

type env = { input : z list; in_absent : bool; in_fail_at : nat option;
             out_present : bool; out_fail_at : nat option }

type iost = { in_pos : nat; out_cnt : nat; trace : event list }

val io0 : iost

type 'a io_res =
| IoOk of 'a * iost
| IoFail of iost

val opt_nat_eqb : nat option -> nat -> bool

val do_input : env -> iost -> z io_res

val do_output : env -> iost -> z -> unit io_res

type 'a outcome =
| Done of 'a
| Stopped of 'a
| Interrupted of 'a
| Errored of z * 'a
| OutOfFuel of 'a

val outcome_state : 'a1 outcome -> 'a1

val key_of : z -> positive

type tmap = z PositiveMap.t

val tempty : tmap

val tget : tmap -> z -> z

val tset : tmap -> z -> z -> tmap

type cmd =
| Inc
| Dec
| Left
| Right
| Out
| In
| Loop of cmd list

val ch_plus : z

val ch_comma : z

val ch_minus : z

val ch_dot : z

val ch_lt : z

val ch_gt : z

val ch_open : z

val ch_close : z

val parse_seg : nat -> z list -> (cmd list * z list) option

val ast_of_source : z list -> cmd list option

val balanced_from : z list -> nat -> bool

val balanced : z list -> bool

type bfst = { tape : tmap; ptr : z; io : iost }

val bf0 : bfst

val cur : bfst -> z

val set_cur : bfst -> z -> bfst

val set_io : bfst -> iost -> bfst

val move : bfst -> z -> bfst

val bf_simple : z -> env -> cmd -> bfst -> (bfst, bfst) sum

val bf_exec : z -> env -> nat -> cmd list -> bfst -> bfst outcome

val bf_run : z -> env -> nat -> z list -> bfst outcome option

val events : ('a1 -> iost) -> 'a1 outcome -> event list

type part = z * z list

type expr = part list

val lcmp : z list -> z list -> comparison

val list_eqb : z list -> z list -> bool

val mem : z -> z list -> bool

val count : z -> z list -> nat

val dedup : z list -> z list

val insert_z : z -> z list -> z list

val sort_z : z list -> z list

val insert_part : part -> expr -> expr

val sort_parts : expr -> expr

val nonzero : part -> bool

val e_val : z -> expr

val e_var : z -> expr

val eval_part : z -> (z -> z) -> part -> z

val eval : z -> expr -> (z -> z) -> z

val e_add : z -> expr -> expr -> expr

val scale_parts : z -> expr -> part -> expr

type amap = (z list * z) list

val acc_add : z -> z list -> z -> amap -> amap

val amap_parts : amap -> expr

val mul_general : z -> expr -> expr -> expr

val e_mul : z -> expr -> expr -> expr

val e_neg : z -> expr -> expr

val e_half : z -> expr -> expr option

val e_is_zero : expr -> bool

val e_add_count : expr -> nat

val e_op_count : z -> expr -> nat

val e_constant : expr -> z option

val is_single : z -> part -> bool

val e_inc_of : expr -> z -> expr option

val e_prod_inc_of : expr -> z -> (expr * z) option

val e_const_inc_of : expr -> z -> z option

val remove_var : z -> z list -> z list

val e_prod_of : z -> expr -> z -> expr option

val e_constant_part : expr -> z

val e_identity : expr -> z option

val e_variables : expr -> z list

val assoc_z : z -> (z * 'a1) list -> 'a1 option

val e_split_along :
  z -> expr -> z list -> (z * expr) list -> ((expr * expr) * (expr * expr)
  list) option

val half_mod : z -> z

val chunk_sum : z -> part option -> expr -> expr

val norm_phase1 : z -> expr -> expr

val upd_coef : nat -> z -> expr -> expr

val coef_at : expr -> nat -> z

val vars_at : expr -> nat -> z list

val assoc_l : z list -> (z list * 'a1) list -> 'a1 option

val assoc_l_push :
  z list -> nat -> (z list * nat list) list -> (z list * nat list) list

val norm_cond : z -> z -> z -> bool

val phase2_inner : z -> nat -> nat list -> (expr * bool) -> expr * bool

val phase2_step :
  z -> ((expr * (z list * nat list) list) * bool) -> nat -> (expr * (z
  list * nat list) list) * bool

val norm_phase2 : z -> expr -> expr

val e_normalize : z -> expr -> expr

val scale_sorted : z -> expr -> part -> expr

val amap_list : amap -> expr

val mul_parts : z -> expr -> expr -> expr

val e_symb_evaluate : z -> expr -> (z -> expr option) -> expr option

val singles_unique_b : z -> expr -> bool

val const_first_b : expr -> bool

val shape_ok_b : expr -> bool

type ipst = { ip_tape : tmap; ip_ptr : z; ip_io : iost; ip_budget : z;
              ip_stack : z list list }

val ip0 : z -> ipst

val ip_cur : ipst -> z

val ip_set_cur : ipst -> z -> ipst

val ip_set_io : ipst -> iost -> ipst

val ip_move : ipst -> z -> ipst

val ip_set_stack : ipst -> z list list -> ipst

val ip_set_budget : ipst -> z -> ipst

val ip_scan : z list -> nat -> z list

val ip_exec : z -> env -> bool -> z -> nat -> z list -> ipst -> ipst outcome

val ip_run : z -> env -> bool -> z -> nat -> z list -> ipst outcome

type instr =
| IOut of z
| IIn of z
| ICalc of (z * expr) list
| ILoop of z * z * instr list * bool
| IIf of z * z * instr list

type block = z * instr list

type irst = { ir_tape : tmap; ir_ptr : z; ir_io : iost; ir_budget : z }

val ir0 : z -> irst

val ir_read : irst -> z -> z

val ir_write : irst -> z -> z -> irst

val ir_set_io : irst -> iost -> irst

val ir_move : irst -> z -> irst

val ir_set_budget : irst -> z -> irst

val ir_calc : z -> (z * expr) list -> irst -> irst

val ir_exec : z -> env -> bool -> nat -> instr list -> irst -> irst outcome

val ir_run : z -> env -> bool -> z -> nat -> block -> irst outcome

val finished_flag : 'a1 outcome -> bool

type loc =
| Mem of z
| MemZero of z
| Tmp of z
| Imm of z

type binstr =
| Noop
| Scan of z * z
| MovP of z
| Inp of z
| Outp of z
| BrZ of z * z
| BrNZ of z * z
| Add of loc * loc * loc
| Sub of loc * loc * loc
| Mul of loc * loc * loc
| Copy of loc * loc

type bprog = { bp_temps : z; bp_min : z; bp_max : z; bp_live : z list;
               bp_code : binstr list }

type bcst = { bc_tape : tmap; bc_ptr : z; bc_tmps : tmap; bc_pc : z;
              bc_io : iost; bc_budget : z; bc_lo : z; bc_hi : z }

val bc0 : z -> bcst

val bc_mem : bcst -> z -> z

val bc_set_mem : bcst -> z -> z -> bcst

val bc_set_tmp : bcst -> z -> z -> bcst

val bc_set_pc : bcst -> z -> bcst

val bc_set_io : bcst -> iost -> bcst

val bc_move : bcst -> z -> bcst

val bc_set_budget : bcst -> z -> bcst

val bc_read : z -> bcst -> loc -> z * bcst

val bc_write : bcst -> loc -> z -> bcst

val loc_eqb : loc -> loc -> bool

val bc_binop : z -> (z -> z -> z) -> bcst -> loc -> loc -> loc -> bcst

val bc_scan : nat -> z -> z -> bcst -> bcst option

val next : bcst -> bcst

val bc_limit : z -> bcst -> bcst option

val usize_max : z

val bc_exec :
  z -> env -> bool -> (z -> binstr option) -> z -> nat -> bcst -> bcst outcome

val code_map :
  binstr list -> z -> binstr PositiveMap.t -> binstr PositiveMap.t

val fetch_of : bprog -> z -> binstr option

val bc_run : z -> env -> bool -> z -> nat -> bprog -> bcst outcome

type buff = (z * z) list

val buff_get : buff -> z -> z option

val buff_set : buff -> z -> z -> buff

val buff_val : buff -> z -> z

val i_add : z -> z -> instr

val i_load : z -> z -> instr

type frame = { f_shift : z; f_moved : bool; f_insts : instr list;
               f_buff : buff }

type perr =
| LoopNotClosed
| LoopNotOpened

type parse_res =
| POk of block
| PErr of perr * z

val flush_nonzero : buff -> instr list -> instr list

val flush_key : z -> (instr list * buff) -> instr list * buff

val zero_all : buff -> buff

val is_clear_loop : z -> frame -> instr list -> z -> bool

val close_loop : z -> frame -> frame -> frame

val frame0 : z -> frame

val with_shift : frame -> z -> frame

val with_insts_buff : frame -> instr list -> buff -> frame

val parse_go : z -> z list -> z -> frame -> frame list -> z list -> parse_res

val parse : z -> z list -> parse_res

type bfcfg = { c_ctl : cmd list; c_kont : (cmd list * cmd list) list;
               c_st : bfst }

type 'a step_res =
| Next of 'a
| Final of bfst outcome

val bf_step : z -> env -> bfcfg -> bfcfg step_res

val bf_steps : z -> env -> nat -> bfcfg -> bfst outcome

val bf_machine_run : z -> env -> nat -> z list -> bfst outcome option

type ircfg = { i_ctl : instr list; i_kont : (z * instr list) list; i_st : irst }

type istep_res =
| INext of ircfg
| IFinal of irst outcome

val ir_step : z -> env -> bool -> ircfg -> istep_res

val ir_steps : z -> env -> bool -> nat -> ircfg -> irst outcome

val ir_machine_run : z -> env -> bool -> z -> nat -> block -> irst outcome

val cmd_eqb : cmd -> cmd -> bool

val cmds_eqb : cmd list -> cmd list -> bool

val kont_eqb :
  (cmd list * cmd list) list -> (cmd list * cmd list) list -> bool

val tgetp : tmap -> positive -> z

val tmap_sub : tmap -> tmap -> bool

val tmap_eqb : tmap -> tmap -> bool

val eff_in_pos : env -> bfst -> nat

val cfg_equiv : env -> bfcfg -> bfcfg -> bool

val bf_cfg_after : z -> env -> nat -> bfcfg -> bfcfg option

val env_fault_free : env -> bool

val cert_ok : z -> env -> cmd list -> nat -> nat -> bool

val u64 : z

val wrap64 : z -> z

val to_signed : z -> z

val sIZE_LIMIT : z

type rtape = { t_buf : (z -> z); t_size : z; t_off : z }

val rtape0 : rtape

type policy = z -> z -> z -> z * z

val rust_policy : policy

type 'a tres =
| TOk of 'a
| RawOob of z
| TooLarge
| AllocFail

val t_mov : rtape -> z -> rtape

val t_ptr : rtape -> z -> z

val t_read : rtape -> z -> z

val t_check : rtape -> z -> bool

val needed_below : z -> z

val needed_above : z -> z -> z

val t_make_accessible : policy -> bool -> rtape -> z -> z -> rtape tres

val t_raw_write : rtape -> z -> z -> rtape tres

val t_write : policy -> bool -> rtape -> z -> z -> rtape tres

type top =
| TMov of z
| TRead of z
| TWrite of z * z
| TAcc of z * z
| TCheck of z

type tobs =
| ORead of z
| OCheck of bool
| ONone

val next_alloc : bool list -> bool * bool list

val grows : rtape -> z -> z -> bool

val t_run :
  policy -> top list -> bool list -> rtape -> (tobs list * rtape) tres

type tspec = { s_cells : (z -> z); s_pos : z; s_acc : (z * z) list }

val spec0 : tspec

val in_acc : (z * z) list -> z -> bool

type sobs =
| SRead of z
| SCheck of bool
| SNone

val s_run : top list -> tspec -> sobs list * tspec

val obs_match : tobs -> sobs -> bool

val all_match : tobs list -> sobs list -> bool

val mAG : z

val small : z -> bool

val ops_small : top list -> z -> bool

type elem = nat * z

type svec =
| SInline of elem list
| SHeap of elem list

val view : svec -> elem list

val is_heap : svec -> bool

type sstate = { va : svec; vb : svec; next_id : nat; dropped : nat list }

val sstate0 : sstate

val get : sstate -> bool -> svec

val set : sstate -> bool -> svec -> sstate

val drop_ids : sstate -> nat list -> sstate

val ids : elem list -> nat list

val sv_push : nat -> svec -> elem -> svec

val sv_with_capacity : nat -> nat -> svec

val retain_split : elem list -> bool list -> elem list * elem list

val dedup_split : z option -> elem list -> elem list * elem list

val with_view : svec -> elem list -> svec

val insert_elem : elem -> elem list -> elem list

val sort_elems : elem list -> elem list

val cmp_vals : elem list -> elem list -> comparison

val eq_vals : elem list -> elem list -> bool

val fresh : nat -> z list -> elem list

type sop =
| ONew of bool
| OWithCap of bool * nat
| OPush of bool * z
| OExtend of bool * z list
| OClear of bool
| ORetain of bool * bool list
| ODedup of bool
| OClone of bool
| OEq
| OCmp
| OSort of bool
| OIntoIter of bool * nat
| OIter of bool

type sobs0 =
| SView of elem list * bool
| SBool of bool
| SOrd of comparison
| SItems of elem list

val bump : sstate -> nat -> sstate

val sv_step : nat -> sstate -> sop -> sstate * sobs0

val sv_run : nat -> sop list -> sstate -> sobs0 list * sstate

val sv_final : sstate -> nat list

val bit : z -> z

val bset_sub : z -> z -> bool

val loc_tmp_use : loc -> z

val uses : binstr -> z

val defs : binstr -> z

val is_branch : binstr -> bool

val succs : z -> binstr -> z list

val cell_ok : bprog -> z -> bool

val loc_ok : bprog -> bool -> loc -> bool

val is_memzero : loc -> bool

val mentions_cell : loc -> z -> bool

val memzero_ok : loc -> loc -> loc -> bool

val dst_ok : loc -> bool

val instr_ok : bprog -> bool -> z -> z -> binstr -> bool

val all_instr_ok : bprog -> bool -> z -> z -> binstr list -> bool

type arr = z PositiveMap.t

val aget : arr -> z -> z -> z

val aset : arr -> z -> z -> arr

val fwd_pass : z -> binstr list -> z -> arr -> arr -> arr

val arr_eqb : z -> arr -> arr -> nat -> z -> bool

val fwd_fix : nat -> z -> binstr list -> arr -> arr option

val uses_defined : z -> binstr list -> z -> arr -> bool

val bwd_pass : binstr list -> z -> arr -> arr -> arr

val bwd_fix : nat -> binstr list -> arr -> arr option

val reg_mask : z -> z

val live_ok : z -> binstr list -> z list -> z -> arr -> bool

val fwd_valid : z -> binstr list -> z -> arr -> bool

val bwd_valid : binstr list -> z -> arr -> bool

val bc_wf : z -> bool -> bprog -> bool

val live_regs_ok : z -> bprog -> bool

val bc_wf_why : z -> bool -> bprog -> z

type rop =
| REnter
| RMov of z
| RMovJ of z
| RMovU of z
| RGet of z
| RSet of z * z
| RPre of z * z

type robs =
| RVal of z
| RProbe of bool

val r_get : rtape -> z -> z tres

val r_set : rtape -> z -> z -> rtape tres

val r_probe : policy -> z -> z -> bool -> rtape -> z -> rtape tres

val r_probe_jit : policy -> z -> z -> bool -> rtape -> z -> rtape tres

val r_run :
  policy -> z -> z -> rop list -> bool list -> rtape -> (robs list * rtape)
  tres

val r_spec : rop list -> (z -> z) -> z -> z list

val rops_ok : z -> z -> rop list -> z -> bool

type xop =
| XReg of z * z
| XCell of z
| XSlot of z
| XImm of z

type xins =
| XMov of xop * xop
| XAdd of xop * xop
| XSub of xop * xop
| XInc of xop
| XDec of xop
| XImul2 of xop * xop
| XImul3 of xop * xop * z
| XLea of z * z * z option * z

val areg : z -> z

val acell : z -> z

val aslot : z -> z

type amap0 = (z * expr) list

val alook : z -> amap0 -> expr -> expr

type sst = { sr : amap0; sc : amap0; ss : amap0 }

val sst0 : sst

val sget_r : sst -> z -> expr

val sget_c : sst -> z -> expr

val sget_s : sst -> z -> expr

val size_ok : z -> bool

val sread : z -> sst -> xop -> expr option

val swrite : z -> sst -> xop -> expr -> z option -> sst option

val sstep : z -> sst -> xins -> sst option

val srun : z -> xins list -> sst -> sst option

val tmp_reg : z -> z option

type xloc =
| LReg of z
| LCell of z
| LSlot of z

val home : loc -> xloc option

val loc_expr : z -> loc -> expr option

val form_spec : z -> binstr -> (xloc * expr) option

val part_eqb : expr -> expr -> bool

val canon : z -> expr -> expr

val same_poly : z -> expr -> expr -> bool

val xloc_eqb : xloc -> xloc -> bool

val may_clobber : z -> z -> bool

val dest_reg : xins -> z option

val pinned : z -> bool

val keeps_pinned : xins list -> bool

val form_ok : z -> binstr -> z -> xins list -> bool

type kins =
| KPush of z
| KPop of z
| KSubRsp
| KAddRsp
| KMovRR of z * z
| KLoad of z * z
| KMovI of z * z
| KCall of z
| KTest8 of z
| KCmp64 of z * z
| KCmpCell of z
| KJe
| KJne
| KStore of z * z

type kval =
| VInit of z
| VCell of z
| VRet of z
| VImm of z
| VJunk

type ktest =
| TNone
| TTest8 of kval
| TCmp64 of kval * z

type ksym = { yr : (z * kval) list; ystore : (z * kval) list; yk : kval list;
              ycalls : (kval * kval) list; ytest : ktest; ycalled : bool;
              yexit : (bool * ktest) option }

val ksym0 : ksym

val klook : z -> (z * kval) list -> kval -> kval

val yget : ksym -> z -> kval

val yset : ksym -> z -> kval -> ksym

val ystep : ksym -> kins -> ksym option

val yrun : kins list -> ksym -> ksym option

val kval_eqb : kval -> kval -> bool

val must_keep : z -> z -> bool

val regs_restored : z -> ksym -> bool

val u64M1 : z

val call_ok : binstr -> z -> kins list -> bool

val br_ok : binstr -> kins list -> bool

type mins =
| MAddRbp of z
| MLeaRaxRbp of z
| MSubRaxBase
| MSarRax of z
| MCmpRaxSize
| MJb
| MStoreOff
| MPush of z
| MPop of z
| MSubRsp
| MAddRsp
| MMovRR of z * z
| MMovI of z * z
| MCall of z
| MLoadRbpBase
| MLoadRaxOff
| MLeaRbpIdx of z * z

val mins_eqb : mins -> mins -> bool

val code_eqb : mins list -> mins list -> bool

val saved_regs : z -> z list

val mov_template : z -> z -> z -> z -> z -> z -> mins list

val find_fn : mins list -> z

val mov_ok : z -> binstr -> z -> z -> z -> mins list -> bool

type lins =
| LLoadBudget
| LCmpRax of z
| LJbTerm
| LDecRax
| LStoreBudget

val lins_eqb : lins -> lins -> bool

val limit_ok : lins list -> bool

val frame_ok : z -> z -> z -> bool

val mov_unsafe_ok : z -> binstr -> mins list -> bool

val acell0 : z -> z

val axi : z -> z

val axb : z -> z

val atmp : z -> z

val ainp : z -> z

type amap1 = (z * expr) list

val look : z -> amap1 -> expr option

val memz : z -> z list -> bool

type sst1 = { s_ci : amap1; s_cb : amap1; s_d : z list; s_t : amap1;
              s_nz : expr list; s_n : z }

val cell_i : sst1 -> z -> expr

val cell_b : sst1 -> z -> expr

val set_ci : sst1 -> amap1 -> sst1

val set_cb : sst1 -> amap1 -> sst1

val set_t : sst1 -> amap1 -> sst1

val set_n : sst1 -> z -> sst1

val add_nz : sst1 -> expr -> sst1

val pcanon : z -> expr -> expr

val tv_same : z -> expr -> expr -> bool

val psubst : z -> (z -> expr) -> expr -> expr

type sev =
| SOut of expr
| SIn

val is_simple : instr -> bool

val split_simple : instr list -> instr list * instr list

val sym_ir_step : z -> sst1 -> instr -> sst1 * sev list

val sym_ir : z -> instr list -> sst1 -> sst1 * sev list

val is_arith : binstr -> bool

val imm_ok : z -> z -> bool

val sym_read : z -> sst1 -> loc -> (expr * sst1) option

val sym_write : sst1 -> loc -> expr -> sst1

val sym_binop :
  z -> (expr -> expr -> expr) -> sst1 -> loc -> loc -> loc -> sst1 option

val sym_bc_step : z -> sst1 -> binstr -> (sst1 * sev list) option

val sym_bc : z -> binstr list -> sst1 -> (sst1 * sev list) option

val ev_eq : z -> sev list -> sev list -> bool

val sym_region : z -> instr list -> binstr list -> sst1 -> sst1 option

val code_at : binstr list -> z -> binstr option

val at_head : z option -> z -> bool

val seg_from : binstr list -> z -> z -> z option -> binstr list

val bc_segment : binstr list -> z -> z -> z option -> binstr list

type facts = { f_c : amap1; f_d : z list; f_t : amap1; f_nz : expr list }

type cert =
| CLoop of z * z * facts * facts
| CIf of facts

val st_of_facts : facts -> sst1

val agree : z -> sst1 -> z -> bool

val keys : sst1 -> z list

val atom_ok : z -> sst1 -> z -> bool

val atom_val : sst1 -> z -> expr

val subst_ok : z -> sst1 -> expr -> bool

val subst_st : z -> sst1 -> expr -> expr

val is_bot : sst1 -> bool

val is_nz_const : z -> expr -> bool

val nonzero_in : z -> sst1 -> expr -> bool

val entails : z -> sst1 -> facts -> bool

val once_exit : z -> sst1 -> z -> sst1

val is_const : expr -> bool

val moved : z -> sst1 -> z -> sst1

val all_agree : z -> sst1 -> bool

val is_nil : 'a1 list -> bool

val next_head : bool -> instr list -> cert list -> z option

val after_move : z -> binstr list -> z -> sst1 -> z -> (z * sst1) option

val tv_block :
  nat -> z -> bool -> binstr list -> instr list -> z -> z -> sst1 -> cert
  list -> ((z * sst1) * cert list) option

val st0 : z list -> sst1

val tvsize : instr -> nat

val isize : instr list -> nat

val tv_check :
  z -> bool -> block -> binstr list -> z list -> cert list -> bool

type kind =
| KPrintIr
| KPrintBc
| KPrintBc2
| KInplace
| KIrInt
| KBcInt
| KPrintMc
| KBaseJit

type action =
| ASetKind of kind
| ASetOpt of z
| ASetBits of z
| AHelp
| ANextFile
| ANextLimit
| AStatic
| ATime

type table = (string * action) list

val spec_table : table

type defaults = { d_bits : z; d_opt : z; d_kind : kind }

val spec_defaults : defaults

val spec_widths : (z * z) list

val lookup : table -> string -> action option

val digit_of : ascii -> z option

val parse_digits : string -> z -> z option

val parse_usize : string -> z option

type fileres =
| FOk of string
| FBadEncoding of string
| FMissing

type cstate = { c_bits : z; c_kind : kind; c_opt : z; c_limit : z option;
                c_safe : bool; c_err : bool; c_help : bool; c_nfile : 
                bool; c_nlimit : bool; c_time : bool; c_code : string;
                c_diag : string list }

val cstate0 : defaults -> cstate

val apply_action : cstate -> action -> cstate

val with_code :
  cstate -> string -> bool -> string list -> bool -> bool -> z option ->
  cstate

val cli_step : table -> (string -> fileres) -> cstate -> string -> cstate

val cli_run :
  table -> defaults -> (string -> fileres) -> string list -> cstate

type decision =
| DHelp of z
| DNothing of z
| DRun of z * kind * z * string * z * string
| DPanic

val decide : (z * z) list -> cstate -> decision

val is_imm : loc -> bool

val loc_eq : loc -> loc -> bool

val commute : loc -> loc -> loc -> loc * loc

val reorder : z -> binstr -> binstr

val jit_covers : binstr -> bool

val dst_writable : loc -> bool

val int_covers : binstr -> bool

val src_plain : loc -> bool

val pre_shape : binstr -> bool

val unzero : loc -> loc

val unzero_instr : binstr -> binstr

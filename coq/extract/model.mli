
val negb : bool -> bool

type nat =
| O
| S of nat

type comparison =
| Eq
| Lt
| Gt

val compOpp : comparison -> comparison

val add : nat -> nat -> nat

type positive =
| XI of positive
| XO of positive
| XH

type n =
| N0
| Npos of positive

type z =
| Z0
| Zpos of positive
| Zneg of positive

module Pos :
 sig
  val succ : positive -> positive

  val add : positive -> positive -> positive

  val add_carry : positive -> positive -> positive

  val pred_double : positive -> positive

  val pred_N : positive -> n

  val mul : positive -> positive -> positive

  val iter : ('a1 -> 'a1) -> 'a1 -> positive -> 'a1

  val div2 : positive -> positive

  val div2_up : positive -> positive

  val compare_cont : comparison -> positive -> positive -> comparison

  val compare : positive -> positive -> comparison

  val eqb : positive -> positive -> bool

  val coq_Nsucc_double : n -> n

  val coq_Ndouble : n -> n

  val coq_lor : positive -> positive -> positive

  val coq_land : positive -> positive -> n

  val ldiff : positive -> positive -> n

  val iter_op : ('a1 -> 'a1 -> 'a1) -> positive -> 'a1 -> 'a1

  val to_nat : positive -> nat
 end

module N :
 sig
  val succ_pos : n -> positive

  val coq_lor : n -> n -> n

  val ldiff : n -> n -> n
 end

module Z :
 sig
  val double : z -> z

  val succ_double : z -> z

  val pred_double : z -> z

  val pos_sub : positive -> positive -> z

  val add : z -> z -> z

  val opp : z -> z

  val sub : z -> z -> z

  val mul : z -> z -> z

  val pow_pos : z -> positive -> z

  val pow : z -> z -> z

  val compare : z -> z -> comparison

  val leb : z -> z -> bool

  val ltb : z -> z -> bool

  val eqb : z -> z -> bool

  val to_nat : z -> nat

  val of_N : n -> z

  val pos_div_eucl : positive -> z -> z * z

  val div_eucl : z -> z -> z * z

  val modulo : z -> z -> z

  val div2 : z -> z

  val shiftl : z -> z -> z

  val shiftr : z -> z -> z

  val coq_land : z -> z -> z
 end

val neg_one : z -> z

val wadd : z -> z -> z -> z

val wmul : z -> z -> z -> z

val wneg : z -> z -> z

val wand : z -> z -> z

val wshr : z -> z -> z -> z

val wshl : z -> z -> z -> z

val tz_pos : positive -> z

val tz : z -> z -> z

val is_odd : z -> bool

val wpow_loop : nat -> z -> z -> z -> z -> z

val wpow : z -> z -> z -> z

val winv : z -> z -> z option

val wdiv_reaches_sub : z -> z -> z -> bool

val wdiv : z -> z -> z -> z option

val into_u64 : z -> z -> z

val from_u64 : z -> z -> z

val into_i64 : z -> z -> z

val from_u8 : z -> z -> z

val into_u8 : z -> z -> z

val from_i16 : z -> z -> z

val try_into_i16 : z -> z -> z option

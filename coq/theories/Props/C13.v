(** * C13 — compilation is total: no operand shape that parameter reordering can leave reaches
    an [unimplemented!] arm of either instruction selector (the part of C13 that is a theorem;
    determinism, reuse and compile-time growth are monitored, see DESIGN §4 C13). *)
From Coq Require Import ZArith List Bool.
From HPBF Require Import Cell IO BC Forms FormsProofs BCWf BCWfProofs.
Open Scope Z_scope.

Theorem C13_jit_covers_all : forall w i, pre_shape i = true -> jit_covers (reorder w i) = true.
Proof. exact jit_covers_all. Qed.

Theorem C13_int_covers_all : forall w i j, pre_shape i = true -> unzero_instr j = reorder w i -> int_covers j = true.
Proof. exact int_covers_all. Qed.

Theorem C13_reorder_imm_last : forall w d a b d' a' b',
  pre_shape (Add d a b) = true -> reorder w (Add d a b) = Add d' a' b' -> is_imm a' = false.
Proof. exact reorder_imm_last. Qed.

(** the JIT's save/restore code ([emit_pre_call]/[emit_post_call]) unwraps the register of every
    bit of the live mask from 4 up; temporaries from 11 up have no register.  A mask accepted by
    [live_regs_ok 11] has no such bit, so that [unwrap] cannot panic; the C13 check runs
    [live_regs_ok] on the bytecode of every generated program *)
Theorem C13_live_masks_name_registers : forall num_regs p, live_regs_ok num_regs p = true -> 0 <= num_regs ->
  forall pc l t, nth_error (bp_live p) pc = Some l -> Z.testbit l t = true -> 0 <= t < Z.min num_regs 16.
Proof. exact live_regs_ok_sound. Qed.

Example C13_nonvacuous :
  reorder 8 (Add (Tmp 3) (Imm 5) (Tmp 3)) = Add (Tmp 3) (Tmp 3) (Imm 5) /\
  reorder 8 (Sub (Mem 1) (Tmp 2) (Imm 1)) = Add (Mem 1) (Tmp 2) (Imm 255) /\
  reorder 8 (Mul (Tmp 0) (Tmp 9) (Tmp 4)) = Mul (Tmp 0) (Tmp 4) (Tmp 9) /\
  pre_shape (Add (Tmp 3) (Imm 5) (Tmp 3)) = true.
Proof. vm_compute. repeat split; reflexivity. Qed.

Print Assumptions C13_jit_covers_all.
Print Assumptions C13_int_covers_all.
Print Assumptions C13_reorder_imm_last.
Print Assumptions C13_live_masks_name_registers.

(** * C05 — divergence certificates: a canonical run that repeats a machine state never halts.
    (The backend side of C05 is validated per program against these certificates, see DESIGN §4.) *)
From Coq Require Import ZArith List Bool.
From HPBF Require Import Cell IO BF IR Parse Machines MachineProofs BigStepProofs Level0Proofs Level0Back.
Import ListNotations.

(** if the certificate checker accepts (i, d) — the configurations after i and after i+d+1 steps
    exist and agree on control, continuation, tape contents, pointer and remaining input, in a
    fault-free environment — then the canonical machine is still running after any number of steps *)
Theorem C05_state_repeat_diverges : forall w e p i d,
  cert_ok w e p i d = true ->
  forall n, exists s, bf_steps w e n {| c_ctl := p; c_kont := []; c_st := bf0 |} = OutOfFuel s.
Proof. exact state_repeat_diverges. Qed.

(** equivalent configurations stay equivalent: what happens after the repeat is what happened
    after the first visit (this is why the events are ultimately periodic) *)
Theorem C05_equiv_runs : forall w e n c1 c2, fault_free e -> ceq e c1 c2 ->
  match bf_cfg_after w e n c1, bf_cfg_after w e n c2 with
  | Some a, Some b => ceq e a b
  | None, None => True
  | _, _ => False
  end.
Proof. exact run_equiv. Qed.

(** the stack machine the oracle runs and the fuel-indexed big-step definition of [BF.v] (the
    specification) have the same terminating runs, for every program and environment; together
    with [C05_state_repeat_diverges] this makes "the machine never halts" the same statement as
    "no amount of big-step fuel produces a result" *)
Theorem C05_oracle_is_spec : forall w e p o, terminal o ->
  (exists f, bf_exec w e f p bf0 = o) <->
  (exists n, bf_steps w e n {| c_ctl := p; c_kont := []; c_st := bf0 |} = o).
Proof. exact big_step_machine. Qed.

(** level 0: a canonically divergent program never returns from the IR interpreter run on the
    parser's output (model level: no amount of fuel makes [IR.ir_exec] end) *)
Theorem C05_level0_divergence : forall w e src p blk, 1 <= w ->
  ast_of_source src = Some p -> parse w src = POk blk ->
  (forall f, ~ terminal (bf_exec w e f p bf0)) ->
  forall fi, ~ iterminal (ir_run w e false 0 fi blk).
Proof. exact level0_divergence. Qed.

Example C05_nonvacuous :
  (* +[.-+] : prints 01 forever *)
  cert_ok 8 {| input := []; in_absent := false; in_fail_at := None; out_present := true; out_fail_at := None |}
    [Inc; Loop [Out; Dec; Inc]] 2 3 = true.
Proof. vm_compute. reflexivity. Qed.

Print Assumptions C05_state_repeat_diverges.
Print Assumptions C05_equiv_runs.
Print Assumptions C05_oracle_is_spec.
Print Assumptions C05_level0_divergence.

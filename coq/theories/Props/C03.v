(** * C03 (arithmetic instruction selection) — the per-form checker of the baseline JIT's machine
    code is sound: if [form_ok] accepts the code emitted for a [Copy]/[Add]/[Sub]/[Mul] bytecode
    instruction, then from every machine state the code computes, modulo 2^w, the instruction's
    result into the home of its destination (register, stack slot or tape cell), leaves rbx, rsp
    and rbp (context, stack and tape pointers) exactly as they were, and changes no
    other tape cell, no other stack slot and no register that is live after the instruction
    (rbx, rsp, rbp included), whatever the operand values — constants that do not fit 32 bits and
    temporaries spilled to the stack included.

    The check C03 disassembles (objdump) the code the current build emits for every normalised
    instruction shape x liveness variant x width, translates it to [X86.v] syntax (tools/x86tr.py:
    anything outside the modelled subset is reported, never skipped) and runs the extracted
    [form_ok].  Control flow, runtime calls and bounds checks are not covered by this theorem:
    they are validated by execution (see DESIGN.md). *)
From Coq Require Import ZArith List Bool Zdiv.
From HPBF Require Import Cell IO Expr BC BCWf X86 X86Proofs X86Call X86CallProofs X86Mov X86MovProofs.
Import ListNotations.
Open Scope Z_scope.

Definition dst_of_instr (i : binstr) : option loc :=
  match i with Add d _ _ | Sub d _ _ | Mul d _ _ | Copy d _ => Some d | _ => None end.

(** the value the bytecode semantics assigns, from the operands' values in the machine state *)
Definition instr_value (st0 : xst) (i : binstr) : option Z :=
  match i with
  | Add _ a b => Some (loc_val st0 a + loc_val st0 b)
  | Sub _ a b => Some (loc_val st0 a - loc_val st0 b)
  | Mul _ a b => Some (loc_val st0 a * loc_val st0 b)
  | Copy _ a => Some (loc_val st0 a)
  | _ => None
  end.

Theorem C03_form_sound : forall w, 0 <= w <= 64 -> forall i live code,
  form_ok w i live code = true ->
  forall st0, exists d dst v,
    dst_of_instr i = Some d /\ home d = Some dst /\ instr_value st0 i = Some v /\
    (forall r, pinned r = true -> xr (xrun w code st0) r = xr st0 r) /\
    eqm (2 ^ w) (xval (xrun w code st0) dst) v /\
    (forall k, LCell k <> dst -> eqm (2 ^ w) (xc (xrun w code st0) k) (xc st0 k)) /\
    (forall t, LSlot t <> dst -> eqm (2 ^ w) (xs (xrun w code st0) t) (xs st0 t)) /\
    (forall r, LReg r <> dst -> may_clobber live r = false -> eqm (2 ^ w) (xr (xrun w code st0) r) (xr st0 r)).
Proof.
  intros w Hw i live code H st0.
  destruct (form_spec w i) as [[dst want]|] eqn:SP; [|unfold form_ok in H; rewrite SP in H; discriminate].
  destruct (form_ok_sound w Hw st0 i live code dst want H SP) as (PN & V & C & S & R).
  pose proof (form_spec_value w Hw st0 i dst want SP) as FV.
  destruct i as [| | | | | | |d a b|d a b|d a b|d a]; try contradiction; destruct FV as [HD HV];
    exists d, dst; eexists; (split; [reflexivity|]); (split; [exact HD|]); (split; [reflexivity|]);
    (split; [exact PN|]); (split; [unfold eqm in *; rewrite V; exact HV|]); (split; [exact C|]); (split; [exact S|exact R]).
Qed.

(** the same in terms of the bytecode semantics [BC.v]: if the machine state represents the
    bytecode state ([Rx]: cells at their offset from the tape pointer, temporaries in their register
    or stack slot, modulo 2^w) then after the accepted code it represents the state after the
    instruction ([bc_write] of the result [v] into the destination), for the destination and every
    temporary whose register the code was not allowed to clobber.  ([bc_binop] is that [bc_write]
    when no operand is read-and-clear: [binop_pure].) *)
Theorem C03_arith_simulates_bytecode : forall w, 0 <= w <= 64 ->
  forall i live code keep s st d (op : Z -> Z -> Z) (a b : option loc),
  form_ok w i live code = true ->
  (match i with
   | Add d' a' b' => d = d' /\ a = Some a' /\ b = Some b' /\ op = (fun x y => x + y)
   | Sub d' a' b' => d = d' /\ a = Some a' /\ b = Some b' /\ op = (fun x y => x - y)
   | Mul d' a' b' => d = d' /\ a = Some a' /\ b = Some b' /\ op = (fun x y => x * y)
   | Copy d' a' => d = d' /\ a = Some a' /\ b = None /\ op = (fun x _ => x)
   | _ => False
   end) ->
  dst_ok d = true -> (forall t, d = Tmp t -> 0 <= t) ->
  (forall l t, (a = Some l \/ b = Some l) -> l = Tmp t -> 0 <= t /\ keep t = true) ->
  Rx w keep s st ->
  forall v, eqm (2 ^ w) v (op (match a with Some l => fst (bc_read w s l) | None => 0 end)
                              (match b with Some l => fst (bc_read w s l) | None => 0 end)) ->
  Rx w (keep_after keep live d) (bc_write s d v) (xrun w code st).
Proof. exact form_simulates. Qed.

(** ** runtime-call templates ([Inp], [Out]) — exact 64-bit semantics with a stack and a call
    oracle ([X86Call.v]).  [st0]: any machine state at the start of the template with nothing
    pushed yet; [oracle r]: what the callee leaves in caller-saved register [r] (its return value is
    [oracle 0]).  If [call_ok] accepts the template then:
    - exactly one call is made, with the context pointer (initial rbx) as first argument (and, for
      output, the zero-extended cell as second), on a 16-byte aligned stack;
    - the jump to the termination path is taken iff the callee reports failure (input: returns -1;
      output: returns a non-zero byte), and then nothing is left on the stack and no cell changed;
    - otherwise every pinned register and every register holding a live temporary has exactly its
      initial value, nothing is left on the stack, and the only cell changed is, for input, the
      destination, which holds the low w bits of the returned value. *)
Theorem C03_input_template : forall w oracle st0, kk st0 = [] -> kcalls st0 = [] ->
  forall dst live code, call_ok (Inp dst) live code = true ->
  let st' := fst (krun w oracle code st0) in
  let ex := snd (krun w oracle code st0) in
  (exists a2, kcalls st' = [(kr st0 3, a2)]) /\ ex = (oracle 0 =? U64M1) /\ kk st' = [] /\
  (ex = true -> forall k, kc st' k = kc st0 k) /\
  (ex = false -> (forall r, must_keep live r = true -> kr st' r = kr st0 r) /\
                 (forall k, kc st' k = if k =? dst then oracle 0 mod 2 ^ w else kc st0 k)).
Proof. exact call_ok_inp. Qed.

Theorem C03_output_template : forall w oracle st0, kk st0 = [] -> kcalls st0 = [] ->
  forall src live code, call_ok (Outp src) live code = true ->
  let st' := fst (krun w oracle code st0) in
  let ex := snd (krun w oracle code st0) in
  kcalls st' = [(kr st0 3, kc st0 src)] /\ ex = negb (oracle 0 mod 256 =? 0) /\ kk st' = [] /\
  (forall k, kc st' k = kc st0 k) /\
  (ex = false -> forall r, must_keep live r = true -> kr st' r = kr st0 r).
Proof. exact call_ok_out. Qed.

(** conditional branches: the accepted code compares the condition cell with zero at the cell
    width, changes nothing but the flags and jumps iff the cell is zero ([BrZ]) / non-zero ([BrNZ]);
    that the jump lands on the code of instruction pc+off is checked on the relocated code *)
Theorem C03_branch_template : forall w oracle i code st, br_ok i code = true ->
  fst (krun w oracle code st) = {| kr := kr st; kc := kc st; kk := kk st; kcalls := kcalls st;
                                    kzf := match i with BrZ c _ | BrNZ c _ => (kc st c =? 0) | _ => kzf st end |} /\
  snd (krun w oracle code st) =
    match i with BrZ c _ => (kc st c =? 0) | BrNZ c _ => negb (kc st c =? 0) | _ => false end.
Proof. exact br_ok_sound. Qed.

(** ** the pointer move with its bounds probe ([Instr::Mov], checked mode; [X86Mov.v]).
    [st]: machine state whose tape pointer rbp points at cell [q] of the buffer recorded in the
    context ([mB] address, [mS] size in cells); [ext]: what the callee does to (address, size,
    offset); [havoc]: what it leaves in caller-saved registers.  If [mov_ok] accepts the code then
    it computes the index [q + d + probe] of the probed window end, compares it unsigned with the
    size, and
    - inside the buffer: only moves the pointer by [d] cells (nothing else but rax changes);
    - outside: stores that index as the offset, calls [extend(cxt, 0, 1)] once on an aligned stack
      with the live caller-saved registers saved and restored, and sets the pointer to the cell
      [o' - probe] of the new buffer, [o'] being the offset the callee returns for the probed cell —
      which is the JIT's variant of the probe protocol proved safe in [C06_protocol_safe]. *)
Theorem C03_mov_template : forall w d mn mx live code, mov_ok w (MovP d) mn mx live code = true ->
  forall havoc ext st q, mk st = [] -> mcalls st = [] -> mr st 5 = mB st + (w / 8) * q ->
  let probe := if d <? 0 then mn else mx in
  let idx := q + d + probe in
  let below := (idx mod 2 ^ 64 <? mS st mod 2 ^ 64) in
  exists stf, mrun havoc ext code st = (stf, below) /\
    if below
    then mr stf 5 = mB st + (w / 8) * (q + d) /\ mB stf = mB st /\ mS stf = mS st /\ mO stf = mO st /\
         mk stf = [] /\ mcalls stf = [] /\ (forall r, r <> 0 -> r <> 5 -> mr stf r = mr st r)
    else (let '(b', s', o') := ext (mB st, mS st, idx) in
          mB stf = b' /\ mS stf = s' /\ mO stf = o' /\ mr stf 5 = b' + (w / 8) * (o' - probe)) /\
         mcalls stf = [(mr st 3, 0, 1)] /\ mk stf = [] /\
         (forall r, must_keep live r = true -> r <> 5 -> mr stf r = mr st r).
Proof. exact mov_ok_sound. Qed.

(** the unsigned comparison is the bounds test: with indices and sizes below 2^63 *)
Theorem C03_unsigned_probe : forall idx S, - 2 ^ 63 <= idx < 2 ^ 63 -> 0 <= S < 2 ^ 63 ->
  (idx mod 2 ^ 64 <? S mod 2 ^ 64) = ((0 <=? idx) && (idx <? S)).
Proof. exact unsigned_below. Qed.

(** the frame: with [pushes] callee-saved registers pushed and [sub_bytes] reserved by the prologue
    (checked on the emitted code together with the matching epilogue), every stack temporary's slot
    [rsp + 8 t] lies inside the reserved area and rsp is 16-byte aligned in the body *)
Theorem C03_frame : forall temps pushes sub_bytes, frame_ok temps pushes sub_bytes = true ->
  forall rsp0, (rsp0 + 8) mod 16 = 0 ->
  (rsp0 - 8 * pushes - sub_bytes) mod 16 = 0 /\
  (forall t, 0 <= t < temps -> 0 <= 8 * t /\ 8 * t + 8 <= sub_bytes).
Proof. exact frame_ok_sound. Qed.

(** the template the JIT emits for  Inp(-1)  with temporaries 4, 5, 6 live (three pushes and the
    alignment word) is accepted; without the alignment word, or jumping before the pops, it is not *)
Example C03_call_nonvacuous :
  let good := [KPush 6; KPush 7; KPush 2; KSubRsp; KMovRR 7 3; KMovI 0 4096; KCall 0; KAddRsp; KPop 2; KPop 7; KPop 6;
               KCmp64 0 U64M1; KJe; KStore (-1) 0] in
  let unaligned := [KPush 6; KPush 7; KPush 2; KMovRR 7 3; KMovI 0 4096; KCall 0; KPop 2; KPop 7; KPop 6;
                    KCmp64 0 U64M1; KJe; KStore (-1) 0] in
  let early := [KPush 6; KPush 7; KPush 2; KSubRsp; KMovRR 7 3; KMovI 0 4096; KCall 0; KCmp64 0 U64M1; KJe;
                KAddRsp; KPop 2; KPop 7; KPop 6; KStore (-1) 0] in
  call_ok (Inp (-1)) 112 good = true /\ call_ok (Inp (-1)) 112 unaligned = false /\ call_ok (Inp (-1)) 112 early = false.
Proof. vm_compute. repeat split; reflexivity. Qed.

(** non-vacuity: the code the JIT emits for  Mul(Mem 0, Tmp 11, Tmp 12)  at 8 bits is accepted; the
    same with [add] for [imul] is rejected, and so is code that clobbers a live register *)
Example C03_nonvacuous :
  form_ok 8 (Mul (Mem 0) (Tmp 11) (Tmp 12)) 55 [XMov (XReg 0 64) (XSlot 12); XImul2 (XReg 0 64) (XSlot 11); XMov (XCell 0) (XReg 0 8)] = true /\
  form_ok 8 (Mul (Mem 0) (Tmp 11) (Tmp 12)) 55 [XMov (XReg 0 64) (XSlot 12); XAdd (XReg 0 64) (XSlot 11); XMov (XCell 0) (XReg 0 8)] = false /\
  form_ok 64 (Mul (Tmp 0) (Tmp 0) (Tmp 1)) 65535 [XImul2 (XReg 13 64) (XReg 12 64); XMov (XReg 12 64) (XReg 13 64)] = false.
Proof. vm_compute. repeat split; reflexivity. Qed.

Print Assumptions C03_form_sound.
Print Assumptions C03_input_template.
Print Assumptions C03_output_template.
Print Assumptions C03_branch_template.
Print Assumptions C03_mov_template.
Print Assumptions C03_unsigned_probe.
Print Assumptions C03_frame.
Print Assumptions C03_arith_simulates_bytecode.

(** * C08 — an I/O failure stops the run at that operation.

    In the canonical semantics and in the models of the IR interpreter and of the bytecode
    interpreter (limited or not): starting from a trace without failure events,
    - a run that is stopped ends with exactly one failure event, the most recent one (or with none
      when the input source is absent, which refuses without logging) — nothing happens after it;
    - a run that ends any other way contains no failure event.
    That the events *before* the failure are the canonical ones is the business of the equivalence
    results: C01_level0 (its outcome includes [Stopped]) for the level-0 pipeline,
    C04_inplace_canonical for the in-place interpreter, per-program validation elsewhere; for the
    baseline JIT the exit to the termination path is taken iff the runtime reports the failure
    (C03_input_template / C03_output_template). *)
From Coq Require Import ZArith List Bool.
From HPBF Require Import Cell IO BF Expr IR BC FaultProofs.
Import ListNotations.
Open Scope Z_scope.

Theorem C08_canonical_failure_is_last : forall w e f p s, clean (trace (io s)) ->
  fault_shape io (bf_exec w e f p s).
Proof. exact bf_fault. Qed.

Theorem C08_ir_failure_is_last : forall w e limited f p s, clean (trace (ir_io s)) ->
  fault_shape ir_io (ir_exec w e limited f p s).
Proof. exact ir_fault. Qed.

Theorem C08_bc_failure_is_last : forall w e limited fetch len f s, clean (trace (bc_io s)) ->
  fault_shape bc_io (bc_exec w e limited fetch len f s).
Proof. exact bc_fault. Qed.

(** non-vacuity:  ,.,.  with the second input request failing: one event per operation, the failure last *)
Definition demo_env : env := {| input := [65; 66]; in_absent := false; in_fail_at := Some 1%nat; out_present := true; out_fail_at := None |}.
Example C08_nonvacuous :
  match bf_exec 8 demo_env 20 [In; Out; In; Out] bf0 with
  | Stopped s => rev (trace (io s)) = [EvIn 65; EvOut 65; EvInFail]
  | _ => False
  end.
Proof. vm_compute. reflexivity. Qed.

Print Assumptions C08_canonical_failure_is_last.
Print Assumptions C08_ir_failure_is_last.
Print Assumptions C08_bc_failure_is_last.

(** * C15 — the symbolic expression algebra agrees with concrete arithmetic modulo 2^w.
    [eval] is the model of [Expr::evaluate]; [eqm (2^w)] is congruence modulo 2^w. *)
From Coq Require Import ZArith List Bool Zdiv.
From HPBF Require Import Cell Expr ExprProofs ExprShape.
Import ListNotations.
Open Scope Z_scope.

Theorem C15_add : forall w, 0 <= w -> forall rho a b, eqm (2 ^ w) (eval w (e_add w a b) rho) (eval w a rho + eval w b rho).
Proof. exact eval_add. Qed.
Theorem C15_mul : forall w, 0 <= w -> forall rho a b, eqm (2 ^ w) (eval w (e_mul w a b) rho) (eval w a rho * eval w b rho).
Proof. exact eval_mul. Qed.
Theorem C15_neg : forall w, 0 <= w -> forall rho a, eqm (2 ^ w) (eval w (e_neg w a) rho) (- eval w a rho).
Proof. exact eval_neg. Qed.
Theorem C15_half : forall w, 0 <= w -> forall rho a h, e_half w a = Some h -> eqm (2 ^ w) (2 * eval w h rho) (eval w a rho).
Proof. exact eval_half. Qed.
Theorem C15_normalize : forall w, 0 <= w -> forall rho a, eqm (2 ^ w) (eval w (e_normalize w a) rho) (eval w a rho).
Proof. exact eval_normalize. Qed.
Theorem C15_substitution : forall w, 0 <= w -> forall rho f a r, e_symb_evaluate w a f = Some r ->
  eqm (2 ^ w) (eval w r rho) (eval w a (fun v => match f v with Some e' => eval w e' rho | None => 0 end)).
Proof. exact eval_symb. Qed.
Theorem C15_val : forall w, 0 <= w -> forall rho c, eqm (2 ^ w) (eval w (e_val c) rho) c.
Proof. exact eval_val. Qed.
Theorem C15_var : forall w, 0 <= w -> forall rho v, eqm (2 ^ w) (eval w (e_var v) rho) (rho v).
Proof. exact eval_var. Qed.

(** decompositions that recompose for every expression *)
Theorem C15_constant : forall w, 0 <= w -> forall rho a c, e_constant a = Some c -> eqm (2 ^ w) (eval w a rho) c.
Proof. exact eval_constant. Qed.
Theorem C15_identity : forall w, 0 <= w -> forall rho a x, e_identity a = Some x -> eqm (2 ^ w) (eval w a rho) (rho x).
Proof. exact eval_identity. Qed.
Theorem C15_const_inc_of : forall w, 0 <= w -> forall rho a v c, e_const_inc_of a v = Some c -> eqm (2 ^ w) (eval w a rho) (rho v + c).
Proof. exact eval_const_inc_of. Qed.
Theorem C15_prod_of : forall w, 0 <= w -> forall rho a v r, e_prod_of w a v = Some r -> eqm (2 ^ w) (eval w a rho) (rho v * eval w r rho).
Proof. exact eval_prod_of. Qed.

(** the remaining decompositions hold for every expression built through the public API
    ([built w]: the closure of val, var, add, mul, neg, half, normalize, symb_evaluate and of the
    results of inc_of, prod_inc_of, prod_of).  They rest on a representation invariant that the
    part lists of such expressions satisfy ([C15_built_shape]: every part with at most one variable
    is strictly greater than every part before it — the lists are NOT sorted in general, because a
    product with a single part appends variables without re-sorting), which gives "at most one
    bare-variable part per variable" and "a constant part, if any, comes first". *)
Theorem C15_built_shape : forall w a, built w a -> J a /\ (forall v, singles_unique v a) /\ const_first a.
Proof. intros w a B. pose proof (built_J w a B) as HJ. split; [exact HJ|]. split; [intros v; apply J_singles; exact HJ|apply J_const_first; exact HJ]. Qed.
Theorem C15_inc_of : forall w, 0 <= w -> forall rho a v r, built w a -> e_inc_of a v = Some r ->
  eqm (2 ^ w) (eval w a rho) (rho v + eval w r rho).
Proof. exact eval_inc_of. Qed.
Theorem C15_prod_inc_of : forall w, 0 <= w -> forall rho a v r m, built w a -> e_prod_inc_of a v = Some (r, m) ->
  eqm (2 ^ w) (eval w a rho) (m * rho v + eval w r rho).
Proof. exact eval_prod_inc_of. Qed.
Theorem C15_constant_part : forall w, 0 <= w -> forall a, built w a ->
  eqm (2 ^ w) (eval w a (fun _ => 0)) (e_constant_part a).
Proof. exact eval_constant_part. Qed.

(** why [prod_of] merges the parts it produces one by one (repaired by a "fix:" commit, D10): with
    the variable merely removed from every part, y*x + y gave the list [x; 1] — constant part not
    first, [constant_part] = 0 instead of 1.  The repaired function returns [1; x]. *)
Example C15_prod_of_keeps_the_shape :
  let a := e_add 8 (e_mul 8 (e_var 1) (e_var 0)) (e_var 1) in
  a = [(1, [0; 1]); (1, [1])] /\ built 8 a /\
  map (fun p => (fst p, remove_var 1 (snd p))) a = [(1, [0]); (1, [])] /\
  e_constant_part [(1, [0]); (1, [])] = 0 /\
  e_prod_of 8 a 1 = Some [(1, []); (1, [0])] /\ e_constant_part [(1, []); (1, [0])] = 1.
Proof.
  cbv zeta. split; [vm_compute; reflexivity|]. split.
  - apply b_add; [apply b_mul|]; apply b_var.
  - vm_compute. repeat split; reflexivity.
Qed.

Example C15_nonvacuous :
  (* 128*x*x + 129*x*x*y at 8 bits, x = 3, y = 5: normalisation rewrites it and keeps the value *)
  let a := [(128, [1; 1]); (129, [1; 1; 2])] in
  let rho := fun v => if v =? 1 then 3 else 5 in
  e_normalize 8 a = [(128, [1]); (129, [1; 1; 2])] /\ eval 8 a rho = 45 /\ eval 8 (e_normalize 8 a) rho = 45.
Proof. vm_compute. repeat split; reflexivity. Qed.

Print Assumptions C15_add.
Print Assumptions C15_mul.
Print Assumptions C15_neg.
Print Assumptions C15_half.
Print Assumptions C15_normalize.
Print Assumptions C15_substitution.
Print Assumptions C15_val.
Print Assumptions C15_var.
Print Assumptions C15_constant.
Print Assumptions C15_identity.
Print Assumptions C15_const_inc_of.
Print Assumptions C15_prod_of.
Print Assumptions C15_built_shape.
Print Assumptions C15_inc_of.
Print Assumptions C15_prod_inc_of.
Print Assumptions C15_constant_part.

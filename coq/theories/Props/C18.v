(** * C18 — the inline small vector behaves like Vec and drops each element exactly once. *)
From Coq Require Import ZArith List Bool Arith Permutation.
From HPBF Require Import SmallVec SmallVecProofs.
Import ListNotations.

(** for every inline capacity and every operation sequence the observable contents equal those
    of plain lists subjected to the same sequence *)
Theorem C18_refines_vec : forall N ops, map obs_erase (fst (sv_run N ops sstate0)) = l_run ops lstate0.
Proof. exact sv_refines. Qed.

(** ... every element ever created is dropped exactly once by the time both vectors are gone *)
Theorem C18_dropped_exactly_once : forall N ops,
  let sf := snd (sv_run N ops sstate0) in
  NoDup (sv_final sf) /\ forall i, i < next_id sf <-> In i (sv_final sf).
Proof. exact sv_dropped_once. Qed.

(** ... and an inline representation never holds more than N elements *)
Theorem C18_rep_inv : forall N ops, swf N (snd (sv_run N ops sstate0)).
Proof. exact sv_rep_inv. Qed.

Example C18_nonvacuous :
  let ops := [OPush false 5; OPush false 5; OPush false 7; ODedup false; ORetain false [false; true];
              OClone false; OEq; OExtend true [1%Z; 2%Z]; OSort true; OIntoIter true 1; OClear false] in
  fst (sv_run 2 ops sstate0) =
    [SView [(0, 5%Z)] false; SView [(0, 5%Z); (1, 5%Z)] false; SView [(0, 5%Z); (1, 5%Z); (2, 7%Z)] true;
     SView [(0, 5%Z); (2, 7%Z)] true; SView [(2, 7%Z)] true; SView [(3, 7%Z)] false; SBool true;
     SView [(3, 7%Z); (4, 1%Z); (5, 2%Z)] true; SView [(4, 1%Z); (5, 2%Z); (3, 7%Z)] true;
     SItems [(4, 1%Z)]; SView [] true]
  /\ sv_final (snd (sv_run 2 ops sstate0)) = [1; 0; 4; 5; 3; 2].
Proof. vm_compute. split; reflexivity. Qed.

Print Assumptions C18_refines_vec.
Print Assumptions C18_dropped_exactly_once.
Print Assumptions C18_rep_inv.

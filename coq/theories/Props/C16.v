(** * C16 — the command line runs what it was asked to run.
    General theorems about the argument loop for an arbitrary flag table; the equality of the
    regenerated table with [spec_table] is proved on every run (C16_gen.v, compiled against the
    output of tools/cli_translate.py). *)
From Coq Require Import ZArith List Bool String.
From HPBF Require Import Cli CliProofs.
Import ListNotations.
Open Scope string_scope.

Theorem C16_code_concat : forall t d fs args,
  c_code (cli_run t d fs args) = items_code fs (classify t args false false).
Proof. exact code_concat. Qed.

Theorem C16_last_wins : forall t d fs args,
  let items := classify t args false false in
  let f := cli_run t d fs args in
  c_opt f = last_opt items (d_opt d) /\ c_bits f = last_bits items (d_bits d) /\ c_kind f = last_kind items (d_kind d)
  /\ c_limit f = last_limit items None /\ c_safe f = negb (any_static items)
  /\ c_help f = any_help items /\ c_err f = any_file_error fs items.
Proof. exact last_wins. Qed.

Theorem C16_decide : forall t d fs args,
  let items := classify t args false false in
  let f := cli_run t d fs args in
  decide spec_widths f =
    if any_help items then DHelp (if any_file_error fs items then 1 else 0)
    else if any_file_error fs items then DNothing 1
    else match find (fun p => Z.eqb (fst p) (last_bits items (d_bits d))) spec_widths with
         | None => DPanic
         | Some (_, w) =>
             match last_limit items None with
             | Some l => DRun w (last_kind items (d_kind d)) (last_opt items (d_opt d)) "limited" l (items_code fs items)
             | None => DRun w (last_kind items (d_kind d)) (last_opt items (d_opt d))
                         (if negb (any_static items) then "checked" else "static") 0 (items_code fs items)
             end
         end.
Proof. exact decide_spec. Qed.

Theorem C16_no_width_panic : forall fs args,
  decide spec_widths (cli_run spec_table spec_defaults fs args) <> DPanic.
Proof. exact no_width_panic. Qed.

Example C16_nonvacuous :
  decide spec_widths (cli_run spec_table spec_defaults (fun n => if String.eqb n "a.bf" then FOk "+[" else FMissing)
     ["-i16"; "-f"; "a.bf"; "--bc-int"; "-]."; "-O3"; "--limit"; "12x"; "-i32"; "--limit"; "+77"; ">"])
  = DRun 32 KBcInt 3 "limited" 77 "+[-].>".
Proof. vm_compute. reflexivity. Qed.

Print Assumptions C16_code_concat.
Print Assumptions C16_last_wins.
Print Assumptions C16_decide.
Print Assumptions C16_no_width_panic.

(** * C11 — the bytecode well-formedness checker is sound: a program it accepts satisfies every
    clause of the property, stated over control-flow paths.

    The check C11 runs the extracted [bc_wf] on the bytecode the implementation generates for
    every generated program x width x level x generator setting; these theorems say what an
    acceptance means.  ([instr_at code pc]: the instruction at program counter [pc];
    [succs pc i]: its control-flow successors; [len]: the exit.) *)
From Coq Require Import ZArith List Bool.
From HPBF Require Import Cell IO BC BCWf BCHavoc BCWfProofs BCProofs BCHavocProofs.
Import ListNotations.
Open Scope Z_scope.

(** every branch lands on an instruction boundary inside the program *)
Theorem C11_branch_targets : forall num_regs fuse p, bc_wf num_regs fuse p = true ->
  forall pc i s, instr_at (bp_code p) pc = Some i -> List.In s (succs pc i) ->
  0 <= s <= Z.of_nat (length (bp_code p)).
Proof. exact wf_branch_targets. Qed.

(** every tape operand (and condition / I/O cell) lies inside the declared window, which contains 0 *)
Theorem C11_cells_in_window : forall num_regs fuse p, bc_wf num_regs fuse p = true ->
  bp_min p <= 0 <= bp_max p /\
  forall pc i k, instr_at (bp_code p) pc = Some i -> List.In k (cells_of i) -> bp_min p <= k <= bp_max p.
Proof. intros n f p H. split; [exact (wf_window_has_zero n f p H)|exact (wf_cells_in_window n f p H)]. Qed.

(** every temporary index is below the declared count *)
Theorem C11_temps_in_range : forall num_regs fuse p, bc_wf num_regs fuse p = true ->
  forall pc i t, instr_at (bp_code p) pc = Some i -> List.In t (temps_of i) -> 0 <= t < bp_temps p.
Proof. exact wf_temps_in_range. Qed.

(** no temporary is read before it is written, on any path: if some path from the entry reaches [pc]
    having written the temporaries [D], every temporary the instruction at [pc] reads is in [D] *)
Theorem C11_defined_before_use : forall num_regs fuse p, bc_wf num_regs fuse p = true ->
  forall pc D i t, written (bp_code p) pc D -> instr_at (bp_code p) pc = Some i ->
  List.In (Tmp t) (srcs_of i) -> Z.testbit D t = true.
Proof.
  intros n f p H pc D i t W HI HS. eapply (wf_defined_before_use n f p H); [exact W|exact HI|].
  refine (uses_reads i t _ HS).
  cut (0 <= t < bp_temps p); [intros [A _]; exact A|].
  assert (HT : List.In t (temps_of i)).
  { unfold temps_of. apply in_flat_map. exists (Tmp t). split; [|left; reflexivity].
    destruct i; cbn [srcs_of locs_of List.In] in *; tauto. }
  apply (wf_temps_in_range n f p H pc i t HI HT).
Qed.

(** every register temporary still needed after a non-branch instruction, and not written by it, is
    declared live across it *)
Theorem C11_live_declared : forall num_regs fuse p, bc_wf num_regs fuse p = true ->
  forall pc i s t, instr_at (bp_code p) pc = Some i -> is_branch i = false ->
  List.In s (succs pc i) -> needed (bp_code p) t s -> dst_of i <> Some (Tmp t) ->
  0 <= t -> t < num_regs -> t < 16 ->
  exists l, nth_error (bp_live p) (Z.to_nat pc) = Some l /\ Z.testbit l t = true.
Proof.
  intros n f p H pc i s t HI NB HS N ND T0 T1 T2. eapply (wf_live_declared n f p H); try eassumption.
  destruct (Z.testbit (defs i) t) eqn:E; [|reflexivity]. exfalso. apply ND. apply defs_writes. exact E.
Qed.

(** semantic reading of the branch-target clause: an accepted program, run by the bytecode
    semantics in either mode from the initial state, never fetches outside its code *)
Theorem C11_never_leaves_code : forall num_regs fuse p, bc_wf num_regs fuse p = true ->
  forall w e limited budget fuel,
  match bc_run w e limited budget fuel p with Errored _ _ => False | _ => True end.
Proof. intros n f p H w e lim b fu. exact (run_safe n f p H w e lim b fu). Qed.

(** the liveness clause read semantically: the JIT keeps only the temporaries declared live in
    registers across an instruction and may use every other register as scratch.  [bc_run_h]
    makes that explicit — after every non-branch instruction each register temporary that is
    neither declared live nor written by it receives an arbitrary value [hv fuel t] — and on an
    accepted program no choice of those values is observable: same outcome kind, tape, pointer,
    program counter and I/O history as the plain semantics, for every fuel *)
Theorem C11_nonlive_registers_unobservable : forall num_regs fuse p, bc_wf num_regs fuse p = true ->
  forall w e hv fuel,
  match bc_run_h w e num_regs hv fuel p, bc_run w e false 0 fuel p with
  | Done h, Done s | Stopped h, Stopped s | OutOfFuel h, OutOfFuel s =>
      bc_tape h = bc_tape s /\ bc_ptr h = bc_ptr s /\ bc_pc h = bc_pc s /\ bc_io h = bc_io s
  | Errored _ _, Errored _ _ => True
  | _, _ => False
  end.
Proof. exact havoc_unobservable. Qed.

(** non-vacuity of the clobbering: the checker accepts [keep [0;0;1;0;0]] (the temporary is declared
    live across the output between its definition and its use); with the live bit dropped the
    checker rejects the program, and then the clobbered register *is* observable (12 vs 10) *)
Definition env5 : env := {| input := [5]; in_absent := false; in_fail_at := None; out_present := true; out_fail_at := None |}.
Definition keep (l : list Z) : bprog :=
  {| bp_temps := 1; bp_min := 0; bp_max := 1; bp_live := l;
     bp_code := [Inp 0; Copy (Tmp 0) (Mem 0); Outp 0; Add (Mem 1) (Mem 0) (Tmp 0); Outp 1] |}.
Example C11_clobbering_is_observable_when_rejected :
  bc_wf 2 false (keep [0;0;1;0;0]) = true /\ bc_wf 2 false (keep [0;0;0;0;0]) = false /\
  match bc_run_h 8 env5 2 (fun _ _ => 7) 10 (keep [0;0;0;0;0]), bc_run 8 env5 false 0 10 (keep [0;0;0;0;0]) with
  | Done h, Done s => trace (bc_io h) = [EvOut 12; EvOut 5; EvIn 5] /\ trace (bc_io s) = [EvOut 10; EvOut 5; EvIn 5]
  | _, _ => False
  end.
Proof. vm_compute. repeat split; reflexivity. Qed.

(** non-vacuity: a small program the checker accepts, with a loop, a temporary and a live set *)
Definition demo : bprog :=
  {| bp_temps := 1; bp_min := 0; bp_max := 1; bp_live := [0; 0; 1; 0; 0];
     bp_code := [Inp 0; BrZ 0 4; Copy (Tmp 0) (Mem 0); Add (Mem 1) (Mem 1) (Tmp 0); BrNZ 1 (-2)] |}.
Example C11_nonvacuous : bc_wf 2 false demo = true /\ written (bp_code demo) 3 1.
Proof.
  split; [vm_compute; reflexivity|].
  change 1 with (Z.lor (Z.lor (Z.lor 0 (defs (Inp 0))) (defs (BrZ 0 4))) (defs (Copy (Tmp 0) (Mem 0)))).
  eapply wr_step with (pc := 2); [|reflexivity|left; reflexivity].
  eapply wr_step with (pc := 1); [|reflexivity|right; left; reflexivity].
  eapply wr_step with (pc := 0); [apply wr_entry|reflexivity|left; reflexivity].
Qed.

Print Assumptions C11_branch_targets.
Print Assumptions C11_cells_in_window.
Print Assumptions C11_temps_in_range.
Print Assumptions C11_defined_before_use.
Print Assumptions C11_live_declared.
Print Assumptions C11_never_leaves_code.
Print Assumptions C11_nonlive_registers_unobservable.

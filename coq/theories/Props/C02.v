(** * C02 — the bytecode the implementation generates behaves like the IR it was generated from,
    for every input: soundness of the translation validator of [TV.v].

    The check C02 (and C03 for the 11-register bytecode the JIT executes) runs the extracted
    [tv_check] on the IR and the bytecode the current build produces for every generated program x
    width x level x generator setting, with a certificate inferred by an untrusted search
    (tools/tvproto.py).  The theorem says what an acceptance means: for every I/O environment
    (inputs, end of input, failing requests) and every fuel, if the IR interpreter model runs the
    IR program to completion or to an I/O failure, the bytecode model does the same with the same
    I/O state — the same interleaved trace of input requests and output bytes.  Together with the
    theorems about the IR side (C01 at level 0) and the engine correspondence (BC.v <-> the
    threaded-code interpreter, form by form) this replaces "the bytecode was run on one input" by
    "the bytecode was validated for all inputs". *)
From Coq Require Import ZArith List Bool.
From HPBF Require Import Cell IO Expr BC IR BCWf TV BCWfProofs BCProofs TVProofs.
Import ListNotations.
Open Scope Z_scope.

Theorem C02_validated_translation : forall w fuse ir (p : bprog) zs cs e budget,
  tv_check w fuse ir (bp_code p) zs cs = true ->
  forall fuel si',
  (ir_run w e false budget fuel ir = Done si' ->
     exists fuel' sb', bc_run w e false budget fuel' p = Done sb' /\ bc_io sb' = ir_io si') /\
  (ir_run w e false budget fuel ir = Stopped si' ->
     exists fuel' sb', bc_run w e false budget fuel' p = Stopped sb' /\ bc_io sb' = ir_io si').
Proof. exact tv_sound. Qed.
Print Assumptions C02_validated_translation.

(** the event trace is part of the I/O state *)
Theorem C02_same_trace : forall w fuse ir (p : bprog) zs cs e budget,
  tv_check w fuse ir (bp_code p) zs cs = true ->
  forall fuel si', ir_run w e false budget fuel ir = Done si' ->
  exists fuel' sb', bc_run w e false budget fuel' p = Done sb' /\ trace (bc_io sb') = trace (ir_io si').
Proof.
  intros w fuse ir p zs cs e budget H fuel si' E.
  destruct (proj1 (tv_sound w fuse ir p zs cs e budget H fuel si') E) as (g & sb' & E1 & E2).
  exists g, sb'. split; [exact E1|rewrite E2; reflexivity].
Qed.
Print Assumptions C02_same_trace.

(** a bytecode program accepted by the well-formedness checker never makes the model fail *)
Theorem C02_wellformed_never_errors : forall num_regs fuse p, bc_wf num_regs fuse p = true ->
  forall w e lim budget fuel, match bc_run w e lim budget fuel p with Errored _ _ => False | _ => True end.
Proof. intros n fz p H w e lim budget fuel. exact (run_safe n fz p H w e lim budget fuel). Qed.
Print Assumptions C02_wellformed_never_errors.

(** non-vacuity: the IR and bytecode of [,>+++<[->[->+<]>.<<,]>>.] at level 1 (8-bit cells, JIT
    setting) with the certificate of its loop (head 3, back edge 7, no facts) is accepted *)
Example C02_accepts_a_loop :
  tv_check 8 false
    (0, [IIn 0; ICalc [(1, [(3, [])])];
         ILoop 0 0 [ICalc [(2, [(1, [1]); (1, [2])])]; IOut 2; IIn 0; ICalc [(1, [])]] false; IOut 2])
    [Inp 0; Copy (Mem 1) (Imm 3); BrZ 0 6; Add (Mem 2) (Mem 2) (Mem 1); Outp 2; Inp 0;
     Copy (Mem 1) (Imm 0); BrNZ 0 (-4); Outp 2] [0; 1; 2]
    [CLoop 3 7 {| f_c := []; f_d := []; f_t := []; f_nz := [] |} {| f_c := []; f_d := []; f_t := []; f_nz := [] |}] = true.
Proof. vm_compute. reflexivity. Qed.

(** ... and a wrong translation of the same IR (the addition reads cell 0 instead of cell 1) is not *)
Example C02_rejects_a_wrong_operand :
  tv_check 8 false
    (0, [IIn 0; ICalc [(1, [(3, [])])];
         ILoop 0 0 [ICalc [(2, [(1, [1]); (1, [2])])]; IOut 2; IIn 0; ICalc [(1, [])]] false; IOut 2])
    [Inp 0; Copy (Mem 1) (Imm 3); BrZ 0 6; Add (Mem 2) (Mem 2) (Mem 0); Outp 2; Inp 0;
     Copy (Mem 1) (Imm 0); BrNZ 0 (-4); Outp 2] [0; 1; 2]
    [CLoop 3 7 {| f_c := []; f_d := []; f_t := []; f_nz := [] |} {| f_c := []; f_d := []; f_t := []; f_nz := [] |}] = false.
Proof. vm_compute. reflexivity. Qed.

(** ** level 0, end to end: from the source text to the bytecode, for every input.
    At level 0 the IR is the parser's output ([Program::optimize(0)] returns it unchanged); composing
    [C01_level0_states] (parser + IR interpreter = canonical semantics, every program) with the
    validator's theorem: if the bytecode generated for the parsed program is accepted, then whenever
    the canonical run of the source terminates (or stops on an I/O failure), the bytecode model ends
    the same way with the same I/O state. *)
From HPBF Require Import BF Parse BigStepProofs Level0Proofs.

Definition same_events_bc (o : outcome bfst) (o' : outcome bcst) : Prop :=
  match o, o' with
  | Done s, Done s' => io s = bc_io s'
  | Stopped s, Stopped s' => io s = bc_io s'
  | _, _ => False
  end.

Theorem C02_level0_source_to_bytecode : forall w e src ast blk fuse (p : bprog) zs cs f o,
  ast_of_source src = Some ast -> parse w src = POk blk ->
  tv_check w fuse blk (bp_code p) zs cs = true ->
  bf_exec w e f ast bf0 = o -> terminal o ->
  exists fuel', same_events_bc o (bc_run w e false 0 fuel' p).
Proof.
  intros w e src ast blk fuse p zs cs f o HA HP HT HO T.
  assert (Hw : 0 <= w) by (unfold tv_check in HT; apply andb_prop in HT; destruct HT as [H _]; apply Z.leb_le; exact H).
  destruct (level0_correct w e src ast f o Hw HA HO T) as (blk' & fi & o' & HP' & HR & SE).
  rewrite HP in HP'. injection HP' as <-.
  destruct o as [s|s|s|q s|s]; try contradiction; destruct o' as [s'|s'|s'|q' s'|s']; try contradiction; cbn [same_events] in SE.
  - destruct (proj1 (tv_sound w fuse blk p zs cs e 0 HT fi s') HR) as (g & sb & E1 & E2).
    exists g. rewrite E1. cbn [same_events_bc]. congruence.
  - destruct (proj2 (tv_sound w fuse blk p zs cs e 0 HT fi s') HR) as (g & sb & E1 & E2).
    exists g. rewrite E1. cbn [same_events_bc]. congruence.
Qed.
Print Assumptions C02_level0_source_to_bytecode.

(** ** the converse, and divergence
    A bytecode run that ends (normally or on an I/O failure) is matched by an IR run that ends the
    same way with the same I/O state: every loop iteration of the IR costs the bytecode at least one
    branch, so the bytecode cannot end while the IR keeps running.  Hence on an accepted pair the two
    runs end together, with equal traces, or diverge together. *)
Theorem C02_validated_translation_converse : forall w fuse ir (p : bprog) zs cs e budget,
  tv_check w fuse ir (bp_code p) zs cs = true ->
  forall fuel sb',
  (bc_run w e false budget fuel p = Done sb' ->
     exists fuel' si', ir_run w e false budget fuel' ir = Done si' /\ ir_io si' = bc_io sb') /\
  (bc_run w e false budget fuel p = Stopped sb' ->
     exists fuel' si', ir_run w e false budget fuel' ir = Stopped si' /\ ir_io si' = bc_io sb').
Proof. exact tv_sound_back. Qed.
Print Assumptions C02_validated_translation_converse.

Definition ends {A} (o : outcome A) : Prop := match o with Done _ | Stopped _ => True | _ => False end.

Theorem C02_divergence_preserved : forall w fuse ir (p : bprog) zs cs e budget,
  tv_check w fuse ir (bp_code p) zs cs = true ->
  ((forall fuel, ~ ends (ir_run w e false budget fuel ir)) <-> (forall fuel, ~ ends (bc_run w e false budget fuel p))).
Proof.
  intros w fuse ir p zs cs e budget H. split; intros D fuel E.
  - destruct (bc_run w e false budget fuel p) as [sb|sb|sb|q sb|sb] eqn:R; try contradiction.
    + destruct (proj1 (tv_sound_back w fuse ir p zs cs e budget H fuel sb) R) as (f & si & EI & _).
      apply (D f). rewrite EI. exact I.
    + destruct (proj2 (tv_sound_back w fuse ir p zs cs e budget H fuel sb) R) as (f & si & EI & _).
      apply (D f). rewrite EI. exact I.
  - destruct (ir_run w e false budget fuel ir) as [si|si|si|q si|si] eqn:R; try contradiction.
    + destruct (proj1 (tv_sound w fuse ir p zs cs e budget H fuel si) R) as (g & sb & EB & _).
      apply (D g). rewrite EB. exact I.
    + destruct (proj2 (tv_sound w fuse ir p zs cs e budget H fuel si) R) as (g & sb & EB & _).
      apply (D g). rewrite EB. exact I.
Qed.
Print Assumptions C02_divergence_preserved.

(** level 0, end to end, divergence: a source text whose canonical run never ends (cell width >= 1)
    gives accepted level-0 bytecode that never ends either *)
From HPBF Require Import Level0Back.
Theorem C02_level0_source_divergence : forall w e src ast blk fuse (p : bprog) zs cs,
  1 <= w -> ast_of_source src = Some ast -> parse w src = POk blk ->
  tv_check w fuse blk (bp_code p) zs cs = true ->
  (forall f, ~ terminal (bf_exec w e f ast bf0)) ->
  forall fuel, ~ ends (bc_run w e false 0 fuel p).
Proof.
  intros w e src ast blk fuse p zs cs Hw HA HP HT D.
  apply (proj1 (C02_divergence_preserved w fuse blk p zs cs e 0 HT)).
  intros fuel E. apply (level0_divergence w e src ast blk Hw HA HP D fuel).
  destruct (ir_run w e false 0 fuel blk); try contradiction; exact I.
Qed.
Print Assumptions C02_level0_source_divergence.

(** * C17 — tape growth failure aborts cleanly instead of corrupting memory (model level). *)
From Coq Require Import ZArith List Bool.
From HPBF Require Import Tape TapeProofs.
Import ListNotations.
Open Scope Z_scope.

(** for every history and every sequence of allocator answers: no raw index outside the owned
    buffer is ever dereferenced *)
Theorem C17_alloc_fail_safe : forall pol, PolicyOK pol -> forall ops allocs,
  ops_small ops 0 = true ->
  match t_run pol ops allocs rtape0 with RawOob _ => False | _ => True end.
Proof. exact alloc_fail_safe. Qed.

(** a refused growth request ends the run there *)
Theorem C17_alloc_fail_stops : forall pol t a b rest allocs,
  grows t a b = true ->
  t_run pol (TAcc a b :: rest) (false :: allocs) t = AllocFail \/
  t_run pol (TAcc a b :: rest) (false :: allocs) t = TooLarge.
Proof. exact alloc_fail_stops. Qed.

Example C17_nonvacuous :
  t_run rust_policy [TWrite 0 1; TWrite (-50) 2; TRead 0] [true; false] rtape0 = AllocFail.
Proof. vm_compute. reflexivity. Qed.

Print Assumptions C17_alloc_fail_safe.
Print Assumptions C17_alloc_fail_stops.

(** * C01 (level 0) — the unoptimised pipeline is correct for every program, input and width.

    [Parse.parse] is the model of [ir::Program::parse] (compared structurally with the
    implementation on every run of the C12 check), [IR.ir_exec] the model of the IR interpreter
    (compared with the implementation on every run of the C01 check), [BF.bf_exec] the canonical
    semantics.  At level 0 [Program::optimize] returns the parsed program unchanged.  Levels
    1..3 are decided per program by translation validation (see DESIGN.md). *)
From Coq Require Import ZArith List Bool.
From HPBF Require Import Cell IO BF Expr IR Parse BigStepProofs Level0Proofs Level0Back.
Import ListNotations.
Open Scope Z_scope.

(** whenever the canonical run of a valid program terminates (or is stopped by an I/O failure,
    which is the C08 side), the parser accepts the text and the IR interpreter, run on the
    parser's output, terminates the same way with exactly the same event trace *)
Theorem C01_level0 : forall w e src p f o, 0 <= w ->
  ast_of_source src = Some p -> bf_exec w e f p bf0 = o -> terminal o ->
  exists blk fi, parse w src = POk blk /\
    events ir_io (ir_run w e false 0 fi blk) = events io o /\
    finished_flag (ir_run w e false 0 fi blk) = true.
Proof. exact level0_events. Qed.

(** the same with the final states related: same termination class, same I/O state *)
Theorem C01_level0_states : forall w e src p f o, 0 <= w ->
  ast_of_source src = Some p -> bf_exec w e f p bf0 = o -> terminal o ->
  exists blk fi o', parse w src = POk blk /\ ir_run w e false 0 fi blk = o' /\ same_events o o'.
Proof. exact level0_correct. Qed.

(** conversely (cell width >= 1): whenever the IR interpreter ends on the parser's output, the
    canonical run ends the same way with the same events — so at level 0 the two runs agree
    whenever either of them ends *)
Theorem C01_level0_converse : forall w e src p blk fi o', 1 <= w ->
  ast_of_source src = Some p -> parse w src = POk blk ->
  ir_run w e false 0 fi blk = o' -> iterminal o' ->
  exists f o, bf_exec w e f p bf0 = o /\ terminal o /\ same_events o o'.
Proof. exact level0_backward. Qed.

(** the hypotheses are satisfiable by a program that exercises delayed increments, a moving loop,
    a [-]-like loop, input and output:  ,[->++<]>.[-]<+[>]  on input "!" *)
Definition demo_src : list Z := [44; 91; 45; 62; 43; 43; 60; 93; 62; 46; 91; 45; 93; 60; 43; 91; 62; 93].
Definition demo_env : env := {| input := [33]; in_absent := false; in_fail_at := None; out_present := true; out_fail_at := None |}.
Example C01_level0_nonvacuous :
  exists p, ast_of_source demo_src = Some p /\ terminal (bf_exec 8 demo_env 400 p bf0) /\
    events io (bf_exec 8 demo_env 400 p bf0) = [EvIn 33; EvOut 66].
Proof. eexists. split; [vm_compute; reflexivity|]. split; vm_compute; [exact I|reflexivity]. Qed.

Print Assumptions C01_level0.
Print Assumptions C01_level0_states.
Print Assumptions C01_level0_converse.

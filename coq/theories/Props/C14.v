(** * C14 — cell arithmetic helpers meet their algebraic contracts at every width.
    Only statements, [exact]-proofs and assumption audits live here. *)
From Coq Require Import ZArith.
From HPBF Require Import Cell CellProofs.
Open Scope Z_scope.

Theorem C14_wdiv : forall w n d, 1 <= w -> 0 <= n < 2 ^ w -> 0 <= d < 2 ^ w ->
  match wdiv w n d with
  | Some x => 0 <= x < 2 ^ w /\ (x * d) mod 2 ^ w = n /\ forall y, 0 <= y < x -> (y * d) mod 2 ^ w <> n
  | None => forall x, (x * d) mod 2 ^ w <> n
  end.
Proof. exact wdiv_spec. Qed.

Theorem C14_wdiv_no_underflow : forall w n d, 1 <= w -> 0 <= n < 2 ^ w -> 0 <= d < 2 ^ w ->
  wdiv_reaches_sub w n d = true -> 0 <= w - tz w d - 1 /\ 0 <= w - tz w d.
Proof. exact wdiv_no_underflow. Qed.

Theorem C14_winv : forall w x, 1 <= w -> 0 <= x < 2 ^ w ->
  match winv w x with
  | Some y => Z.odd x = true /\ 0 <= y < 2 ^ w /\ (x * y) mod 2 ^ w = 1
  | None => Z.odd x = false /\ forall y, (x * y) mod 2 ^ w <> 1
  end.
Proof. exact winv_spec. Qed.

Theorem C14_wpow : forall w b e, 1 <= w -> 0 <= e < 2 ^ w ->
  wpow w b e = (b ^ e) mod 2 ^ w /\ wpow w b e = wpow_iter w b (Z.to_nat e).
Proof. intros w b e Hw He. split; [exact (wpow_spec w b e Hw He)|exact (wpow_repeated_mul w b e Hw He)]. Qed.

Theorem C14_conv_u64 : forall w c, 1 <= w -> 0 <= c < 2 ^ w -> from_u64 w (into_u64 w c) = c.
Proof. exact from_u64_into_u64. Qed.

Theorem C14_conv_i64 : forall w c, 1 <= w -> 0 <= c < 2 ^ w ->
  - 2 ^ (w - 1) <= into_i64 w c < 2 ^ (w - 1) /\ (into_i64 w c) mod 2 ^ w = c.
Proof. exact into_i64_sign. Qed.

Theorem C14_conv_i16 : forall w v, 16 <= w <= 64 -> -32768 <= v <= 32767 ->
  try_into_i16 w (from_i16 w v) = Some v.
Proof. exact from_i16_try_into_i16. Qed.

Theorem C14_conv_i16_w8 : forall c, 0 <= c < 256 ->
  try_into_i16 8 c = Some (if c <? 128 then c else c - 256).
Proof. exact try_into_i16_w8. Qed.

Theorem C14_conv_u8 : forall w c, 8 <= w -> 0 <= c < 2 ^ w ->
  into_u8 w c = c mod 256 /\ (forall b, 0 <= b < 256 -> into_u8 w (from_u8 w b) = b).
Proof. exact into_u8_low8. Qed.

(** non-vacuity: concrete instances at each implemented width *)
Example C14_nonvacuous :
  wdiv 8 8 7 = Some 184 /\ wdiv 8 32 64 = None /\ wdiv 16 4660 6 = Some 22622 /\
  wdiv 32 305419896 24 = Some 12725829 /\ wdiv 64 81985529216486895 9 = Some 6158024194482793527 /\
  winv 64 3 = Some 12297829382473034411 /\ wpow 32 3 100 = 3476558801 /\
  wdiv_reaches_sub 8 8 7 = true.
Proof. vm_compute. repeat split; reflexivity. Qed.

Print Assumptions C14_wdiv.
Print Assumptions C14_wdiv_no_underflow.
Print Assumptions C14_winv.
Print Assumptions C14_wpow.
Print Assumptions C14_conv_u64.
Print Assumptions C14_conv_i64.
Print Assumptions C14_conv_i16.
Print Assumptions C14_conv_i16_w8.
Print Assumptions C14_conv_u8.

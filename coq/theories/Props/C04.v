(** * C04 — the in-place interpreter implements canonical Brainfuck. *)
From Coq Require Import ZArith List Bool.
From HPBF Require Import Cell IO BF Machines Inplace MachineProofs InplaceProofs.
Import ListNotations.

(** For every width, environment and balanced source text: the in-place machine halts (normally
    or stopped by an I/O failure) iff the canonical machine does, and then with the same tape,
    pointer and complete I/O event log. *)
Theorem C04_inplace_canonical : forall w e src p, ast_of_source src = Some p ->
  let c0 := {| c_ctl := p; c_kont := []; c_st := bf0 |} in
  (forall m, halted (ip_run w e false 0 m src) -> exists n, same_result (bf_steps w e n c0) (ip_run w e false 0 m src))
  /\ (forall n, halted (bf_steps w e n c0) -> exists m, same_result (bf_steps w e n c0) (ip_run w e false 0 m src)).
Proof. exact inplace_canonical. Qed.

(** While it runs, the in-place machine's state (hence its event log) is always the state of the
    canonical machine after at most as many steps: its partial traces are canonical partial traces. *)
Theorem C04_inplace_prefix : forall w e total m c rest i, rel c rest i ->
  (exists n c' rest' i', (n <= m)%nat /\ bf_cfg_after w e n c = Some c' /\ rel c' rest' i' /\
        ip_exec w e false total m rest i = OutOfFuel i')
  \/ halted (ip_exec w e false total m rest i).
Proof. exact inplace_prefix. Qed.

(** the forward scan over a skipped loop stops exactly after the matching ']' *)
Theorem C04_scan_skips_matching : forall r body r2, parses r body (ch_close :: r2) -> ip_scan r O = r2.
Proof. exact scan_skips_matching. Qed.

(** on any byte string every step is defined; the only error is an unopened ']' *)
Theorem C04_inplace_total : forall w e total rest s,
  match ip_step w e total rest s with
  | inr (Errored _ _) => exists r, rest = ch_close :: r /\ ip_stack s = []
  | inr (OutOfFuel _) | inr (Interrupted _) => False
  | _ => True
  end.
Proof. exact inplace_total. Qed.

Example C04_nonvacuous :
  ast_of_source [43; 43; 91; 62; 43; 120; 60; 45; 93; 62; 46] = Some [Inc; Inc; Loop [Right; Inc; Left; Dec]; Right; Out].
Proof. vm_compute. reflexivity. Qed.

Print Assumptions C04_inplace_canonical.
Print Assumptions C04_inplace_prefix.
Print Assumptions C04_scan_skips_matching.
Print Assumptions C04_inplace_total.

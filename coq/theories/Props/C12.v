(** * C12 — the parser accepts exactly balanced programs and ignores non-command text. *)
From Coq Require Import ZArith List Bool.
From HPBF Require Import Cell IO BF Expr IR Parse ParseProofs.
Import ListNotations.
Open Scope Z_scope.

(** acceptance: for every width and every string of scalar values *)
Theorem C12_parse_accepts_iff : forall w cs, (exists b, parse w cs = POk b) <-> balanced cs = true.
Proof. exact parse_accepts_iff. Qed.

(** error kind and (character) position: [scan] is the specification — a stack of '[' positions;
    an unmatched ']' is reported where it stands, otherwise the innermost unclosed '[' *)
Theorem C12_parse_verdict : forall w cs, verdict (parse w cs) = scan cs 0 [].
Proof. exact parse_verdict. Qed.

(** inserting or deleting non-command characters changes neither acceptance, nor the error kind,
    nor the IR *)
Theorem C12_comment_insensitive : forall w cs, shape (parse w cs) = shape (parse w (filter is_cmd cs)).
Proof. exact parse_comment_insensitive. Qed.

(** bytes of multi-byte UTF-8 sequences (all >= 0x80) are never commands *)
Theorem C12_noncmd_above_ascii : forall c, 128 <= c -> is_cmd c = false.
Proof. exact noncmd_above_ascii. Qed.

Example C12_nonvacuous :
  verdict (parse 8 [43; 91; 8364; 93; 93; 91]) = Some (LoopNotOpened, 4) /\
  verdict (parse 8 [91; 43; 91; 45; 93; 128512]) = Some (LoopNotClosed, 0) /\
  shape (parse 8 [43; 955; 91; 45; 93; 46]) = shape (parse 8 [43; 91; 45; 93; 46]) /\
  balanced [43; 91; 45; 93; 46] = true.
Proof. vm_compute. repeat split; reflexivity. Qed.

Print Assumptions C12_parse_accepts_iff.
Print Assumptions C12_parse_verdict.
Print Assumptions C12_comment_insensitive.
Print Assumptions C12_noncmd_above_ascii.

(** * C09 — the tape API is an unbounded zero-initialised array under any call history. *)
From Coq Require Import ZArith List Bool.
From HPBF Require Import Tape TapeProofs.
Import ListNotations.
Open Scope Z_scope.

(** for every growth policy satisfying the contract (and the one in the code does), every
    history within the magnitude guard: reads return the most recently written value (0 if
    never written) and every cell of a requested or written range tests accessible *)
Theorem C09_tape_refines : forall pol, PolicyOK pol -> forall ops allocs obs tf,
  ops_small ops 0 = true -> t_run pol ops allocs rtape0 = TOk (obs, tf) ->
  all_match obs (fst (s_run ops spec0)) = true.
Proof. exact tape_refines. Qed.

Theorem C09_rust_policy_ok : PolicyOK rust_policy.
Proof. exact rust_policy_ok. Qed.

Theorem C09_raw_in_bounds : forall pol, PolicyOK pol -> forall ops allocs i,
  ops_small ops 0 = true -> t_run pol ops allocs rtape0 <> RawOob i.
Proof. exact raw_in_bounds. Qed.

Theorem C09_read_pure : forall pol o rest allocs t,
  t_run pol (TRead o :: rest) allocs t =
  match t_run pol rest allocs t with
  | TOk (obs, tf) => TOk (ORead (t_read t o) :: obs, tf)
  | RawOob i => RawOob i | TooLarge => TooLarge | AllocFail => AllocFail
  end.
Proof. exact read_pure. Qed.

Theorem C09_accessible_after : forall pol t s base a b ok t', PolicyOK pol -> Inv t s base ->
  t_make_accessible pol ok t a b = TOk t' ->
  forall k, - MAG <= k <= MAG -> a <= k < b -> t_check t' k = true.
Proof. exact accessible_after. Qed.

Theorem C09_grow_preserves : forall pol t s base a b ok t', PolicyOK pol -> Inv t s base ->
  t_make_accessible pol ok t a b = TOk t' ->
  forall k, - MAG <= k <= MAG -> t_read t' k = t_read t k.
Proof. exact grow_preserves. Qed.

(** non-vacuity: a history that grows below, above and on both sides at once *)
Example C09_nonvacuous :
  let ops := [TWrite 0 7; TMov (-3); TWrite 0 9; TAcc (-20) 40; TRead 3; TCheck 39; TCheck (-20); TMov 100; TRead (-97); TWrite 5 1; TRead 5] in
  ops_small ops 0 = true /\
  match t_run rust_policy ops [] rtape0 with
  | TOk (obs, tf) => obs = [ONone; ONone; ONone; ONone; ORead 7; OCheck true; OCheck true; ONone; ORead 7; ONone; ORead 1] /\ t_size tf = 126
  | _ => False
  end.
Proof. vm_compute. repeat split; reflexivity. Qed.

Print Assumptions C09_tape_refines.
Print Assumptions C09_rust_policy_ok.
Print Assumptions C09_raw_in_bounds.
Print Assumptions C09_read_pure.
Print Assumptions C09_accessible_after.
Print Assumptions C09_grow_preserves.

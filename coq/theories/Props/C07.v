(** * C07 (IR interpreter) — budget-limited execution is a faithful finite prefix of the
    unlimited execution, returns within a depth bounded by program size + budget, and equals the
    unlimited execution once the budget is large enough.

    [IR.ir_exec w e true]  is the model of [execute_block::<_, true>]  ([execute_limited]),
    [IR.ir_exec w e false] the model of [execute_block::<_, false>] ([execute]); both are compared
    with the implementation on every run of the C01/C07 checks.  How the unlimited IR run relates
    to the canonical run is C01 (theorem for level 0, validation per program above). *)
From Coq Require Import ZArith List Bool Lia.
From HPBF Require Import Cell IO BF Expr IR BC Level0Proofs LimitedProofs BCProofs X86Mov X86MovProofs.
Import ListNotations.
Open Scope Z_scope.

(** "finished" with events E  ==>  the unlimited run ends the same way with exactly E *)
Theorem C07_ir_finished_is_complete : forall w e f p s g, (f <= g)%nat ->
  match ir_exec w e true f p s with
  | Done _ | Stopped _ =>
      oeq (ir_exec w e false g p s) (ir_exec w e true f p s) /\
      events ir_io (ir_exec w e false g p s) = events ir_io (ir_exec w e true f p s)
  | _ => True
  end.
Proof.
  intros w e f p s g L. pose proof (limited_prefix w e f p s g L) as H.
  destruct (ir_exec w e true f p s) as [a|a|a|q a|a]; try exact I; cbn [LP] in H;
    (split; [exact H|unfold events; rewrite (oeq_io _ _ H); reflexivity]).
Qed.

(** "not finished"  ==>  the budget is used up and the events are a prefix of those of the
    unlimited run, whatever fuel (>= the fuel of the limited run) the latter is given *)
Theorem C07_ir_interrupted_is_prefix : forall w e f p s g s', (f <= g)%nat ->
  ir_exec w e true f p s = Interrupted s' ->
  ir_budget s' = 0 /\
  exists later, events ir_io (ir_exec w e false g p s) = events ir_io (Interrupted s') ++ later.
Proof.
  intros w e f p s g s' L H. pose proof (limited_prefix w e f p s g L) as P. rewrite H in P.
  destruct P as [B [l X]]. split; [exact B|]. exists (rev l). unfold events. cbn [outcome_state].
  rewrite X, rev_app_distr. reflexivity.
Qed.

(** the limited run always returns: fuel (= recursion depth of the interpreter) proportional to
    program size + budget suffices, whatever the program does *)
Theorem C07_ir_returns : forall w e f p s, 0 <= ir_budget s ->
  (bsize p + Z.to_nat (ir_budget s) + 1 <= f)%nat ->
  match ir_exec w e true f p s with OutOfFuel _ | Errored _ _ => False | _ => True end.
Proof.
  intros w e f p s B L. pose proof (limited_total w e f p s B L) as T.
  destruct (exec_budget w e true f p s B) as [_ N].
  destruct (ir_exec w e true f p s); try contradiction; exact I.
Qed.

(** a terminating run is reported as finished, with the same state, by every large enough budget *)
Theorem C07_ir_large_budget : forall w e f p s o, ir_exec w e false f p s = o -> iterminal o ->
  exists n, 0 <= n /\ forall b, n <= b ->
    ir_exec w e true f p (ir_set_budget s b) = with_budget o (b - n) /\
    finished_flag (ir_exec w e true f p (ir_set_budget s b)) = true.
Proof.
  intros w e f p s o H T. destruct (big_budget w e f p s o H T) as (n & N & HN).
  exists n. split; [exact N|]. intros b Lb. split; [apply HN; exact Lb|]. rewrite (HN b Lb).
  destruct o; try contradiction; reflexivity.
Qed.

(** a divergent program is never reported as finished: finished means the unlimited run ended *)
Corollary C07_ir_divergent_never_finished : forall w e p s,
  (forall g, match ir_exec w e false g p s with Done _ | Stopped _ => False | _ => True end) ->
  forall f, match ir_exec w e true f p s with Done _ | Stopped _ => False | _ => True end.
Proof.
  intros w e p s D f. pose proof (limited_prefix w e f p s f (le_n f)) as P. specialize (D f).
  destruct (ir_exec w e true f p s) as [a|a|a|q a|a]; try exact I; cbn [LP] in P;
    destruct (ir_exec w e false f p s); try contradiction.
Qed.

(** ** bytecode interpreter ([BC.bc_run] with [limited = true]: [limit 1] before every branch,
    [limit usize::MAX] before an entered stationary scan, early exit on budget 0) *)
Theorem C07_bc_limited_is_prefix : forall w e p budget f,
  match bc_run w e true budget f p with
  | Done s' => bc_run w e false budget f p = Done (bc_set_budget s' budget)
  | Stopped s' => bc_run w e false budget f p = Stopped (bc_set_budget s' budget)
  | Interrupted s' =>
      exists later, events bc_io (bc_run w e false budget f p) = events bc_io (Interrupted s') ++ later
  | _ => True
  end.
Proof.
  intros w e p budget f. unfold bc_run. cbn [andb].
  destruct (budget =? 0) eqn:B0.
  - exists (events bc_io (bc_exec w e false (fetch_of p) (Z.of_nat (length (bp_code p))) f (bc0 budget))). reflexivity.
  - pose proof (bc_limited_prefix w e (fetch_of p) (Z.of_nat (length (bp_code p))) f (bc0 budget) budget) as H.
    change (sb (bc0 budget) budget) with (bc0 budget) in H.
    destruct (bc_exec w e true (fetch_of p) (Z.of_nat (length (bp_code p))) f (bc0 budget)) as [a|a|a|q a|a]; cbn [LPb] in H; try exact I; try exact H.
    destruct H as [_ [l X]]. exists (rev l). unfold events. cbn [outcome_state]. rewrite X, rev_app_distr. reflexivity.
Qed.

(** ** baseline JIT: the budget check emitted before every branch in limited mode takes the same
    decision as the bytecode model's [bc_limit 1] — out through the termination path iff the budget
    is at most 1, otherwise the budget is decremented (64-bit unsigned comparison) *)
Theorem C07_jit_limit_template : forall code st, limit_ok code = true -> 0 <= l_budget st < 2 ^ 64 ->
  snd (lrun code st) = (l_budget st <=? 1) /\
  (snd (lrun code st) = false -> l_budget (fst (lrun code st)) = l_budget st - 1).
Proof. exact limit_ok_sound. Qed.

(** non-vacuity:  +[>+.<]  style loop ( cell0 := 3; while cell0 { cell1 += 1; out cell1; cell0 -= 1 } )
    interrupted by budget 1, finished by budget 5 *)
Definition demo : list instr :=
  [ICalc [(0, [(3, [])])];
   ILoop 0 0 [ICalc [(1, [(1, []); (1, [1])])]; IOut 1; ICalc [(0, [(255, []); (1, [0])])]] false].
Definition demo_env : env := {| input := []; in_absent := false; in_fail_at := None; out_present := true; out_fail_at := None |}.
Example C07_nonvacuous :
  events ir_io (ir_exec 8 demo_env true 50 demo (ir0 1)) = [EvOut 1; EvOut 2] /\
  finished_flag (ir_exec 8 demo_env true 50 demo (ir0 1)) = false /\
  events ir_io (ir_exec 8 demo_env true 50 demo (ir0 5)) = [EvOut 1; EvOut 2; EvOut 3] /\
  finished_flag (ir_exec 8 demo_env true 50 demo (ir0 5)) = true /\
  events ir_io (ir_exec 8 demo_env false 50 demo (ir0 0)) = [EvOut 1; EvOut 2; EvOut 3].
Proof. vm_compute. repeat split; reflexivity. Qed.

Print Assumptions C07_ir_finished_is_complete.
Print Assumptions C07_ir_interrupted_is_prefix.
Print Assumptions C07_ir_returns.
Print Assumptions C07_ir_large_budget.
Print Assumptions C07_bc_limited_is_prefix.
Print Assumptions C07_jit_limit_template.

(** * Extract.v — the single extraction file.  [ExtrOcamlBasic] only; [Z], [positive],
    [N] and [nat] stay inductive.  No [Extract Constant]. *)
From Coq Require Import ZArith List Extraction ExtrOcamlBasic.
From HPBF Require Import Cell.
Extraction Language OCaml.
Extraction "extract/model.ml"
  Cell.wadd Cell.wmul Cell.wneg Cell.wand Cell.wshr Cell.wshl Cell.tz Cell.is_odd
  Cell.wpow Cell.winv Cell.wdiv Cell.wdiv_reaches_sub
  Cell.from_u64 Cell.into_u64 Cell.into_i64 Cell.from_u8 Cell.into_u8 Cell.from_i16 Cell.try_into_i16.

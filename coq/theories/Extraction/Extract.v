(** * Extract.v — the single extraction file.  [ExtrOcamlBasic] only; [Z], [positive],
    [N] and [nat] stay inductive.  No [Extract Constant]. *)
From Coq Require Import ZArith List Extraction ExtrOcamlBasic.
From HPBF Require Import Cell IO BF Expr Inplace IR BC Parse Machines Tape SmallVec BCWf BCRaw X86 X86Call X86Mov TV Cli Forms.
Extraction Language OCaml.
Extraction "extract/model.ml"
  Cell.wadd Cell.wmul Cell.wneg Cell.wand Cell.wshr Cell.wshl Cell.tz Cell.is_odd
  Cell.wpow Cell.winv Cell.wdiv Cell.wdiv_reaches_sub
  Cell.from_u64 Cell.into_u64 Cell.into_i64 Cell.from_u8 Cell.into_u8 Cell.from_i16 Cell.try_into_i16
  IO.do_input IO.do_output IO.io0 IO.outcome_state IO.tget IO.tset IO.tempty
  BF.bf_run BF.ast_of_source BF.balanced BF.bf_exec BF.bf0 BF.events
  Expr.e_val Expr.e_var Expr.eval Expr.e_add Expr.e_mul Expr.e_neg Expr.e_half Expr.e_normalize
  Expr.e_is_zero Expr.e_add_count Expr.e_op_count Expr.e_constant Expr.e_inc_of Expr.e_prod_inc_of
  Expr.e_const_inc_of Expr.e_prod_of Expr.e_constant_part Expr.e_identity Expr.e_variables
  Expr.e_split_along Expr.e_symb_evaluate Expr.shape_ok_b
  Inplace.ip_run
  IR.ir_run IR.finished_flag
  BC.bc_run
  Parse.parse
  Machines.bf_machine_run Machines.ir_machine_run Machines.bf_step Machines.cfg_equiv Machines.cert_ok Machines.bf_cfg_after
  Tape.t_run Tape.rust_policy Tape.rtape0 Tape.s_run Tape.spec0 Tape.all_match Tape.ops_small
  SmallVec.sv_run SmallVec.sstate0 SmallVec.sv_final
  BCWf.bc_wf BCWf.bc_wf_why BCWf.live_regs_ok
  BCRaw.r_run BCRaw.r_spec BCRaw.rops_ok
  X86.form_ok X86.srun X86.sst0 X86.form_spec X86.same_poly
  X86Call.call_ok X86Call.yrun X86Call.ksym0 X86Call.br_ok
  TV.tv_check TV.tv_block TV.st0
  X86Mov.mov_ok X86Mov.mov_template X86Mov.limit_ok X86Mov.frame_ok X86Mov.mov_unsafe_ok
  Cli.cli_run Cli.decide Cli.spec_table Cli.spec_defaults Cli.spec_widths
  Forms.reorder Forms.jit_covers Forms.int_covers Forms.pre_shape Forms.unzero_instr.

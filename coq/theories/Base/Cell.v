(** * Cell.v — model of the [CellType] helpers of /repo/src/lib.rs (property C14).

    Cells are [Z] values in [[0, 2^w)]; [w] is the cell width in bits (8, 16, 32, 64 in
    the implementation, any [w >= 1] in the theorems).  Each definition mirrors the Rust
    method of the same name line by line; in particular [wshr]/[wshl] return 0 when the
    shift amount reaches the width (the [checked_sh*.unwrap_or(0)] idiom), [tz 0 = w],
    [wpow] is the square-and-multiply loop and [wdiv] has the three branches of
    [wrapping_div] with the same [BITS - shift - 1] / [BITS - shift] expressions.

    This file contains no proofs: it must keep running when a proof breaks. *)

From Coq Require Import ZArith List Bool.
Import ListNotations.
Open Scope Z_scope.

Definition wmod (w : Z) : Z := 2 ^ w.
Definition norm (w x : Z) : Z := x mod 2 ^ w.
Definition neg_one (w : Z) : Z := 2 ^ w - 1.

Definition wadd (w a b : Z) : Z := (a + b) mod 2 ^ w.
Definition wmul (w a b : Z) : Z := (a * b) mod 2 ^ w.
Definition wneg (w a : Z) : Z := (- a) mod 2 ^ w.
Definition wand (a b : Z) : Z := Z.land a b.

(** [checked_shr(by).unwrap_or(0)]: [None] as soon as [by >= BITS]. *)
Definition wshr (w a by_ : Z) : Z := if by_ <? w then Z.shiftr a by_ else 0.
Definition wshl (w a by_ : Z) : Z := if by_ <? w then (Z.shiftl a by_) mod 2 ^ w else 0.

Fixpoint tz_pos (p : positive) : Z :=
  match p with
  | xO p' => 1 + tz_pos p'
  | _ => 0
  end.

(** [trailing_zeros]: the width for 0. *)
Definition tz (w a : Z) : Z :=
  match a with
  | Z0 => w
  | Zpos p => tz_pos p
  | Zneg _ => 0
  end.

(** [self.bitand(ONE) == ONE] *)
Definition is_odd (a : Z) : bool := Z.land a 1 =? 1.

(** [wrapping_pow]: [while exp != 0 { if odd {result *= self}; self *= self; exp >>= 1 }].
    Fuel is the width; exhaustion is impossible for [0 <= exp < 2^w] (theorem [wpow_spec]
    covers it because it characterises the result). *)
Fixpoint wpow_loop (fuel : nat) (w base exp result : Z) : Z :=
  match fuel with
  | O => result
  | S f =>
      if exp =? 0 then result
      else
        let result' := if is_odd exp then wmul w result base else result in
        wpow_loop f w (wmul w base base) (wshr w exp 1) result'
  end.

Definition wpow (w b e : Z) : Z := wpow_loop (Z.to_nat w) w b e 1.

(** [wrapping_inv] *)
Definition winv (w x : Z) : option Z :=
  if is_odd x then
    let tot := wshl w 1 (w - 1) in
    Some (wpow w x (wadd w tot (neg_one w)))
  else None.

(** The subtraction [BITS - shift - 1] is evaluated in [u32]; it underflows (a panic in
    debug builds, a wrap in release builds) iff [shift >= BITS].  [wdiv_guard] is the
    condition under which the third branch of [wrapping_div] evaluates it. *)
Definition wdiv_reaches_sub (w n d : Z) : bool :=
  negb (n =? 0) && negb (tz w n <? tz w d).

(** [wrapping_div] *)
Definition wdiv (w n d : Z) : option Z :=
  let shift := tz w d in
  if n =? 0 then Some 0
  else if tz w n <? shift then None
  else
    let d' := wshr w d shift in
    let tot := wshl w 1 (w - shift - 1) in
    let inv := wpow w d' (wadd w tot (neg_one w)) in
    let result := wmul w inv (wshr w n shift) in
    Some (wand result (wadd w (wshl w 1 (w - shift)) (neg_one w))).

(** Conversions.  [u64]/[i64] are [Z] values in their respective ranges. *)
Definition into_u64 (w c : Z) : Z := c.
Definition from_u64 (w v : Z) : Z := v mod 2 ^ w.
Definition into_i64 (w c : Z) : Z := if c <? 2 ^ (w - 1) then c else c - 2 ^ w.
Definition from_u8 (w v : Z) : Z := from_u64 w v.
Definition into_u8 (w c : Z) : Z := (into_u64 w c) mod 256.
(** [val as i64 as u64] is the value modulo 2^64. *)
Definition from_i16 (w v : Z) : Z := from_u64 w (v mod 2 ^ 64).
Definition try_into_i16 (w c : Z) : option Z :=
  let s := into_i64 w c in
  if (-32768 <=? s) && (s <=? 32767) then Some s else None.

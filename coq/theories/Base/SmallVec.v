(** * SmallVec.v — model of [smallvec::SmallVec<T, N>] (src/smallvec.rs, property C18).

    A vector is either inline (at most [N] initialised slots) or a heap vector; elements are
    [(id, value)] pairs: the value is what [PartialEq]/[Ord] look at, the id identifies the
    object for the drop ledger.  The state holds two vectors (registers [false]/[true]) so that
    clone and comparisons have two operands, the id counter and the list of ids dropped so far.
    Closures of the Rust API enter as data (the list of the predicate's answers). *)

From Coq Require Import ZArith List Bool Arith.
Import ListNotations.

Definition elem := (nat * Z)%type.          (* (id, value) *)

Inductive svec := SInline (l : list elem) | SHeap (l : list elem).
Definition view (v : svec) : list elem := match v with SInline l | SHeap l => l end.
Definition is_heap (v : svec) : bool := match v with SHeap _ => true | SInline _ => false end.

Record sstate := { va : svec; vb : svec; next_id : nat; dropped : list nat }.
Definition sstate0 : sstate := {| va := SInline []; vb := SInline []; next_id := 0; dropped := [] |}.

Definition get (s : sstate) (r : bool) : svec := if r then vb s else va s.
Definition set (s : sstate) (r : bool) (v : svec) : sstate :=
  if r then {| va := va s; vb := v; next_id := next_id s; dropped := dropped s |}
  else {| va := v; vb := vb s; next_id := next_id s; dropped := dropped s |}.
Definition drop_ids (s : sstate) (ids : list nat) : sstate :=
  {| va := va s; vb := vb s; next_id := next_id s; dropped := dropped s ++ ids |}.
Definition ids (l : list elem) : list nat := map fst l.

(** [push] (lines 114-136): inline while [size < N], promotion at [size = N], heap afterwards *)
Definition sv_push (N : nat) (v : svec) (x : elem) : svec :=
  match v with
  | SInline l => if length l <? N then SInline (l ++ [x]) else SHeap (l ++ [x])
  | SHeap l => SHeap (l ++ [x])
  end.

Definition sv_with_capacity (N n : nat) : svec := if n <=? N then SInline [] else SHeap [].

(** the predicate's answers, one per element; missing answers mean "keep" *)
Fixpoint retain_split (l : list elem) (keep : list bool) : list elem * list elem :=
  match l with
  | [] => ([], [])
  | x :: t =>
      let k := match keep with [] => true | b :: _ => b end in
      let '(kept, rej) := retain_split t (tl keep) in
      if k then (x :: kept, rej) else (kept, x :: rej)
  end.

(** [dedup]: keep the first of each run of equal values *)
Fixpoint dedup_split (prev : option Z) (l : list elem) : list elem * list elem :=
  match l with
  | [] => ([], [])
  | x :: t =>
      let dup := match prev with Some p => Z.eqb p (snd x) | None => false end in
      let '(kept, rej) := dedup_split (Some (snd x)) t in
      if dup then (kept, x :: rej) else (x :: kept, rej)
  end.

Definition with_view (v : svec) (l : list elem) : svec :=
  match v with SInline _ => SInline l | SHeap _ => SHeap l end.

(** stable sort by value (slice::sort through DerefMut) *)
Fixpoint insert_elem (x : elem) (l : list elem) : list elem :=
  match l with
  | [] => [x]
  | y :: t => if Z.leb (snd x) (snd y) then x :: l else y :: insert_elem x t
  end.
Definition sort_elems (l : list elem) : list elem := fold_right insert_elem [] l.

(** lexicographic comparison of value slices *)
Fixpoint cmp_vals (a b : list elem) : comparison :=
  match a, b with
  | [], [] => Eq
  | [], _ :: _ => Lt
  | _ :: _, [] => Gt
  | x :: a', y :: b' => match Z.compare (snd x) (snd y) with Eq => cmp_vals a' b' | c => c end
  end.
Definition eq_vals (a b : list elem) : bool := match cmp_vals a b with Eq => true | _ => false end.

Fixpoint fresh (next : nat) (vals : list Z) : list elem :=
  match vals with [] => [] | v :: t => (next, v) :: fresh (S next) t end.

Inductive sop :=
| ONew (r : bool)
| OWithCap (r : bool) (n : nat)
| OPush (r : bool) (val : Z)
| OExtend (r : bool) (vals : list Z)
| OClear (r : bool)
| ORetain (r : bool) (keep : list bool)
| ODedup (r : bool)
| OClone (src : bool)            (* clone [src] into the other register *)
| OEq | OCmp
| OSort (r : bool)
| OIntoIter (r : bool) (take : nat)   (* consume the vector, pull [take] items, abandon the iterator *)
| OIter (r : bool).

Inductive sobs :=
| SView (l : list elem) (heap : bool)   (* contents (and representation) of the touched register *)
| SBool (b : bool)
| SOrd (c : comparison)
| SItems (l : list elem).               (* items handed out by the by-value iterator *)

Definition bump (s : sstate) (n : nat) : sstate :=
  {| va := va s; vb := vb s; next_id := next_id s + n; dropped := dropped s |}.

Definition sv_step (N : nat) (s : sstate) (o : sop) : sstate * sobs :=
  match o with
  | ONew r =>
      let s1 := drop_ids s (ids (view (get s r))) in
      (set s1 r (SInline []), SView [] false)
  | OWithCap r n =>
      let s1 := drop_ids s (ids (view (get s r))) in
      let v := sv_with_capacity N n in (set s1 r v, SView [] (is_heap v))
  | OPush r val =>
      let v := sv_push N (get s r) (next_id s, val) in
      (bump (set s r v) 1, SView (view v) (is_heap v))
  | OExtend r vals =>
      let v := fold_left (sv_push N) (fresh (next_id s) vals) (get s r) in
      (bump (set s r v) (length vals), SView (view v) (is_heap v))
  | OClear r =>
      let v := get s r in
      let s1 := drop_ids s (ids (view v)) in
      let v' := with_view v [] in (set s1 r v', SView [] (is_heap v'))
  | ORetain r keep =>
      let v := get s r in
      let '(kept, rej) := retain_split (view v) keep in
      let v' := with_view v kept in
      (set (drop_ids s (ids rej)) r v', SView kept (is_heap v'))
  | ODedup r =>
      let v := get s r in
      let '(kept, rej) := dedup_split None (view v) in
      let v' := with_view v kept in
      (set (drop_ids s (ids rej)) r v', SView kept (is_heap v'))
  | OClone src =>
      let l := view (get s src) in
      let l' := fresh (next_id s) (map snd l) in
      let v' := if length l <=? N then SInline l' else SHeap l' in
      let s1 := drop_ids s (ids (view (get s (negb src)))) in
      (bump (set s1 (negb src) v') (length l), SView l' (is_heap v'))
  | OEq => (s, SBool (eq_vals (view (va s)) (view (vb s))))
  | OCmp => (s, SOrd (cmp_vals (view (va s)) (view (vb s))))
  | OSort r =>
      let v := get s r in
      let v' := with_view v (sort_elems (view v)) in (set s r v', SView (view v') (is_heap v'))
  | OIntoIter r take =>
      let l := view (get s r) in
      (* handed-out items are dropped by the caller, the rest by the iterator's Drop *)
      (set (drop_ids s (ids (firstn take l) ++ ids (skipn take l))) r (SInline []), SItems (firstn take l))
  | OIter r => (s, SView (view (get s r)) (is_heap (get s r)))
  end.

Fixpoint sv_run (N : nat) (ops : list sop) (s : sstate) : list sobs * sstate :=
  match ops with
  | [] => ([], s)
  | o :: rest =>
      let '(s', ob) := sv_step N s o in
      let '(obs, sf) := sv_run N rest s' in (ob :: obs, sf)
  end.

(** both vectors go out of scope *)
Definition sv_final (s : sstate) : list nat := dropped s ++ ids (view (va s)) ++ ids (view (vb s)).

(** ** specification: the same operations on plain lists ([Vec]) *)
Record lstate := { la : list elem; lb : list elem; lnext : nat }.
Definition lstate0 : lstate := {| la := []; lb := []; lnext := 0 |}.
Definition lget (s : lstate) (r : bool) := if r then lb s else la s.
Definition lset (s : lstate) (r : bool) (l : list elem) : lstate :=
  if r then {| la := la s; lb := l; lnext := lnext s |} else {| la := l; lb := lb s; lnext := lnext s |}.
Definition lbump (s : lstate) (n : nat) : lstate := {| la := la s; lb := lb s; lnext := lnext s + n |}.

Inductive lobs := LView (l : list elem) | LBool (b : bool) | LOrd (c : comparison) | LItems (l : list elem).

Definition l_step (s : lstate) (o : sop) : lstate * lobs :=
  match o with
  | ONew r | OWithCap r _ => (lset s r [], LView [])
  | OPush r val => let l := lget s r ++ [(lnext s, val)] in (lbump (lset s r l) 1, LView l)
  | OExtend r vals => let l := lget s r ++ fresh (lnext s) vals in (lbump (lset s r l) (length vals), LView l)
  | OClear r => (lset s r [], LView [])
  | ORetain r keep => let l := fst (retain_split (lget s r) keep) in (lset s r l, LView l)
  | ODedup r => let l := fst (dedup_split None (lget s r)) in (lset s r l, LView l)
  | OClone src => let l := fresh (lnext s) (map snd (lget s src)) in
                  (lbump (lset s (negb src) l) (length (lget s src)), LView l)
  | OEq => (s, LBool (eq_vals (la s) (lb s)))
  | OCmp => (s, LOrd (cmp_vals (la s) (lb s)))
  | OSort r => let l := sort_elems (lget s r) in (lset s r l, LView l)
  | OIntoIter r take => (lset s r [], LItems (firstn take (lget s r)))
  | OIter r => (s, LView (lget s r))
  end.

Fixpoint l_run (ops : list sop) (s : lstate) : list lobs :=
  match ops with
  | [] => []
  | o :: rest => let '(s', ob) := l_step s o in ob :: l_run rest s'
  end.

Definition obs_erase (o : sobs) : lobs :=
  match o with SView l _ => LView l | SBool b => LBool b | SOrd c => LOrd c | SItems l => LItems l end.

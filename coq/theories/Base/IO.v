(** * IO.v — the execution environment shared by every engine model.

    Mirrors [runtime::Context::input/output] (src/runtime.rs:175-200):
    - no input source  -> the request fails (no [Read] object exists, so nothing is logged);
    - the source returns an error -> the request fails (logged as a failed request);
    - the source returns 0 bytes (end of input) -> the value 0 is delivered;
    - no output sink -> the byte is dropped, execution continues;
    - the sink refuses the byte ([Ok(0)] or [Err]) -> failure (logged as a refused byte). *)

From Coq Require Import ZArith List Bool.
Import ListNotations.
Open Scope Z_scope.

Inductive event :=
| EvIn (b : Z)        (* one-byte request answered with byte b *)
| EvEof               (* one-byte request answered with end of input (reads as 0) *)
| EvInFail            (* one-byte request answered with an error *)
| EvOut (b : Z)       (* byte accepted by the sink *)
| EvOutFail (b : Z).  (* byte refused by the sink *)

Record env := {
  input : list Z;
  in_absent : bool;
  in_fail_at : option nat;    (* index (0-based) of the first failing input request *)
  out_present : bool;
  out_fail_at : option nat    (* index (0-based) of the first refused output byte *)
}.

Record iost := { in_pos : nat; out_cnt : nat; trace : list event (* most recent first *) }.

Definition io0 : iost := {| in_pos := 0; out_cnt := 0; trace := [] |}.

Inductive io_res (A : Type) := IoOk (a : A) (s : iost) | IoFail (s : iost).
Arguments IoOk {A}. Arguments IoFail {A}.

Definition opt_nat_eqb (o : option nat) (n : nat) : bool :=
  match o with Some k => Nat.eqb k n | None => false end.

Definition do_input (e : env) (s : iost) : io_res Z :=
  if in_absent e then IoFail s
  else if opt_nat_eqb (in_fail_at e) (in_pos s) then
    IoFail {| in_pos := S (in_pos s); out_cnt := out_cnt s; trace := EvInFail :: trace s |}
  else
    match nth_error (input e) (in_pos s) with
    | Some b => IoOk b {| in_pos := S (in_pos s); out_cnt := out_cnt s; trace := EvIn b :: trace s |}
    | None => IoOk 0 {| in_pos := S (in_pos s); out_cnt := out_cnt s; trace := EvEof :: trace s |}
    end.

Definition do_output (e : env) (s : iost) (b : Z) : io_res unit :=
  if negb (out_present e) then IoOk tt s
  else if opt_nat_eqb (out_fail_at e) (out_cnt s) then
    IoFail {| in_pos := in_pos s; out_cnt := S (out_cnt s); trace := EvOutFail b :: trace s |}
  else IoOk tt {| in_pos := in_pos s; out_cnt := S (out_cnt s); trace := EvOut b :: trace s |}.

(** Outcomes shared by all engines.  [OutOfFuel] is never a normal-looking value. *)
Inductive outcome (A : Type) :=
| Done (a : A)          (* ran to completion *)
| Stopped (a : A)       (* stopped by an I/O failure *)
| Interrupted (a : A)   (* budget exhausted (limited execution only) *)
| Errored (pos : Z) (a : A)  (* the engine returned Err (in-place: unopened ']' at byte pos) *)
| OutOfFuel (a : A).    (* model fuel exhausted: says nothing about the real run *)
Arguments Done {A}. Arguments Stopped {A}. Arguments Interrupted {A}. Arguments Errored {A}. Arguments OutOfFuel {A}.

Definition outcome_state {A} (o : outcome A) : A :=
  match o with Done a | Stopped a | Interrupted a | Errored _ a | OutOfFuel a => a end.

(** ** The tape: a finite map from cell indices to values, 0 elsewhere. *)
From Coq Require Import FMapPositive.

Definition key_of (k : Z) : positive :=
  match k with
  | Z0 => 1%positive
  | Zpos p => xO p
  | Zneg p => xI p
  end.

Definition tmap := PositiveMap.t Z.
Definition tempty : tmap := PositiveMap.empty Z.
Definition tget (t : tmap) (k : Z) : Z :=
  match PositiveMap.find (key_of k) t with Some v => v | None => 0 end.
Definition tset (t : tmap) (k v : Z) : tmap := PositiveMap.add (key_of k) v t.

(** * Tape.v — model of [runtime::Memory] (src/runtime.rs:34-150, property C09; with the
    allocation oracle, C17).

    [t_buf] is the raw buffer (meaningful on [[0, t_size)]), [t_off] the [usize] offset of the
    current pointer with its wrap modulo 2^64 written out.  Growth is parametrised by a
    [policy] (new size and placement of the old block); [rust_policy] transcribes lines 96-103.
    Every raw index the model dereferences is checked: an index outside [[0, t_size)] is the
    distinct outcome [RawOob]. *)

From Coq Require Import ZArith List Bool.
Import ListNotations.
Open Scope Z_scope.

Definition U64 : Z := 2 ^ 64.
Definition wrap64 (x : Z) : Z := x mod U64.
(** reinterpretation of a [usize] as [isize] *)
Definition to_signed (x : Z) : Z := if x <? 2 ^ 63 then x else x - U64.
Definition SIZE_LIMIT : Z := 2 ^ 62.   (* larger allocations are outside the model *)

Record rtape := { t_buf : Z -> Z; t_size : Z; t_off : Z }.
Definition rtape0 : rtape := {| t_buf := fun _ => 0; t_size := 0; t_off := 0 |}.

Definition policy := Z -> Z -> Z -> Z * Z.   (* size, needed_below, needed_above -> new_size, added_below *)

Definition rust_policy : policy := fun size nb na =>
  let new_size := size + Z.max (size / 2) (nb + na) in
  let added_below :=
    if nb =? 0 then 0
    else if na =? 0 then new_size - size
    else Z.min (Z.max nb ((new_size - size) / 2)) (new_size - size - na) in
  (new_size, added_below).

Inductive tres (A : Type) :=
| TOk (a : A)
| RawOob (idx : Z)        (* the model dereferenced a raw index outside [0, size) *)
| TooLarge                (* allocation beyond SIZE_LIMIT: outside the model *)
| AllocFail.              (* the allocation oracle refused (C17): the run aborts here *)
Arguments TOk {A}. Arguments RawOob {A}. Arguments TooLarge {A}. Arguments AllocFail {A}.

Definition t_mov (t : rtape) (d : Z) : rtape :=
  {| t_buf := t_buf t; t_size := t_size t; t_off := wrap64 (t_off t + d) |}.

Definition t_ptr (t : rtape) (o : Z) : Z := wrap64 (t_off t + o).

Definition t_read (t : rtape) (o : Z) : Z :=
  let p := t_ptr t o in if p <? t_size t then t_buf t p else 0.

Definition t_check (t : rtape) (o : Z) : bool := t_ptr t o <? t_size t.

Definition needed_below (start_ptr : Z) : Z := if start_ptr <? 0 then - start_ptr else 0.
Definition needed_above (end_ptr size : Z) : Z := if size <? end_ptr then end_ptr - size else 0.

(** [alloc_ok] is the allocation oracle: [true] = the allocator returned memory *)
Definition t_make_accessible (pol : policy) (alloc_ok : bool) (t : rtape) (a b : Z) : tres rtape :=
  let start_ptr := to_signed (t_off t) + a in
  let end_ptr := to_signed (t_off t) + b in
  let nb := needed_below start_ptr in
  let na := needed_above end_ptr (t_size t) in
  if (nb =? 0) && (na =? 0) then TOk t
  else
    let '(new_size, added_below) := pol (t_size t) nb na in
    if SIZE_LIMIT <=? new_size then TooLarge
    else if negb alloc_ok then AllocFail
    else
      let old := t_buf t in
      let sz := t_size t in
      TOk {| t_buf := fun i => if (added_below <=? i) && (i <? added_below + sz) then old (i - added_below) else 0;
             t_size := new_size;
             t_off := wrap64 (t_off t + added_below) |}.

Definition t_raw_write (t : rtape) (p v : Z) : tres rtape :=
  if (0 <=? p) && (p <? t_size t) then
    TOk {| t_buf := fun i => if i =? p then v else t_buf t i; t_size := t_size t; t_off := t_off t |}
  else RawOob p.

Definition t_write (pol : policy) (alloc_ok : bool) (t : rtape) (o v : Z) : tres rtape :=
  let p := t_ptr t o in
  if p <? t_size t then t_raw_write t p v
  else
    match t_make_accessible pol alloc_ok t o (o + 1) with
    | TOk t' => t_raw_write t' (t_ptr t' o) v
    | RawOob i => RawOob i
    | TooLarge => TooLarge
    | AllocFail => AllocFail
    end.

(** ** histories *)
Inductive top := TMov (d : Z) | TRead (o : Z) | TWrite (o v : Z) | TAcc (a b : Z) | TCheck (o : Z).
Inductive tobs := ORead (v : Z) | OCheck (b : bool) | ONone.

(** [allocs]: answers of the allocation oracle for successive allocation requests
    (exhausted list = success) *)
Definition next_alloc (allocs : list bool) : bool * list bool :=
  match allocs with [] => (true, []) | x :: r => (x, r) end.

Definition grows (t : rtape) (a b : Z) : bool :=
  negb ((needed_below (to_signed (t_off t) + a) =? 0) && (needed_above (to_signed (t_off t) + b) (t_size t) =? 0)).

Fixpoint t_run (pol : policy) (ops : list top) (allocs : list bool) (t : rtape) : tres (list tobs * rtape) :=
  match ops with
  | [] => TOk ([], t)
  | op :: rest =>
      let continue (o : tobs) (t' : rtape) (allocs' : list bool) :=
        match t_run pol rest allocs' t' with
        | TOk (obs, tf) => TOk (o :: obs, tf)
        | RawOob i => RawOob i | TooLarge => TooLarge | AllocFail => AllocFail
        end in
      match op with
      | TMov d => continue ONone (t_mov t d) allocs
      | TRead o => continue (ORead (t_read t o)) t allocs
      | TCheck o => continue (OCheck (t_check t o)) t allocs
      | TAcc a b =>
          let '(ok, allocs') := if grows t a b then next_alloc allocs else (true, allocs) in
          match t_make_accessible pol ok t a b with
          | TOk t' => continue ONone t' allocs'
          | RawOob i => RawOob i | TooLarge => TooLarge | AllocFail => AllocFail
          end
      | TWrite o v =>
          let '(ok, allocs') := if t_check t o then (true, allocs) else next_alloc allocs in
          match t_write pol ok t o v with
          | TOk t' => continue ONone t' allocs'
          | RawOob i => RawOob i | TooLarge => TooLarge | AllocFail => AllocFail
          end
      end
  end.

(** ** specification: an unbounded zero-initialised array with a logical pointer, plus the
    set of logical cells that have been requested or written (these must test accessible) *)
Record tspec := { s_cells : Z -> Z; s_pos : Z; s_acc : list (Z * Z) (* [lo, hi) intervals *) }.
Definition spec0 : tspec := {| s_cells := fun _ => 0; s_pos := 0; s_acc := [] |}.

Definition in_acc (acc : list (Z * Z)) (k : Z) : bool :=
  existsb (fun r => (fst r <=? k) && (k <? snd r)) acc.

Inductive sobs := SRead (v : Z) | SCheck (must_be_true : bool) | SNone.

Fixpoint s_run (ops : list top) (s : tspec) : list sobs * tspec :=
  match ops with
  | [] => ([], s)
  | op :: rest =>
      let '(o, s') :=
        match op with
        | TMov d => (SNone, {| s_cells := s_cells s; s_pos := s_pos s + d; s_acc := s_acc s |})
        | TRead o => (SRead (s_cells s (s_pos s + o)), s)
        | TCheck o => (SCheck (in_acc (s_acc s) (s_pos s + o)), s)
        | TAcc a b => (SNone, {| s_cells := s_cells s; s_pos := s_pos s; s_acc := (s_pos s + a, s_pos s + b) :: s_acc s |})
        | TWrite o v =>
            let k := s_pos s + o in
            (SNone, {| s_cells := fun i => if i =? k then v else s_cells s i; s_pos := s_pos s;
                       s_acc := (k, k + 1) :: s_acc s |})
        end in
      let '(obs, sf) := s_run rest s' in (o :: obs, sf)
  end.

Definition obs_match (a : tobs) (b : sobs) : bool :=
  match a, b with
  | ORead x, SRead y => x =? y
  | OCheck x, SCheck must => implb must x
  | ONone, SNone => true
  | _, _ => false
  end.

Fixpoint all_match (a : list tobs) (b : list sobs) : bool :=
  match a, b with
  | [], [] => true
  | x :: a', y :: b' => obs_match x y && all_match a' b'
  | _, _ => false
  end.

(** magnitude guard of the theorems: every pointer position and every offset stays within
    2^60 (the model has no address-space wrap beyond that; DESIGN §8) *)
Definition MAG : Z := 2 ^ 60.
Definition small (x : Z) : bool := (- MAG <=? x) && (x <=? MAG).
Fixpoint ops_small (ops : list top) (pos : Z) : bool :=
  match ops with
  | [] => true
  | op :: rest =>
      match op with
      | TMov d => small d && small (pos + d) && ops_small rest (pos + d)
      | TRead o | TCheck o => small o && ops_small rest pos
      | TWrite o v => small o && ops_small rest pos
      | TAcc a b => small a && small b && ops_small rest pos
      end
  end.

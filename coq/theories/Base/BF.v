(** * BF.v — canonical Brainfuck semantics (the specification every back end is compared with).

    Cells wrap modulo 2^w, the tape is unbounded in both directions and starts all-zero,
    ',' stores the next input byte or 0 at end of input, '.' emits the low 8 bits of the
    cell, every other character is a comment. *)

From Coq Require Import ZArith List Bool.
From HPBF Require Import Cell IO.
Import ListNotations.
Open Scope Z_scope.

Inductive cmd := Inc | Dec | Left | Right | Out | In | Loop (body : list cmd).

(** Source text is a list of Unicode scalar values (or of bytes: all commands are ASCII). *)
Definition ch_plus := 43. Definition ch_comma := 44. Definition ch_minus := 45. Definition ch_dot := 46.
Definition ch_lt := 60. Definition ch_gt := 62. Definition ch_open := 91. Definition ch_close := 93.

Definition is_cmd (c : Z) : bool :=
  (c =? ch_plus) || (c =? ch_comma) || (c =? ch_minus) || (c =? ch_dot) ||
  (c =? ch_lt) || (c =? ch_gt) || (c =? ch_open) || (c =? ch_close).

(** Recursive-descent bracket matching. [parse_seg fuel cs] reads commands up to the first
    unmatched ']' (or the end of the text) and returns them with the remaining text, which is
    empty or starts with that ']'.  [None]: fuel exhausted or a '[' without its ']'. *)
Fixpoint parse_seg (fuel : nat) (cs : list Z) : option (list cmd * list Z) :=
  match fuel with
  | O => None
  | S f =>
      match cs with
      | [] => Some ([], [])
      | c :: r =>
          if c =? ch_close then Some ([], cs)
          else if c =? ch_open then
            match parse_seg f r with
            | Some (body, after) =>
                match after with
                | [] => None
                | _ :: r2 =>
                    match parse_seg f r2 with
                    | Some (more, a) => Some (Loop body :: more, a)
                    | None => None
                    end
                end
            | None => None
            end
          else
            match parse_seg f r with
            | Some (more, a) =>
                if c =? ch_plus then Some (Inc :: more, a)
                else if c =? ch_minus then Some (Dec :: more, a)
                else if c =? ch_lt then Some (Left :: more, a)
                else if c =? ch_gt then Some (Right :: more, a)
                else if c =? ch_dot then Some (Out :: more, a)
                else if c =? ch_comma then Some (In :: more, a)
                else Some (more, a)
            | None => None
            end
      end
  end.

(** the whole text must be consumed: [None] iff the brackets are unbalanced *)
Definition ast_of_source (cs : list Z) : option (list cmd) :=
  match parse_seg (S (length cs)) cs with
  | Some (p, []) => Some p
  | _ => None
  end.

(** [balanced]: depth counter never negative and zero at the end. *)
Fixpoint balanced_from (cs : list Z) (depth : nat) : bool :=
  match cs with
  | [] => Nat.eqb depth 0
  | c :: cs' =>
      if c =? ch_open then balanced_from cs' (S depth)
      else if c =? ch_close then match depth with O => false | S d => balanced_from cs' d end
      else balanced_from cs' depth
  end.
Definition balanced (cs : list Z) : bool := balanced_from cs 0.

Record bfst := { tape : tmap; ptr : Z; io : iost }.
Definition bf0 : bfst := {| tape := tempty; ptr := 0; io := io0 |}.

Definition cur (s : bfst) : Z := tget (tape s) (ptr s).
Definition set_cur (s : bfst) (v : Z) : bfst := {| tape := tset (tape s) (ptr s) v; ptr := ptr s; io := io s |}.
Definition set_io (s : bfst) (i : iost) : bfst := {| tape := tape s; ptr := ptr s; io := i |}.
Definition move (s : bfst) (d : Z) : bfst := {| tape := tape s; ptr := ptr s + d; io := io s |}.

(** One non-loop command. [inl s'] continue, [inr s'] stopped by an I/O failure. *)
Definition bf_simple (w : Z) (e : env) (c : cmd) (s : bfst) : bfst + bfst :=
  match c with
  | Inc => inl (set_cur s (wadd w (cur s) 1))
  | Dec => inl (set_cur s (wadd w (cur s) (neg_one w)))
  | Left => inl (move s (-1))
  | Right => inl (move s 1)
  | Out => match do_output e (io s) (into_u8 w (cur s)) with
           | IoOk _ i => inl (set_io s i)
           | IoFail i => inr (set_io s i)
           end
  | In => match do_input e (io s) with
          | IoOk b i => inl (set_io (set_cur s (from_u8 w b)) i)
          | IoFail i => inr (set_io s i)
          end
  | Loop _ => inl s
  end.

(** Fuel semantics: every recursive call consumes one unit of fuel. *)
Fixpoint bf_exec (w : Z) (e : env) (fuel : nat) (p : list cmd) (s : bfst) : outcome bfst :=
  match fuel with
  | O => OutOfFuel s
  | S f =>
      match p with
      | [] => Done s
      | Loop body :: rest =>
          if cur s =? 0 then bf_exec w e f rest s
          else
            match bf_exec w e f body s with
            | Done s' => bf_exec w e f p s'
            | o => o
            end
      | c :: rest =>
          match bf_simple w e c s with
          | inl s' => bf_exec w e f rest s'
          | inr s' => Stopped s'
          end
      end
  end.

Definition bf_run (w : Z) (e : env) (fuel : nat) (src : list Z) : option (outcome bfst) :=
  match ast_of_source src with
  | Some p => Some (bf_exec w e fuel p bf0)
  | None => None
  end.

(** Observable result of a run: termination class and the event trace in order. *)
Definition events {A} (get_io : A -> iost) (o : outcome A) : list event := rev (trace (get_io (outcome_state o))).

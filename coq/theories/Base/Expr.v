(** * Expr.v — model of [ir::Expr] (src/ir.rs:87-726): sums of products of cell variables
    with coefficients in Z/2^w (property C15).  Every public function is transcribed as written
    (including the unsorted single-part path of [mul]); hash maps keyed by variable lists become
    association lists followed by the same final [sort_by vars].  No proofs here. *)

From Coq Require Import ZArith List Bool.
From HPBF Require Import Cell.
Import ListNotations.
Open Scope Z_scope.

Definition part := (Z * list Z)%type.       (* (coef, vars) *)
Definition expr := list part.

(** lexicographic order on variable lists = [Ord] of slices of [isize] *)
Fixpoint lcmp (a b : list Z) : comparison :=
  match a, b with
  | [], [] => Eq
  | [], _ :: _ => Lt
  | _ :: _, [] => Gt
  | x :: a', y :: b' => match x ?= y with Eq => lcmp a' b' | c => c end
  end.

Fixpoint list_eqb (a b : list Z) : bool :=
  match a, b with
  | [], [] => true
  | x :: a', y :: b' => (x =? y) && list_eqb a' b'
  | _, _ => false
  end.

Fixpoint mem (v : Z) (l : list Z) : bool :=
  match l with [] => false | x :: t => (x =? v) || mem v t end.

Fixpoint count (v : Z) (l : list Z) : nat :=
  match l with [] => O | x :: t => if x =? v then S (count v t) else count v t end.

(** [Vec::dedup]: remove consecutive repetitions *)
Fixpoint dedup (l : list Z) : list Z :=
  match l with
  | [] => []
  | x :: t => match t with
              | [] => [x]
              | y :: _ => if x =? y then dedup t else x :: dedup t
              end
  end.

(** [vars.sort()] *)
Fixpoint insert_z (x : Z) (l : list Z) : list Z :=
  match l with [] => [x] | y :: t => if x <=? y then x :: l else y :: insert_z x t end.
Definition sort_z (l : list Z) : list Z := fold_right insert_z [] l.

(** [parts.sort_by(|a, b| a.vars.cmp(&b.vars))] — stable *)
Fixpoint insert_part (p : part) (l : expr) : expr :=
  match l with
  | [] => [p]
  | q :: t => match lcmp (snd p) (snd q) with
              | Gt => q :: insert_part p t
              | _ => p :: l
              end
  end.
Definition sort_parts (l : expr) : expr := fold_right insert_part [] l.

Definition nonzero (p : part) : bool := negb (fst p =? 0).

(** ** constructors *)
Definition e_val (c : Z) : expr := if c =? 0 then [] else [(c, [])].
Definition e_var (v : Z) : expr := [(1, [v])].

(** ** evaluation ([evaluate]) *)
Definition eval_part (w : Z) (get : Z -> Z) (p : part) : Z :=
  fold_left (fun pv v => wmul w pv (get v)) (snd p) (fst p).
Definition eval (w : Z) (e : expr) (get : Z -> Z) : Z :=
  fold_left (fun val p => wadd w val (eval_part w get p)) e 0.

(** ** add (merge of two sorted part lists) *)
Fixpoint e_add (w : Z) (a b : expr) : expr :=
  match a with
  | [] => b
  | pa :: a' =>
      (fix go (b : expr) : expr :=
         match b with
         | [] => pa :: a'
         | pb :: b' =>
             match lcmp (snd pa) (snd pb) with
             | Lt => pa :: e_add w a' (pb :: b')
             | Gt => pb :: go b'
             | Eq => let c := wadd w (fst pa) (fst pb) in
                     if c =? 0 then e_add w a' b' else (c, snd pa) :: e_add w a' b'
             end
         end) b
  end.

(** ** mul *)
(** [retain_mut(|p| { p.vars.extend(q.vars); p.coef *= q.coef; p.coef != 0 })] *)
Definition scale_parts (w : Z) (ps : expr) (q : part) : expr :=
  filter nonzero (map (fun p => (wmul w (fst p) (fst q), snd p ++ snd q)) ps).

Definition amap := list (list Z * Z).
Fixpoint acc_add (w : Z) (k : list Z) (c : Z) (m : amap) : amap :=
  match m with
  | [] => [(k, wadd w 0 c)]
  | (k', c') :: m' => if list_eqb k k' then (k', wadd w c' c) :: m' else (k', c') :: acc_add w k c m'
  end.
Definition amap_parts (m : amap) : expr :=
  sort_parts (filter nonzero (map (fun kc => (snd kc, fst kc)) m)).

Definition mul_general (w : Z) (a b : expr) : expr :=
  amap_parts
    (fold_left (fun m pa =>
       fold_left (fun m pb => acc_add w (sort_z (snd pa ++ snd pb)) (wmul w (fst pa) (fst pb)) m) b m) a []).

Definition e_mul (w : Z) (a b : expr) : expr :=
  match a, b with
  | [], _ => []
  | _, [] => []
  | [q], _ => scale_parts w b q
  | _, [q] => scale_parts w a q
  | _, _ => mul_general w a b
  end.

(** ** neg, half *)
Definition e_neg (w : Z) (a : expr) : expr := map (fun p => (wneg w (fst p), snd p)) a.
Definition e_half (w : Z) (a : expr) : option expr :=
  if forallb (fun p => negb (is_odd (fst p))) a
  then Some (map (fun p => (wshr w (fst p) 1, snd p)) a) else None.

(** ** observers and decompositions *)
Definition e_is_zero (a : expr) : bool := match a with [] => true | _ => false end.
Definition e_add_count (a : expr) : nat := pred (length a).
Definition e_op_count (w : Z) (a : expr) : nat :=
  pred (Nat.add (fold_left (fun n p => Nat.add n (Nat.mul 2 (length (snd p)))) a O)
                (length (filter (fun p => negb (fst p =? 1) && negb (fst p =? neg_one w)) a))).

Definition e_constant (a : expr) : option Z :=
  match a with
  | [] => Some 0
  | [(c, [])] => Some c
  | _ => None
  end.

Definition is_single (v : Z) (p : part) : bool :=
  match snd p with [x] => x =? v | _ => false end.

Definition e_inc_of (a : expr) (v : Z) : option expr :=
  if existsb (fun p => (fst p =? 1) && is_single v p) a
     && forallb (fun p => negb (mem v (snd p)) || (length (snd p) =? 1)%nat) a
  then Some (filter (fun p => negb (is_single v p)) a)
  else None.

Definition e_prod_inc_of (a : expr) (v : Z) : option (expr * Z) :=
  if forallb (fun p => negb (mem v (snd p)) || (length (snd p) =? 1)%nat) a
  then Some (filter (fun p => negb (is_single v p)) a,
             fold_left (fun m p => if is_single v p then fst p else m) a 0)
  else None.

Definition e_const_inc_of (a : expr) (v : Z) : option Z :=
  match a with
  | [(c, [x])] => if (c =? 1) && (x =? v) then Some 0 else None
  | [(c0, []); (c1, [x])] => if (c1 =? 1) && (x =? v) then Some c0 else None
  | _ => None
  end.

Definition remove_var (v : Z) (l : list Z) : list Z := filter (fun x => negb (x =? v)) l.

(** the parts with [v] removed are added one by one ([res = res.add(part)]): removing a variable
    can change the order of the parts and make two variable lists equal *)
Definition e_prod_of (w : Z) (a : expr) (v : Z) : option expr :=
  if forallb (fun p => (count v (snd p) =? 1)%nat) a
  then Some (fold_left (fun acc p => e_add w acc [(fst p, remove_var v (snd p))]) a [])
  else None.

Definition e_constant_part (a : expr) : Z :=
  match a with
  | (c, []) :: _ => c
  | _ => 0
  end.

Definition e_identity (a : expr) : option Z :=
  match a with
  | [(c, [x])] => if c =? 1 then Some x else None
  | _ => None
  end.

Definition e_variables (a : expr) : list Z := flat_map (fun p => snd p) a.

(** [split_along]: [constant] is a set of variables, [linear] a map from variables to increments *)
Fixpoint assoc_z {A} (v : Z) (m : list (Z * A)) : option A :=
  match m with [] => None | (k, x) :: m' => if k =? v then Some x else assoc_z v m' end.

Definition e_split_along (w : Z) (a : expr) (constant : list Z) (linear : list (Z * expr))
  : option (expr * expr * list (expr * expr)) :=
  let isc v := mem v constant in
  let isl v := match assoc_z v linear with Some _ => true | None => false end in
  fold_left (fun acc p =>
    match acc with
    | None => None
    | Some (cp, op, lp) =>
        if forallb isc (snd p) then Some (cp ++ [p], op, lp)
        else if forallb (fun v => isc v || isl v) (snd p)
                && (length (filter (fun x => negb (isc x)) (snd p)) =? 1)%nat
        then match filter (fun x => negb (isc x)) (snd p) with
             | lv :: _ =>
                 match assoc_z lv linear with
                 | Some li => Some (cp, op, lp ++ [([p], e_mul w [(fst p, remove_var lv (snd p))] li)])
                 | None => None
                 end
             | [] => None
             end
        else Some (cp, op ++ [p], lp)
    end) a (Some ([], [], [])).

(** ** normalize *)
Definition half_mod (w : Z) : Z := wshl w 1 (w - 1).

(** phase 1 *)
(** chunk_by sums every later element of a run into the first; written iteratively in Rust.
    Equivalent formulation: fold from the left keeping the head of the current run. *)
Fixpoint chunk_sum (w : Z) (head : option part) (l : expr) : expr :=
  match l with
  | [] => match head with Some h => [h] | None => [] end
  | p :: t =>
      match head with
      | None => chunk_sum w (Some p) t
      | Some h => if list_eqb (snd h) (snd p)
                  then chunk_sum w (Some (wadd w (fst h) (fst p), snd h)) t
                  else h :: chunk_sum w (Some p) t
      end
  end.

Definition norm_phase1 (w : Z) (a : expr) : expr :=
  let hm := half_mod w in
  if existsb (fun p => (2 <=? length (snd p))%nat && (fst p =? hm)) a then
    let a' := map (fun p => if fst p =? hm then (fst p, dedup (snd p)) else p) a in
    let need := existsb (fun pq => negb (length (snd (fst pq)) =? length (snd (snd pq)))%nat) (combine a a') in
    if need then filter nonzero (chunk_sum w None (sort_parts a')) else a'
  else a.

(** phase 2: arrays are modelled as lists with functional update *)
Fixpoint upd_coef (i : nat) (c : Z) (l : expr) : expr :=
  match l, i with
  | [], _ => []
  | p :: t, O => (c, snd p) :: t
  | p :: t, S i' => p :: upd_coef i' c t
  end.
Definition coef_at (l : expr) (i : nat) : Z := fst (nth i l (0, [])).
Definition vars_at (l : expr) (i : nat) : list Z := snd (nth i l (0, [])).

Fixpoint assoc_l {A} (k : list Z) (m : list (list Z * A)) : option A :=
  match m with [] => None | (k', x) :: m' => if list_eqb k k' then Some x else assoc_l k m' end.
Fixpoint assoc_l_push (k : list Z) (i : nat) (m : list (list Z * list nat)) : list (list Z * list nat) :=
  match m with
  | [] => [(k, [i])]
  | (k', x) :: m' => if list_eqb k k' then (k', x ++ [i]) :: m' else (k', x) :: assoc_l_push k i m'
  end.

Definition norm_cond (w : Z) (ci cj : Z) : bool :=
  let hm := half_mod w in
  let hp := wadd w hm 1 in
  let hmm := wadd w hm (neg_one w) in
  (((ci <=? hp) || (hmm <=? ci)) && ((1 <? cj) || (cj <? neg_one w)))
  || (((1 <? ci) && (ci <? neg_one w)) && ((cj <=? hp) || (hmm <=? cj))).

(** the inner loop over the earlier parts [others] with the same reduced variable list as part [i] *)
Definition phase2_inner (w : Z) (i : nat) (others : list nat) (pn : expr * bool) : expr * bool :=
  fold_left (fun pn j =>
    let ps := fst pn in
    if norm_cond w (coef_at ps i) (coef_at ps j) then
      let ni := wadd w (coef_at ps i) (half_mod w) in
      let nj := wadd w (coef_at ps j) (half_mod w) in
      (upd_coef j nj (upd_coef i ni ps), snd pn || (ni =? 0) || (nj =? 0))
    else pn) others pn.

Definition phase2_step (w : Z) (st : expr * list (list Z * list nat) * bool) (i : nat)
  : expr * list (list Z * list nat) * bool :=
  let parts := fst (fst st) in
  let by_red := snd (fst st) in
  let need := snd st in
  if (length (vars_at parts i) =? 0)%nat then st
  else
    let key := dedup (vars_at parts i) in
    match assoc_l key by_red with
    | Some others =>
        let r := phase2_inner w i others (parts, need) in
        (fst r, assoc_l_push key i by_red, snd r)
    | None => (parts, assoc_l_push key i by_red, need)
    end.

Definition norm_phase2 (w : Z) (a : expr) : expr :=
  let hm := half_mod w in
  let hp := wadd w hm 1 in
  let hmm := wadd w hm (neg_one w) in
  if existsb (fun p => negb (length (snd p) =? 0)%nat && ((fst p <=? hp) || (hmm <=? fst p))) a then
    let r := fold_left (phase2_step w) (seq 0 (length a)) (a, [], false) in
    if snd r then filter nonzero (fst (fst r)) else fst (fst r)
  else a.

Definition e_normalize (w : Z) (a : expr) : expr :=
  if negb (e_is_zero a) && existsb (fun p => (2 <=? length (snd p))%nat) a
  then norm_phase2 w (norm_phase1 w a)
  else a.

(** ** symbolic substitution *)
Definition scale_sorted (w : Z) (ps : expr) (q : part) : expr :=
  filter nonzero (map (fun p => (wmul w (fst p) (fst q), sort_z (snd p ++ snd q))) ps).

Definition amap_list (m : amap) : expr := filter nonzero (map (fun kc => (snd kc, fst kc)) m).

(** [mul_parts]; the iteration order of the intermediate hash map does not reach the result of
    [symb_evaluate] (keys are unique and the final list is sorted); the model uses insertion order *)
Definition mul_parts (w : Z) (left right : expr) : expr :=
  match left, right with
  | [], _ => []
  | _, [] => []
  | [q], _ => scale_sorted w right q
  | _, [q] => scale_sorted w left q
  | _, _ =>
      amap_list
        (fold_left (fun m pr =>
           fold_left (fun m pl => acc_add w (sort_z (snd pr ++ snd pl)) (wmul w (fst pr) (fst pl)) m) left m) right [])
  end.

Definition e_symb_evaluate (w : Z) (a : expr) (func : Z -> option expr) : option expr :=
  match e_identity a with
  | Some v => func v
  | None =>
      match e_constant a with
      | Some c => Some (e_val c)
      | None =>
          let step (acc : option amap) (p : part) : option amap :=
            match acc with
            | None => None
            | Some m =>
                match snd p with
                | [] => Some (acc_add w [] (fst p) m)
                | [v] =>
                    match func v with
                    | Some ev => Some (fold_left (fun m vp => acc_add w (snd vp) (wmul w (fst p) (fst vp)) m) ev m)
                    | None => None
                    end
                | v :: vs =>
                    match func v with
                    | None => None
                    | Some ev =>
                        match fold_left (fun partial v' =>
                                match partial with
                                | None => None
                                | Some pr => match func v' with Some e' => Some (mul_parts w pr e') | None => None end
                                end) vs (Some ev) with
                        | None => None
                        | Some partial =>
                            Some (fold_left (fun m vp => acc_add w (snd vp) (wmul w (fst p) (fst vp)) m) partial m)
                        end
                    end
                end
            end in
          match fold_left step a (Some []) with
          | Some m => Some (amap_parts m)
          | None => None
          end
      end
  end.

(** ** shape predicates assumed by the `_partial` decomposition theorems (boolean versions,
    evaluated on every expression the correspondence run reaches) *)
Definition singles_unique_b (v : Z) (a : expr) : bool := (length (filter (is_single v) a) <=? 1)%nat.
Definition const_first_b (a : expr) : bool := forallb (fun p => negb (length (snd p) =? 0)%nat) (tl a).
Definition shape_ok_b (a : expr) : bool :=
  const_first_b a && forallb (fun v => singles_unique_b v a) (e_variables a).

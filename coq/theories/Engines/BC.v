(** * BC.v — syntax of [bc::Instr]/[bc::Loc]/[bc::Program] and the semantics of the bytecode
    as executed by the threaded-code interpreter (src/exec/bcint/ops.rs) on an abstract tape.

    Operand order: the three-operand ops ([add2] etc.) read [src0], then [src1], then write
    [dst]; the two-operand specialisations ([add<Dst,Src>], selected when [dst = src0]
    syntactically) read [src1] first and [dst] second.  A [MemZero] read clears the cell.
    Budget: [limit 1] before every branch, [limit usize::MAX] before an entered stationary scan. *)

From Coq Require Import ZArith List Bool FMapPositive.
From HPBF Require Import Cell IO.
Import ListNotations.
Open Scope Z_scope.

Inductive loc := Mem (k : Z) | MemZero (k : Z) | Tmp (t : Z) | Imm (c : Z).

Inductive binstr :=
| Noop
| Scan (cond shift : Z)
| MovP (shift : Z)
| Inp (dst : Z)
| Outp (src : Z)
| BrZ (cond off : Z)
| BrNZ (cond off : Z)
| Add (d a b : loc)
| Sub (d a b : loc)
| Mul (d a b : loc)
| Copy (d a : loc).

Record bprog := { bp_temps : Z; bp_min : Z; bp_max : Z; bp_live : list Z; bp_code : list binstr }.

(** [bc_lo]/[bc_hi]: extreme positions of the pointer so far (instrumentation for C10: together
    with the access window they bound the cells a run can touch; no instruction reads them) *)
Record bcst := {
  bc_tape : tmap; bc_ptr : Z; bc_tmps : tmap; bc_pc : Z; bc_io : iost; bc_budget : Z;
  bc_lo : Z; bc_hi : Z
}.
Definition bc0 (budget : Z) : bcst :=
  {| bc_tape := tempty; bc_ptr := 0; bc_tmps := tempty; bc_pc := 0; bc_io := io0; bc_budget := budget; bc_lo := 0; bc_hi := 0 |}.

Definition bc_mem (s : bcst) (k : Z) : Z := tget (bc_tape s) (bc_ptr s + k).
Definition bc_set_mem (s : bcst) (k v : Z) : bcst :=
  {| bc_tape := tset (bc_tape s) (bc_ptr s + k) v; bc_ptr := bc_ptr s; bc_tmps := bc_tmps s;
     bc_pc := bc_pc s; bc_io := bc_io s; bc_budget := bc_budget s; bc_lo := bc_lo s; bc_hi := bc_hi s |}.
Definition bc_set_tmp (s : bcst) (t v : Z) : bcst :=
  {| bc_tape := bc_tape s; bc_ptr := bc_ptr s; bc_tmps := tset (bc_tmps s) t v;
     bc_pc := bc_pc s; bc_io := bc_io s; bc_budget := bc_budget s; bc_lo := bc_lo s; bc_hi := bc_hi s |}.
Definition bc_set_pc (s : bcst) (pc : Z) : bcst :=
  {| bc_tape := bc_tape s; bc_ptr := bc_ptr s; bc_tmps := bc_tmps s;
     bc_pc := pc; bc_io := bc_io s; bc_budget := bc_budget s; bc_lo := bc_lo s; bc_hi := bc_hi s |}.
Definition bc_set_io (s : bcst) (i : iost) : bcst :=
  {| bc_tape := bc_tape s; bc_ptr := bc_ptr s; bc_tmps := bc_tmps s;
     bc_pc := bc_pc s; bc_io := i; bc_budget := bc_budget s; bc_lo := bc_lo s; bc_hi := bc_hi s |}.
Definition bc_move (s : bcst) (d : Z) : bcst :=
  {| bc_tape := bc_tape s; bc_ptr := bc_ptr s + d; bc_tmps := bc_tmps s;
     bc_pc := bc_pc s; bc_io := bc_io s; bc_budget := bc_budget s;
     bc_lo := Z.min (bc_lo s) (bc_ptr s + d); bc_hi := Z.max (bc_hi s) (bc_ptr s + d) |}.
Definition bc_set_budget (s : bcst) (b : Z) : bcst :=
  {| bc_tape := bc_tape s; bc_ptr := bc_ptr s; bc_tmps := bc_tmps s;
     bc_pc := bc_pc s; bc_io := bc_io s; bc_budget := b; bc_lo := bc_lo s; bc_hi := bc_hi s |}.

(** reading an operand; [MemZero] clears the cell *)
Definition bc_read (w : Z) (s : bcst) (l : loc) : Z * bcst :=
  match l with
  | Mem k => (bc_mem s k, s)
  | MemZero k => (bc_mem s k, bc_set_mem s k 0)
  | Tmp t => (tget (bc_tmps s) t, s)
  | Imm c => (c, s)
  end.

Definition bc_write (s : bcst) (l : loc) (v : Z) : bcst :=
  match l with
  | Mem k | MemZero k => bc_set_mem s k v
  | Tmp t => bc_set_tmp s t v
  | Imm _ => s
  end.

Definition loc_eqb (a b : loc) : bool :=
  match a, b with
  | Mem x, Mem y => x =? y
  | Tmp x, Tmp y => x =? y
  | _, _ => false
  end.

(** binary operation with the interpreter's operand order *)
Definition bc_binop (w : Z) (op : Z -> Z -> Z) (s : bcst) (d a b : loc) : bcst :=
  if loc_eqb d a then
    let '(vb, s1) := bc_read w s b in
    let '(va, s2) := bc_read w s1 a in
    bc_write s2 d (op va vb)
  else
    let '(va, s1) := bc_read w s a in
    let '(vb, s2) := bc_read w s1 b in
    bc_write s2 d (op va vb).

(** [Scan]: move by [shift] while the condition cell is non-zero *)
Fixpoint bc_scan (fuel : nat) (cond shift : Z) (s : bcst) : option bcst :=
  match fuel with
  | O => None
  | S f => if bc_mem s cond =? 0 then Some s else bc_scan f cond shift (bc_move s shift)
  end.

Definition next (s : bcst) : bcst := bc_set_pc s (bc_pc s + 1).

(** [limit cost]: interrupt if [budget <= cost] *)
Definition bc_limit (cost : Z) (s : bcst) : option bcst :=
  if bc_budget s <=? cost then None else Some (bc_set_budget s (bc_budget s - cost)).

Definition usize_max : Z := 2 ^ 64 - 1.

Section Exec.
Variable w : Z.
Variable e : env.
Variable limited : bool.
Variable fetch : Z -> option binstr.
Variable len : Z.

Fixpoint bc_exec (fuel : nat) (s : bcst) : outcome bcst :=
  match fuel with
  | O => OutOfFuel s
  | S f =>
      if bc_pc s =? len then Done s
      else
        match fetch (bc_pc s) with
        | None => Errored (bc_pc s) s
        | Some i =>
            match i with
            | Noop => bc_exec f (next s)
            | Scan cond shift =>
                if limited && (shift =? 0) then
                  (* brz cond over [limit usize::MAX; scan]: the charge is only made when the
                     stationary scan is entered, and then it always interrupts *)
                  if bc_mem s cond =? 0 then bc_exec f (next s)
                  else match bc_limit usize_max s with
                       | None => Interrupted (bc_set_budget s 0)
                       | Some s0 => match bc_scan fuel cond shift s0 with
                                    | Some s' => bc_exec f (next s')
                                    | None => OutOfFuel s0
                                    end
                       end
                else
                  match bc_scan fuel cond shift s with
                  | Some s' => bc_exec f (next s')
                  | None => OutOfFuel s
                  end
            | MovP shift => bc_exec f (next (bc_move s shift))
            | Inp dst =>
                match do_input e (bc_io s) with
                | IoOk b i' => bc_exec f (next (bc_set_mem (bc_set_io s i') dst (from_u8 w b)))
                | IoFail i' => Stopped (bc_set_io s i')
                end
            | Outp src =>
                match do_output e (bc_io s) (into_u8 w (bc_mem s src)) with
                | IoOk _ i' => bc_exec f (next (bc_set_io s i'))
                | IoFail i' => Stopped (bc_set_io s i')
                end
            | BrZ cond off =>
                match (if limited then bc_limit 1 s else Some s) with
                | None => Interrupted (bc_set_budget s 0)
                | Some s0 => if bc_mem s0 cond =? 0 then bc_exec f (bc_set_pc s0 (bc_pc s0 + off)) else bc_exec f (next s0)
                end
            | BrNZ cond off =>
                match (if limited then bc_limit 1 s else Some s) with
                | None => Interrupted (bc_set_budget s 0)
                | Some s0 => if bc_mem s0 cond =? 0 then bc_exec f (next s0) else bc_exec f (bc_set_pc s0 (bc_pc s0 + off))
                end
            | Add d a b => bc_exec f (next (bc_binop w (wadd w) s d a b))
            | Sub d a b => bc_exec f (next (bc_binop w (fun x y => wadd w x (wneg w y)) s d a b))
            | Mul d a b => bc_exec f (next (bc_binop w (wmul w) s d a b))
            | Copy d a => let '(v, s1) := bc_read w s a in bc_exec f (next (bc_write s1 d v))
            end
        end
  end.
End Exec.

(** program memory as a trie; [len] = number of instructions *)
Fixpoint code_map (l : list binstr) (i : Z) (m : PositiveMap.t binstr) : PositiveMap.t binstr :=
  match l with
  | [] => m
  | x :: t => code_map t (i + 1) (PositiveMap.add (key_of i) x m)
  end.
Definition fetch_of (p : bprog) : Z -> option binstr :=
  let m := code_map (bp_code p) 0 (PositiveMap.empty binstr) in
  fun pc => if pc <? 0 then None else PositiveMap.find (key_of pc) m.

Definition bc_run (w : Z) (e : env) (limited : bool) (budget : Z) (fuel : nat) (p : bprog) : outcome bcst :=
  if limited && (budget =? 0) then Interrupted (bc0 budget)
  else bc_exec w e limited (fetch_of p) (Z.of_nat (length (bp_code p))) fuel (bc0 budget).

(** * BCHavoc.v — the bytecode semantics of [BC.v] with every register temporary that is *not*
    declared live clobbered after every non-branch instruction (property C11).

    [live[i]] is the mask of register temporaries whose value from before instruction [i] has to
    survive it: the JIT may use the register of any other temporary as scratch, and does not save
    it around the runtime calls of [Inp]/[Out]/[Mov].  [bc_exec_h] makes that explicit: after a
    non-branch instruction every temporary [t < min num_regs 16] that is neither in [live[i]] nor
    written by the instruction receives an arbitrary value [hv fuel t].  (Unlimited execution.) *)
From Coq Require Import ZArith List Bool.
From HPBF Require Import Cell IO BC BCWf.
Import ListNotations.
Open Scope Z_scope.

Definition clobbered (num_regs l d t : Z) : bool :=
  (t <? Z.min num_regs 16) && negb (Z.testbit l t) && negb (Z.testbit d t).

Fixpoint havoc_from (n : nat) (t : Z) (hv : Z -> Z) (num_regs l d : Z) (s : bcst) : bcst :=
  match n with
  | O => s
  | S n' => havoc_from n' (t + 1) hv num_regs l d (if clobbered num_regs l d t then bc_set_tmp s t (hv t) else s)
  end.
Definition havoc (hv : Z -> Z) (num_regs l d : Z) (s : bcst) : bcst := havoc_from 16 0 hv num_regs l d s.

Section ExecH.
Variable w : Z.
Variable e : env.
Variable fetch : Z -> option binstr.
Variable live : Z -> Z.            (* mask of instruction pc *)
Variable num_regs : Z.
Variable hv : nat -> Z -> Z.       (* the values the clobbered registers receive *)
Variable len : Z.

Definition hnext (f : nat) (i : binstr) (pc : Z) (s : bcst) : bcst :=
  next (havoc (hv f) num_regs (live pc) (defs i) s).

Fixpoint bc_exec_h (fuel : nat) (s : bcst) : outcome bcst :=
  match fuel with
  | O => OutOfFuel s
  | S f =>
      if bc_pc s =? len then Done s
      else
        match fetch (bc_pc s) with
        | None => Errored (bc_pc s) s
        | Some i =>
            let pc := bc_pc s in
            match i with
            | Noop => bc_exec_h f (hnext f i pc s)
            | Scan cond shift =>
                match bc_scan fuel cond shift s with
                | Some s' => bc_exec_h f (hnext f i pc s')
                | None => OutOfFuel s
                end
            | MovP shift => bc_exec_h f (hnext f i pc (bc_move s shift))
            | Inp dst =>
                match do_input e (bc_io s) with
                | IoOk b i' => bc_exec_h f (hnext f i pc (bc_set_mem (bc_set_io s i') dst (from_u8 w b)))
                | IoFail i' => Stopped (bc_set_io s i')
                end
            | Outp src =>
                match do_output e (bc_io s) (into_u8 w (bc_mem s src)) with
                | IoOk _ i' => bc_exec_h f (hnext f i pc (bc_set_io s i'))
                | IoFail i' => Stopped (bc_set_io s i')
                end
            | BrZ cond off =>
                if bc_mem s cond =? 0 then bc_exec_h f (bc_set_pc s (bc_pc s + off)) else bc_exec_h f (next s)
            | BrNZ cond off =>
                if bc_mem s cond =? 0 then bc_exec_h f (next s) else bc_exec_h f (bc_set_pc s (bc_pc s + off))
            | Add d a b => bc_exec_h f (hnext f i pc (bc_binop w (wadd w) s d a b))
            | Sub d a b => bc_exec_h f (hnext f i pc (bc_binop w (fun x y => wadd w x (wneg w y)) s d a b))
            | Mul d a b => bc_exec_h f (hnext f i pc (bc_binop w (wmul w) s d a b))
            | Copy d a => let '(v, s1) := bc_read w s a in bc_exec_h f (hnext f i pc (bc_write s1 d v))
            end
        end
  end.
End ExecH.

Definition live_of (p : bprog) (pc : Z) : Z :=
  if pc <? 0 then 0 else nth (Z.to_nat pc) (bp_live p) 0.

Definition bc_run_h (w : Z) (e : env) (num_regs : Z) (hv : nat -> Z -> Z) (fuel : nat) (p : bprog) : outcome bcst :=
  bc_exec_h w e (fetch_of p) (live_of p) num_regs hv (Z.of_nat (length (bp_code p))) fuel (bc0 0).

(** * X86.v — the straight-line x86-64 subset the baseline JIT emits for arithmetic bytecode
    instructions (src/exec/basejit/codegen.rs, [emit_program], the [Copy]/[Add]/[Sub]/[Mul] arms):
    a concrete semantics, a symbolic evaluator over polynomials modulo 2^w (the verified
    expression algebra of [Expr.v]), and the per-form checker used by property C03.

    Registers are numbered as in the encoding (rax 0, rcx 1, rdx 2, rbx 3, rsp 4, rbp 5, rsi 6,
    rdi 7, r8..r15).  [XCell k] is the tape cell at offset [k] from the tape pointer (rbp), accessed
    at the cell width; [XSlot t] is the 8-byte stack slot of temporary [t] ([rsp + 8 t]).
    No proofs here. *)
From Coq Require Import ZArith List Bool.
From HPBF Require Import Cell Expr BC.
Import ListNotations.
Open Scope Z_scope.

Inductive xop := XReg (r sz : Z) | XCell (k : Z) | XSlot (t : Z) | XImm (v : Z).

Inductive xins :=
| XMov (d s : xop)          (* mov / movabs / movzx (a load into a 32-bit register zero-extends) *)
| XAdd (d s : xop)
| XSub (d s : xop)
| XInc (d : xop)
| XDec (d : xop)
| XImul2 (d s : xop)
| XImul3 (d s : xop) (i : Z)
| XLea (d b : Z) (idx : option Z) (disp : Z).

(** ** concrete semantics *)
Record xst := { xr : Z -> Z; xc : Z -> Z; xs : Z -> Z }.

Definition upd (f : Z -> Z) (k v : Z) : Z -> Z := fun x => if x =? k then v else f x.

Definition xread (st : xst) (o : xop) : Z :=
  match o with
  | XReg r sz => xr st r mod 2 ^ sz
  | XCell k => xc st k
  | XSlot t => xs st t
  | XImm v => v
  end.

(** register writes: 64 bits replace the register, 32 bits zero-extend, 16 and 8 bits keep the
    upper part; cells hold [w] bits, stack slots 64 *)
Definition xwrite (w : Z) (st : xst) (o : xop) (v : Z) : xst :=
  match o with
  | XReg r sz =>
      let nv := if sz =? 64 then v mod 2 ^ 64
                else if sz =? 32 then v mod 2 ^ 32
                else (xr st r - xr st r mod 2 ^ sz) + v mod 2 ^ sz in
      {| xr := upd (xr st) r nv; xc := xc st; xs := xs st |}
  | XCell k => {| xr := xr st; xc := upd (xc st) k (v mod 2 ^ w); xs := xs st |}
  | XSlot t => {| xr := xr st; xc := xc st; xs := upd (xs st) t (v mod 2 ^ 64) |}
  | XImm _ => st
  end.

Definition xstep (w : Z) (st : xst) (i : xins) : xst :=
  match i with
  | XMov d s => xwrite w st d (xread st s)
  | XAdd d s => xwrite w st d (xread st d + xread st s)
  | XSub d s => xwrite w st d (xread st d - xread st s)
  | XInc d => xwrite w st d (xread st d + 1)
  | XDec d => xwrite w st d (xread st d - 1)
  | XImul2 d s => xwrite w st d (xread st d * xread st s)
  | XImul3 d s i => xwrite w st d (xread st s * i)
  | XLea d b idx disp =>
      xwrite w st (XReg d 64) (xr st b + match idx with Some x => xr st x | None => 0 end + disp)
  end.

Definition xrun (w : Z) (code : list xins) (st : xst) : xst := fold_left (xstep w) code st.

(** ** symbolic evaluation: every location holds a polynomial over the initial contents *)
Definition areg (r : Z) : Z := 4 * r + 1.
Definition acell (k : Z) : Z := 4 * k + 2.
Definition aslot (t : Z) : Z := 4 * t + 3.

Definition amap := list (Z * expr).
Fixpoint alook (k : Z) (l : amap) (dflt : expr) : expr :=
  match l with [] => dflt | (k', v) :: l' => if k' =? k then v else alook k l' dflt end.

Record sst := { sr : amap; sc : amap; ss : amap }.
Definition sst0 : sst := {| sr := []; sc := []; ss := [] |}.

Definition sget_r (s : sst) (r : Z) : expr := alook r (sr s) (e_var (areg r)).
Definition sget_c (s : sst) (k : Z) : expr := alook k (sc s) (e_var (acell k)).
Definition sget_s (s : sst) (t : Z) : expr := alook t (ss s) (e_var (aslot t)).

Definition size_ok (sz : Z) : bool := (sz =? 8) || (sz =? 16) || (sz =? 32) || (sz =? 64).

(** reading fewer bits than the cell width says nothing about the value modulo 2^w: rejected *)
Definition sread (w : Z) (s : sst) (o : xop) : option expr :=
  match o with
  | XReg r sz => if size_ok sz && (w <=? sz) then Some (sget_r s r) else None
  | XCell k => Some (sget_c s k)
  | XSlot t => Some (sget_s s t)
  | XImm v => Some (e_val (v mod 2 ^ w))
  end.

(** a write narrower than the cell width is accepted only for [mov r32, imm] with
    [0 <= imm < 2^32], which sets the whole register to the constant *)
Definition swrite (w : Z) (s : sst) (o : xop) (v : expr) (const_src : option Z) : option sst :=
  match o with
  | XReg r sz =>
      if size_ok sz && (w <=? sz) then Some {| sr := (r, v) :: sr s; sc := sc s; ss := ss s |}
      else match const_src with
           | Some c => if (sz =? 32) && (0 <=? c) && (c <? 2 ^ 32)
                       then Some {| sr := (r, e_val (c mod 2 ^ w)) :: sr s; sc := sc s; ss := ss s |}
                       else None
           | None => None
           end
  | XCell k => Some {| sr := sr s; sc := (k, v) :: sc s; ss := ss s |}
  | XSlot t => Some {| sr := sr s; sc := sc s; ss := (t, v) :: ss s |}
  | XImm _ => None
  end.

Definition sstep (w : Z) (s : sst) (i : xins) : option sst :=
  match i with
  | XMov d src =>
      match sread w s src with
      | Some v => swrite w s d v (match src with XImm c => Some c | _ => None end)
      | None => (* the narrow constant move: the source need not be readable at width w *)
          None
      end
  | XAdd d src =>
      match sread w s d, sread w s src with
      | Some a, Some b => swrite w s d (e_add w a b) None
      | _, _ => None
      end
  | XSub d src =>
      match sread w s d, sread w s src with
      | Some a, Some b => swrite w s d (e_add w a (e_neg w b)) None
      | _, _ => None
      end
  | XInc d => match sread w s d with Some a => swrite w s d (e_add w a (e_val (1 mod 2 ^ w))) None | None => None end
  | XDec d => match sread w s d with Some a => swrite w s d (e_add w a (e_neg w (e_val (1 mod 2 ^ w)))) None | None => None end
  | XImul2 d src =>
      match sread w s d, sread w s src with
      | Some a, Some b => swrite w s d (e_mul w a b) None
      | _, _ => None
      end
  | XImul3 d src i =>
      match sread w s src with
      | Some b => swrite w s d (e_mul w b (e_val (i mod 2 ^ w))) None
      | None => None
      end
  | XLea d b idx disp =>
      let vb := sget_r s b in
      let vi := match idx with Some x => sget_r s x | None => [] end in
      swrite w s (XReg d 64) (e_add w (e_add w vb vi) (e_val (disp mod 2 ^ w))) None
  end.

Fixpoint srun (w : Z) (code : list xins) (s : sst) : option sst :=
  match code with
  | [] => Some s
  | i :: rest => match sstep w s i with Some s' => srun w rest s' | None => None end
  end.

(** ** what a bytecode instruction asks for *)
(** the JIT's home of a temporary ([Reg::tmp] in codegen.rs): a register for the first 11 *)
Definition tmp_reg (t : Z) : option Z :=
  nth_error [12; 13; 14; 15; 6; 7; 2; 8; 9; 10; 11] (Z.to_nat t).

Inductive xloc := LReg (r : Z) | LCell (k : Z) | LSlot (t : Z).

Definition home (l : loc) : option xloc :=
  match l with
  | Mem k => Some (LCell k)
  | Tmp t => if t <? 0 then None else match tmp_reg t with Some r => Some (LReg r) | None => Some (LSlot t) end
  | _ => None
  end.

Definition loc_expr (w : Z) (l : loc) : option expr :=
  match l with
  | Imm c => Some (e_val (c mod 2 ^ w))
  | MemZero _ => None
  | _ => match home l with
         | Some (LReg r) => Some (e_var (areg r))
         | Some (LCell k) => Some (e_var (acell k))
         | Some (LSlot t) => Some (e_var (aslot t))
         | None => None
         end
  end.

(** destination and expected value of an arithmetic instruction *)
Definition form_spec (w : Z) (i : binstr) : option (xloc * expr) :=
  let two (d a b : loc) (f : expr -> expr -> expr) :=
    match home d, loc_expr w a, loc_expr w b with
    | Some h, Some ea, Some eb => Some (h, f ea eb)
    | _, _, _ => None
    end in
  match i with
  | Add d a b => two d a b (e_add w)
  | Sub d a b => two d a b (fun x y => e_add w x (e_neg w y))
  | Mul d a b => two d a b (e_mul w)
  | Copy d a => match home d, loc_expr w a with Some h, Some ea => Some (h, ea) | _, _ => None end
  | _ => None
  end.

Fixpoint part_eqb (a b : expr) : bool :=
  match a, b with
  | [], [] => true
  | (c, vs) :: a', (c', vs') :: b' => (c =? c') && list_eqb vs vs' && part_eqb a' b'
  | _, _ => false
  end.
(** canonical form for comparison: variables sorted inside each monomial, monomials sorted, then
    the normalisation of [Expr.v] *)
Definition canon (w : Z) (e : expr) : expr :=
  e_normalize w (sort_parts (map (fun p => (fst p, sort_z (snd p))) e)).
Definition same_poly (w : Z) (a b : expr) : bool := part_eqb (canon w a) (canon w b).

Definition xloc_eqb (a b : xloc) : bool :=
  match a, b with
  | LReg x, LReg y | LCell x, LCell y | LSlot x, LSlot y => x =? y
  | _, _ => false
  end.

(** registers the code may clobber: the two scratch registers and the register of a temporary
    that is not live after the instruction *)
Definition may_clobber (live : Z) (r : Z) : bool :=
  (r =? 0) || (r =? 1) ||
  existsb (fun t => match tmp_reg t with Some r' => (r' =? r) && negb (Z.testbit live t) | None => false end)
          [0; 1; 2; 3; 4; 5; 6; 7; 8; 9; 10].

(** the register an instruction writes, if any *)
Definition dest_reg (i : xins) : option Z :=
  match i with
  | XMov (XReg r _) _ | XAdd (XReg r _) _ | XSub (XReg r _) _ | XInc (XReg r _) | XDec (XReg r _)
  | XImul2 (XReg r _) _ | XImul3 (XReg r _) _ _ => Some r
  | XLea d _ _ _ => Some d
  | _ => None
  end.
(** rbx (context), rsp and rbp (tape pointer) must not be written at all: they have to survive
    exactly, not only modulo 2^w *)
Definition pinned (r : Z) : bool := (r =? 3) || (r =? 4) || (r =? 5).
Definition keeps_pinned (code : list xins) : bool :=
  forallb (fun i => match dest_reg i with Some r => negb (pinned r) | None => true end) code.

(** [form_ok]: after the code, the destination holds the expected polynomial, every other cell
    and stack slot holds what it held, and every register that must survive holds what it held *)
Definition form_ok (w : Z) (i : binstr) (live : Z) (code : list xins) : bool :=
  match form_spec w i, srun w code sst0 with
  | Some (dst, want), Some s =>
      keeps_pinned code &&
      let got := match dst with LReg r => sget_r s r | LCell k => sget_c s k | LSlot t => sget_s s t end in
      same_poly w got want
      && forallb (fun kv => xloc_eqb dst (LCell (fst kv)) || same_poly w (sget_c s (fst kv)) (e_var (acell (fst kv)))) (sc s)
      && forallb (fun kv => xloc_eqb dst (LSlot (fst kv)) || same_poly w (sget_s s (fst kv)) (e_var (aslot (fst kv)))) (ss s)
      && forallb (fun kv => xloc_eqb dst (LReg (fst kv)) || may_clobber live (fst kv)
                            || same_poly w (sget_r s (fst kv)) (e_var (areg (fst kv)))) (sr s)
  | _, _ => false
  end.

(** * BCWf.v — executable well-formedness checker for bytecode programs (property C11).

    [bc_wf num_regs fuse p = true] requires
    (1) every branch target in [[0, len]];
    (2) every tape operand, condition and I/O cell in [[min, max]] and [min <= 0 <= max];
    (3) every temporary index in [[0, temps)] and one [live] entry per instruction;
    (4) forward must-define analysis: no temporary is read before it is written on any path;
    (5) backward liveness: for every non-branch instruction, each register temporary
        ([t < num_regs], [t < 16]) that is live-out and not defined by it has its bit in [live[i]];
    (6) [MemZero k] never as destination, as [src0] only if [src1] does not mention cell [k], and
        in the two-operand shape ([dst = src0]) [src1] is not [MemZero] of the destination cell;
    (7) [Scan] and [MemZero] only when the generator was asked to fuse.
    Sets of temporaries are bit sets in [Z]. *)

From Coq Require Import ZArith List Bool FMapPositive.
From HPBF Require Import Cell IO BC.
Import ListNotations.
Open Scope Z_scope.

Definition bit (t : Z) : Z := Z.shiftl 1 t.
Definition bset_mem (s t : Z) : bool := Z.testbit s t.
Definition bset_sub (a b : Z) : bool := Z.land a (Z.lnot b) =? 0.   (* a ⊆ b *)

Definition loc_tmp_use (l : loc) : Z := match l with Tmp t => bit t | _ => 0 end.

(** temporaries read / written by an instruction *)
Definition uses (i : binstr) : Z :=
  match i with
  | Add _ a b | Sub _ a b | Mul _ a b => Z.lor (loc_tmp_use a) (loc_tmp_use b)
  | Copy _ a => loc_tmp_use a
  | _ => 0
  end.
Definition defs (i : binstr) : Z :=
  match i with
  | Add d _ _ | Sub d _ _ | Mul d _ _ | Copy d _ => loc_tmp_use d
  | _ => 0
  end.

Definition is_branch (i : binstr) : bool := match i with BrZ _ _ | BrNZ _ _ => true | _ => false end.

(** successors of instruction [pc] *)
Definition succs (pc : Z) (i : binstr) : list Z :=
  match i with
  | BrZ _ off | BrNZ _ off => [pc + off; pc + 1]
  | _ => [pc + 1]
  end.

(** ** local rules *)
Definition cell_ok (p : bprog) (k : Z) : bool := (bp_min p <=? k) && (k <=? bp_max p).
Definition loc_ok (p : bprog) (fuse : bool) (l : loc) : bool :=
  match l with
  | Mem k => cell_ok p k
  | MemZero k => fuse && cell_ok p k
  | Tmp t => (0 <=? t) && (t <? bp_temps p)
  | Imm c => true
  end.
Definition is_memzero (l : loc) : bool := match l with MemZero _ => true | _ => false end.
Definition mentions_cell (l : loc) (k : Z) : bool :=
  match l with Mem j | MemZero j => j =? k | _ => false end.

Definition memzero_ok (d a b : loc) : bool :=
  negb (is_memzero d)
  && match a with MemZero k => negb (mentions_cell b k) | _ => true end
  && (if loc_eqb d a then
        match b, d with MemZero k, Mem j => negb (k =? j) | _, _ => true end
      else true).

Definition dst_ok (d : loc) : bool := match d with Mem _ | Tmp _ => true | _ => false end.

Definition instr_ok (p : bprog) (fuse : bool) (len pc : Z) (i : binstr) : bool :=
  match i with
  | Noop => true
  | Scan c _ => fuse && cell_ok p c
  | MovP _ => true
  | Inp d => cell_ok p d
  | Outp s => cell_ok p s
  | BrZ c off | BrNZ c off => cell_ok p c && (0 <=? pc + off) && (pc + off <=? len)
  | Add d a b | Sub d a b | Mul d a b =>
      dst_ok d && loc_ok p fuse d && loc_ok p fuse a && loc_ok p fuse b && memzero_ok d a b
  | Copy d a => dst_ok d && loc_ok p fuse d && loc_ok p fuse a
  end.

Fixpoint all_instr_ok (p : bprog) (fuse : bool) (len pc : Z) (code : list binstr) : bool :=
  match code with
  | [] => true
  | i :: rest => instr_ok p fuse len pc i && all_instr_ok p fuse len (pc + 1) rest
  end.

(** ** dataflow; arrays are tries indexed by pc, default = the given default *)
Definition arr := PositiveMap.t Z.
Definition aget (a : arr) (dflt : Z) (i : Z) : Z :=
  match PositiveMap.find (key_of i) a with Some v => v | None => dflt end.
Definition aset (a : arr) (i v : Z) : arr := PositiveMap.add (key_of i) v a.

(** forward must-define: [inn[pc]] = temporaries certainly written on every path to [pc].
    One pass pushes [out = in ∪ defs] to the successors with intersection. *)
Fixpoint fwd_pass (full : Z) (code : list binstr) (pc : Z) (old : arr) (new : arr) : arr :=
  match code with
  | [] => new
  | i :: rest =>
      let out := Z.lor (aget old full pc) (defs i) in
      let new' := fold_left (fun n s => aset n s (Z.land (aget n full s) out)) (succs pc i) new in
      fwd_pass full rest (pc + 1) old new'
  end.

Fixpoint arr_eqb (full : Z) (a b : arr) (n : nat) (pc : Z) : bool :=
  match n with
  | O => true
  | S n' => (aget a full pc =? aget b full pc) && arr_eqb full a b n' (pc + 1)
  end.

Fixpoint fwd_fix (fuel : nat) (full : Z) (code : list binstr) (cur : arr) : option arr :=
  match fuel with
  | O => None
  | S f =>
      (* entry: nothing defined at pc 0 *)
      let nxt := fwd_pass full code 0 cur (aset (PositiveMap.empty Z) 0 0) in
      (* keep the entry fact monotone: in[0] stays 0 *)
      let nxt := aset nxt 0 0 in
      if arr_eqb full cur nxt (S (length code)) 0 then Some cur else fwd_fix f full code nxt
  end.

Fixpoint uses_defined (full : Z) (code : list binstr) (pc : Z) (inn : arr) : bool :=
  match code with
  | [] => true
  | i :: rest => bset_sub (uses i) (aget inn full pc) && uses_defined full rest (pc + 1) inn
  end.

(** backward liveness: [lin[pc]] = temporaries whose value may be read at or after [pc]. *)
Fixpoint bwd_pass (code : list binstr) (pc : Z) (old : arr) (new : arr) : arr :=
  match code with
  | [] => new
  | i :: rest =>
      let out := fold_left (fun acc s => Z.lor acc (aget old 0 s)) (succs pc i) 0 in
      let inn := Z.lor (uses i) (Z.land out (Z.lnot (defs i))) in
      bwd_pass rest (pc + 1) old (aset new pc inn)
  end.

Fixpoint bwd_fix (fuel : nat) (code : list binstr) (cur : arr) : option arr :=
  match fuel with
  | O => None
  | S f =>
      let nxt := bwd_pass code 0 cur (PositiveMap.empty Z) in
      if arr_eqb 0 cur nxt (S (length code)) 0 then Some cur else bwd_fix f code nxt
  end.

Definition reg_mask (num_regs : Z) : Z := Z.ones (Z.min num_regs 16).

Fixpoint live_ok (num_regs : Z) (code : list binstr) (live : list Z) (pc : Z) (lin : arr) : bool :=
  match code, live with
  | [], [] => true
  | i :: rest, l :: lrest =>
      (if is_branch i then true
       else
         let out := fold_left (fun acc s => Z.lor acc (aget lin 0 s)) (succs pc i) 0 in
         bset_sub (Z.land (Z.land out (Z.lnot (defs i))) (reg_mask num_regs)) l)
      && live_ok num_regs rest lrest (pc + 1) lin
  | _, _ => false
  end.

(** ** validation of the dataflow solutions.  The fixpoints above are only *candidates*: the two
    passes below check directly that [inn] under-approximates the temporaries written on every path
    (entry fact 0; [inn[s] ⊆ inn[pc] ∪ defs] along every edge) and that [lin] over-approximates the
    temporaries still needed ([uses ∪ (∪ lin[succ] \ defs) ⊆ lin[pc]]).  [BCWfProofs.v] proves that
    these inequalities imply the path-based statements of property C11, so the soundness of the
    checker does not depend on how the candidates were computed. *)
Fixpoint fwd_valid (full : Z) (code : list binstr) (pc : Z) (inn : arr) : bool :=
  match code with
  | [] => true
  | i :: rest =>
      forallb (fun s => bset_sub (aget inn full s) (Z.lor (aget inn full pc) (defs i))) (succs pc i)
      && fwd_valid full rest (pc + 1) inn
  end.

Fixpoint bwd_valid (code : list binstr) (pc : Z) (lin : arr) : bool :=
  match code with
  | [] => true
  | i :: rest =>
      let out := fold_left (fun acc s => Z.lor acc (aget lin 0 s)) (succs pc i) 0 in
      bset_sub (Z.lor (uses i) (Z.land out (Z.lnot (defs i)))) (aget lin 0 pc)
      && bwd_valid rest (pc + 1) lin
  end.

Definition bc_wf (num_regs : Z) (fuse : bool) (p : bprog) : bool :=
  let code := bp_code p in
  let len := Z.of_nat (length code) in
  let full := Z.ones (Z.max (bp_temps p) 0) in
  let fuel := S (length code * S (Z.to_nat (bp_temps p))) in
  (bp_min p <=? 0) && (0 <=? bp_max p) && (0 <=? bp_temps p)
  && Nat.eqb (length (bp_live p)) (length code)
  && all_instr_ok p fuse len 0 code
  && match fwd_fix fuel full code (aset (PositiveMap.empty Z) 0 0) with
     | Some inn => (aget inn full 0 =? 0) && fwd_valid full code 0 inn && uses_defined full code 0 inn
     | None => false
     end
  && match bwd_fix fuel code (PositiveMap.empty Z) with
     | Some lin => bwd_valid code 0 lin && live_ok num_regs code (bp_live p) 0 lin
     | None => false
     end.

(** not part of the contract of C11, checked for C13 (no panic while compiling): a [live] mask
    names register temporaries only (bits below [min num_regs 16]) — the JIT's save/restore code
    unwraps the register of every set bit from 4 up *)
Definition live_regs_ok (num_regs : Z) (p : bprog) : bool :=
  forallb (fun l => (0 <=? l) && bset_sub l (reg_mask num_regs)) (bp_live p).

(** which rule rejects (for the replay record): 0 = accepted *)
Definition bc_wf_why (num_regs : Z) (fuse : bool) (p : bprog) : Z :=
  let code := bp_code p in
  let len := Z.of_nat (length code) in
  let full := Z.ones (Z.max (bp_temps p) 0) in
  let fuel := S (length code * S (Z.to_nat (bp_temps p))) in
  if negb ((bp_min p <=? 0) && (0 <=? bp_max p) && (0 <=? bp_temps p)) then 2
  else if negb (Nat.eqb (length (bp_live p)) (length code)) then 3
  else if negb (all_instr_ok p fuse len 0 code) then 1
  else match fwd_fix fuel full code (aset (PositiveMap.empty Z) 0 0) with
       | None => 40
       | Some inn =>
           if negb ((aget inn full 0 =? 0) && fwd_valid full code 0 inn) then 41
           else if negb (uses_defined full code 0 inn) then 4
           else match bwd_fix fuel code (PositiveMap.empty Z) with
                | None => 50
                | Some lin => if negb (bwd_valid code 0 lin) then 51
                              else if live_ok num_regs code (bp_live p) 0 lin then 0 else 5
                end
       end.

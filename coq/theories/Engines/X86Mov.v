(** * X86Mov.v — the pointer-move template of the baseline JIT in checked mode ([Instr::Mov] with
    [safe] in src/exec/basejit/codegen.rs): move the tape pointer, probe one end of the access window
    against the buffer recorded in the context ([cxt+0] buffer address, [cxt+8] size in cells,
    [cxt+16] offset of the current cell), and on a miss store the probed index as the offset, call
    [hpbf_context_extend(cxt, 0, 1)] with the live caller-saved registers saved, and recompute the
    tape pointer from the (possibly moved) buffer.

    Values are unbounded integers (the theorem states the ranges under which 64-bit arithmetic does
    not wrap); the unsigned comparison of [jb] is modelled modulo 2^64.  [mov_template] is the code
    the JIT is expected to emit, as a function of (cell size, shift, probe offset, live mask);
    [mov_ok] compares emitted code with it.  No proofs here. *)
From Coq Require Import ZArith List Bool.
From HPBF Require Import BC X86 X86Call.
Import ListNotations.
Open Scope Z_scope.

Inductive mins :=
| MAddRbp (c : Z)                 (* rbp += c  (add/sub/inc/dec rbp) *)
| MLeaRaxRbp (c : Z)              (* lea rax, [rbp + c] *)
| MSubRaxBase                     (* sub rax, [rbx] *)
| MSarRax (n : Z)                 (* sar rax, n *)
| MCmpRaxSize                     (* cmp rax, [rbx+8] *)
| MJb                             (* jb <end of the template> *)
| MStoreOff                       (* mov [rbx+16], rax *)
| MPush (r : Z) | MPop (r : Z) | MSubRsp | MAddRsp
| MMovRR (d s : Z) | MMovI (d c : Z)
| MCall (t : Z)
| MLoadRbpBase                    (* mov rbp, [rbx] *)
| MLoadRaxOff                     (* mov rax, [rbx+16] *)
| MLeaRbpIdx (scale disp : Z).    (* lea rbp, [rbp + rax*scale + disp] *)

Definition mins_eqb (a b : mins) : bool :=
  match a, b with
  | MAddRbp x, MAddRbp y | MLeaRaxRbp x, MLeaRaxRbp y | MSarRax x, MSarRax y
  | MPush x, MPush y | MPop x, MPop y | MCall x, MCall y => x =? y
  | MSubRaxBase, MSubRaxBase | MCmpRaxSize, MCmpRaxSize | MJb, MJb | MStoreOff, MStoreOff
  | MSubRsp, MSubRsp | MAddRsp, MAddRsp | MLoadRbpBase, MLoadRbpBase | MLoadRaxOff, MLoadRaxOff => true
  | MMovRR a1 a2, MMovRR b1 b2 | MMovI a1 a2, MMovI b1 b2 | MLeaRbpIdx a1 a2, MLeaRbpIdx b1 b2 => (a1 =? b1) && (a2 =? b2)
  | _, _ => false
  end.
Fixpoint code_eqb (a b : list mins) : bool :=
  match a, b with
  | [], [] => true
  | x :: a', y :: b' => mins_eqb x y && code_eqb a' b'
  | _, _ => false
  end.

(** ** concrete semantics *)
Record mst := { mr : Z -> Z; mB : Z; mS : Z; mO : Z; mk : list Z; mcalls : list (Z * Z * Z); mbelow : bool }.

Section Conc.
Variable havoc : Z -> Z.                      (* what the callee leaves in the caller-saved registers *)
Variable ext : Z * Z * Z -> Z * Z * Z.        (* what the callee does to (buffer, size, offset) *)

Definition mset (st : mst) (r v : Z) : mst :=
  {| mr := upd (mr st) r v; mB := mB st; mS := mS st; mO := mO st; mk := mk st; mcalls := mcalls st; mbelow := mbelow st |}.

Definition mstep (st : mst) (i : mins) : mst * bool :=
  match i with
  | MAddRbp c => (mset st 5 (mr st 5 + c), false)
  | MLeaRaxRbp c => (mset st 0 (mr st 5 + c), false)
  | MSubRaxBase => (mset st 0 (mr st 0 - mB st), false)
  | MSarRax n => (mset st 0 (mr st 0 / 2 ^ n), false)
  | MCmpRaxSize =>
      ({| mr := mr st; mB := mB st; mS := mS st; mO := mO st; mk := mk st; mcalls := mcalls st;
          mbelow := (mr st 0 mod 2 ^ 64 <? mS st mod 2 ^ 64) |}, false)
  | MJb => (st, mbelow st)
  | MStoreOff => ({| mr := mr st; mB := mB st; mS := mS st; mO := mr st 0; mk := mk st; mcalls := mcalls st; mbelow := mbelow st |}, false)
  | MPush r => ({| mr := mr st; mB := mB st; mS := mS st; mO := mO st; mk := mr st r :: mk st; mcalls := mcalls st; mbelow := mbelow st |}, false)
  | MPop r =>
      match mk st with
      | v :: k' => ({| mr := upd (mr st) r v; mB := mB st; mS := mS st; mO := mO st; mk := k'; mcalls := mcalls st; mbelow := mbelow st |}, false)
      | [] => (mset st r 0, false)
      end
  | MSubRsp => ({| mr := mr st; mB := mB st; mS := mS st; mO := mO st; mk := 0 :: mk st; mcalls := mcalls st; mbelow := mbelow st |}, false)
  | MAddRsp => ({| mr := mr st; mB := mB st; mS := mS st; mO := mO st; mk := tl (mk st); mcalls := mcalls st; mbelow := mbelow st |}, false)
  | MMovRR d s => (mset st d (mr st s), false)
  | MMovI d c => (mset st d c, false)
  | MCall _ =>
      let '(b', s', o') := ext (mB st, mS st, mO st) in
      ({| mr := fun r => if caller_saved r then havoc r else mr st r; mB := b'; mS := s'; mO := o'; mk := mk st;
          mcalls := mcalls st ++ [(mr st 7, mr st 6, mr st 2)]; mbelow := mbelow st |}, false)
  | MLoadRbpBase => (mset st 5 (mB st), false)
  | MLoadRaxOff => (mset st 0 (mO st), false)
  | MLeaRbpIdx scale disp => (mset st 5 (mr st 5 + mr st 0 * scale + disp), false)
  end.

Fixpoint mrun (code : list mins) (st : mst) : mst * bool :=
  match code with
  | [] => (st, false)
  | i :: rest => let '(st', ex) := mstep st i in if ex then (st', true) else mrun rest st'
  end.
End Conc.

(** ** the expected template *)
(** registers of the live caller-saved temporaries, in the order [emit_pre_call] pushes them *)
Definition saved_regs (live : Z) : list Z :=
  flat_map (fun t => if Z.testbit live t then match tmp_reg t with Some r => [r] | None => [] end else [])
           [4; 5; 6; 7; 8; 9; 10].

Definition mov_template (sz sh d probe live fn : Z) : list mins :=
  let rs := saved_regs live in
  let odd := Nat.odd (length rs) in
  [MAddRbp (sz * d); MLeaRaxRbp (sz * probe); MSubRaxBase] ++ (if sz =? 1 then [] else [MSarRax sh]) ++
  [MCmpRaxSize; MJb; MStoreOff] ++ map MPush rs ++ (if odd then [MSubRsp] else []) ++
  [MMovRR 7 3; MMovI 6 0; MMovI 2 1; MMovI 0 fn; MCall 0] ++
  (if odd then [MAddRsp] else []) ++ map MPop (rev rs) ++
  [MLoadRbpBase; MLoadRaxOff; MLeaRbpIdx sz (- (sz * probe))].

Definition find_fn (code : list mins) : Z :=
  fold_right (fun i acc => match i with MMovI 0 c => c | _ => acc end) 0 code.

(** [w]: cell width in bits; the probe offset is [mn] when moving left, [mx] otherwise *)
Definition mov_ok (w : Z) (i : binstr) (mn mx live : Z) (code : list mins) : bool :=
  match i with
  | MovP d =>
      let sz := w / 8 in
      let sh := if w =? 8 then 0 else if w =? 16 then 1 else if w =? 32 then 2 else 3 in
      let probe := if d <? 0 then mn else mx in
      ((w =? 8) || (w =? 16) || (w =? 32) || (w =? 64)) &&
      code_eqb code (mov_template sz sh d probe live (find_fn code))
  | _ => false
  end.

(** ** the budget check emitted before every branch in limited mode ([emit_limit_check]):
    load the budget ([cxt+24]), leave through the termination path if it is below 2 (unsigned),
    otherwise decrement it and store it back *)
Inductive lins := LLoadBudget | LCmpRax (c : Z) | LJbTerm | LDecRax | LStoreBudget.
Record lst := { l_rax : Z; l_budget : Z; l_below : bool }.

Definition lstep (st : lst) (i : lins) : lst * bool :=
  match i with
  | LLoadBudget => ({| l_rax := l_budget st; l_budget := l_budget st; l_below := l_below st |}, false)
  | LCmpRax c => ({| l_rax := l_rax st; l_budget := l_budget st; l_below := (l_rax st mod 2 ^ 64 <? c mod 2 ^ 64) |}, false)
  | LJbTerm => (st, l_below st)
  | LDecRax => ({| l_rax := l_rax st - 1; l_budget := l_budget st; l_below := l_below st |}, false)
  | LStoreBudget => ({| l_rax := l_rax st; l_budget := l_rax st; l_below := l_below st |}, false)
  end.
Fixpoint lrun (code : list lins) (st : lst) : lst * bool :=
  match code with
  | [] => (st, false)
  | i :: rest => let '(st', ex) := lstep st i in if ex then (st', true) else lrun rest st'
  end.

Definition lins_eqb (a b : lins) : bool :=
  match a, b with
  | LLoadBudget, LLoadBudget | LJbTerm, LJbTerm | LDecRax, LDecRax | LStoreBudget, LStoreBudget => true
  | LCmpRax x, LCmpRax y => x =? y
  | _, _ => false
  end.
Definition limit_ok (code : list lins) : bool :=
  match code with
  | [a; b; c; d; e] => lins_eqb a LLoadBudget && lins_eqb b (LCmpRax 2) && lins_eqb c LJbTerm && lins_eqb d LDecRax && lins_eqb e LStoreBudget
  | _ => false
  end.

(** ** the frame set up by the prologue ([emit_prologue]): [pushes] callee-saved registers, then
    [sub rsp, sub_bytes] for the stack temporaries.  On entry rsp + 8 is 16-byte aligned (SysV). *)
Definition frame_ok (temps pushes sub_bytes : Z) : bool :=
  (sub_bytes mod 8 =? 0) && (0 <=? temps) && (8 * temps <=? sub_bytes) && ((8 + 8 * pushes + sub_bytes) mod 16 =? 0).

(** unchecked mode: the pointer move is the bare addition *)
Definition mov_unsafe_ok (w : Z) (i : binstr) (code : list mins) : bool :=
  match i with
  | MovP d => ((w =? 8) || (w =? 16) || (w =? 32) || (w =? 64)) && code_eqb code [MAddRbp (w / 8 * d)]
  | _ => false
  end.

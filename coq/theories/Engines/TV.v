(** * TV.v — certificate checker for the translation IR -> bytecode ([bc::CodeGen::translate],
    property C02; the JIT executes the same bytecode, C03).

    [tv_check w fuse ir code certs = true] is proved ([TVProofs.v]) to imply that, for every input
    and I/O environment, whenever the IR interpreter model ([IR.v]) runs the IR program to completion
    (or to an I/O failure), the bytecode model ([BC.v]) run on [code] does the same with exactly the
    same I/O trace.  The checker co-executes the two programs symbolically:

    - between two control points both sides are straight-line; their effect is computed as
      polynomials (the verified algebra of [Expr.v]) over *atoms* naming the values of cells,
      temporaries and inputs at the last anchor; outputs must be the same polynomials, inputs must
      come in the same order;
    - at a control point (loop head, loop exit, join after an [if]) the caller supplies, as an
      untrusted certificate, the facts it claims to hold there relative to a fresh anchor (cells
      with a known constant, temporaries as polynomials of the current cells / temporaries, values
      known to be non-zero, cells on which the two tapes are allowed to differ because a dead store
      was removed); the checker only verifies that every incoming state entails them.
    Nothing in this file is trusted for soundness except through the proof; the inference of the
    certificates is done outside (tools/tvproto.py). *)

From Coq Require Import ZArith List Bool.
From HPBF Require Import Cell IO Expr BC IR X86.
Import ListNotations.
Open Scope Z_scope.

(** ** atoms *)
Definition acell (k : Z) : Z := 5 * k.        (* common value of cell k at the anchor *)
Definition axi (k : Z) : Z := 5 * k + 1.      (* IR-side value of cell k at the anchor *)
Definition axb (k : Z) : Z := 5 * k + 2.      (* bytecode-side value of cell k at the anchor *)
Definition atmp (t : Z) : Z := 5 * t + 3.     (* temporary t at the anchor *)
Definition ainp (j : Z) : Z := 5 * j + 4.     (* j-th input after the anchor *)

Definition amap := list (Z * expr).
Fixpoint look (k : Z) (m : amap) : option expr :=
  match m with [] => None | (k', v) :: m' => if k' =? k then Some v else look k m' end.
Fixpoint memz (k : Z) (l : list Z) : bool :=
  match l with [] => false | x :: l' => (x =? k) || memz k l' end.

Record sst := { s_ci : amap; s_cb : amap; s_d : list Z; s_t : amap; s_nz : list expr; s_n : Z }.

Definition cell_i (st : sst) (k : Z) : expr :=
  match look k (s_ci st) with
  | Some p => p
  | None => if memz k (s_d st) then e_var (axi k) else e_var (acell k)
  end.
Definition cell_b (st : sst) (k : Z) : expr :=
  match look k (s_cb st) with
  | Some p => p
  | None => if memz k (s_d st) then e_var (axb k) else e_var (acell k)
  end.

Definition set_ci (st : sst) (m : amap) : sst :=
  {| s_ci := m; s_cb := s_cb st; s_d := s_d st; s_t := s_t st; s_nz := s_nz st; s_n := s_n st |}.
Definition set_cb (st : sst) (m : amap) : sst :=
  {| s_ci := s_ci st; s_cb := m; s_d := s_d st; s_t := s_t st; s_nz := s_nz st; s_n := s_n st |}.
Definition set_t (st : sst) (m : amap) : sst :=
  {| s_ci := s_ci st; s_cb := s_cb st; s_d := s_d st; s_t := m; s_nz := s_nz st; s_n := s_n st |}.
Definition set_n (st : sst) (n : Z) : sst :=
  {| s_ci := s_ci st; s_cb := s_cb st; s_d := s_d st; s_t := s_t st; s_nz := s_nz st; s_n := n |}.
Definition add_nz (st : sst) (p : expr) : sst :=
  {| s_ci := s_ci st; s_cb := s_cb st; s_d := s_d st; s_t := s_t st; s_nz := p :: s_nz st; s_n := s_n st |}.

(** ** comparison of polynomials: like terms combined (monomials with sorted variables as keys),
    zero coefficients dropped, monomials sorted *)
Definition pcanon (w : Z) (e : expr) : expr :=
  amap_parts (fold_left (fun m p => acc_add w (sort_z (snd p)) (fst p) m) e []).
Definition tv_same (w : Z) (a b : expr) : bool := part_eqb (pcanon w a) (pcanon w b).

(** ** substitution of polynomials for variables *)
Definition psubst (w : Z) (f : Z -> expr) (e : expr) : expr :=
  fold_right (fun p acc => e_add w (fold_right (fun v m => e_mul w (f v) m) (e_val (fst p)) (snd p)) acc) [] e.

(** ** symbolic events *)
Inductive sev := SOut (p : expr) | SIn.

(** ** IR side, straight-line *)
Definition is_simple (i : instr) : bool :=
  match i with IOut _ | IIn _ | ICalc _ => true | _ => false end.

Fixpoint split_simple (l : list instr) : list instr * list instr :=
  match l with
  | i :: l' => if is_simple i then let '(a, b) := split_simple l' in (i :: a, b) else ([], l)
  | [] => ([], [])
  end.

Definition sym_ir_step (w : Z) (st : sst) (i : instr) : sst * list sev :=
  match i with
  | IOut src => (st, [SOut (cell_i st src)])
  | IIn dst => (set_n (set_ci st ((dst, e_var (ainp (s_n st))) :: s_ci st)) (s_n st + 1), [SIn])
  | ICalc calcs =>
      let vals := map (fun ce => (fst ce, psubst w (cell_i st) (snd ce))) calcs in
      (set_ci st (fold_left (fun m kv => kv :: m) vals (s_ci st)), [])
  | _ => (st, [])
  end.

Fixpoint sym_ir (w : Z) (l : list instr) (st : sst) : sst * list sev :=
  match l with
  | [] => (st, [])
  | i :: l' => let '(st1, e1) := sym_ir_step w st i in
               let '(st2, e2) := sym_ir w l' st1 in (st2, e1 ++ e2)
  end.

(** ** bytecode side, straight-line *)
Definition is_arith (i : binstr) : bool :=
  match i with Noop | Inp _ | Outp _ | Add _ _ _ | Sub _ _ _ | Mul _ _ _ | Copy _ _ => true | _ => false end.

Definition imm_ok (w c : Z) : bool := (0 <=? c) && (c <? 2 ^ w).

Definition sym_read (w : Z) (st : sst) (l : loc) : option (expr * sst) :=
  match l with
  | Mem k => Some (cell_b st k, st)
  | MemZero k => Some (cell_b st k, set_cb st ((k, []) :: s_cb st))
  | Tmp t => match look t (s_t st) with Some p => Some (p, st) | None => None end
  | Imm c => if imm_ok w c then Some (e_val c, st) else None
  end.

Definition sym_write (st : sst) (l : loc) (v : expr) : sst :=
  match l with
  | Mem k | MemZero k => set_cb st ((k, v) :: s_cb st)
  | Tmp t => set_t st ((t, v) :: s_t st)
  | Imm _ => st
  end.

Definition sym_binop (w : Z) (f : expr -> expr -> expr) (st : sst) (d a b : loc) : option sst :=
  if loc_eqb d a then
    match sym_read w st b with
    | Some (vb, s1) => match sym_read w s1 a with
                       | Some (va, s2) => Some (sym_write s2 d (f va vb))
                       | None => None
                       end
    | None => None
    end
  else
    match sym_read w st a with
    | Some (va, s1) => match sym_read w s1 b with
                       | Some (vb, s2) => Some (sym_write s2 d (f va vb))
                       | None => None
                       end
    | None => None
    end.

Definition sym_bc_step (w : Z) (st : sst) (i : binstr) : option (sst * list sev) :=
  match i with
  | Noop => Some (st, [])
  | Outp src => Some (st, [SOut (cell_b st src)])
  | Inp dst => Some (set_n (set_cb st ((dst, e_var (ainp (s_n st))) :: s_cb st)) (s_n st + 1), [SIn])
  | Add d a b => option_map (fun s => (s, [])) (sym_binop w (e_add w) st d a b)
  | Sub d a b => option_map (fun s => (s, [])) (sym_binop w (fun x y => e_add w x (e_neg w y)) st d a b)
  | Mul d a b => option_map (fun s => (s, [])) (sym_binop w (e_mul w) st d a b)
  | Copy d a => match sym_read w st a with
                | Some (v, s1) => Some (sym_write s1 d v, [])
                | None => None
                end
  | _ => None
  end.

Fixpoint sym_bc (w : Z) (l : list binstr) (st : sst) : option (sst * list sev) :=
  match l with
  | [] => Some (st, [])
  | i :: l' => match sym_bc_step w st i with
               | Some (st1, e1) => match sym_bc w l' st1 with
                                   | Some (st2, e2) => Some (st2, e1 ++ e2)
                                   | None => None
                                   end
               | None => None
               end
  end.

Fixpoint ev_eq (w : Z) (a b : list sev) : bool :=
  match a, b with
  | [], [] => true
  | SOut p :: a', SOut q :: b' => tv_same w p q && ev_eq w a' b'
  | SIn :: a', SIn :: b' => ev_eq w a' b'
  | _, _ => false
  end.

(** both sides start from [st] (the IR side only touches [s_ci], the bytecode side [s_cb]/[s_t]) *)
Definition sym_region (w : Z) (pre : list instr) (seg : list binstr) (st : sst) : option sst :=
  let '(sti, evi) := sym_ir w pre st in
  match sym_bc w seg st with
  | Some (stb, evb) =>
      if ev_eq w evi evb && (s_n sti =? s_n stb)
      then Some {| s_ci := s_ci sti; s_cb := s_cb stb; s_d := s_d st; s_t := s_t stb; s_nz := s_nz st; s_n := s_n sti |}
      else None
  | None => None
  end.

(** ** the straight-line segment of the bytecode starting at [pc]: arithmetic and I/O instructions
    below [stop], not running into the hinted head of a following loop without a guard *)
Definition code_at (code : list binstr) (pc : Z) : option binstr :=
  if pc <? 0 then None else nth_error code (Z.to_nat pc).

Definition at_head (head : option Z) (pc : Z) : bool :=
  match head with Some h => h =? pc | None => false end.

Fixpoint seg_from (l : list binstr) (pc stop : Z) (head : option Z) : list binstr :=
  match l with
  | [] => []
  | i :: l' => if (pc <? stop) && is_arith i && negb (at_head head pc)
               then i :: seg_from l' (pc + 1) stop head else []
  end.
Definition bc_segment (code : list binstr) (pc stop : Z) (head : option Z) : list binstr :=
  if pc <? 0 then [] else seg_from (skipn (Z.to_nat pc) code) pc stop head.

(** ** certificates *)
Record facts := { f_c : amap; f_d : list Z; f_t : amap; f_nz : list expr }.
Inductive cert := CLoop (head back : Z) (inv exitf : facts) | CIf (join : facts).

Definition st_of_facts (f : facts) : sst :=
  {| s_ci := f_c f; s_cb := f_c f; s_d := f_d f; s_t := f_t f; s_nz := f_nz f; s_n := 0 |}.

Definition agree (w : Z) (st : sst) (k : Z) : bool := tv_same w (cell_i st k) (cell_b st k).

Definition keys (st : sst) : list Z := map fst (s_ci st) ++ map fst (s_cb st) ++ s_d st.

(** value, in the incoming state, of an atom of the new anchor *)
Definition atom_ok (w : Z) (st : sst) (a : Z) : bool :=
  let m := a mod 5 in
  if m =? 0 then agree w st (a / 5)
  else if m =? 1 then true
  else if m =? 2 then true
  else if m =? 3 then match look (a / 5) (s_t st) with Some _ => true | None => false end
  else false.
Definition atom_val (st : sst) (a : Z) : expr :=
  let m := a mod 5 in
  if m =? 0 then cell_b st (a / 5)
  else if m =? 1 then cell_i st (a / 5)
  else if m =? 2 then cell_b st (a / 5)
  else match look (a / 5) (s_t st) with Some p => p | None => [] end.

Definition subst_ok (w : Z) (st : sst) (q : expr) : bool := forallb (atom_ok w st) (e_variables q).
Definition subst_st (w : Z) (st : sst) (q : expr) : expr := psubst w (atom_val st) q.

(** a state that claims the zero polynomial to be non-zero describes no concrete state: it marks
    code that is unreachable (the exit of a loop without guard whose condition is provably non-zero
    at its back edge) and entails everything *)
Definition is_bot (st : sst) : bool := existsb (fun p => match p with [] => true | _ => false end) (s_nz st).

Definition is_nz_const (w : Z) (p : expr) : bool :=
  match p with [(c, [])] => negb (c mod 2 ^ w =? 0) | _ => false end.
Definition nonzero_in (w : Z) (st : sst) (p : expr) : bool :=
  is_bot st || is_nz_const w p || existsb (tv_same w p) (s_nz st).

Definition entails (w : Z) (st : sst) (f : facts) : bool :=
  is_bot st ||
  (forallb (fun k => negb (match look k (f_c f) with Some _ => true | None => false end)) (f_d f)
  && forallb (fun k => memz k (f_d f)
                       || (agree w st k
                           && match look k (f_c f) with
                              | Some q => subst_ok w st q && tv_same w (cell_b st k) (subst_st w st q)
                              | None => true
                              end)) (keys st ++ map fst (f_c f))
  && forallb (fun tq => match look (fst tq) (s_t st) with
                        | Some p => subst_ok w st (snd tq) && tv_same w p (subst_st w st (snd tq))
                        | None => false
                        end) (f_t f)
  && forallb (fun q => subst_ok w st q && nonzero_in w st (subst_st w st q)) (f_nz f)).

(** state at the back-edge exit of a loop: the loop is only left there with a zero condition.
    A guarded loop is left either at its guard (from the entry state) or at the back edge: its exit
    facts [exitf] are checked against both, so a loop that cannot be left at the back edge keeps
    what was known before it *)
Definition once_exit (w : Z) (stb : sst) (cond : Z) : sst :=
  if nonzero_in w stb (cell_i stb cond) then add_nz stb [] else stb.

(** after a pointer move nothing is known about the cells relative to the new pointer; the cells on
    which the tapes may differ move with it; temporaries keep constants only *)
Definition is_const (p : expr) : bool :=
  match p with [] => true | [(_, [])] => true | _ => false end.
Definition moved (w : Z) (st : sst) (shift : Z) : sst :=
  {| s_ci := []; s_cb := [];
     s_d := map (fun k => k - shift) (filter (fun k => negb (agree w st k)) (keys st));
     s_t := map (fun tp => (fst tp, if is_const (snd tp) then snd tp else e_var (atmp (fst tp)))) (s_t st);
     s_nz := []; s_n := 0 |}.

Definition all_agree (w : Z) (st : sst) : bool := forallb (agree w st) (keys st).

Definition is_nil {A} (l : list A) : bool := match l with [] => true | _ => false end.

(** head hint of the loop without a guard that follows the straight-line part, if any *)
Definition next_head (fuse : bool) (rest : list instr) (cs : list cert) : option Z :=
  match rest with
  | ILoop _ _ body true :: _ =>
      if fuse && is_nil body then None
      else match cs with CLoop h _ _ _ :: _ => Some h | _ => None end
  | _ => None
  end.

(** optional move at the end of a body *)
Definition after_move (w : Z) (code : list binstr) (pc : Z) (st : sst) (shift : Z) : option (Z * sst) :=
  if shift =? 0 then Some (pc, st)
  else match code_at code pc with
       | Some (MovP sh) => if sh =? shift then Some (pc + 1, moved w st shift) else None
       | _ => None
       end.

Fixpoint tv_block (fuel : nat) (w : Z) (fuse : bool) (code : list binstr)
    (insts : list instr) (pc stop : Z) (st : sst) (cs : list cert) : option (Z * sst * list cert) :=
  match fuel with
  | O => None
  | S fuel' =>
      let '(pre, rest) := split_simple insts in
      let seg := bc_segment code pc stop (next_head fuse rest cs) in
      match sym_region w pre seg st with
      | None => None
      | Some st1 =>
          let pc1 := pc + Z.of_nat (length seg) in
          match rest with
          | [] => Some (pc1, st1, cs)
          | ILoop cond shift body once :: rest' =>
              match code_at code pc1 with
              | None => None
              | Some b =>
                  if fuse && is_nil body then
                    match b with
                    | Scan c sh =>
                        if (c =? cond) && (sh =? shift) && (pc1 <? stop) && agree w st1 cond
                           && ((shift =? 0) || all_agree w st1)
                        then tv_block fuel' w fuse code rest' (pc1 + 1) stop
                               (if shift =? 0 then st1 else moved w st1 shift) cs
                        else None
                    | _ => None
                    end
                  else
                    match cs with
                    | CLoop head back inv exitf :: cs1 =>
                        let fi := st_of_facts inv in
                        let entry_ok :=
                          if once then nonzero_in w st1 (cell_i st1 cond) && (pc1 =? head)
                          else agree w st1 cond && (head =? pc1 + 1)
                               && match b with BrZ c off => (c =? cond) && (pc1 + off =? back + 1) | _ => false end in
                        let back_ok :=
                          match code_at code back with
                          | Some (BrNZ c off) => (c =? cond) && (back + off =? head)
                          | _ => false
                          end in
                        if entry_ok && back_ok && (back + 1 <=? stop) && (head <=? back) && (0 <=? pc1)
                           && entails w st1 inv && (once || entails w st1 exitf)
                        then
                          let ent := add_nz fi (e_var (if memz cond (f_d inv) then axi cond else acell cond)) in
                          match tv_block fuel' w fuse code body head back ent cs1 with
                          | Some (pc2, stb, cs2) =>
                              match after_move w code pc2 stb shift with
                              | Some (pc3, stb') =>
                                  if (pc3 =? back) && agree w stb' cond && entails w stb' inv
                                     && (once || entails w (once_exit w stb' cond) exitf)
                                  then tv_block fuel' w fuse code rest' (back + 1) stop
                                         (if once then once_exit w stb' cond else st_of_facts exitf) cs2
                                  else None
                              | None => None
                              end
                          | None => None
                          end
                        else None
                    | _ => None
                    end
              end
          | IIf cond shift body :: rest' =>
              match code_at code pc1, cs with
              | Some (BrZ c off), CIf join :: cs1 =>
                  let exit := pc1 + off in
                  if (c =? cond) && agree w st1 cond && (pc1 + 1 <=? exit) && (exit <=? stop) && (0 <=? pc1)
                  then
                    match tv_block fuel' w fuse code body (pc1 + 1) exit (add_nz st1 (cell_b st1 cond)) cs1 with
                    | Some (pc2, stb, cs2) =>
                        match after_move w code pc2 stb shift with
                        | Some (pc3, stb') =>
                            if (pc3 =? exit) && entails w st1 join && entails w stb' join
                            then tv_block fuel' w fuse code rest' exit stop (st_of_facts join) cs2
                            else None
                        | None => None
                        end
                    | None => None
                    end
                  else None
              | _, _ => None
              end
          | _ => None
          end
      end
  end.

(** the tape starts all-zero: the initial state may list any cells as holding 0 (the caller chooses
    which; every choice is sound) *)
Definition st0 (zs : list Z) : sst :=
  {| s_ci := map (fun k => (k, [])) zs; s_cb := map (fun k => (k, [])) zs; s_d := []; s_t := []; s_nz := []; s_n := 0 |}.

Fixpoint tvsize (i : instr) : nat :=
  match i with
  | ILoop _ _ body _ | IIf _ _ body => S (list_sum (map tvsize body))
  | _ => 1
  end.
Definition isize (l : list instr) : nat := S (list_sum (map tvsize l)).

(** the top-level block's final move is never executed by the IR interpreter; the bytecode may or
    may not contain it *)
Definition tv_check (w : Z) (fuse : bool) (ir : block) (code : list binstr) (zs : list Z) (cs : list cert) : bool :=
  (0 <=? w) &&
  match tv_block (S (isize (snd ir))) w fuse code (snd ir) 0 (Z.of_nat (length code)) (st0 zs) cs with
  | Some (pc, _, []) =>
      (pc =? Z.of_nat (length code))
      || ((pc + 1 =? Z.of_nat (length code)) && match code_at code pc with Some (MovP _) => true | _ => false end)
  | _ => false
  end.

(** * BCRaw.v — the memory protocol of the bytecode interpreter and of the JIT in checked mode
    (src/exec/bcint/ops.rs [enter_ops], [checkl]/[checkr], [movl]/[movr], [scanl]/[scanr] and the
    operand reads/writes, which are raw pointer dereferences [*mem.offset(k)]), over the tape
    model of [Tape.v].

    On entry the whole access window [[mn, mx]] of the program is made accessible.  A pointer move
    by [d] probes one end of the window only — the lower end when [d < 0], the upper end otherwise
    — and calls [make_accessible(mn, mx + 1)] when the probe fails.  Every operand access is a raw
    dereference at an offset inside the window: an index outside the buffer is the outcome
    [RawOob].  No proofs here. *)
From Coq Require Import ZArith List Bool.
From HPBF Require Import Tape.
Import ListNotations.
Open Scope Z_scope.

Inductive rop := REnter | RMov (d : Z) | RMovJ (d : Z) (* the JIT's move: on a miss only the probed cell is requested *) | RMovU (d : Z) (* unchecked mode: no probe *) | RGet (k : Z) | RSet (k v : Z) | RPre (a b : Z) (* the caller's make_accessible(a, b) *).

(** what a run lets the caller observe: values read, and whether a probe found the window end
    accessible (used to drive the implementation through the same history) *)
Inductive robs := RVal (v : Z) | RProbe (hit : bool).
Fixpoint vals_of (l : list robs) : list Z :=
  match l with [] => [] | RVal v :: r => v :: vals_of r | RProbe _ :: r => vals_of r end.

Definition r_get (t : rtape) (k : Z) : tres Z :=
  let p := t_ptr t k in if p <? t_size t then TOk (t_buf t p) else RawOob p.

Definition r_set (t : rtape) (k v : Z) : tres rtape := t_raw_write t (t_ptr t k) v.

Section Run.
Variable pol : policy.
Variables mn mx : Z.

(** [checkl]/[checkr] after the pointer has moved *)
Definition r_probe (ok : bool) (t1 : rtape) (d : Z) : tres rtape :=
  if t_check t1 (if d <? 0 then mn else mx) then TOk t1
  else t_make_accessible pol ok t1 mn (mx + 1).

(** the baseline JIT (codegen.rs, [Instr::Mov] with [safe]): the same one-sided probe, but on a
    miss it stores the probed cell's index as the current offset, calls
    [hpbf_context_extend(cxt, 0, 1)] and recomputes the tape pointer — that is, it requests the
    probed cell only *)
Definition r_probe_jit (ok : bool) (t1 : rtape) (d : Z) : tres rtape :=
  let probe := if d <? 0 then mn else mx in
  if t_check t1 probe then TOk t1 else t_make_accessible pol ok t1 probe (probe + 1).

Fixpoint r_run (ops : list rop) (allocs : list bool) (t : rtape) : tres (list robs * rtape) :=
  match ops with
  | [] => TOk ([], t)
  | op :: rest =>
      match op with
      | REnter =>
          let '(ok, allocs') := if grows t mn (mx + 1) then next_alloc allocs else (true, allocs) in
          match t_make_accessible pol ok t mn (mx + 1) with
          | TOk t' => r_run rest allocs' t'
          | RawOob i => RawOob i | TooLarge => TooLarge | AllocFail => AllocFail
          end
      | RMov d =>
          let t1 := t_mov t d in
          let '(ok, allocs') := if grows t1 mn (mx + 1) then next_alloc allocs else (true, allocs) in
          match r_probe ok t1 d with
          | TOk t' => match r_run rest allocs' t' with
                      | TOk (vs, tf) => TOk (RProbe (t_check t1 (if d <? 0 then mn else mx)) :: vs, tf)
                      | RawOob i => RawOob i | TooLarge => TooLarge | AllocFail => AllocFail
                      end
          | RawOob i => RawOob i | TooLarge => TooLarge | AllocFail => AllocFail
          end
      | RMovJ d =>
          let t1 := t_mov t d in
          let probe := if d <? 0 then mn else mx in
          let '(ok, allocs') := if grows t1 probe (probe + 1) then next_alloc allocs else (true, allocs) in
          match r_probe_jit ok t1 d with
          | TOk t' => match r_run rest allocs' t' with
                      | TOk (vs, tf) => TOk (RProbe (t_check t1 probe) :: vs, tf)
                      | RawOob i => RawOob i | TooLarge => TooLarge | AllocFail => AllocFail
                      end
          | RawOob i => RawOob i | TooLarge => TooLarge | AllocFail => AllocFail
          end
      | RMovU d => r_run rest allocs (t_mov t d)
      | RPre a b =>
          let '(ok, allocs') := if grows t a b then next_alloc allocs else (true, allocs) in
          match t_make_accessible pol ok t a b with
          | TOk t' => r_run rest allocs' t'
          | RawOob i => RawOob i | TooLarge => TooLarge | AllocFail => AllocFail
          end
      | RGet k =>
          match r_get t k with
          | TOk v => match r_run rest allocs t with
                     | TOk (vs, tf) => TOk (RVal v :: vs, tf)
                     | RawOob i => RawOob i | TooLarge => TooLarge | AllocFail => AllocFail
                     end
          | RawOob i => RawOob i | TooLarge => TooLarge | AllocFail => AllocFail
          end
      | RSet k v =>
          match r_set t k v with
          | TOk t' => r_run rest allocs t'
          | RawOob i => RawOob i | TooLarge => TooLarge | AllocFail => AllocFail
          end
      end
  end.
End Run.

(** the specification: an unbounded zero-initialised array and a logical pointer *)
Fixpoint r_spec (ops : list rop) (cells : Z -> Z) (pos : Z) : list Z :=
  match ops with
  | [] => []
  | REnter :: rest => r_spec rest cells pos
  | RMov d :: rest => r_spec rest cells (pos + d)
  | RMovJ d :: rest => r_spec rest cells (pos + d)
  | RMovU d :: rest => r_spec rest cells (pos + d)
  | RPre _ _ :: rest => r_spec rest cells pos
  | RGet k :: rest => cells (pos + k) :: r_spec rest cells pos
  | RSet k v :: rest => r_spec rest (fun i => if i =? pos + k then v else cells i) pos
  end.

(** operands inside the window, pointer positions inside the magnitude guard *)
Fixpoint rops_ok (mn mx : Z) (ops : list rop) (pos : Z) : bool :=
  match ops with
  | [] => true
  | REnter :: rest => rops_ok mn mx rest pos
  | RMov d :: rest => small (pos + d) && rops_ok mn mx rest (pos + d)
  | RMovJ d :: rest => small (pos + d) && rops_ok mn mx rest (pos + d)
  | RMovU _ :: _ | RPre _ _ :: _ => false
  | RGet k :: rest => (mn <=? k) && (k <=? mx) && rops_ok mn mx rest pos
  | RSet k _ :: rest => (mn <=? k) && (k <=? mx) && rops_ok mn mx rest pos
  end.

(** unchecked mode: the caller pre-allocates the cells [[-m, m]]; moves are not probed; every
    operand access must fall on a cell of that region *)
Fixpoint uops_ok (m : Z) (ops : list rop) (pos : Z) : bool :=
  match ops with
  | [] => true
  | RMovU d :: rest => small (pos + d) && uops_ok m rest (pos + d)
  | RGet k :: rest => (- m <=? pos + k) && (pos + k <=? m) && small k && uops_ok m rest pos
  | RSet k _ :: rest => (- m <=? pos + k) && (pos + k <=? m) && small k && uops_ok m rest pos
  | _ :: _ => false
  end.

(** * Inplace.v — model of the in-place interpreter (src/exec/inplace.rs, property C04).

    The program counter is represented by the *suffix* of the byte string still to be
    executed (a bijection with [pc] for a fixed program); the loop stack holds the suffixes
    that start just after each open '['.  One function per [match] arm; the forward scan is
    its own recursive function with the nesting counter. *)

From Coq Require Import ZArith List Bool.
From HPBF Require Import Cell IO BF.
Import ListNotations.
Open Scope Z_scope.

Record ipst := {
  ip_tape : tmap; ip_ptr : Z; ip_io : iost;
  ip_budget : Z;
  ip_stack : list (list Z)
}.

Definition ip0 (budget : Z) : ipst :=
  {| ip_tape := tempty; ip_ptr := 0; ip_io := io0; ip_budget := budget; ip_stack := [] |}.

Definition ip_cur (s : ipst) : Z := tget (ip_tape s) (ip_ptr s).
Definition ip_set_cur (s : ipst) (v : Z) : ipst :=
  {| ip_tape := tset (ip_tape s) (ip_ptr s) v; ip_ptr := ip_ptr s; ip_io := ip_io s;
     ip_budget := ip_budget s; ip_stack := ip_stack s |}.
Definition ip_set_io (s : ipst) (i : iost) : ipst :=
  {| ip_tape := ip_tape s; ip_ptr := ip_ptr s; ip_io := i; ip_budget := ip_budget s; ip_stack := ip_stack s |}.
Definition ip_move (s : ipst) (d : Z) : ipst :=
  {| ip_tape := ip_tape s; ip_ptr := ip_ptr s + d; ip_io := ip_io s; ip_budget := ip_budget s; ip_stack := ip_stack s |}.
Definition ip_set_stack (s : ipst) (st : list (list Z)) : ipst :=
  {| ip_tape := ip_tape s; ip_ptr := ip_ptr s; ip_io := ip_io s; ip_budget := ip_budget s; ip_stack := st |}.
Definition ip_set_budget (s : ipst) (b : Z) : ipst :=
  {| ip_tape := ip_tape s; ip_ptr := ip_ptr s; ip_io := ip_io s; ip_budget := b; ip_stack := ip_stack s |}.

(** lines 63-81: skip to just after the matching ']' ([cnt] = nesting counter); running off
    the end leaves the empty suffix *)
Fixpoint ip_scan (rest : list Z) (cnt : nat) : list Z :=
  match rest with
  | [] => []
  | c :: rest' =>
      if c =? ch_close then
        match cnt with
        | O => rest'
        | S n => ip_scan rest' n
        end
      else if c =? ch_open then ip_scan rest' (S cnt)
      else ip_scan rest' cnt
  end.

(** [total] is the length of the whole program: [pc - 1 = total - length rest - 1] *)
Fixpoint ip_exec (w : Z) (e : env) (limited : bool) (total : Z) (fuel : nat) (rest : list Z) (s : ipst)
  : outcome ipst :=
  match fuel with
  | O => OutOfFuel s
  | S f =>
      match rest with
      | [] => Done s
      | c :: rest' =>
          if c =? ch_lt then ip_exec w e limited total f rest' (ip_move s (-1))
          else if c =? ch_gt then ip_exec w e limited total f rest' (ip_move s 1)
          else if c =? ch_plus then ip_exec w e limited total f rest' (ip_set_cur s (wadd w (ip_cur s) 1))
          else if c =? ch_minus then ip_exec w e limited total f rest' (ip_set_cur s (wadd w (ip_cur s) (neg_one w)))
          else if c =? ch_dot then
            match do_output e (ip_io s) (into_u8 w (ip_cur s)) with
            | IoOk _ i => ip_exec w e limited total f rest' (ip_set_io s i)
            | IoFail i => Stopped (ip_set_io s i)
            end
          else if c =? ch_comma then
            match do_input e (ip_io s) with
            | IoOk b i => ip_exec w e limited total f rest' (ip_set_io (ip_set_cur s (from_u8 w b)) i)
            | IoFail i => Stopped (ip_set_io s i)
            end
          else if c =? ch_open then
            if ip_cur s =? 0 then ip_exec w e limited total f (ip_scan rest' O) s
            else ip_exec w e limited total f rest' (ip_set_stack s (rest' :: ip_stack s))
          else if c =? ch_close then
            if limited && (ip_budget s =? 0) then Interrupted s
            else
              let s1 := if limited then ip_set_budget s (ip_budget s - 1) else s in
              match ip_stack s1 with
              | [] => Errored (total - Z.of_nat (length rest)) s1
              | target :: st' =>
                  if ip_cur s1 =? 0 then ip_exec w e limited total f rest' (ip_set_stack s1 st')
                  else ip_exec w e limited total f target s1
              end
          else ip_exec w e limited total f rest' s
      end
  end.

Definition ip_run (w : Z) (e : env) (limited : bool) (budget : Z) (fuel : nat) (src : list Z) : outcome ipst :=
  ip_exec w e limited (Z.of_nat (length src)) fuel src (ip0 budget).

(** * X86Call.v — the runtime-call templates of the baseline JIT ([Instr::Inp] and [Instr::Out]
    in src/exec/basejit/codegen.rs: [emit_pre_call], argument set-up, [call], [emit_post_call],
    the test of the result, the conditional jump to the termination path and, for input, the
    store of the result): an exact (64-bit) concrete semantics with a stack and a call oracle,
    a provenance-tracking symbolic evaluator, and the checker used by properties C03 and C08.

    Registers are numbered as in [X86.v]; [kk] is what has been pushed since the start of the
    template (top first) — [sub rsp, 8] pushes a junk word, [add rsp, 8] drops one; the call
    replaces the caller-saved registers by the values of the oracle (the callee's results: the
    return value is the oracle's rax) and records its first two arguments.  No proofs here. *)
From Coq Require Import ZArith List Bool.
From HPBF Require Import BC X86.
Import ListNotations.
Open Scope Z_scope.

Inductive kins :=
| KPush (r : Z) | KPop (r : Z) | KSubRsp | KAddRsp
| KMovRR (d s : Z)          (* mov r64, r64 *)
| KLoad (d k : Z)           (* zero-extending load of tape cell k *)
| KMovI (d c : Z)           (* mov / movabs r, imm *)
| KCall (t : Z)             (* call through register t *)
| KTest8 (r : Z)            (* test r8, r8 *)
| KCmp64 (r c : Z)          (* cmp r64, imm (c as an unsigned 64-bit value) *)
| KCmpCell (k : Z)          (* cmp <cell k at the cell width>, 0 *)
| KJe | KJne                (* the jump to the termination path *)
| KStore (k r : Z).         (* store the low w bits of r into tape cell k *)

Record kst := { kr : Z -> Z; kc : Z -> Z; kk : list Z; kcalls : list (Z * Z); kzf : bool }.

Definition caller_saved (r : Z) : bool := existsb (Z.eqb r) [0; 1; 2; 6; 7; 8; 9; 10; 11].

Section Conc.
Variable w : Z.
Variable oracle : Z -> Z.

Definition set_r (st : kst) (r v : Z) : kst :=
  {| kr := upd (kr st) r v; kc := kc st; kk := kk st; kcalls := kcalls st; kzf := kzf st |}.

(** one instruction; the boolean says that the jump to the termination path was taken *)
Definition kstep (st : kst) (i : kins) : kst * bool :=
  match i with
  | KPush r => ({| kr := kr st; kc := kc st; kk := kr st r :: kk st; kcalls := kcalls st; kzf := kzf st |}, false)
  | KPop r =>
      match kk st with
      | v :: k' => ({| kr := upd (kr st) r v; kc := kc st; kk := k'; kcalls := kcalls st; kzf := kzf st |}, false)
      | [] => (set_r st r 0, false)
      end
  | KSubRsp => ({| kr := kr st; kc := kc st; kk := 0 :: kk st; kcalls := kcalls st; kzf := kzf st |}, false)
  | KAddRsp => ({| kr := kr st; kc := kc st; kk := tl (kk st); kcalls := kcalls st; kzf := kzf st |}, false)
  | KMovRR d s => (set_r st d (kr st s), false)
  | KLoad d k => (set_r st d (kc st k), false)
  | KMovI d c => (set_r st d c, false)
  | KCall _ =>
      ({| kr := fun r => if caller_saved r then oracle r else kr st r; kc := kc st; kk := kk st;
          kcalls := kcalls st ++ [(kr st 7, kr st 6)]; kzf := kzf st |}, false)
  | KTest8 r => ({| kr := kr st; kc := kc st; kk := kk st; kcalls := kcalls st; kzf := (kr st r mod 256 =? 0) |}, false)
  | KCmp64 r c => ({| kr := kr st; kc := kc st; kk := kk st; kcalls := kcalls st; kzf := (kr st r =? c) |}, false)
  | KCmpCell k => ({| kr := kr st; kc := kc st; kk := kk st; kcalls := kcalls st; kzf := (kc st k =? 0) |}, false)
  | KJe => (st, kzf st)
  | KJne => (st, negb (kzf st))
  | KStore k r => ({| kr := kr st; kc := upd (kc st) k (kr st r mod 2 ^ w); kk := kk st; kcalls := kcalls st; kzf := kzf st |}, false)
  end.

Fixpoint krun (code : list kins) (st : kst) : kst * bool :=
  match code with
  | [] => (st, false)
  | i :: rest => let '(st', ex) := kstep st i in if ex then (st', true) else krun rest st'
  end.
End Conc.

(** ** provenance: where the 64 bits of a register come from *)
Inductive kval := VInit (r : Z) | VCell (k : Z) | VRet (r : Z) | VImm (c : Z) | VJunk.
Inductive ktest := TNone | TTest8 (v : kval) | TCmp64 (v : kval) (c : Z).

Record ksym := {
  yr : list (Z * kval);          (* registers written so far; others hold [VInit] *)
  ystore : list (Z * kval);      (* cells stored to (low w bits of the value), most recent first *)
  yk : list kval;                (* pushed words *)
  ycalls : list (kval * kval);
  ytest : ktest;
  ycalled : bool;
  yexit : option (bool * ktest)  (* the conditional exit: (is it [je]?, what the flags came from) *)
}.
Definition ksym0 : ksym :=
  {| yr := []; ystore := []; yk := []; ycalls := []; ytest := TNone; ycalled := false; yexit := None |}.

Fixpoint klook (r : Z) (l : list (Z * kval)) (d : kval) : kval :=
  match l with [] => d | (r', v) :: l' => if r' =? r then v else klook r l' d end.
Definition yget (y : ksym) (r : Z) : kval := klook r (yr y) (VInit r).

Definition yset (y : ksym) (r : Z) (v : kval) : ksym :=
  {| yr := (r, v) :: yr y; ystore := ystore y; yk := yk y; ycalls := ycalls y; ytest := ytest y;
     ycalled := ycalled y; yexit := yexit y |}.

Definition ystep (y : ksym) (i : kins) : option ksym :=
  match i with
  | KPush r => Some {| yr := yr y; ystore := ystore y; yk := yget y r :: yk y; ycalls := ycalls y; ytest := ytest y;
                       ycalled := ycalled y; yexit := yexit y |}
  | KPop r =>
      if pinned r then None
      else match yk y with
           | v :: k' => Some {| yr := (r, v) :: yr y; ystore := ystore y; yk := k'; ycalls := ycalls y; ytest := ytest y;
                                ycalled := ycalled y; yexit := yexit y |}
           | [] => None
           end
  | KSubRsp => Some {| yr := yr y; ystore := ystore y; yk := VJunk :: yk y; ycalls := ycalls y; ytest := ytest y;
                       ycalled := ycalled y; yexit := yexit y |}
  | KAddRsp =>
      match yk y with
      | _ :: k' => Some {| yr := yr y; ystore := ystore y; yk := k'; ycalls := ycalls y; ytest := ytest y;
                           ycalled := ycalled y; yexit := yexit y |}
      | [] => None
      end
  | KMovRR d s => if pinned d then None else Some (yset y d (yget y s))
  | KLoad d k =>
      if pinned d then None
      else if existsb (fun kv => fst kv =? k) (ystore y) then None
      else Some (yset y d (VCell k))
  | KMovI d c => if pinned d then None else Some (yset y d (VImm c))
  | KCall _ =>
      if ycalled y || negb (Nat.even (length (yk y))) then None
      else Some {| yr := map (fun r => (r, VRet r)) [0; 1; 2; 6; 7; 8; 9; 10; 11] ++ yr y; ystore := ystore y; yk := yk y;
                   ycalls := [(yget y 7, yget y 6)]; ytest := ytest y; ycalled := true; yexit := yexit y |}
  | KTest8 r => Some {| yr := yr y; ystore := ystore y; yk := yk y; ycalls := ycalls y; ytest := TTest8 (yget y r);
                        ycalled := ycalled y; yexit := yexit y |}
  | KCmp64 r c => Some {| yr := yr y; ystore := ystore y; yk := yk y; ycalls := ycalls y; ytest := TCmp64 (yget y r) c;
                          ycalled := ycalled y; yexit := yexit y |}
  | KCmpCell _ => None     (* not part of a call template *)
  | KJe | KJne =>
      match yexit y, yk y with
      | None, [] => if negb (ycalled y) then None else Some {| yr := yr y; ystore := ystore y; yk := yk y; ycalls := ycalls y; ytest := ytest y;
                            ycalled := ycalled y; yexit := Some (match i with KJe => true | _ => false end, ytest y) |}
      | _, _ => None
      end
  | KStore k r =>
      match yexit y with
      | Some _ => Some {| yr := yr y; ystore := (k, yget y r) :: ystore y; yk := yk y; ycalls := ycalls y; ytest := ytest y;
                          ycalled := ycalled y; yexit := yexit y |}
      | None => None   (* the templates store only after the test of the result *)
      end
  end.

Fixpoint yrun (code : list kins) (y : ksym) : option ksym :=
  match code with
  | [] => Some y
  | i :: rest => match ystep y i with Some y' => yrun rest y' | None => None end
  end.

Definition kval_eqb (a b : kval) : bool :=
  match a, b with
  | VInit x, VInit y | VCell x, VCell y | VRet x, VRet y | VImm x, VImm y => x =? y
  | _, _ => false
  end.

(** registers that must hold at the end what they held at the start: the pinned ones and the
    registers of the temporaries live after the instruction *)
Definition must_keep (live : Z) (r : Z) : bool :=
  pinned r ||
  existsb (fun t => match tmp_reg t with Some r' => (r' =? r) && Z.testbit live t | None => false end)
          [0; 1; 2; 3; 4; 5; 6; 7; 8; 9; 10].

Definition regs_restored (live : Z) (y : ksym) : bool :=
  forallb (fun r => negb (must_keep live r) || kval_eqb (yget y r) (VInit r))
          [0; 1; 2; 3; 4; 5; 6; 7; 8; 9; 10; 11; 12; 13; 14; 15].

Definition U64M1 : Z := 2 ^ 64 - 1.

Definition call_ok (i : binstr) (live : Z) (code : list kins) : bool :=
  match yrun code ksym0 with
  | None => false
  | Some y =>
      match yk y with [] => true | _ => false end && ycalled y && regs_restored live y &&
      match i with
      | Inp dst =>
          match ycalls y with [(a, _)] => kval_eqb a (VInit 3) | _ => false end
          && match yexit y with Some (true, TCmp64 v c) => kval_eqb v (VRet 0) && (c =? U64M1) | _ => false end
          && match ystore y with [(k, v)] => (k =? dst) && kval_eqb v (VRet 0) | _ => false end
      | Outp src =>
          match ycalls y with [(a, b)] => kval_eqb a (VInit 3) && kval_eqb b (VCell src) | _ => false end
          && match yexit y with Some (false, TTest8 v) => kval_eqb v (VRet 0) | _ => false end
          && match ystore y with [] => true | _ => false end
      | _ => false
      end
  end.

(** ** conditional branches: [BrZ]/[BrNZ] compare the condition cell with zero at the cell width and
    jump (the check that the jump goes to the code of instruction [pc + off] is made by the caller
    on the relocated machine code) *)
Definition br_ok (i : binstr) (code : list kins) : bool :=
  match i, code with
  | BrZ c _, [KCmpCell k; KJe] => k =? c
  | BrNZ c _, [KCmpCell k; KJne] => k =? c
  | _, _ => false
  end.

(** * Machines.v — small-step (stack machine) presentations of the canonical semantics and of
    the IR semantics.  One machine step costs O(1), so [n] steps cost O(n) whatever the
    program does; these are what the extracted oracle runs.  [MachineProofs.v] relates them
    to the fuel-indexed big-step definitions of [BF.v] and [IR.v]. *)

From Coq Require Import ZArith List Bool.
From HPBF Require Import Cell IO BF Expr IR.
Import ListNotations.
Open Scope Z_scope.

(** ** canonical Brainfuck: control = commands still to run in the innermost loop body,
    continuation = stack of (body, rest) of the enclosing loops *)
Record bfcfg := { c_ctl : list cmd; c_kont : list (list cmd * list cmd); c_st : bfst }.

Inductive step_res (A : Type) := Next (a : A) | Final (o : outcome bfst).
Arguments Next {A}. Arguments Final {A}.

Definition bf_step (w : Z) (e : env) (c : bfcfg) : step_res bfcfg :=
  match c_ctl c with
  | [] =>
      match c_kont c with
      | [] => Final (Done (c_st c))
      | (body, rest) :: k =>
          if cur (c_st c) =? 0 then Next {| c_ctl := rest; c_kont := k; c_st := c_st c |}
          else Next {| c_ctl := body; c_kont := (body, rest) :: k; c_st := c_st c |}
      end
  | Loop body :: rest =>
      if cur (c_st c) =? 0 then Next {| c_ctl := rest; c_kont := c_kont c; c_st := c_st c |}
      else Next {| c_ctl := body; c_kont := (body, rest) :: c_kont c; c_st := c_st c |}
  | x :: rest =>
      match bf_simple w e x (c_st c) with
      | inl s' => Next {| c_ctl := rest; c_kont := c_kont c; c_st := s' |}
      | inr s' => Final (Stopped s')
      end
  end.

Fixpoint bf_steps (w : Z) (e : env) (n : nat) (c : bfcfg) : outcome bfst :=
  match n with
  | O => OutOfFuel (c_st c)
  | S n' => match bf_step w e c with
            | Next c' => bf_steps w e n' c'
            | Final o => o
            end
  end.

Definition bf_machine_run (w : Z) (e : env) (n : nat) (src : list Z) : option (outcome bfst) :=
  match ast_of_source src with
  | Some p => Some (bf_steps w e n {| c_ctl := p; c_kont := []; c_st := bf0 |})
  | None => None
  end.

(** ** IR machine: a frame is the shift to apply and the instructions to continue with when
    the current block is finished ([ILoop] re-tests its condition: the continuation starts
    with the loop itself) *)
Record ircfg := { i_ctl : list instr; i_kont : list (Z * list instr); i_st : irst }.

Inductive istep_res := INext (c : ircfg) | IFinal (o : outcome irst).

Definition ir_step (w : Z) (e : env) (limited : bool) (c : ircfg) : istep_res :=
  let s := i_st c in
  match i_ctl c with
  | [] =>
      match i_kont c with
      | [] => IFinal (Done s)
      | (shift, next) :: k =>
          let s' := ir_move s shift in
          if limited then
            if ir_budget s' =? 0 then IFinal (Interrupted s')
            else INext {| i_ctl := next; i_kont := k; i_st := ir_set_budget s' (ir_budget s' - 1) |}
          else INext {| i_ctl := next; i_kont := k; i_st := s' |}
      end
  | IOut src :: rest =>
      match do_output e (ir_io s) (into_u8 w (ir_read s src)) with
      | IoOk _ i => INext {| i_ctl := rest; i_kont := i_kont c; i_st := ir_set_io s i |}
      | IoFail i => IFinal (Stopped (ir_set_io s i))
      end
  | IIn dst :: rest =>
      match do_input e (ir_io s) with
      | IoOk b i => INext {| i_ctl := rest; i_kont := i_kont c; i_st := ir_write (ir_set_io s i) dst (from_u8 w b) |}
      | IoFail i => IFinal (Stopped (ir_set_io s i))
      end
  | ICalc calcs :: rest => INext {| i_ctl := rest; i_kont := i_kont c; i_st := ir_calc w calcs s |}
  | ILoop cond shift body once :: rest =>
      if ir_read s cond =? 0 then INext {| i_ctl := rest; i_kont := i_kont c; i_st := s |}
      else INext {| i_ctl := body; i_kont := (shift, ILoop cond shift body once :: rest) :: i_kont c; i_st := s |}
  | IIf cond shift body :: rest =>
      if ir_read s cond =? 0 then INext {| i_ctl := rest; i_kont := i_kont c; i_st := s |}
      else INext {| i_ctl := body; i_kont := (shift, rest) :: i_kont c; i_st := s |}
  end.

Fixpoint ir_steps (w : Z) (e : env) (limited : bool) (n : nat) (c : ircfg) : outcome irst :=
  match n with
  | O => OutOfFuel (i_st c)
  | S n' => match ir_step w e limited c with
            | INext c' => ir_steps w e limited n' c'
            | IFinal o => o
            end
  end.

Definition ir_machine_run (w : Z) (e : env) (limited : bool) (budget : Z) (n : nat) (p : block) : outcome irst :=
  ir_steps w e limited n {| i_ctl := snd p; i_kont := []; i_st := ir0 budget |}.

(** ** State-repeat certificates of divergence (property C05).
    Two configurations are equivalent when they agree on everything the future of the run can
    depend on: control, continuation, tape contents, pointer and the remaining input (all
    cursors at or beyond the end of the input are equivalent).  The event log and the counters
    of past events are not compared. *)
Fixpoint cmd_eqb (a b : cmd) : bool :=
  match a, b with
  | Inc, Inc | Dec, Dec | Left, Left | Right, Right | Out, Out | In, In => true
  | Loop x, Loop y =>
      (fix leq (x y : list cmd) : bool :=
         match x, y with
         | [], [] => true
         | c :: x', d :: y' => cmd_eqb c d && leq x' y'
         | _, _ => false
         end) x y
  | _, _ => false
  end.

Fixpoint cmds_eqb (x y : list cmd) : bool :=
  match x, y with
  | [], [] => true
  | c :: x', d :: y' => cmd_eqb c d && cmds_eqb x' y'
  | _, _ => false
  end.

Fixpoint kont_eqb (x y : list (list cmd * list cmd)) : bool :=
  match x, y with
  | [], [] => true
  | (a1, b1) :: x', (a2, b2) :: y' => cmds_eqb a1 a2 && cmds_eqb b1 b2 && kont_eqb x' y'
  | _, _ => false
  end.

From Coq Require Import FMapPositive.
Definition tgetp (t : tmap) (p : positive) : Z :=
  match PositiveMap.find p t with Some v => v | None => 0 end.
Definition tmap_sub (a b : tmap) : bool :=
  forallb (fun kv => tgetp b (fst kv) =? snd kv) (PositiveMap.elements a).
Definition tmap_eqb (a b : tmap) : bool := tmap_sub a b && tmap_sub b a.

Definition eff_in_pos (e : env) (s : bfst) : nat := Nat.min (in_pos (io s)) (length (input e)).

Definition cfg_equiv (e : env) (c1 c2 : bfcfg) : bool :=
  (* cheap comparisons first: the extracted [&&] is lazy *)
  (ptr (c_st c1) =? ptr (c_st c2))
  && Nat.eqb (eff_in_pos e (c_st c1)) (eff_in_pos e (c_st c2))
  && cmds_eqb (c_ctl c1) (c_ctl c2) && kont_eqb (c_kont c1) (c_kont c2)
  && tmap_eqb (tape (c_st c1)) (tape (c_st c2)).

(** configuration after exactly [n] steps, if the run has not ended before *)
Fixpoint bf_cfg_after (w : Z) (e : env) (n : nat) (c : bfcfg) : option bfcfg :=
  match n with
  | O => Some c
  | S n' => match bf_step w e c with
            | Next c' => bf_cfg_after w e n' c'
            | Final _ => None
            end
  end.

(** [cert_ok i d]: the configurations after [i] and after [i + S d] steps exist and are equivalent.
    Valid only for fault-free environments (no injected failure). *)
Definition env_fault_free (e : env) : bool :=
  negb (in_absent e) && match in_fail_at e with None => true | Some _ => false end
  && match out_fail_at e with None => true | Some _ => false end.

Definition cert_ok (w : Z) (e : env) (p : list cmd) (i d : nat) : bool :=
  env_fault_free e &&
  match bf_cfg_after w e i {| c_ctl := p; c_kont := []; c_st := bf0 |} with
  | Some ci => match bf_cfg_after w e (S d) ci with
               | Some cj => cfg_equiv e ci cj
               | None => false
               end
  | None => false
  end.

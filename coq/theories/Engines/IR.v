(** * IR.v — syntax of [ir::Instr]/[ir::Block] and the semantics of the IR interpreter
    (src/exec/irint.rs:33 [execute_block]), including the budget (LIMITED) and I/O failures. *)

From Coq Require Import ZArith List Bool.
From HPBF Require Import Cell IO Expr.
Import ListNotations.
Open Scope Z_scope.

Inductive instr :=
| IOut (src : Z)
| IIn (dst : Z)
| ICalc (calcs : list (Z * expr))
| ILoop (cond : Z) (shift : Z) (body : list instr) (once : bool)
| IIf (cond : Z) (shift : Z) (body : list instr).

(** a block is its shift and its instructions *)
Definition block := (Z * list instr)%type.

Record irst := { ir_tape : tmap; ir_ptr : Z; ir_io : iost; ir_budget : Z }.
Definition ir0 (budget : Z) : irst := {| ir_tape := tempty; ir_ptr := 0; ir_io := io0; ir_budget := budget |}.

Definition ir_read (s : irst) (off : Z) : Z := tget (ir_tape s) (ir_ptr s + off).
Definition ir_write (s : irst) (off v : Z) : irst :=
  {| ir_tape := tset (ir_tape s) (ir_ptr s + off) v; ir_ptr := ir_ptr s; ir_io := ir_io s; ir_budget := ir_budget s |}.
Definition ir_set_io (s : irst) (i : iost) : irst :=
  {| ir_tape := ir_tape s; ir_ptr := ir_ptr s; ir_io := i; ir_budget := ir_budget s |}.
Definition ir_move (s : irst) (d : Z) : irst :=
  {| ir_tape := ir_tape s; ir_ptr := ir_ptr s + d; ir_io := ir_io s; ir_budget := ir_budget s |}.
Definition ir_set_budget (s : irst) (b : Z) : irst :=
  {| ir_tape := ir_tape s; ir_ptr := ir_ptr s; ir_io := ir_io s; ir_budget := b |}.

(** simultaneous assignment: evaluate all, then write all in order *)
Definition ir_calc (w : Z) (calcs : list (Z * expr)) (s : irst) : irst :=
  let vals := map (fun ce => (fst ce, eval w (snd ce) (ir_read s))) calcs in
  fold_left (fun s vv => ir_write s (fst vv) (snd vv)) vals s.

(** [execute_block]: [Done] = Some(true), [Interrupted] = Some(false), [Stopped] = None.
    The nested call's result is passed through [?], which only propagates [None]: an
    [Interrupted] body is followed by the move and the budget test of the enclosing loop.
    [ir_exec] runs the instruction list [insts]; [ir_loop] is the [while] of a Loop. *)
Fixpoint ir_exec (w : Z) (e : env) (limited : bool) (fuel : nat) (insts : list instr) (s : irst) : outcome irst :=
  match fuel with
  | O => OutOfFuel s
  | S f =>
      match insts with
      | [] => Done s
      | IOut src :: rest =>
          match do_output e (ir_io s) (into_u8 w (ir_read s src)) with
          | IoOk _ i => ir_exec w e limited f rest (ir_set_io s i)
          | IoFail i => Stopped (ir_set_io s i)
          end
      | IIn dst :: rest =>
          match do_input e (ir_io s) with
          | IoOk b i => ir_exec w e limited f rest (ir_write (ir_set_io s i) dst (from_u8 w b))
          | IoFail i => Stopped (ir_set_io s i)
          end
      | ICalc calcs :: rest => ir_exec w e limited f rest (ir_calc w calcs s)
      | ILoop cond shift body _ :: rest =>
          if ir_read s cond =? 0 then ir_exec w e limited f rest s
          else
            match ir_exec w e limited f body s with
            | Stopped s' => Stopped s'
            | OutOfFuel s' => OutOfFuel s'
            | Errored p s' => Errored p s'
            | Done s' | Interrupted s' =>
                let s'' := ir_move s' shift in
                if limited then
                  if ir_budget s'' =? 0 then Interrupted s''
                  else ir_exec w e limited f insts (ir_set_budget s'' (ir_budget s'' - 1))
                else ir_exec w e limited f insts s''
            end
      | IIf cond shift body :: rest =>
          if ir_read s cond =? 0 then ir_exec w e limited f rest s
          else
            match ir_exec w e limited f body s with
            | Stopped s' => Stopped s'
            | OutOfFuel s' => OutOfFuel s'
            | Errored p s' => Errored p s'
            | Done s' | Interrupted s' =>
                let s'' := ir_move s' shift in
                if limited then
                  if ir_budget s'' =? 0 then Interrupted s''
                  else ir_exec w e limited f rest (ir_set_budget s'' (ir_budget s'' - 1))
                else ir_exec w e limited f rest s''
            end
      end
  end.

(** the top-level block's shift is never applied by the interpreter (execution ends) *)
Definition ir_run (w : Z) (e : env) (limited : bool) (budget : Z) (fuel : nat) (p : block) : outcome irst :=
  ir_exec w e limited fuel (snd p) (ir0 budget).

(** [execute_limited] reports finished = [unwrap_or(true)]: true for normal completion and for
    I/O failure, false only when interrupted *)
Definition finished_flag {A} (o : outcome A) : bool :=
  match o with Interrupted _ => false | _ => true end.

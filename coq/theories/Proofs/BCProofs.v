(** * BCProofs.v — facts about the bytecode semantics [BC.bc_exec]:
    - a program accepted by the checker never fetches outside the code ([Errored] is unreachable);
    - budget-limited execution is a faithful prefix of unlimited execution (property C07, bytecode
      interpreter: [limit 1] before every branch, [limit usize::MAX] before an entered stationary scan). *)
From Coq Require Import ZArith List Bool Lia FMapPositive.
From HPBF Require Import Cell IO BC BCWf BCWfProofs MachineProofs LimitedProofs.
Import ListNotations.
Open Scope Z_scope.

Local Arguments Z.add : simpl never.
Local Arguments Z.sub : simpl never.
Local Arguments Z.mul : simpl never.

(** ** [fetch_of] is [instr_at] *)
Lemma code_map_find : forall l i m k, 0 <= i ->
  PositiveMap.find (key_of k) (code_map l i m) =
  if (i <=? k) && (k <? i + Z.of_nat (length l)) then nth_error l (Z.to_nat (k - i))
  else PositiveMap.find (key_of k) m.
Proof.
  induction l as [|x l IH]; intros i m k Hi; cbn [code_map length].
  - destruct (i <=? k) eqn:A; destruct (k <? i + Z.of_nat 0) eqn:B; cbn [andb]; try reflexivity.
    apply Z.leb_le in A. apply Z.ltb_lt in B. lia.
  - rewrite IH by lia. rewrite Nat2Z.inj_succ.
    destruct (i <=? k) eqn:A; destruct (k <? i + Z.succ (Z.of_nat (length l))) eqn:B;
      destruct (i + 1 <=? k) eqn:A'; destruct (k <? i + 1 + Z.of_nat (length l)) eqn:B'; cbn [andb];
      try apply Z.leb_le in A; try apply Z.leb_gt in A; try apply Z.ltb_lt in B; try apply Z.ltb_ge in B;
      try apply Z.leb_le in A'; try apply Z.leb_gt in A'; try apply Z.ltb_lt in B'; try apply Z.ltb_ge in B'; try lia.
    + replace (Z.to_nat (k - i)) with (S (Z.to_nat (k - (i + 1)))) by lia. reflexivity.
    + assert (k = i) by lia. subst k. rewrite PositiveMapAdditionalFacts.gsspec.
      destruct (PositiveMap.E.eq_dec (key_of i) (key_of i)) as [_|N]; [|exfalso; apply N; reflexivity].
      replace (i - i) with 0 by lia. reflexivity.
    + rewrite PositiveMapAdditionalFacts.gsspec.
      destruct (PositiveMap.E.eq_dec (key_of k) (key_of i)) as [E|_]; [apply key_of_inj in E; lia|reflexivity].
    + rewrite PositiveMapAdditionalFacts.gsspec.
      destruct (PositiveMap.E.eq_dec (key_of k) (key_of i)) as [E|_]; [apply key_of_inj in E; lia|reflexivity].
Qed.

Lemma fetch_instr_at : forall p pc, fetch_of p pc = instr_at (bp_code p) pc.
Proof.
  intros p pc. unfold fetch_of, instr_at. destruct (pc <? 0) eqn:N; [reflexivity|]. apply Z.ltb_ge in N.
  rewrite code_map_find by lia. rewrite Z.add_0_l, Z.sub_0_r.
  destruct (0 <=? pc) eqn:A; [|apply Z.leb_gt in A; lia]. cbn [andb].
  destruct (pc <? Z.of_nat (length (bp_code p))) eqn:B; [reflexivity|].
  apply Z.ltb_ge in B. rewrite PositiveMap.gempty. symmetry. apply nth_error_None. lia.
Qed.

(** ** operations other than branches leave the program counter alone *)
Lemma pc_read : forall w s l, bc_pc (snd (bc_read w s l)) = bc_pc s.
Proof. intros w s l. destruct l; reflexivity. Qed.
Lemma pc_write : forall s l v, bc_pc (bc_write s l v) = bc_pc s.
Proof. intros s l v. destruct l; reflexivity. Qed.
Lemma pc_binop : forall w op s d a b, bc_pc (bc_binop w op s d a b) = bc_pc s.
Proof.
  intros w op s d a b. unfold bc_binop. destruct (loc_eqb d a).
  - destruct (bc_read w s b) as [vb s1] eqn:R1. destruct (bc_read w s1 a) as [va s2] eqn:R2.
    rewrite pc_write. change s2 with (snd (va, s2)). rewrite <- R2, pc_read.
    change s1 with (snd (vb, s1)). rewrite <- R1, pc_read. reflexivity.
  - destruct (bc_read w s a) as [va s1] eqn:R1. destruct (bc_read w s1 b) as [vb s2] eqn:R2.
    rewrite pc_write. change s2 with (snd (vb, s2)). rewrite <- R2, pc_read.
    change s1 with (snd (va, s1)). rewrite <- R1, pc_read. reflexivity.
Qed.
Lemma pc_scan : forall f c sh s s', bc_scan f c sh s = Some s' -> bc_pc s' = bc_pc s.
Proof.
  induction f as [|f IH]; intros c sh s s' H; [discriminate|]. cbn [bc_scan] in H.
  destruct (bc_mem s c =? 0); [injection H as <-; reflexivity|]. rewrite (IH _ _ _ _ H). reflexivity.
Qed.
Lemma pc_limit : forall c s s0, bc_limit c s = Some s0 -> bc_pc s0 = bc_pc s.
Proof. intros c s s0 H. unfold bc_limit in H. destruct (bc_budget s <=? c); [discriminate|]. injection H as <-. reflexivity. Qed.

(** ** an accepted program never leaves its code *)
Section Safe.
Variable num_regs : Z.
Variable fuse : bool.
Variable p : bprog.
Hypothesis WF : bc_wf num_regs fuse p = true.
Variable w : Z.
Variable e : env.
Variable lim : bool.

Let len := Z.of_nat (length (bp_code p)).

Lemma fetch_some : forall pc, 0 <= pc < len -> exists i, fetch_of p pc = Some i /\ instr_at (bp_code p) pc = Some i.
Proof.
  intros pc H. rewrite fetch_instr_at. unfold instr_at. destruct (pc <? 0) eqn:N; [apply Z.ltb_lt in N; lia|].
  destruct (nth_error (bp_code p) (Z.to_nat pc)) as [i|] eqn:E; [exists i; split; reflexivity|].
  apply nth_error_None in E. unfold len in H. lia.
Qed.

Theorem exec_safe : forall fuel s, 0 <= bc_pc s <= len ->
  match bc_exec w e lim (fetch_of p) len fuel s with Errored _ _ => False | _ => True end.
Proof.
  induction fuel as [|f IH]; intros s PC; [exact I|].
  cbn [bc_exec]. destruct (bc_pc s =? len) eqn:E; [exact I|]. apply Z.eqb_neq in E.
  destruct (fetch_some (bc_pc s) ltac:(lia)) as (i & F & IA). rewrite F.
  assert (NX : forall s', bc_pc s' = bc_pc s -> 0 <= bc_pc (next s') <= len) by (intros s' Q; cbn; rewrite Q; lia).
  assert (BR : forall c off s', (i = BrZ c off \/ i = BrNZ c off) -> bc_pc s' = bc_pc s ->
                0 <= bc_pc (bc_set_pc s' (bc_pc s' + off)) <= len).
  { intros c off s' Hi Q. cbn. rewrite Q. apply (wf_branch_targets num_regs fuse p WF (bc_pc s) i _ IA).
    destruct Hi as [-> | ->]; left; reflexivity. }
  destruct i as [|c sh|sh|d|src|c off|c off|d a b|d a b|d a b|d a].
  - apply IH, NX. reflexivity.
  - destruct (lim && (sh =? 0)).
    + destruct (bc_mem s c =? 0); [apply IH, NX; reflexivity|].
      destruct (bc_limit usize_max s) as [s0|] eqn:L; [|exact I].
      destruct (bc_scan (S f) c sh s0) as [s'|] eqn:SC; [|exact I].
      apply IH, NX. rewrite (pc_scan _ _ _ _ _ SC). apply (pc_limit _ _ _ L).
    + destruct (bc_scan (S f) c sh s) as [s'|] eqn:SC; [|exact I]. apply IH, NX. apply (pc_scan _ _ _ _ _ SC).
  - apply IH, NX. reflexivity.
  - destruct (do_input e (bc_io s)); [apply IH, NX; reflexivity|exact I].
  - destruct (do_output e (bc_io s) _); [apply IH, NX; reflexivity|exact I].
  - destruct (if lim then bc_limit 1 s else Some s) as [s0|] eqn:L; [|exact I].
    assert (Q : bc_pc s0 = bc_pc s) by (destruct lim; [apply (pc_limit _ _ _ L)|injection L as <-; reflexivity]).
    destruct (bc_mem s0 c =? 0); [apply IH, (BR c off); [left; reflexivity|exact Q]|apply IH, NX; exact Q].
  - destruct (if lim then bc_limit 1 s else Some s) as [s0|] eqn:L; [|exact I].
    assert (Q : bc_pc s0 = bc_pc s) by (destruct lim; [apply (pc_limit _ _ _ L)|injection L as <-; reflexivity]).
    destruct (bc_mem s0 c =? 0); [apply IH, NX; exact Q|apply IH, (BR c off); [right; reflexivity|exact Q]].
  - apply IH, NX. apply pc_binop.
  - apply IH, NX. apply pc_binop.
  - apply IH, NX. apply pc_binop.
  - destruct (bc_read w s a) as [v s1] eqn:R. apply IH, NX. rewrite pc_write.
    change s1 with (snd (v, s1)). rewrite <- R. apply pc_read.
Qed.

Corollary run_safe : forall budget fuel,
  match bc_run w e lim budget fuel p with Errored _ _ => False | _ => True end.
Proof.
  intros budget fuel. unfold bc_run. destruct (lim && (budget =? 0)); [exact I|].
  apply exec_safe. cbn. unfold len. lia.
Qed.
End Safe.

(** ** the budget is carried through every operation untouched *)
Definition sb := bc_set_budget.

Lemma sb_read : forall w s l b, bc_read w (sb s b) l = (fst (bc_read w s l), sb (snd (bc_read w s l)) b).
Proof. intros w s l b. destruct l; reflexivity. Qed.
Lemma sb_write : forall s l v b, bc_write (sb s b) l v = sb (bc_write s l v) b.
Proof. intros s l v b. destruct l; reflexivity. Qed.
Lemma sb_binop : forall w op s d a b0 b, bc_binop w op (sb s b) d a b0 = sb (bc_binop w op s d a b0) b.
Proof.
  intros w op s d a b0 b. unfold bc_binop. destruct (loc_eqb d a).
  - rewrite sb_read. destruct (bc_read w s b0) as [vb s1]. cbn [fst snd].
    rewrite sb_read. destruct (bc_read w s1 a) as [va s2]. cbn [fst snd]. apply sb_write.
  - rewrite sb_read. destruct (bc_read w s a) as [va s1]. cbn [fst snd].
    rewrite sb_read. destruct (bc_read w s1 b0) as [vb s2]. cbn [fst snd]. apply sb_write.
Qed.
Lemma sb_scan : forall f c sh s b, bc_scan f c sh (sb s b) = option_map (fun t => sb t b) (bc_scan f c sh s).
Proof.
  induction f as [|f IH]; intros c sh s b; [reflexivity|]. cbn [bc_scan].
  change (bc_mem (sb s b) c) with (bc_mem s c). destruct (bc_mem s c =? 0); [reflexivity|].
  change (bc_move (sb s b) sh) with (sb (bc_move s sh) b). apply IH.
Qed.

Definition omapb (o : outcome bcst) (b : Z) : outcome bcst :=
  match o with
  | Done s => Done (sb s b) | Stopped s => Stopped (sb s b) | Interrupted s => Interrupted (sb s b)
  | Errored p s => Errored p (sb s b) | OutOfFuel s => OutOfFuel (sb s b)
  end.

Lemma unlimited_budget : forall w e fetch len f s b,
  bc_exec w e false fetch len f (sb s b) = omapb (bc_exec w e false fetch len f s) b.
Proof.
  intros w e fetch len f. induction f as [|f IH]; intros s b; [reflexivity|].
  cbn [bc_exec]. change (bc_pc (sb s b)) with (bc_pc s). destruct (bc_pc s =? len); [reflexivity|].
  destruct (fetch (bc_pc s)) as [i|]; [|reflexivity].
  destruct i as [|c sh|sh|d|src|c off|c off|d a b0|d a b0|d a b0|d a]; cbn [andb].
  - apply (IH (next s) b).
  - rewrite sb_scan. destruct (bc_scan (S f) c sh s) as [s'|]; cbn [option_map]; [apply (IH (next s') b)|reflexivity].
  - apply (IH (next (bc_move s sh)) b).
  - change (bc_io (sb s b)) with (bc_io s). destruct (do_input e (bc_io s)) as [v i'|i']; [|reflexivity].
    apply (IH (next (bc_set_mem (bc_set_io s i') d (from_u8 w v))) b).
  - change (bc_io (sb s b)) with (bc_io s). change (bc_mem (sb s b) src) with (bc_mem s src).
    destruct (do_output e (bc_io s) _) as [u i'|i']; [|reflexivity]. apply (IH (next (bc_set_io s i')) b).
  - change (bc_mem (sb s b) c) with (bc_mem s c). destruct (bc_mem s c =? 0).
    + apply (IH (bc_set_pc s (bc_pc s + off)) b).
    + apply (IH (next s) b).
  - change (bc_mem (sb s b) c) with (bc_mem s c). destruct (bc_mem s c =? 0).
    + apply (IH (next s) b).
    + apply (IH (bc_set_pc s (bc_pc s + off)) b).
  - rewrite sb_binop. apply (IH (next (bc_binop w (wadd w) s d a b0)) b).
  - rewrite sb_binop. apply (IH (next (bc_binop w (fun x y => wadd w x (wneg w y)) s d a b0)) b).
  - rewrite sb_binop. apply (IH (next (bc_binop w (wmul w) s d a b0)) b).
  - rewrite sb_read. destruct (bc_read w s a) as [v s1]. cbn [fst snd]. rewrite sb_write.
    apply (IH (next (bc_write s1 d v)) b).
Qed.

(** ** the trace only grows *)
Lemma io_read : forall w s l, bc_io (snd (bc_read w s l)) = bc_io s.
Proof. intros w s l. destruct l; reflexivity. Qed.
Lemma io_write : forall s l v, bc_io (bc_write s l v) = bc_io s.
Proof. intros s l v. destruct l; reflexivity. Qed.
Lemma io_binop : forall w op s d a b, bc_io (bc_binop w op s d a b) = bc_io s.
Proof.
  intros w op s d a b. unfold bc_binop. destruct (loc_eqb d a).
  - destruct (bc_read w s b) as [vb s1] eqn:R1. destruct (bc_read w s1 a) as [va s2] eqn:R2.
    rewrite io_write. change s2 with (snd (va, s2)). rewrite <- R2, io_read.
    change s1 with (snd (vb, s1)). rewrite <- R1, io_read. reflexivity.
  - destruct (bc_read w s a) as [va s1] eqn:R1. destruct (bc_read w s1 b) as [vb s2] eqn:R2.
    rewrite io_write. change s2 with (snd (vb, s2)). rewrite <- R2, io_read.
    change s1 with (snd (va, s1)). rewrite <- R1, io_read. reflexivity.
Qed.
Lemma io_scan : forall f c sh s s', bc_scan f c sh s = Some s' -> bc_io s' = bc_io s.
Proof.
  induction f as [|f IH]; intros c sh s s' H; [discriminate|]. cbn [bc_scan] in H.
  destruct (bc_mem s c =? 0); [injection H as <-; reflexivity|]. rewrite (IH _ _ _ _ H). reflexivity.
Qed.
Lemma io_limit : forall c s s0, bc_limit c s = Some s0 -> bc_io s0 = bc_io s.
Proof. intros c s s0 H. unfold bc_limit in H. destruct (bc_budget s <=? c); [discriminate|]. injection H as <-. reflexivity. Qed.

Lemma bc_exec_extends : forall w e lim fetch len f s,
  extends (trace (bc_io s)) (trace (bc_io (outcome_state (bc_exec w e lim fetch len f s)))).
Proof.
  intros w e lim fetch len f. induction f as [|f IH]; intros s; [apply extends_refl|].
  cbn [bc_exec]. destruct (bc_pc s =? len); [apply extends_refl|].
  destruct (fetch (bc_pc s)) as [i|]; [|apply extends_refl].
  assert (STEP : forall s', bc_io s' = bc_io s ->
            extends (trace (bc_io s)) (trace (bc_io (outcome_state (bc_exec w e lim fetch len f s'))))).
  { intros s' Q. rewrite <- Q. apply IH. }
  destruct i as [|c sh|sh|d|src|c off|c off|d a b0|d a b0|d a b0|d a].
  - apply STEP. reflexivity.
  - destruct (lim && (sh =? 0)).
    + destruct (bc_mem s c =? 0); [apply STEP; reflexivity|].
      destruct (bc_limit usize_max s) as [s0|] eqn:L; [|apply extends_refl].
      destruct (bc_scan (S f) c sh s0) as [s'|] eqn:SC.
      * apply STEP. cbn [next bc_set_pc bc_io]. rewrite (io_scan _ _ _ _ _ SC). apply (io_limit _ _ _ L).
      * cbn [outcome_state]. rewrite (io_limit _ _ _ L). apply extends_refl.
    + destruct (bc_scan (S f) c sh s) as [s'|] eqn:SC; [|apply extends_refl].
      apply STEP. cbn [next bc_set_pc bc_io]. apply (io_scan _ _ _ _ _ SC).
  - apply STEP. reflexivity.
  - pose proof (input_extends e (bc_io s)) as O. destruct (do_input e (bc_io s)) as [v i'|i']; [|exact O].
    eapply extends_trans; [exact O|]. apply (IH (next (bc_set_mem (bc_set_io s i') d (from_u8 w v)))).
  - pose proof (output_extends e (bc_io s) (into_u8 w (bc_mem s src))) as O.
    destruct (do_output e (bc_io s) _) as [u i'|i']; [|exact O].
    eapply extends_trans; [exact O|]. apply (IH (next (bc_set_io s i'))).
  - destruct (if lim then bc_limit 1 s else Some s) as [s0|] eqn:L; [|apply extends_refl].
    assert (Q : bc_io s0 = bc_io s) by (destruct lim; [apply (io_limit _ _ _ L)|injection L as <-; reflexivity]).
    destruct (bc_mem s0 c =? 0); apply STEP; exact Q.
  - destruct (if lim then bc_limit 1 s else Some s) as [s0|] eqn:L; [|apply extends_refl].
    assert (Q : bc_io s0 = bc_io s) by (destruct lim; [apply (io_limit _ _ _ L)|injection L as <-; reflexivity]).
    destruct (bc_mem s0 c =? 0); apply STEP; exact Q.
  - apply STEP. cbn [next bc_set_pc bc_io]. apply io_binop.
  - apply STEP. cbn [next bc_set_pc bc_io]. apply io_binop.
  - apply STEP. cbn [next bc_set_pc bc_io]. apply io_binop.
  - destruct (bc_read w s a) as [v s1] eqn:R. apply STEP. cbn [next bc_set_pc bc_io]. rewrite io_write.
    change s1 with (snd (v, s1)). rewrite <- R. apply io_read.
Qed.

(** ** limited execution is a prefix of unlimited execution *)
Definition LPb (B : Z) (o U : outcome bcst) : Prop :=
  match o with
  | Done s' => U = Done (sb s' B)
  | Stopped s' => U = Stopped (sb s' B)
  | Errored q s' => U = Errored q (sb s' B)
  | Interrupted s' => bc_budget s' = 0 /\ extends (trace (bc_io s')) (trace (bc_io (outcome_state U)))
  | OutOfFuel _ => True
  end.

Lemma scan0_none : forall f c s, (bc_mem s c =? 0) = false -> bc_scan f c 0 s = None.
Proof.
  induction f as [|f IH]; intros c s H; [reflexivity|]. cbn [bc_scan]. rewrite H. apply IH.
  unfold bc_mem, bc_move in *. cbn [bc_tape bc_ptr]. rewrite Z.add_0_r. exact H.
Qed.

Lemma bc_limited_prefix : forall w e fetch len f s B,
  LPb B (bc_exec w e true fetch len f s) (bc_exec w e false fetch len f (sb s B)).
Proof.
  intros w e fetch len f. induction f as [|f IH]; intros s B; [exact I|].
  cbn [bc_exec]. change (bc_pc (sb s B)) with (bc_pc s). destruct (bc_pc s =? len); [reflexivity|].
  destruct (fetch (bc_pc s)) as [i|]; [|reflexivity].
  destruct i as [|c sh|sh|d|src|c off|c off|d a b0|d a b0|d a b0|d a]; cbn [andb].
  - apply (IH (next s) B).
  - destruct (sh =? 0) eqn:S0.
    + apply Z.eqb_eq in S0. subst sh. change (bc_mem (sb s B) c) with (bc_mem s c).
      destruct (bc_mem s c =? 0) eqn:C0.
      * rewrite sb_scan. cbn [bc_scan]. rewrite C0. cbn [option_map]. apply (IH (next s) B).
      * rewrite (scan0_none (S f) c (sb s B)) by exact C0.
        destruct (bc_limit usize_max s) as [s0|] eqn:L.
        -- rewrite (scan0_none (S f) c s0); [exact I|]. unfold bc_limit in L. destruct (bc_budget s <=? usize_max); [discriminate|].
           injection L as <-. exact C0.
        -- split; [reflexivity|]. apply extends_refl.
    + rewrite sb_scan. destruct (bc_scan (S f) c sh s) as [s'|]; cbn [option_map]; [apply (IH (next s') B)|exact I].
  - apply (IH (next (bc_move s sh)) B).
  - change (bc_io (sb s B)) with (bc_io s). destruct (do_input e (bc_io s)) as [v i'|i']; [|reflexivity].
    apply (IH (next (bc_set_mem (bc_set_io s i') d (from_u8 w v))) B).
  - change (bc_io (sb s B)) with (bc_io s). change (bc_mem (sb s B) src) with (bc_mem s src).
    destruct (do_output e (bc_io s) _) as [u i'|i']; [|reflexivity]. apply (IH (next (bc_set_io s i')) B).
  - destruct (bc_limit 1 s) as [s0|] eqn:L.
    + assert (E : sb s B = sb s0 B) by (unfold bc_limit in L; destruct (bc_budget s <=? 1); [discriminate|]; injection L as <-; reflexivity).
      rewrite E. rewrite <- (pc_limit _ _ _ L). change (bc_mem (sb s0 B) c) with (bc_mem s0 c). destruct (bc_mem s0 c =? 0).
      * apply (IH (bc_set_pc s0 (bc_pc s0 + off)) B).
      * apply (IH (next s0) B).
    + split; [reflexivity|]. change (bc_mem (sb s B) c) with (bc_mem s c).
      destruct (bc_mem s c =? 0).
      * apply (bc_exec_extends w e false fetch len f (bc_set_pc (sb s B) (bc_pc (sb s B) + off))).
      * apply (bc_exec_extends w e false fetch len f (next (sb s B))).
  - destruct (bc_limit 1 s) as [s0|] eqn:L.
    + assert (E : sb s B = sb s0 B) by (unfold bc_limit in L; destruct (bc_budget s <=? 1); [discriminate|]; injection L as <-; reflexivity).
      rewrite E. rewrite <- (pc_limit _ _ _ L). change (bc_mem (sb s0 B) c) with (bc_mem s0 c). destruct (bc_mem s0 c =? 0).
      * apply (IH (next s0) B).
      * apply (IH (bc_set_pc s0 (bc_pc s0 + off)) B).
    + split; [reflexivity|]. change (bc_mem (sb s B) c) with (bc_mem s c).
      destruct (bc_mem s c =? 0).
      * apply (bc_exec_extends w e false fetch len f (next (sb s B))).
      * apply (bc_exec_extends w e false fetch len f (bc_set_pc (sb s B) (bc_pc (sb s B) + off))).
  - rewrite sb_binop. apply (IH (next (bc_binop w (wadd w) s d a b0)) B).
  - rewrite sb_binop. apply (IH (next (bc_binop w (fun x y => wadd w x (wneg w y)) s d a b0)) B).
  - rewrite sb_binop. apply (IH (next (bc_binop w (wmul w) s d a b0)) B).
  - rewrite sb_read. destruct (bc_read w s a) as [v s1]. cbn [fst snd]. rewrite sb_write.
    apply (IH (next (bc_write s1 d v)) B).
Qed.

(** * BCHavocProofs.v — on a bytecode program accepted by [bc_wf], clobbering every register
    temporary that is not declared live after every non-branch instruction is unobservable: the
    run of [BCHavoc.bc_exec_h] and the run of [BC.bc_exec] proceed in lockstep with the same tape,
    pointer, program counter and I/O state (property C11, the meaning of the [live] masks). *)
From Coq Require Import ZArith List Bool Lia.
From HPBF Require Import Cell IO BC BCWf BCHavoc BCWfProofs BCProofs MachineProofs.
Import ListNotations.
Open Scope Z_scope.

(** [h] is [s] with possibly different temporaries outside the set [L] *)
Definition Ag (L : Z) (s h : bcst) : Prop :=
  bc_tape h = bc_tape s /\ bc_ptr h = bc_ptr s /\ bc_pc h = bc_pc s /\ bc_io h = bc_io s /\
  forall t, Z.testbit L t = true -> tget (bc_tmps h) t = tget (bc_tmps s) t.

Lemma Ag_sub : forall L L' s h, Ag L s h -> (forall t, Z.testbit L' t = true -> Z.testbit L t = true) -> Ag L' s h.
Proof. intros L L' s h (A & B & C & D & E) S. repeat (split; [assumption|]). intros t H. apply E, S, H. Qed.

Lemma tmp_bit : forall t n, 0 <= t -> Z.testbit (loc_tmp_use (Tmp t)) n = (n =? t).
Proof. intros t n T. cbn [loc_tmp_use]. apply testbit_bit. exact T. Qed.

Lemma mem_ag : forall L s h k, Ag L s h -> bc_mem h k = bc_mem s k.
Proof. intros L s h k (A & B & _). unfold bc_mem. congruence. Qed.

Lemma read_ag : forall w L s h l, Ag L s h -> (forall t, l = Tmp t -> Z.testbit L t = true) ->
  fst (bc_read w h l) = fst (bc_read w s l) /\ Ag L (snd (bc_read w s l)) (snd (bc_read w h l)).
Proof.
  intros w L s h l AG U. pose proof AG as (A & B & C & D & E). destruct l as [k|k|t|c]; cbn [bc_read fst snd].
  - split; [apply (mem_ag L); exact AG|exact AG].
  - split; [apply (mem_ag L); exact AG|]. unfold bc_set_mem, Ag. cbn. split; [congruence|]. repeat (split; [assumption|]). exact E.
  - split; [apply E, U; reflexivity|exact AG].
  - split; [reflexivity|exact AG].
Qed.

Lemma write_ag : forall L s h l v, Ag L s h -> (forall t, l = Tmp t -> 0 <= t) ->
  Ag (Z.lor L (loc_tmp_use l)) (bc_write s l v) (bc_write h l v).
Proof.
  intros L s h l v (A & B & C & D & E) P. destruct l as [k|k|t|c]; cbn [bc_write loc_tmp_use].
  - unfold bc_set_mem, Ag. cbn. split; [congruence|]. repeat (split; [assumption|]).
    intros t H. rewrite Z.lor_0_r in H. apply E, H.
  - unfold bc_set_mem, Ag. cbn. split; [congruence|]. repeat (split; [assumption|]).
    intros t H. rewrite Z.lor_0_r in H. apply E, H.
  - unfold Ag. cbn [bc_set_tmp bc_tmps bc_tape bc_ptr bc_pc bc_io]. repeat (split; [assumption|]). intros t' H. rewrite !tget_tset.
    destruct (t =? t') eqn:Q; [reflexivity|]. rewrite testbit_lor in H. apply orb_prop in H. destruct H as [H|H]; [apply E, H|].
    rewrite testbit_bit in H by (apply P; reflexivity). rewrite Z.eqb_sym in Q. congruence.
  - repeat (split; [assumption|]). intros t H. rewrite Z.lor_0_r in H. apply E, H.
Qed.

Lemma Ag_next : forall L s h, Ag L s h -> Ag L (next s) (next h).
Proof. intros L s h (A & B & C & D & E). repeat split; cbn; try assumption. rewrite C. reflexivity. Qed.

Lemma binop_ag : forall w op L s h d a b, Ag L s h ->
  (forall t, (a = Tmp t \/ b = Tmp t) -> Z.testbit L t = true) -> (forall t, d = Tmp t -> 0 <= t) ->
  Ag (Z.lor L (loc_tmp_use d)) (bc_binop w op s d a b) (bc_binop w op h d a b).
Proof.
  intros w op L s h d a b AG U P. unfold bc_binop. destruct (loc_eqb d a).
  - destruct (read_ag w L s h b AG (fun t H => U t (or_intror H))) as (V1 & A1).
    destruct (bc_read w s b) as [vb s1]. destruct (bc_read w h b) as [vb' h1]. cbn [fst snd] in *. subst vb'.
    destruct (read_ag w L s1 h1 a A1 (fun t H => U t (or_introl H))) as (V2 & A2).
    destruct (bc_read w s1 a) as [va s2]. destruct (bc_read w h1 a) as [va' h2]. cbn [fst snd] in *. subst va'.
    apply write_ag; assumption.
  - destruct (read_ag w L s h a AG (fun t H => U t (or_introl H))) as (V1 & A1).
    destruct (bc_read w s a) as [va s1]. destruct (bc_read w h a) as [va' h1]. cbn [fst snd] in *. subst va'.
    destruct (read_ag w L s1 h1 b A1 (fun t H => U t (or_intror H))) as (V2 & A2).
    destruct (bc_read w s1 b) as [vb s2]. destruct (bc_read w h1 b) as [vb' h2]. cbn [fst snd] in *. subst vb'.
    apply write_ag; assumption.
Qed.

(** what [havoc] changes *)
Lemma havoc_from_spec : forall n t0 hv nr l d s,
  let s' := havoc_from n t0 hv nr l d s in
  bc_tape s' = bc_tape s /\ bc_ptr s' = bc_ptr s /\ bc_pc s' = bc_pc s /\ bc_io s' = bc_io s /\
  forall t, clobbered nr l d t = false -> tget (bc_tmps s') t = tget (bc_tmps s) t.
Proof.
  induction n as [|n IH]; intros t0 hv nr l d s; cbn [havoc_from]; [repeat split; reflexivity|].
  destruct (IH (t0 + 1) hv nr l d (if clobbered nr l d t0 then bc_set_tmp s t0 (hv t0) else s)) as (A & B & C & D & E).
  destruct (clobbered nr l d t0) eqn:CL.
  - cbn [bc_set_tmp bc_tape bc_ptr bc_pc bc_io bc_tmps] in *. repeat (split; [assumption|]).
    intros t NC. rewrite (E t NC), tget_tset. destruct (t0 =? t) eqn:Q; [apply Z.eqb_eq in Q; subst; congruence|reflexivity].
  - repeat (split; [assumption|]). exact E.
Qed.

Lemma havoc_ag : forall L T hv nr l d s h, Ag L s h ->
  (forall t, Z.testbit T t = true -> Z.testbit L t = true /\ clobbered nr l d t = false) ->
  Ag T s (havoc hv nr l d h).
Proof.
  intros L T hv nr l d s h (A & B & C & D & E) S. unfold havoc.
  destruct (havoc_from_spec 16 0 hv nr l d h) as (A' & B' & C' & D' & E').
  split; [congruence|]. split; [congruence|]. split; [congruence|]. split; [congruence|].
  intros t H. destruct (S t H) as (H1 & H2). rewrite (E' t H2). apply E, H1.
Qed.

Lemma scan_ag : forall f c sh L s h, Ag L s h ->
  match bc_scan f c sh s, bc_scan f c sh h with
  | Some s', Some h' => Ag L s' h'
  | None, None => True
  | _, _ => False
  end.
Proof.
  induction f as [|f IH]; intros c sh L s h AG; cbn [bc_scan]; [exact I|].
  pose proof AG as (A & B & C & D & E). unfold bc_mem. rewrite A, B.
  destruct (tget (bc_tape s) (bc_ptr s + c) =? 0); [exact AG|].
  apply IH. cbn [bc_move]. repeat split; cbn; try assumption; try congruence.
Qed.

Ltac ag_solve :=
  unfold Ag, next, bc_set_mem, bc_set_io, bc_move, bc_set_pc in *; cbn [bc_tape bc_ptr bc_pc bc_io bc_tmps] in *;
  repeat split; try congruence; try assumption.

Section Main.
Variable num_regs : Z.
Variable fuse : bool.
Variable p : bprog.
Hypothesis WF : bc_wf num_regs fuse p = true.
Variable w : Z.
Variable e : env.
Variable hv : nat -> Z -> Z.
Let code := bp_code p.
Let len := Z.of_nat (length code).

Definition sameobs (o o' : outcome bcst) : Prop :=
  match o, o' with
  | Done h, Done s | Stopped h, Stopped s | OutOfFuel h, OutOfFuel s =>
      bc_tape h = bc_tape s /\ bc_ptr h = bc_ptr s /\ bc_pc h = bc_pc s /\ bc_io h = bc_io s
  | Errored _ _, Errored _ _ => True
  | _, _ => False
  end.

Lemma sameobs_ag : forall L s h, Ag L s h -> bc_tape h = bc_tape s /\ bc_ptr h = bc_ptr s /\ bc_pc h = bc_pc s /\ bc_io h = bc_io s.
Proof. intros L s h (A & B & C & D & _). repeat split; assumption. Qed.

Theorem havoc_lockstep : forall lin, bwd_valid code 0 lin = true -> live_ok num_regs code (bp_live p) 0 lin = true ->
  forall fuel s h, 0 <= bc_pc s <= len -> Ag (aget lin 0 (bc_pc s)) s h ->
  sameobs (bc_exec_h w e (fetch_of p) (live_of p) num_regs hv len fuel h) (bc_exec w e false (fetch_of p) len fuel s).
Proof.
  intros lin V LO. induction fuel as [|f IH]; intros s h PC AG.
  - cbn. apply (sameobs_ag _ _ _ AG).
  - pose proof AG as (A & B & C & D & E). cbn [bc_exec_h bc_exec]. rewrite C.
    destruct (bc_pc s =? len) eqn:EL; [cbn; apply (sameobs_ag _ _ _ AG)|]. apply Z.eqb_neq in EL.
    destruct (fetch_some p (bc_pc s) ltac:(fold code; fold len; lia)) as (i & F & IA). rewrite F.
    fold code in IA.
    pose proof (bwd_valid_spec lin code 0 V (bc_pc s) i IA) as BV. rewrite Z.add_0_l in BV. rewrite bset_sub_spec in BV.
    (* facts about successors *)
    assert (SUCC : forall s', List.In s' (succs (bc_pc s) i) -> 0 <= s' <= len).
    { intros s' HS. apply (wf_branch_targets num_regs fuse p WF (bc_pc s) i s' IA HS). }
    assert (USE : forall t, Z.testbit (uses i) t = true -> Z.testbit (aget lin 0 (bc_pc s)) t = true).
    { intros t H. apply BV. rewrite testbit_lor, H. reflexivity. }
    assert (PASS : forall s' t, List.In s' (succs (bc_pc s) i) -> Z.testbit (aget lin 0 s') t = true ->
                     Z.testbit (defs i) t = false -> Z.testbit (aget lin 0 (bc_pc s)) t = true).
    { intros s' t HS HT HD. apply BV. rewrite testbit_lor.
      assert (T0 : 0 <= t) by (destruct (Z.ltb_spec t 0) as [Neg|Pos]; [rewrite Z.testbit_neg_r in HT by exact Neg; discriminate|exact Pos]).
      rewrite Z.land_spec, Z.lnot_spec, HD, (out_of_spec lin (bc_pc s) i s' t HS HT) by exact T0. apply orb_true_r. }
    (* the step of a non-branch instruction followed by the clobbering *)
    assert (STEP : is_branch i = false -> forall s1 h1, Ag (Z.lor (aget lin 0 (bc_pc s)) (defs i)) s1 h1 -> bc_pc s1 = bc_pc s ->
              sameobs (bc_exec_h w e (fetch_of p) (live_of p) num_regs hv len f (hnext (live_of p) num_regs hv f i (bc_pc s) h1))
                      (bc_exec w e false (fetch_of p) len f (next s1))).
    { intros NB s1 h1 A1 P1. apply IH; [cbn; rewrite P1; apply (SUCC (bc_pc s + 1)); destruct i; try discriminate; left; reflexivity|].
      unfold hnext. apply Ag_next. cbn [next bc_set_pc bc_pc]. rewrite P1.
      destruct (live_ok_spec num_regs lin code (bp_live p) 0 LO (bc_pc s) i IA NB) as (l & HL & HB).
      rewrite Z.add_0_l in HB. rewrite bset_sub_spec in HB.
      assert (LV : live_of p (bc_pc s) = l).
      { unfold live_of. destruct (bc_pc s <? 0) eqn:N; [apply Z.ltb_lt in N; lia|]. apply nth_error_nth. exact HL. }
      apply (havoc_ag _ _ _ _ _ _ _ _ A1). intros t HT.
      assert (T0 : 0 <= t) by (destruct (Z.ltb_spec t 0) as [Neg|Pos]; [rewrite Z.testbit_neg_r in HT by exact Neg; discriminate|exact Pos]).
      assert (HS : List.In (bc_pc s + 1) (succs (bc_pc s) i)) by (destruct i; try discriminate; left; reflexivity).
      destruct (Z.testbit (defs i) t) eqn:HD.
      - split; [rewrite testbit_lor, HD; apply orb_true_r|]. unfold clobbered. rewrite HD. cbn. apply andb_false_r.
      - split; [rewrite testbit_lor, (PASS _ t HS HT HD); reflexivity|].
        unfold clobbered. rewrite HD. cbn [negb]. rewrite andb_true_r.
        destruct (t <? Z.min num_regs 16) eqn:TR; [|reflexivity]. cbn [andb]. apply Z.ltb_lt in TR. rewrite LV.
        rewrite (HB t); [reflexivity|].
        rewrite !Z.land_spec, Z.lnot_spec, HD by exact T0. rewrite (out_of_spec lin (bc_pc s) i _ t HS HT).
        unfold reg_mask. rewrite Z.ones_spec_low by lia. reflexivity. }
    assert (T0 : forall t, List.In t (temps_of i) -> 0 <= t).
    { intros t HT. apply (wf_temps_in_range num_regs fuse p WF (bc_pc s) i t IA HT). }
    assert (SRC : forall t, List.In (Tmp t) (srcs_of i) -> Z.testbit (aget lin 0 (bc_pc s)) t = true).
    { intros t HS. apply USE. apply uses_reads; [|exact HS]. apply T0. unfold temps_of. apply in_flat_map. exists (Tmp t).
      split; [|left; reflexivity]. destruct i; cbn [srcs_of locs_of] in *; try contradiction; cbn; tauto. }
    assert (AGL : forall L', (forall t, Z.testbit L' t = true -> Z.testbit (aget lin 0 (bc_pc s)) t = true) -> Ag L' s h)
      by (intros L' S; apply (Ag_sub _ _ _ _ AG S)).
    assert (MEM : forall k, bc_mem h k = bc_mem s k) by (intros k; unfold bc_mem; rewrite A, B; reflexivity).
    destruct i as [|c sh|sh|dst|src|c off|c off|d a b|d a b|d a b|d a].
    + apply (STEP eq_refl s h); [|reflexivity]. cbn [defs]. rewrite Z.lor_0_r. exact AG.
    + cbn [andb]. pose proof (scan_ag (S f) c sh _ s h AG) as SC.
      destruct (bc_scan (S f) c sh s) as [s'|] eqn:S1; destruct (bc_scan (S f) c sh h) as [h'|] eqn:S2; try contradiction.
      * apply (STEP eq_refl s' h'); [cbn [defs]; rewrite Z.lor_0_r; exact SC|apply (pc_scan _ _ _ _ _ S1)].
      * cbn. apply (sameobs_ag _ _ _ AG).
    + apply (STEP eq_refl (bc_move s sh) (bc_move h sh)); [|reflexivity]. cbn [defs]. rewrite Z.lor_0_r. clear STEP IH. ag_solve.
    + rewrite D. destruct (do_input e (bc_io s)) as [bb io'|io'].
      * apply (STEP eq_refl (bc_set_mem (bc_set_io s io') dst (from_u8 w bb)) (bc_set_mem (bc_set_io h io') dst (from_u8 w bb))); [|reflexivity].
        cbn [defs]. rewrite Z.lor_0_r. clear STEP IH. ag_solve.
      * cbn [sameobs]. clear STEP IH. ag_solve.
    + rewrite D, MEM. destruct (do_output e (bc_io s) _) as [u io'|io'].
      * apply (STEP eq_refl (bc_set_io s io') (bc_set_io h io')); [|reflexivity].
        cbn [defs]. rewrite Z.lor_0_r. clear STEP IH. ag_solve.
      * cbn [sameobs]. clear STEP IH. ag_solve.
    + assert (J : Ag (aget lin 0 (bc_pc s + off)) (bc_set_pc s (bc_pc s + off)) (bc_set_pc h (bc_pc s + off))).
      { apply (Ag_sub (aget lin 0 (bc_pc s))); [clear STEP IH; ag_solve|].
        intros t HT. apply (PASS (bc_pc s + off) t); [left; reflexivity|exact HT|apply Z.bits_0]. }
      assert (N : Ag (aget lin 0 (bc_pc s + 1)) (next s) (next h)).
      { apply (Ag_sub (aget lin 0 (bc_pc s))); [clear STEP IH J; ag_solve|].
        intros t HT. apply (PASS (bc_pc s + 1) t); [right; left; reflexivity|exact HT|apply Z.bits_0]. }
      rewrite MEM. destruct (bc_mem s c =? 0).
      * apply IH; [cbn; apply SUCC; left; reflexivity|exact J].
      * apply IH; [cbn; apply SUCC; right; left; reflexivity|exact N].
    + assert (J : Ag (aget lin 0 (bc_pc s + off)) (bc_set_pc s (bc_pc s + off)) (bc_set_pc h (bc_pc s + off))).
      { apply (Ag_sub (aget lin 0 (bc_pc s))); [clear STEP IH; ag_solve|].
        intros t HT. apply (PASS (bc_pc s + off) t); [left; reflexivity|exact HT|apply Z.bits_0]. }
      assert (N : Ag (aget lin 0 (bc_pc s + 1)) (next s) (next h)).
      { apply (Ag_sub (aget lin 0 (bc_pc s))); [clear STEP IH J; ag_solve|].
        intros t HT. apply (PASS (bc_pc s + 1) t); [right; left; reflexivity|exact HT|apply Z.bits_0]. }
      rewrite MEM. destruct (bc_mem s c =? 0).
      * apply IH; [cbn; apply SUCC; right; left; reflexivity|exact N].
      * apply IH; [cbn; apply SUCC; left; reflexivity|exact J].
    + apply (STEP eq_refl); [|apply pc_binop]. cbn [defs]. apply binop_ag; [exact AG|intros t H; apply SRC; cbn [srcs_of List.In]; tauto|intros t ->; apply T0; cbn [temps_of locs_of flat_map app]; left; reflexivity].
    + apply (STEP eq_refl); [|apply pc_binop]. cbn [defs]. apply binop_ag; [exact AG|intros t H; apply SRC; cbn [srcs_of List.In]; tauto|intros t ->; apply T0; cbn [temps_of locs_of flat_map app]; left; reflexivity].
    + apply (STEP eq_refl); [|apply pc_binop]. cbn [defs]. apply binop_ag; [exact AG|intros t H; apply SRC; cbn [srcs_of List.In]; tauto|intros t ->; apply T0; cbn [temps_of locs_of flat_map app]; left; reflexivity].
    + destruct (read_ag w _ s h a AG (fun t H => SRC t ltac:(cbn [srcs_of List.In]; left; exact H))) as (V1 & A1).
      destruct (bc_read w s a) as [v s1] eqn:R1. destruct (bc_read w h a) as [v' h1] eqn:R2. cbn [fst snd] in *. subst v'.
      apply (STEP eq_refl (bc_write s1 d v) (bc_write h1 d v)).
      * cbn [defs]. apply write_ag; [exact A1|]. intros t ->. apply T0. cbn [temps_of locs_of flat_map app]. left. reflexivity.
      * rewrite pc_write. change s1 with (snd (v, s1)). rewrite <- R1. apply pc_read.
Qed.
End Main.

(** the statement for whole programs *)
Theorem havoc_unobservable : forall num_regs fuse p, bc_wf num_regs fuse p = true -> forall w e hv fuel,
  sameobs (bc_run_h w e num_regs hv fuel p) (bc_run w e false 0 fuel p).
Proof.
  intros num_regs fuse p WF w e hv fuel.
  destruct (wf_parts num_regs fuse p WF) as (_ & _ & _ & _ & _ & (lin & V & L)).
  unfold bc_run_h, bc_run. cbn [andb].
  apply (havoc_lockstep num_regs fuse p WF w e hv lin V L fuel (bc0 0) (bc0 0)); [cbn; lia|].
  repeat split; reflexivity.
Qed.

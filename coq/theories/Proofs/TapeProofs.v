(** * TapeProofs.v — the tape model refines an unbounded zero-initialised array (C09, C17). *)

From Coq Require Import ZArith List Bool Lia.
From HPBF Require Import Tape.
Import ListNotations.
Open Scope Z_scope.

Definition PolicyOK (pol : policy) : Prop :=
  forall size nb na, 0 <= size -> 0 <= nb -> 0 <= na -> 0 < nb + na ->
    let '(ns, ab) := pol size nb na in
    nb <= ab /\ na <= ns - size - ab /\ 0 <= ab.

Lemma rust_policy_ok : PolicyOK rust_policy.
Proof.
  unfold PolicyOK, rust_policy. intros size nb na Hs Hb Ha Hpos.
  assert (0 <= size / 2) by (apply Z.div_pos; lia).
  destruct (nb =? 0) eqn:E1; [apply Z.eqb_eq in E1|apply Z.eqb_neq in E1];
  [|destruct (na =? 0) eqn:E2; [apply Z.eqb_eq in E2|apply Z.eqb_neq in E2]].
  - lia.
  - lia.
  - set (ex := Z.max (size / 2) (nb + na)).
    replace (size + ex - size) with ex by lia.
    assert (0 <= ex / 2 <= ex) by (split; [apply Z.div_pos; lia| apply Z.div_le_upper_bound; lia]).
    lia.
Qed.

(** ** unsigned/signed arithmetic *)
Lemma U64_val : U64 = 18446744073709551616. Proof. reflexivity. Qed.
Lemma P63_val : 2 ^ 63 = 9223372036854775808. Proof. reflexivity. Qed.
Lemma LIMIT_val : SIZE_LIMIT = 4611686018427387904. Proof. reflexivity. Qed.
Lemma MAG_val : MAG = 1152921504606846976. Proof. reflexivity. Qed.

Lemma wrap_nonneg : forall y, 0 <= y < U64 -> wrap64 y = y.
Proof. intros. unfold wrap64. apply Z.mod_small. assumption. Qed.

Lemma wrap_neg : forall y, - U64 <= y < 0 -> wrap64 y = y + U64.
Proof.
  intros. unfold wrap64. replace y with (y + U64 + (-1) * U64) at 1 by lia.
  rewrite Z_mod_plus_full. apply Z.mod_small. lia.
Qed.

Lemma wrap_wrap_add : forall x d, wrap64 (wrap64 x + d) = wrap64 (x + d).
Proof. intros. unfold wrap64. rewrite Z.add_mod_idemp_l; [reflexivity|rewrite U64_val; lia]. Qed.

Lemma wrap_test : forall y sz, - 2 ^ 63 <= y < 2 ^ 63 -> 0 <= sz < SIZE_LIMIT ->
  (wrap64 y <? sz) = ((0 <=? y) && (y <? sz)) /\ (0 <= y -> wrap64 y = y).
Proof.
  intros y sz Hy Hs. rewrite P63_val in Hy. rewrite LIMIT_val in Hs.
  destruct (Z_lt_le_dec y 0) as [Hn|Hp].
  - rewrite wrap_neg by (rewrite U64_val; lia). rewrite U64_val. split; [|lia].
    destruct (0 <=? y) eqn:A; [apply Z.leb_le in A; lia|]. simpl.
    apply Z.ltb_ge. lia.
  - rewrite wrap_nonneg by (rewrite U64_val; lia). split; [|reflexivity].
    destruct (0 <=? y) eqn:A; [reflexivity|apply Z.leb_gt in A; lia].
Qed.

Lemma signed_wrap : forall y, - 2 ^ 63 <= y < 2 ^ 63 -> to_signed (wrap64 y) = y.
Proof.
  intros y Hy. rewrite P63_val in Hy. unfold to_signed. rewrite P63_val.
  destruct (Z_lt_le_dec y 0) as [Hn|Hp].
  - rewrite wrap_neg by (rewrite U64_val; lia). rewrite U64_val.
    destruct (y + 18446744073709551616 <? 9223372036854775808) eqn:E; [apply Z.ltb_lt in E; lia|lia].
  - rewrite wrap_nonneg by (rewrite U64_val; lia).
    destruct (y <? 9223372036854775808) eqn:E; [reflexivity|apply Z.ltb_ge in E; lia].
Qed.

(** ** the invariant *)
Record Inv (t : rtape) (s : tspec) (base : Z) : Prop := {
  inv_size : 0 <= t_size t < SIZE_LIMIT;
  inv_base : 0 <= base <= t_size t;
  inv_off : t_off t = wrap64 (s_pos s + base);
  inv_pos : - MAG <= s_pos s <= MAG;
  inv_cells : forall k, s_cells s k = if (0 <=? k + base) && (k + base <? t_size t) then t_buf t (k + base) else 0;
  inv_acc : forall k, in_acc (s_acc s) k = true -> 0 <= k + base < t_size t
}.

Lemma inv0 : Inv rtape0 spec0 0.
Proof.
  constructor; simpl.
  - rewrite LIMIT_val; lia.
  - lia.
  - reflexivity.
  - rewrite MAG_val; lia.
  - intros k. destruct ((0 <=? k + 0) && (k + 0 <? 0)); reflexivity.
  - intros k H. discriminate.
Qed.

Lemma small_spec : forall x, small x = true -> - MAG <= x <= MAG.
Proof. intros x H. unfold small in H. apply andb_true_iff in H. destruct H as [A B]. apply Z.leb_le in A, B. lia. Qed.

Section WithInv.
Variables (t : rtape) (s : tspec) (base : Z).
Hypothesis HI : Inv t s base.

Lemma ptr_range : forall o, - MAG <= o <= MAG -> - 2 ^ 63 <= s_pos s + base + o < 2 ^ 63.
Proof.
  intros o Ho. destruct HI as [Hs Hb _ Hp _ _]. rewrite LIMIT_val in Hs. rewrite MAG_val in *. rewrite P63_val. lia.
Qed.

Lemma ptr_eq : forall o, t_ptr t o = wrap64 (s_pos s + base + o).
Proof. intros o. unfold t_ptr. rewrite (inv_off _ _ _ HI). apply wrap_wrap_add. Qed.

Lemma signed_off : to_signed (t_off t) = s_pos s + base.
Proof.
  rewrite (inv_off _ _ _ HI). apply signed_wrap.
  pose proof (ptr_range 0 ltac:(rewrite MAG_val; lia)). lia.
Qed.

Lemma check_spec : forall o, - MAG <= o <= MAG ->
  t_check t o = ((0 <=? s_pos s + o + base) && (s_pos s + o + base <? t_size t)).
Proof.
  intros o Ho. unfold t_check. rewrite ptr_eq.
  destruct (wrap_test (s_pos s + base + o) (t_size t) (ptr_range o Ho) (inv_size _ _ _ HI)) as [E _].
  rewrite E. replace (s_pos s + base + o) with (s_pos s + o + base) by lia. reflexivity.
Qed.

Lemma read_spec : forall o, - MAG <= o <= MAG -> t_read t o = s_cells s (s_pos s + o).
Proof.
  intros o Ho. unfold t_read. rewrite (inv_cells _ _ _ HI).
  pose proof (check_spec o Ho) as C. unfold t_check in C. rewrite C.
  destruct ((0 <=? s_pos s + o + base) && (s_pos s + o + base <? t_size t)) eqn:E; [|reflexivity].
  apply andb_true_iff in E. destruct E as [A B]. apply Z.leb_le in A.
  rewrite ptr_eq. destruct (wrap_test (s_pos s + base + o) (t_size t) (ptr_range o Ho) (inv_size _ _ _ HI)) as [_ W].
  rewrite W by lia. f_equal. lia.
Qed.

Lemma check_acc : forall o, - MAG <= o <= MAG -> in_acc (s_acc s) (s_pos s + o) = true -> t_check t o = true.
Proof.
  intros o Ho H. rewrite check_spec by assumption. apply (inv_acc _ _ _ HI) in H.
  apply andb_true_iff. split; [apply Z.leb_le|apply Z.ltb_lt]; lia.
Qed.

Lemma mov_inv : forall d, - MAG <= s_pos s + d <= MAG ->
  Inv (t_mov t d) {| s_cells := s_cells s; s_pos := s_pos s + d; s_acc := s_acc s |} base.
Proof.
  intros d Hd. destruct HI as [Hs Hb Ho Hp Hc Ha]. constructor; simpl; try assumption.
  rewrite Ho. rewrite wrap_wrap_add. f_equal. lia.
Qed.

(** a raw write at an in-bounds logical position *)
Lemma raw_write_inv : forall o v, - MAG <= o <= MAG ->
  0 <= s_pos s + o + base < t_size t ->
  exists t', t_raw_write t (t_ptr t o) v = TOk t' /\
    Inv t' {| s_cells := fun i => if i =? s_pos s + o then v else s_cells s i; s_pos := s_pos s;
              s_acc := (s_pos s + o, s_pos s + o + 1) :: s_acc s |} base.
Proof.
  intros o v Ho Hin. destruct (wrap_test (s_pos s + base + o) (t_size t) (ptr_range o Ho) (inv_size _ _ _ HI)) as [_ W].
  assert (P : t_ptr t o = s_pos s + o + base) by (rewrite ptr_eq, W by lia; lia).
  unfold t_raw_write. rewrite P.
  destruct (0 <=? s_pos s + o + base) eqn:A; [|apply Z.leb_gt in A; lia].
  destruct (s_pos s + o + base <? t_size t) eqn:B; [|apply Z.ltb_ge in B; lia].
  simpl. eexists. split; [reflexivity|].
  destruct HI as [Hs Hb Hoff Hp Hc Ha]. constructor; simpl; try assumption.
  - intros k. destruct (k =? s_pos s + o) eqn:K.
    + apply Z.eqb_eq in K. subst k. rewrite A, B. simpl. rewrite Z.eqb_refl. reflexivity.
    + apply Z.eqb_neq in K. rewrite Hc.
      destruct ((0 <=? k + base) && (k + base <? t_size t)); [|reflexivity].
      destruct (k + base =? s_pos s + o + base) eqn:K2; [apply Z.eqb_eq in K2; lia|reflexivity].
  - intros k H. apply orb_true_iff in H. destruct H as [H|H].
    + apply andb_true_iff in H. destruct H as [H1 H2]. apply Z.leb_le in H1. apply Z.ltb_lt in H2. lia.
    + apply Ha. exact H.
Qed.
End WithInv.

(** growth *)
Lemma grow_inv : forall pol t s base a b ok t',
  PolicyOK pol -> Inv t s base ->
  t_make_accessible pol ok t a b = TOk t' ->
  exists base', Inv t' {| s_cells := s_cells s; s_pos := s_pos s; s_acc := (s_pos s + a, s_pos s + b) :: s_acc s |} base'
    /\ (0 <= s_pos s + a + base' /\ s_pos s + b + base' <= t_size t').
Proof.
  intros pol t s base a b ok t' Hpol HI Hm.
  unfold t_make_accessible in Hm. rewrite (signed_off t s base HI) in Hm.
  set (sp := s_pos s + base + a) in *. set (ep := s_pos s + base + b) in *.
  pose proof (inv_size _ _ _ HI) as Hs. pose proof (inv_base _ _ _ HI) as Hbase.
  assert (Hnb : 0 <= needed_below sp) by (unfold needed_below; destruct (sp <? 0) eqn:E; [apply Z.ltb_lt in E|]; lia).
  assert (Hna : 0 <= needed_above ep (t_size t)) by (unfold needed_above; destruct (t_size t <? ep) eqn:E; [apply Z.ltb_lt in E|]; lia).
  destruct ((needed_below sp =? 0) && (needed_above ep (t_size t) =? 0)) eqn:E.
  - (* no growth *)
    injection Hm as <-. apply andb_true_iff in E. destruct E as [E1 E2]. apply Z.eqb_eq in E1, E2.
    assert (0 <= sp) by (unfold needed_below in E1; destruct (sp <? 0) eqn:X; [apply Z.ltb_lt in X; lia|apply Z.ltb_ge in X; lia]).
    assert (ep <= t_size t) by (unfold needed_above in E2; destruct (t_size t <? ep) eqn:X; [apply Z.ltb_lt in X; lia|apply Z.ltb_ge in X; lia]).
    exists base. split; [|unfold sp, ep in *; lia].
    destruct HI as [H1 H2 H3 H4 H5 H6]. constructor; simpl; try assumption.
    intros k Hk. apply orb_true_iff in Hk. destruct Hk as [Hk|Hk]; [|apply H6; exact Hk].
    apply andb_true_iff in Hk. destruct Hk as [K1 K2]. apply Z.leb_le in K1. apply Z.ltb_lt in K2.
    unfold sp, ep in *. lia.
  - (* growth *)
    assert (Hpos : 0 < needed_below sp + needed_above ep (t_size t)).
    { apply andb_false_iff in E. destruct E as [E|E]; apply Z.eqb_neq in E; lia. }
    pose proof (Hpol (t_size t) (needed_below sp) (needed_above ep (t_size t)) ltac:(lia) Hnb Hna Hpos) as HP.
    destruct (pol (t_size t) (needed_below sp) (needed_above ep (t_size t))) as [ns ab].
    destruct HP as [P1 [P2 P3]].
    destruct (SIZE_LIMIT <=? ns) eqn:L; [discriminate|apply Z.leb_gt in L].
    destruct ok; [|discriminate]. simpl in Hm. injection Hm as <-.
    exists (base + ab).
    assert (Hsp : 0 <= sp + ab) by (unfold needed_below in P1; destruct (sp <? 0) eqn:X; [apply Z.ltb_lt in X|apply Z.ltb_ge in X]; lia).
    assert (Hep : ep + ab <= ns) by (unfold needed_above in P2; destruct (t_size t <? ep) eqn:X; [apply Z.ltb_lt in X|apply Z.ltb_ge in X]; lia).
    split; [|unfold sp, ep in *; simpl; lia].
    destruct HI as [H1 H2 H3 H4 H5 H6]. constructor; simpl.
    + lia.
    + lia.
    + rewrite H3. rewrite wrap_wrap_add. f_equal. lia.
    + assumption.
    + intros k. rewrite H5.
      replace (k + (base + ab) - ab) with (k + base) by lia.
      destruct ((0 <=? k + base) && (k + base <? t_size t)) eqn:X.
      * apply andb_true_iff in X. destruct X as [X1 X2]. apply Z.leb_le in X1. apply Z.ltb_lt in X2.
        assert (Y1 : (0 <=? k + (base + ab)) = true) by (apply Z.leb_le; lia).
        assert (Y2 : (k + (base + ab) <? ns) = true) by (apply Z.ltb_lt; lia).
        assert (Y3 : (ab <=? k + (base + ab)) = true) by (apply Z.leb_le; lia).
        assert (Y4 : (k + (base + ab) <? ab + t_size t) = true) by (apply Z.ltb_lt; lia).
        rewrite Y1, Y2, Y3, Y4. reflexivity.
      * destruct ((0 <=? k + (base + ab)) && (k + (base + ab) <? ns)); [|reflexivity].
        destruct ((ab <=? k + (base + ab)) && (k + (base + ab) <? ab + t_size t)) eqn:Y; [|reflexivity].
        exfalso. apply andb_true_iff in Y. destruct Y as [Y1 Y2]. apply Z.leb_le in Y1. apply Z.ltb_lt in Y2.
        apply andb_false_iff in X. destruct X as [X|X]; [apply Z.leb_gt in X|apply Z.ltb_ge in X]; lia.
    + intros k Hk. apply orb_true_iff in Hk. destruct Hk as [Hk|Hk].
      * apply andb_true_iff in Hk. destruct Hk as [K1 K2]. apply Z.leb_le in K1. apply Z.ltb_lt in K2.
        unfold sp, ep in *. lia.
      * apply H6 in Hk. lia.
Qed.

(** the same, recording that growth never reduces the room on either side of the old block *)
Lemma grow_inv_mono : forall pol t s base a b ok t',
  PolicyOK pol -> Inv t s base ->
  t_make_accessible pol ok t a b = TOk t' ->
  exists base', Inv t' {| s_cells := s_cells s; s_pos := s_pos s; s_acc := (s_pos s + a, s_pos s + b) :: s_acc s |} base'
    /\ (0 <= s_pos s + a + base' /\ s_pos s + b + base' <= t_size t')
    /\ base <= base' /\ t_size t - base <= t_size t' - base'.
Proof.
  intros pol t s base a b ok t' Hpol HI Hm.
  unfold t_make_accessible in Hm. rewrite (signed_off t s base HI) in Hm.
  set (sp := s_pos s + base + a) in *. set (ep := s_pos s + base + b) in *.
  pose proof (inv_size _ _ _ HI) as Hs. pose proof (inv_base _ _ _ HI) as Hbase.
  assert (Hnb : 0 <= needed_below sp) by (unfold needed_below; destruct (sp <? 0) eqn:E; [apply Z.ltb_lt in E|]; lia).
  assert (Hna : 0 <= needed_above ep (t_size t)) by (unfold needed_above; destruct (t_size t <? ep) eqn:E; [apply Z.ltb_lt in E|]; lia).
  destruct ((needed_below sp =? 0) && (needed_above ep (t_size t) =? 0)) eqn:E.
  - (* no growth *)
    injection Hm as <-. apply andb_true_iff in E. destruct E as [E1 E2]. apply Z.eqb_eq in E1, E2.
    assert (0 <= sp) by (unfold needed_below in E1; destruct (sp <? 0) eqn:X; [apply Z.ltb_lt in X; lia|apply Z.ltb_ge in X; lia]).
    assert (ep <= t_size t) by (unfold needed_above in E2; destruct (t_size t <? ep) eqn:X; [apply Z.ltb_lt in X; lia|apply Z.ltb_ge in X; lia]).
    exists base. split; [|split; [unfold sp, ep in *; lia|lia]].
    destruct HI as [H1 H2 H3 H4 H5 H6]. constructor; simpl; try assumption.
    intros k Hk. apply orb_true_iff in Hk. destruct Hk as [Hk|Hk]; [|apply H6; exact Hk].
    apply andb_true_iff in Hk. destruct Hk as [K1 K2]. apply Z.leb_le in K1. apply Z.ltb_lt in K2.
    unfold sp, ep in *. lia.
  - (* growth *)
    assert (Hpos : 0 < needed_below sp + needed_above ep (t_size t)).
    { apply andb_false_iff in E. destruct E as [E|E]; apply Z.eqb_neq in E; lia. }
    pose proof (Hpol (t_size t) (needed_below sp) (needed_above ep (t_size t)) ltac:(lia) Hnb Hna Hpos) as HP.
    destruct (pol (t_size t) (needed_below sp) (needed_above ep (t_size t))) as [ns ab].
    destruct HP as [P1 [P2 P3]].
    destruct (SIZE_LIMIT <=? ns) eqn:L; [discriminate|apply Z.leb_gt in L].
    destruct ok; [|discriminate]. simpl in Hm. injection Hm as <-.
    exists (base + ab).
    assert (Hsp : 0 <= sp + ab) by (unfold needed_below in P1; destruct (sp <? 0) eqn:X; [apply Z.ltb_lt in X|apply Z.ltb_ge in X]; lia).
    assert (Hep : ep + ab <= ns) by (unfold needed_above in P2; destruct (t_size t <? ep) eqn:X; [apply Z.ltb_lt in X|apply Z.ltb_ge in X]; lia).
    split; [|split; [unfold sp, ep in *; simpl; lia|simpl; lia]].
    destruct HI as [H1 H2 H3 H4 H5 H6]. constructor; simpl.
    + lia.
    + lia.
    + rewrite H3. rewrite wrap_wrap_add. f_equal. lia.
    + assumption.
    + intros k. rewrite H5.
      replace (k + (base + ab) - ab) with (k + base) by lia.
      destruct ((0 <=? k + base) && (k + base <? t_size t)) eqn:X.
      * apply andb_true_iff in X. destruct X as [X1 X2]. apply Z.leb_le in X1. apply Z.ltb_lt in X2.
        assert (Y1 : (0 <=? k + (base + ab)) = true) by (apply Z.leb_le; lia).
        assert (Y2 : (k + (base + ab) <? ns) = true) by (apply Z.ltb_lt; lia).
        assert (Y3 : (ab <=? k + (base + ab)) = true) by (apply Z.leb_le; lia).
        assert (Y4 : (k + (base + ab) <? ab + t_size t) = true) by (apply Z.ltb_lt; lia).
        rewrite Y1, Y2, Y3, Y4. reflexivity.
      * destruct ((0 <=? k + (base + ab)) && (k + (base + ab) <? ns)); [|reflexivity].
        destruct ((ab <=? k + (base + ab)) && (k + (base + ab) <? ab + t_size t)) eqn:Y; [|reflexivity].
        exfalso. apply andb_true_iff in Y. destruct Y as [Y1 Y2]. apply Z.leb_le in Y1. apply Z.ltb_lt in Y2.
        apply andb_false_iff in X. destruct X as [X|X]; [apply Z.leb_gt in X|apply Z.ltb_ge in X]; lia.
    + intros k Hk. apply orb_true_iff in Hk. destruct Hk as [Hk|Hk].
      * apply andb_true_iff in Hk. destruct Hk as [K1 K2]. apply Z.leb_le in K1. apply Z.ltb_lt in K2.
        unfold sp, ep in *. lia.
      * apply H6 in Hk. lia.
Qed.

Lemma make_accessible_no_oob : forall pol ok t a b i, t_make_accessible pol ok t a b <> RawOob i.
Proof.
  intros pol ok t a b i. unfold t_make_accessible.
  destruct ((needed_below (to_signed (t_off t) + a) =? 0) && (needed_above (to_signed (t_off t) + b) (t_size t) =? 0)); [discriminate|].
  destruct (pol (t_size t) _ _) as [ns ab]. destruct (SIZE_LIMIT <=? ns); [discriminate|].
  destruct (negb ok); discriminate.
Qed.

(** a result is "safe" when it is not a raw out-of-bounds access *)
Definition not_oob {A} (r : tres A) : Prop := match r with RawOob _ => False | _ => True end.

Lemma write_inv : forall pol t s base o v ok,
  PolicyOK pol -> Inv t s base -> - MAG <= o <= MAG ->
  match t_write pol ok t o v with
  | TOk t' => exists base', Inv t' {| s_cells := fun i => if i =? s_pos s + o then v else s_cells s i; s_pos := s_pos s;
                                       s_acc := (s_pos s + o, s_pos s + o + 1) :: s_acc s |} base'
  | RawOob _ => False
  | _ => True
  end.
Proof.
  intros pol t s base o v ok Hpol HI Ho. unfold t_write.
  pose proof (check_spec t s base HI o Ho) as C. unfold t_check in C. rewrite C.
  destruct ((0 <=? s_pos s + o + base) && (s_pos s + o + base <? t_size t)) eqn:E.
  - apply andb_true_iff in E. destruct E as [E1 E2]. apply Z.leb_le in E1. apply Z.ltb_lt in E2.
    destruct (raw_write_inv t s base HI o v Ho ltac:(lia)) as [t' [Hw Hi]]. rewrite Hw. exists base. exact Hi.
  - destruct (t_make_accessible pol ok t o (o + 1)) as [t1|idx| |] eqn:M.
    + destruct (grow_inv pol t s base o (o + 1) ok t1 Hpol HI M) as [base' [Hi [R1 R2]]].
      assert (HI1 : Inv t1 s base').
      { destruct Hi as [A1 A2 A3 A4 A5 A6]. constructor; simpl in *; try assumption.
        intros k Hk. apply A6. apply orb_true_iff. right. exact Hk. }
      destruct (raw_write_inv t1 s base' HI1 o v Ho ltac:(lia)) as [t' [Hw Hi']]. rewrite Hw. exists base'. exact Hi'.
    + exfalso. exact (make_accessible_no_oob _ _ _ _ _ _ M).
    + exact I.
    + exact I.
Qed.

(** ** whole histories *)
Lemma run_inv : forall pol, PolicyOK pol -> forall ops t s base allocs,
  Inv t s base -> ops_small ops (s_pos s) = true ->
  match t_run pol ops allocs t with
  | TOk (obs, tf) => all_match obs (fst (s_run ops s)) = true /\ exists base', Inv tf (snd (s_run ops s)) base'
  | RawOob _ => False
  | _ => True
  end.
Proof.
  intros pol Hpol. induction ops as [|op rest IH]; intros t s base allocs HI Hsm.
  - simpl. split; [reflexivity|exists base; exact HI].
  - destruct op as [d|o|o v|a b|o]; cbn [t_run s_run ops_small] in *.
    + (* TMov *)
      apply andb_true_iff in Hsm. destruct Hsm as [Hsm Hr]. apply andb_true_iff in Hsm. destruct Hsm as [Hd Hpd].
      apply small_spec in Hd, Hpd.
      pose proof (mov_inv t s base HI d Hpd) as HI'.
      specialize (IH (t_mov t d) _ base allocs HI' Hr). simpl in IH.
      destruct (s_run rest _) as [sobs sf] eqn:SR.
      destruct (t_run pol rest allocs (t_mov t d)) as [[obs tf]| | |]; simpl in *; try assumption; try exact I.
    + (* TRead *)
      apply andb_true_iff in Hsm. destruct Hsm as [Ho Hr]. apply small_spec in Ho.
      specialize (IH t s base allocs HI Hr).
      destruct (s_run rest s) as [sobs sf] eqn:SR.
      destruct (t_run pol rest allocs t) as [[obs tf]| | |]; simpl in *; try assumption; try exact I.
      destruct IH as [IH1 IH2]. split; [|exact IH2].
      rewrite (read_spec t s base HI o Ho), Z.eqb_refl. exact IH1.
    + (* TWrite *)
      apply andb_true_iff in Hsm. destruct Hsm as [Ho Hr]. apply small_spec in Ho.
      destruct (if t_check t o then (true, allocs) else next_alloc allocs) as [ok allocs'].
      pose proof (write_inv pol t s base o v ok Hpol HI Ho) as W.
      destruct (t_write pol ok t o v) as [t'| | |]; try exact I; try contradiction.
      destruct W as [base' HI'].
      specialize (IH t' _ base' allocs' HI' Hr). simpl in IH.
      destruct (s_run rest _) as [sobs sf] eqn:SR.
      destruct (t_run pol rest allocs' t') as [[obs tf]| | |]; simpl in *; try assumption; try exact I.
    + (* TAcc *)
      apply andb_true_iff in Hsm. destruct Hsm as [Hsm Hr].
      destruct (if grows t a b then next_alloc allocs else (true, allocs)) as [ok allocs'].
      destruct (t_make_accessible pol ok t a b) as [t'|idx| |] eqn:M; try exact I.
      * destruct (grow_inv pol t s base a b ok t' Hpol HI M) as [base' [HI' _]].
        specialize (IH t' _ base' allocs' HI' Hr). simpl in IH.
        destruct (s_run rest _) as [sobs sf] eqn:SR.
        destruct (t_run pol rest allocs' t') as [[obs tf]| | |]; simpl in *; try assumption; try exact I.
      * exact (make_accessible_no_oob _ _ _ _ _ _ M).
    + (* TCheck *)
      apply andb_true_iff in Hsm. destruct Hsm as [Ho Hr]. apply small_spec in Ho.
      specialize (IH t s base allocs HI Hr).
      destruct (s_run rest s) as [sobs sf] eqn:SR.
      destruct (t_run pol rest allocs t) as [[obs tf]| | |]; simpl in *; try assumption; try exact I.
      destruct IH as [IH1 IH2]. split; [|exact IH2].
      apply andb_true_iff. split; [|exact IH1].
      destruct (in_acc (s_acc s) (s_pos s + o)) eqn:A; [|reflexivity].
      rewrite (check_acc t s base HI o Ho A). reflexivity.
Qed.

Theorem tape_refines : forall pol, PolicyOK pol -> forall ops allocs obs tf,
  ops_small ops 0 = true -> t_run pol ops allocs rtape0 = TOk (obs, tf) ->
  all_match obs (fst (s_run ops spec0)) = true.
Proof.
  intros pol Hpol ops allocs obs tf Hsm Hrun.
  pose proof (run_inv pol Hpol ops rtape0 spec0 0 allocs inv0 Hsm) as H. rewrite Hrun in H. apply H.
Qed.

Theorem raw_in_bounds : forall pol, PolicyOK pol -> forall ops allocs i,
  ops_small ops 0 = true -> t_run pol ops allocs rtape0 <> RawOob i.
Proof.
  intros pol Hpol ops allocs i Hsm Hrun.
  pose proof (run_inv pol Hpol ops rtape0 spec0 0 allocs inv0 Hsm) as H. rewrite Hrun in H. exact H.
Qed.

(** reads never allocate and never change the tape *)
Theorem read_pure : forall pol o rest allocs t,
  t_run pol (TRead o :: rest) allocs t =
  match t_run pol rest allocs t with
  | TOk (obs, tf) => TOk (ORead (t_read t o) :: obs, tf)
  | RawOob i => RawOob i | TooLarge => TooLarge | AllocFail => AllocFail
  end.
Proof. reflexivity. Qed.

(** a requested range tests accessible afterwards; growth preserves contents and pointer *)
Theorem accessible_after : forall pol t s base a b ok t', PolicyOK pol -> Inv t s base ->
  t_make_accessible pol ok t a b = TOk t' ->
  forall k, - MAG <= k <= MAG -> a <= k < b -> t_check t' k = true.
Proof.
  intros pol t s base a b ok t' Hpol HI M k Hk Hab.
  destruct (grow_inv pol t s base a b ok t' Hpol HI M) as [base' [HI' _]].
  apply (check_acc t' _ base' HI' k Hk). simpl.
  apply orb_true_iff. left. apply andb_true_iff. split; [apply Z.leb_le|apply Z.ltb_lt]; lia.
Qed.

Theorem grow_preserves : forall pol t s base a b ok t', PolicyOK pol -> Inv t s base ->
  t_make_accessible pol ok t a b = TOk t' ->
  forall k, - MAG <= k <= MAG -> t_read t' k = t_read t k.
Proof.
  intros pol t s base a b ok t' Hpol HI M k Hk.
  destruct (grow_inv pol t s base a b ok t' Hpol HI M) as [base' [HI' _]].
  rewrite (read_spec t' _ base' HI' k Hk), (read_spec t s base HI k Hk). reflexivity.
Qed.

(** C17: whatever the allocator answers, the run either completes, leaves the model
    (size limit) or aborts at the refused request; it never dereferences an index outside
    the buffer it owns *)
Theorem alloc_fail_safe : forall pol, PolicyOK pol -> forall ops allocs,
  ops_small ops 0 = true ->
  match t_run pol ops allocs rtape0 with RawOob _ => False | _ => True end.
Proof.
  intros pol Hpol ops allocs Hsm.
  pose proof (run_inv pol Hpol ops rtape0 spec0 0 allocs inv0 Hsm) as H.
  destruct (t_run pol ops allocs rtape0) as [[obs tf]| | |]; try exact I. exact H.
Qed.

(** a refused allocation ends the run at that request: nothing after it is executed *)
Theorem alloc_fail_stops : forall pol t a b rest allocs,
  grows t a b = true ->
  t_run pol (TAcc a b :: rest) (false :: allocs) t = AllocFail \/
  t_run pol (TAcc a b :: rest) (false :: allocs) t = TooLarge.
Proof.
  intros pol t a b rest allocs Hg. cbn [t_run]. rewrite Hg. cbn [next_alloc].
  unfold grows in Hg. apply negb_true_iff in Hg.
  unfold t_make_accessible. rewrite Hg.
  destruct (pol (t_size t) _ _) as [ns ab]. destruct (SIZE_LIMIT <=? ns); [right|left]; reflexivity.
Qed.

(** * Level0Back.v — the converse of [Level0Proofs]: if the IR interpreter terminates (or is
    stopped by an I/O failure) on the parser's output, so does the canonical run — hence a
    canonically divergent program diverges at level 0 too (C05 at level 0), and the two runs agree
    whenever either of them ends.

    Method: the forward simulation ([sim_main]) is reused.  Only *termination* of the canonical
    run has to be shown, by induction on the syntax tree and, for loops, on the fuel of the IR
    loop; the relation between the final states then comes from [sim_main] and determinism of
    [ir_exec].  [-]-like loops need the one arithmetic fact that an odd step reaches 0 modulo 2^w. *)
From Coq Require Import ZArith List Bool Lia Arith Sorted.
From HPBF Require Import Cell IO BF Expr IR Parse Machines MachineProofs BigStepProofs InplaceProofs CellProofs Level0Proofs.
Import ListNotations.
Open Scope Z_scope.

Local Arguments Z.mul : simpl never.
Local Arguments Z.add : simpl never.
Local Arguments Z.sub : simpl never.
Local Arguments Z.pow : simpl never.
Local Arguments Z.modulo : simpl never.

(** ** determinism and decomposition of IR runs *)
Lemma ir_det : forall w e f g p s o1 o2, ir_exec w e false f p s = o1 -> iterminal o1 ->
  ir_exec w e false g p s = o2 -> iterminal o2 -> o1 = o2.
Proof.
  intros w e f g p s o1 o2 H1 T1 H2 T2.
  rewrite <- (ir_exec_mono w e f p s o1 H1 T1 (f + g)%nat ltac:(lia)).
  rewrite <- (ir_exec_mono w e g p s o2 H2 T2 (f + g)%nat ltac:(lia)). reflexivity.
Qed.

Lemma ir_exec_app_inv : forall w e f a b s o, ir_exec w e false f (a ++ b) s = o -> iterminal o ->
  (exists s1, ir_exec w e false f a s = Done s1 /\ ir_exec w e false f b s1 = o) \/
  (exists s1, ir_exec w e false f a s = Stopped s1 /\ o = Stopped s1).
Proof.
  intros w e f. induction f as [|f IH]; intros a b s o H T.
  - simpl in H. subst o. contradiction.
  - destruct a as [|i a].
    + left. exists s. split; [reflexivity|exact H].
    + set (R := ir_exec w e false (S f) b). cbn [app ir_exec] in H |- *.
      assert (FIN : forall s1 : irst, ir_exec w e false f b s1 = o -> R s1 = o).
      { intros s1 B. subst R. apply (ir_exec_mono w e f b s1 o B T). lia. }
      assert (STEP : forall a' s', ir_exec w e false f (a' ++ b) s' = o ->
                (exists s1, ir_exec w e false f a' s' = Done s1 /\ R s1 = o) \/
                (exists s1, ir_exec w e false f a' s' = Stopped s1 /\ o = Stopped s1)).
      { intros a' s' H'. destruct (IH a' b s' o H' T) as [[s1 [A B]]|[s1 [A B]]];
          [left; exists s1; split; [exact A|apply FIN; exact B]|right; exists s1; split; assumption]. }
      destruct i as [src|dst|calcs|cond shift body once|cond shift body].
      * destruct (do_output e (ir_io s) _) as [u i0|i0]; [apply STEP; exact H|].
        right. exists (ir_set_io s i0). split; [reflexivity|symmetry; exact H].
      * destruct (do_input e (ir_io s)) as [u i0|i0]; [apply STEP; exact H|].
        right. exists (ir_set_io s i0). split; [reflexivity|symmetry; exact H].
      * apply STEP; exact H.
      * destruct (ir_read s cond =? 0); [apply STEP; exact H|].
        pose proof (ir_unlimited_outcomes w e f body s) as NB.
        destruct (ir_exec w e false f body s) as [s2|s2|s2|q s2|s2]; try contradiction.
        -- change (ILoop cond shift body once :: a ++ b) with ((ILoop cond shift body once :: a) ++ b) in H.
           apply STEP; exact H.
        -- right. exists s2. split; [reflexivity|symmetry; exact H].
        -- subst o. contradiction.
      * destruct (ir_read s cond =? 0); [apply STEP; exact H|].
        pose proof (ir_unlimited_outcomes w e f body s) as NB.
        destruct (ir_exec w e false f body s) as [s2|s2|s2|q s2|s2]; try contradiction.
        -- apply STEP; exact H.
        -- right. exists s2. split; [reflexivity|symmetry; exact H].
        -- subst o. contradiction.
Qed.

(** ** composing canonical derivations *)
Lemma bs_app : forall w e a s s1, bs w e a s (Done s1) -> forall b o, bs w e b s1 o -> bs w e (a ++ b) s o.
Proof.
  intros w e a. induction a as [|c a IH]; intros s s1 H b o Hb.
  - inversion H; subst. exact Hb.
  - cbn [app]. inversion H; subst.
    + eapply bs_ok; [eassumption|eassumption|]. eapply IH; eassumption.
    + eapply bs_loop_done; [eassumption|]. eapply IH; eassumption.
Qed.

Lemma bs_app_stop : forall w e a s s1, bs w e a s (Stopped s1) -> forall b, bs w e (a ++ b) s (Stopped s1).
Proof.
  intros w e a. induction a as [|c a IH]; intros s s1 H b.
  - inversion H.
  - cbn [app]. inversion H; subst.
    + eapply bs_ok; [eassumption|eassumption|]. eapply IH; eassumption.
    + eapply bs_fail; eassumption.
    + eapply bs_loop_done; [eassumption|]. eapply IH; eassumption.
    + eapply bs_loop_stop; eassumption.
Qed.

Lemma bs_terminal : forall w e,
  (forall p s o, bs w e p s o -> terminal o) /\ (forall body s o, ls w e body s o -> terminal o).
Proof. intros w e. apply bs_ls_ind; intros; try exact I; assumption. Qed.

(** a derivation is a run with enough fuel *)
Lemma bs_exec :
  forall w e,
  (forall p s o, bs w e p s o -> exists f, bf_exec w e f p s = o) /\
  (forall body s o, ls w e body s o -> forall rest,
     match o with
     | Done s1 => forall f2 o2, bf_exec w e f2 rest s1 = o2 -> terminal o2 -> exists f, bf_exec w e f (Loop body :: rest) s = o2
     | Stopped s1 => exists f, bf_exec w e f (Loop body :: rest) s = Stopped s1
     | _ => True
     end).
Proof.
  intros w e. apply bs_ls_ind.
  - intros s. exists 1%nat. reflexivity.
  - intros c rest s s1 o NL SM _ [f Hf]. exists (S f). cbn [bf_exec].
    destruct c; try discriminate; rewrite SM; exact Hf.
  - intros c rest s s1 NL SM. exists 1%nat. cbn [bf_exec]. destruct c; try discriminate; rewrite SM; reflexivity.
  - intros body rest s s1 o _ IHL Hb [f2 H2].
    exact (IHL rest f2 o H2 (proj1 (bs_terminal w e) _ _ _ Hb)).
  - intros body rest s s1 _ IHL. exact (IHL rest).
  - intros body s C0 rest f2 o2 H2 T2. exists (S f2). cbn [bf_exec]. rewrite C0. exact H2.
  - intros body s s1 o C0 _ [fb Hb] _ IHL rest.
    destruct o as [s'|s'|s'|q s'|s']; try exact I.
    + intros f2 o2 H2 T2. destruct (IHL rest f2 o2 H2 T2) as [f3 H3].
      exists (S (fb + f3)). cbn [bf_exec]. rewrite C0.
      rewrite (bf_exec_mono w e fb body s _ Hb I (fb + f3)%nat ltac:(lia)).
      apply (bf_exec_mono w e f3 _ _ _ H3 T2). lia.
    + destruct (IHL rest) as [f3 H3].
      exists (S (fb + f3)). cbn [bf_exec]. rewrite C0.
      rewrite (bf_exec_mono w e fb body s _ Hb I (fb + f3)%nat ltac:(lia)).
      apply (bf_exec_mono w e f3 _ _ _ H3 I). lia.
  - intros body s s1 C0 _ [fb Hb] rest. exists (S fb). cbn [bf_exec]. rewrite C0, Hb. reflexivity.
Qed.

(** ** a loop whose body adds an odd constant to the current cell terminates *)
Section ClearLoop.
Variable w : Z.
Variable e : env.
Hypothesis Hw : 1 <= w.
Variable body : list cmd.
Variable inc : Z.
Hypothesis Hodd : Z.odd inc = true.

Definition cnormal (s : bfst) : Prop := forall a, 0 <= tget (tape s) a < 2 ^ w.

(** the body, from any normalised state, adds [inc] to the current cell and changes nothing else *)
Hypothesis BodyEff : forall s, cnormal s -> exists s1, bs w e body s (Done s1) /\
  ptr s1 = ptr s /\ io s1 = io s /\ (forall a, a <> ptr s -> tget (tape s1) a = tget (tape s) a) /\
  cur s1 = norm w (cur s + inc) /\ cnormal s1.

Let M := 2 ^ w.
Let u := inc ^ (2 ^ (w - 1) - 1).

Lemma M_pos : 0 < M. Proof. apply pow2_pos. lia. Qed.

Lemma inc_u : (inc * u) mod M = 1.
Proof. apply odd_inverse; assumption. Qed.

(** number of iterations still to go *)
Definition togo (v : Z) : Z := (- v * u) mod M.

Lemma togo_zero : forall v, 0 <= v < M -> togo v = 0 -> v = 0.
Proof.
  intros v Hv H. unfold togo in H. pose proof M_pos as MP.
  assert (E : (v * u) mod M = 0).
  { rewrite Z.mul_opp_l in H. destruct (Z.eq_dec ((v * u) mod M) 0) as [Z0|NZ]; [exact Z0|].
    assert (MN : M <> 0) by lia. rewrite (Z.mod_opp_l_nz (v * u) M MN NZ) in H. pose proof (Z.mod_pos_bound (v * u) M MP). lia. }
  assert (V : v mod M = ((v * u) mod M * inc) mod M).
  { rewrite Z.mul_mod_idemp_l by lia. replace (v * u * inc) with (v * (inc * u)) by ring.
    rewrite <- Z.mul_mod_idemp_r by lia. rewrite inc_u, Z.mul_1_r. reflexivity. }
  rewrite E, Z.mul_0_l, Z.mod_0_l in V by lia. rewrite Z.mod_small in V by exact Hv. exact V.
Qed.

Lemma togo_step : forall v, 0 < togo v -> togo ((v + inc) mod M) = togo v - 1.
Proof.
  intros v H. unfold togo in *. pose proof M_pos as MP.
  assert (E1 : (- ((v + inc) mod M) * u) mod M = (- (v + inc) * u) mod M).
  { rewrite !Z.mul_opp_l.
    assert (MN : M <> 0) by lia.
    assert (E0 : ((v + inc) mod M * u) mod M = ((v + inc) * u) mod M) by (apply Z.mul_mod_idemp_l; exact MN).
    destruct (Z.eq_dec (((v + inc) * u) mod M) 0) as [Z0|NZ].
    - rewrite (Z.mod_opp_l_z ((v + inc) * u) M MN Z0). rewrite <- E0 in Z0.
      rewrite (Z.mod_opp_l_z _ M MN Z0). reflexivity.
    - rewrite (Z.mod_opp_l_nz ((v + inc) * u) M MN NZ). rewrite <- E0 in NZ.
      rewrite (Z.mod_opp_l_nz _ M MN NZ). rewrite E0. reflexivity. }
  rewrite E1. replace (- (v + inc) * u) with (- v * u - inc * u) by ring.
  rewrite Zminus_mod, inc_u. pose proof (Z.mod_pos_bound (- v * u) M MP) as B.
  apply Z.mod_small. lia.
Qed.

Lemma clear_terminates_n : forall n s, cnormal s -> togo (cur s) = Z.of_nat n ->
  exists s', ls w e body s (Done s') /\ ptr s' = ptr s /\ io s' = io s /\
    (forall a, a <> ptr s -> tget (tape s') a = tget (tape s) a) /\ cur s' = 0 /\ cnormal s'.
Proof.
  induction n as [|n IH]; intros s N T.
  - assert (C0 : cur s = 0) by (apply togo_zero; [apply N|exact T]).
    exists s. split; [apply ls_exit; apply Z.eqb_eq; exact C0|]. repeat split; try reflexivity; try apply N. exact C0.
  - assert (CN : (cur s =? 0) = false).
    { apply Z.eqb_neq. intros C0. rewrite C0 in T. unfold togo in T. rewrite Z.mul_0_l, Z.mod_0_l in T by (pose proof M_pos; lia). lia. }
    destruct (BodyEff s N) as (s1 & B & P1 & I1 & T1 & C1 & N1).
    assert (T' : togo (cur s1) = Z.of_nat n).
    { rewrite C1. unfold norm. fold M. rewrite togo_step by lia. lia. }
    destruct (IH s1 N1 T') as (s' & L & P' & I' & Tp & C' & N').
    exists s'. split; [eapply ls_iter; eassumption|]. split; [lia|]. split; [congruence|]. split; [|split; assumption].
    intros a Na. rewrite Tp by lia. apply T1. exact Na.
Qed.

Lemma clear_terminates : forall s, cnormal s ->
  exists s', ls w e body s (Done s') /\ ptr s' = ptr s /\ io s' = io s /\
    (forall a, a <> ptr s -> tget (tape s') a = tget (tape s) a) /\ cur s' = 0 /\ cnormal s'.
Proof.
  intros s N. apply (clear_terminates_n (Z.to_nat (togo (cur s))) s N).
  rewrite Z2Nat.id; [reflexivity|]. unfold togo. apply Z.mod_pos_bound. apply M_pos.
Qed.
End ClearLoop.

(** ** termination of the canonical run from termination of the IR run *)
Lemma nz_single_val : forall (l : buff) sh ex, nz l = [ICalc [(sh, ex)]] ->
  exists v, List.In (sh, v) l /\ ex = [(v, []); (1, [sh])].
Proof.
  induction l as [|[k0 v0] l IH]; intros sh ex H; [discriminate|].
  unfold nz in H. cbn [flat_map fst snd] in H. fold (nz l) in H. unfold adds_of in H.
  destruct (v0 =? 0) eqn:E.
  - destruct (IH sh ex H) as (v & HI & EX). exists v. split; [right; exact HI|exact EX].
  - cbn [app] in H. unfold i_add in H. injection H as E1 E2 E3. subst. exists v0. split; [left; reflexivity|reflexivity].
Qed.

Lemma clear_loop_inc : forall w sub sh, head_ok (f_insts sub) -> bsorted (f_buff sub) ->
  is_clear_loop w sub (sub_insts_of sub) sh = true -> Z.odd (buff_val (f_buff sub) sh) = true.
Proof.
  intros w sub sh HO SO H.
  destruct (clear_loop_shape w sub sh HO H) as (M1 & SH & EI & BV).
  unfold is_clear_loop in H. apply andb_prop in H. destruct H as [_ H3].
  unfold sub_insts_of in H3. rewrite flush_nonzero_nz, rev_app_distr, rev_involutive, EI in H3.
  fold (nz (f_buff sub)) in H3. cbn [rev app] in H3.
  destruct (nz (f_buff sub)) as [|y l'] eqn:E; [discriminate|].
  destruct y as [| |calcs| |]; try discriminate. destruct calcs as [|[var ex] [|c2 cs]]; try discriminate.
  destruct l' as [|y2 t]; [|discriminate].
  apply andb_prop in H3. destruct H3 as [Hv Hc]. apply Z.eqb_eq in Hv. subst var.
  destruct (nz_single_val _ _ _ E) as (v & HI & EX). subst ex.
  cbn [e_const_inc_of] in Hc. rewrite !Z.eqb_refl in Hc. cbn [andb] in Hc. cbv iota beta in Hc.
  rewrite (buff_val_in _ _ _ SO HI). rewrite <- is_odd_spec. exact Hc.
Qed.

Section Back.
Variable w : Z.
Variable e : env.
Hypothesis Hw1 : 1 <= w.

Lemma Hw0 : 0 <= w. Proof. lia. Qed.

Definition BT (p : list cmd) : Prop :=
  forall F sI sC ctx new fi o', Rf w ctx F sI sC -> SC ctx (comp w p F) (ir_ptr sI) ->
    f_insts (comp w p F) = new ++ f_insts F -> ir_exec w e false fi (rev new) sI = o' -> iterminal o' ->
    exists o, bs w e p sC o.

Lemma SC_mono : forall ctx rest F1 base, SC ctx (comp w rest F1) base -> SC ctx F1 base.
Proof.
  intros ctx rest F1 base [A B]. split.
  - intros M k Hk. destruct (f_moved (comp w rest F1)) eqn:MF; [apply B; reflexivity|].
    apply A; [reflexivity|apply comp_keys; exact Hk].
  - intros M. apply B. apply comp_moved. exact M.
Qed.

(** the forward simulation, as used below *)
Lemma fwd : forall p sC o, bs w e p sC o -> ConclP w e p sC o.
Proof. intros. apply (proj1 (sim_main w e Hw0)). assumption. Qed.

(** iterations of a real loop *)
Lemma loop_back : forall body, BT body -> forall fi sh sI sC ctx o',
  let sub := comp w body (frame0 sh) in
  Rp w ctx sh (fun _ => 0) sI sC ->
  (moves_of sub sh = false -> forall k, List.In k (keys (f_buff sub)) -> ctx (ir_ptr sI + k) = 0) ->
  (moves_of sub sh = true -> forall a, ctx a = 0) ->
  (moves_of sub sh = false -> ctx (ir_ptr sI + sh) = 0) ->
  ir_exec w e false fi [the_loop sub sh] sI = o' -> iterminal o' ->
  exists o, ls w e body sC o.
Proof.
  intros body HB fi. induction fi as [|n IH]; intros sh sI sC ctx o' sub H K0 KA KC X T.
  - cbn in X. subst o'. contradiction.
  - assert (CZ : ctx (ir_ptr sI + sh) = 0) by (destruct (moves_of sub sh); [apply KA; reflexivity|apply KC; reflexivity]).
    pose proof (cond_agree w ctx sh sI sC H CZ) as CA.
    destruct (cur sC =? 0) eqn:C0; [eexists; apply ls_exit; exact C0|].
    unfold the_loop in X. cbn [ir_exec] in X. rewrite <- CA in X. fold (the_loop sub sh) in X.
    pose proof (ir_unlimited_outcomes w e n (sub_insts_of sub) sI) as NB.
    destruct (ir_exec w e false n (sub_insts_of sub) sI) as [s2|s2|s2|q s2|s2] eqn:XB; try contradiction;
      [| |subst o'; contradiction].
    + (* the body's code ran to its end *)
      assert (SCs : SC ctx sub (ir_ptr sI)).
      { unfold moves_of in *. split.
        - intros M. destruct (f_shift sub =? sh) eqn:E; cbn [negb] in *.
          + intros k HI. apply K0; [rewrite M; reflexivity|exact HI].
          + intros k HI. apply KA. rewrite M. reflexivity.
        - intros M. apply KA. rewrite M. reflexivity. }
      assert (XS : exists ob, iterminal ob /\ ir_exec w e false n (rev (f_insts sub)) sI = ob).
      { unfold sub_insts_of in XB. rewrite flush_nonzero_nz, rev_app_distr, rev_involutive in XB.
        destruct (ir_exec_app_inv w e n _ _ sI _ XB I) as [(s1 & A & _)|(s1 & A & Bad)]; [|discriminate].
        exists (Done s1). split; [exact I|exact A]. }
      destruct XS as (ob & Tob & Xob).
      destruct (HB (frame0 sh) sI sC ctx (f_insts sub) n ob (Rf_frame0 w ctx sh sI sC H) SCs
                  ltac:(cbn [frame0 f_insts]; rewrite app_nil_r; reflexivity) Xob Tob) as [obc Hbc].
      pose proof (proj1 (bs_terminal w e) _ _ _ Hbc) as Tbc.
      destruct obc as [s1|s1|s1|q s1|s1]; try contradiction.
      * destruct (body_iteration w e Hw0 body sh sI sC s1 ctx (fwd body sC _ Hbc) H K0 KA) as (f2 & s2' & X2 & R2 & P2).
        fold sub in X2, R2, P2.
        assert (E2 : Done s2 = Done s2') by (eapply ir_det; [exact XB|exact I|exact X2|exact I]).
        injection E2 as ->.
        destruct (IH sh (ir_move s2' (f_shift sub - sh)) s1 ctx o' R2) as [o Ho]; try assumption.
        -- intros M k Hk. rewrite (P2 M). apply K0; assumption.
        -- intros M. rewrite (P2 M). apply KC. exact M.
        -- exists o. eapply ls_iter; eassumption.
      * eexists. eapply ls_stop; eassumption.
    + (* stopped inside the body's code *)
      assert (SCs : SC ctx sub (ir_ptr sI)).
      { unfold moves_of in *. split.
        - intros M. destruct (f_shift sub =? sh) eqn:E; cbn [negb] in *.
          + intros k HI. apply K0; [rewrite M; reflexivity|exact HI].
          + intros k HI. apply KA. rewrite M. reflexivity.
        - intros M. apply KA. rewrite M. reflexivity. }
      assert (XS : exists ob, iterminal ob /\ ir_exec w e false n (rev (f_insts sub)) sI = ob).
      { unfold sub_insts_of in XB. rewrite flush_nonzero_nz, rev_app_distr, rev_involutive in XB.
        destruct (ir_exec_app_inv w e n _ _ sI _ XB I) as [(s1 & A & _)|(s1 & A & _)];
          [exists (Done s1)|exists (Stopped s1)]; (split; [exact I|exact A]). }
      destruct XS as (ob & Tob & Xob).
      destruct (HB (frame0 sh) sI sC ctx (f_insts sub) n ob (Rf_frame0 w ctx sh sI sC H) SCs
                  ltac:(cbn [frame0 f_insts]; rewrite app_nil_r; reflexivity) Xob Tob) as [obc Hbc].
      pose proof (proj1 (bs_terminal w e) _ _ _ Hbc) as Tbc.
      destruct obc as [s1|s1|s1|q s1|s1]; try contradiction.
      * (* the canonical body ends normally: then so does its code, contradiction *)
        destruct (body_iteration w e Hw0 body sh sI sC s1 ctx (fwd body sC _ Hbc) H K0 KA) as (f2 & s2' & X2 & _).
        fold sub in X2. exfalso.
        assert (E2 : Stopped s2 = Done s2') by (eapply ir_det; [exact XB|exact I|exact X2|exact I]). discriminate.
      * eexists. eapply ls_stop; eassumption.
Qed.

Definition gen_frame (sub F : frame) : frame :=
  {| f_shift := f_shift F; f_moved := f_moved F || moves_of sub (f_shift F);
     f_insts := ILoop (f_shift F) (f_shift sub - f_shift F) (sub_insts_of sub) false :: fst (cl_st3 sub F);
     f_buff := snd (cl_st3 sub F) |}.

(** what the loop sees of the enclosing frames once the parent has flushed *)
Lemma loop_setup : forall ctx sub F rest sI s sI3,
  SC ctx (comp w rest (gen_frame sub F)) (ir_ptr sI) -> ir_ptr sI3 = ir_ptr sI ->
  Rp w ctx (f_shift F) (buff_val (snd (cl_st3 sub F))) sI3 s ->
  let ctxQ := fun a => buff_val (snd (cl_st3 sub F)) (a - ir_ptr sI3) + ctx a in
  Rp w ctxQ (f_shift F) (fun _ => 0) sI3 s /\
  (moves_of sub (f_shift F) = false -> forall k, List.In k (keys (f_buff sub)) -> ctxQ (ir_ptr sI3 + k) = 0) /\
  (moves_of sub (f_shift F) = true -> forall a, ctxQ a = 0) /\
  (moves_of sub (f_shift F) = false -> ctxQ (ir_ptr sI3 + f_shift F) = 0).
Proof.
  intros ctx sub F rest sI s sI3 SCH P3 R3 ctxQ.
  set (b3 := snd (cl_st3 sub F)) in *.
  assert (K3 : forall k, List.In k (keys (f_buff sub)) \/ k = f_shift F -> List.In k (keys (f_buff (comp w rest (gen_frame sub F))))).
  { intros k Hk. apply comp_keys. unfold gen_frame. cbn [f_buff]. rewrite cl_st3_snd. apply keys_set.
    destruct Hk as [Hk| ->]; [right; apply cl_st2_keys; left; exact Hk|left; reflexivity]. }
  split; [|split; [|split]].
  - destruct R3 as (A & B & C & D). split; [exact A|split; [exact B|split; [|exact D]]].
    intros a. rewrite C. subst ctxQ. cbv beta. f_equal. lia.
  - intros M k Hk. subst ctxQ. cbv beta. replace (ir_ptr sI3 + k - ir_ptr sI3) with k by lia.
    subst b3. rewrite cl_st3_val, M. apply mem_In in Hk. rewrite Hk.
    rewrite P3, (SC_zero_at _ _ _ k SCH (K3 k (or_introl (proj1 (mem_In _ _) Hk)))).
    destruct (f_shift F =? k); reflexivity.
  - intros M a. subst ctxQ. cbv beta. subst b3. rewrite cl_st3_val, M.
    destruct SCH as [_ SB]. rewrite SB; [destruct (f_shift F =? a - ir_ptr sI3); reflexivity|].
    apply comp_moved. unfold gen_frame. cbn [f_moved]. rewrite M. apply orb_true_r.
  - intros M. subst ctxQ. cbv beta. replace (ir_ptr sI3 + f_shift F - ir_ptr sI3) with (f_shift F) by lia.
    subst b3. rewrite cl_st3_val, Z.eqb_refl, P3, (SC_zero_at _ _ _ _ SCH (K3 _ (or_intror eq_refl))). reflexivity.
Qed.

Fixpoint csize (c : cmd) : nat :=
  match c with Loop b => S (list_sum (map csize b)) | _ => 1 end.
Definition psize (p : list cmd) : nat := list_sum (map csize p).

Lemma psize_cons : forall c p, psize (c :: p) = (csize c + psize p)%nat.
Proof. reflexivity. Qed.
Lemma csize_pos : forall c, (1 <= csize c)%nat.
Proof. destruct c; cbn; lia. Qed.

(** step 1 for a loop recognised as "set to zero" *)
Lemma clear_loop_back : forall body sh sC, BT body ->
  is_clear_loop w (comp w body (frame0 sh)) (sub_insts_of (comp w body (frame0 sh))) sh = true ->
  (forall a, 0 <= tget (tape sC) a < 2 ^ w) ->
  exists s1, ls w e body sC (Done s1).
Proof.
  intros body sh sC HB CL NM. set (sub := comp w body (frame0 sh)) in *.
  destruct (clear_loop_shape w sub sh (comp_head w body _ (frame0_head sh)) CL) as (M1 & SH & EI & BV).
  assert (EFF : forall s, cnormal w s -> exists s1, bs w e body s (Done s1) /\
            ptr s1 = ptr s /\ io s1 = io s /\ (forall a, a <> ptr s -> tget (tape s1) a = tget (tape s) a) /\
            cur s1 = norm w (cur s + buff_val (f_buff sub) sh) /\ cnormal w s1 /\ bsorted (f_buff sub)).
  { intros s N.
    destruct (HB (frame0 sh) (synth s sh) s (fun _ => 0) [] 1%nat (Done (synth s sh))
                (Rf_frame0 w _ sh _ s (synth_rel w s sh N)) (SC_zero _ _)) as [ob Hb].
    { fold sub. rewrite EI. reflexivity. }
    { reflexivity. }
    { exact I. }
    pose proof (fwd body s ob Hb (frame0 sh) (synth s sh) (fun _ => 0)
                  (Rf_frame0 w _ sh _ s (synth_rel w s sh N)) (SC_zero _ _)) as (new & EN & HO).
    fold sub in EN, HO. rewrite EI in EN. cbn [frame0 f_insts] in EN. destruct new as [|x new]; [|discriminate].
    destruct ob as [s1|s1|s1|q s1|s1]; try contradiction.
    - destruct HO as (fi & sI1 & X & [R1 S1] & P1). destruct fi as [|fi]; [discriminate|]. cbn [rev ir_exec] in X. injection X as <-.
      destruct R1 as (A1 & B1 & C1 & D1). unfold synth in *. cbn [ir_ptr ir_tape ir_io] in *.
      exists s1. split; [exact Hb|]. split; [lia|]. split; [exact B1|]. split; [|split; [|split; [|exact S1]]].
      + intros a Na. rewrite C1, BV by lia. rewrite !Z.add_0_r. apply norm_small, N.
      + unfold cur. rewrite C1. replace (ptr s1 - (ptr s - sh)) with sh by lia. rewrite Z.add_0_r.
        replace (ptr s1) with (ptr s) by lia. reflexivity.
      + intros a. rewrite C1. apply (norm_range w Hw0).
    - destruct HO as (fi & sI1 & X & _). destruct fi as [|fi]; discriminate. }
  destruct (EFF sC NM) as (s0 & _ & _ & _ & _ & _ & _ & SO).
  pose proof (clear_loop_inc w sub sh (comp_head w body _ (frame0_head sh)) SO CL) as ODD.
  destruct (clear_terminates w e Hw1 body (buff_val (f_buff sub) sh) ODD) with (s := sC) as (s' & L & _).
  - intros s N. destruct (EFF s N) as (s1 & A & B & C & D & E & F & _). exists s1. split; [exact A|split; [exact B|split; [exact C|split; [exact D|split; [exact E|exact F]]]]].
  - exact NM.
  - exists s'. exact L.
Qed.

Theorem BT_all : forall n p, (psize p <= n)%nat -> BT p.
Proof.
  induction n as [|n IHn]; intros p Hp.
  - destruct p as [|c p]; [|rewrite psize_cons in Hp; pose proof (csize_pos c); lia].
    intros F sI sC ctx new fi o' _ _ _ _ _. eexists. apply bs_nil.
  - destruct p as [|c rest]; [intros F sI sC ctx new fi o' _ _ _ _ _; eexists; apply bs_nil|].
    rewrite psize_cons in Hp. pose proof (csize_pos c) as CP.
    assert (BTr : BT rest) by (apply IHn; lia).
    intros F sI sC ctx new fi o' HR SCH EN X T. rewrite comp_cons in *.
    (* step 1: the first command alone terminates *)
    assert (S1 : exists o1, bs w e [c] sC o1).
    { destruct (is_loop c) eqn:NL.
      - destruct c as [| | | | | |body]; try discriminate.
        assert (BTb : BT body) by (apply IHn; cbn [csize] in Hp; fold (psize body) in Hp; lia).
        rewrite comp_loop in *. set (sub := comp w body (frame0 (f_shift F))) in *.
        assert (LS : exists o, ls w e body sC o).
        { destruct (is_clear_loop w sub (sub_insts_of sub) (f_shift F)) eqn:CL.
          - destruct HR as [HRp _]. destruct (clear_loop_back body (f_shift F) sC BTb CL (Rp_cnorm w Hw0 _ _ _ _ _ HRp)) as [s1 L].
            exists (Done s1). exact L.
          - rewrite (close_loop_general _ _ _ CL) in *. fold (gen_frame sub F) in *.
            destruct (close_flush w e Hw0 ctx sub F sI sC HR) as (adds & f3 & sI3 & EA & X3 & P3 & R3).
            destruct (comp_extends w rest (gen_frame sub F)) as [n2 E2].
            assert (NEW : new = n2 ++ the_loop sub (f_shift F) :: adds).
            { apply (app_inv_tail (f_insts F)). rewrite <- EN, E2. unfold gen_frame. cbn [f_insts]. rewrite EA.
              unfold the_loop. rewrite <- !app_assoc. reflexivity. }
            subst new. rewrite rev_app_distr in X. cbn [rev] in X.
            destruct (ir_exec_app_inv w e fi _ _ sI o' X T) as [(sA & XA & _)|(sA & XA & _)].
            + destruct (ir_exec_app_inv w e fi _ _ sI _ XA I) as [(sX & XX & XL)|(sX & XX & Bad)]; [|discriminate].
              assert (EX : Done sX = Done sI3) by (eapply ir_det; [exact XX|exact I|exact X3|exact I]). injection EX as ->.
              destruct (loop_setup ctx sub F rest sI sC sI3 SCH P3 R3) as (RQ & c1 & c2 & c3).
              apply (loop_back body BTb fi (f_shift F) sI3 sC _ (Done sA) RQ c1 c2 c3 XL I).
            + destruct (ir_exec_app_inv w e fi _ _ sI _ XA I) as [(sX & XX & XL)|(sX & XX & _)].
              * assert (EX : Done sX = Done sI3) by (eapply ir_det; [exact XX|exact I|exact X3|exact I]). injection EX as ->.
                destruct (loop_setup ctx sub F rest sI sC sI3 SCH P3 R3) as (RQ & c1 & c2 & c3).
                apply (loop_back body BTb fi (f_shift F) sI3 sC _ (Stopped sA) RQ c1 c2 c3 XL I).
              * exfalso. assert (EX : Stopped sX = Done sI3) by (eapply ir_det; [exact XX|exact I|exact X3|exact I]). discriminate. }
        destruct LS as [o L]. pose proof (proj2 (bs_terminal w e) _ _ _ L) as TL.
        destruct o as [s1|s1|s1|q s1|s1]; try contradiction.
        + exists (Done s1). eapply bs_loop_done; [exact L|apply bs_nil].
        + exists (Stopped s1). eapply bs_loop_stop; exact L.
      - destruct (bf_simple w e c sC) as [s1|s1] eqn:SM.
        + exists (Done s1). eapply bs_ok; [exact NL|exact SM|apply bs_nil].
        + exists (Stopped s1). eapply bs_fail; [exact NL|exact SM]. }
    (* step 2: continue with the rest *)
    destruct S1 as [o1 H1]. pose proof (proj1 (bs_terminal w e) _ _ _ H1) as T1.
    destruct o1 as [s1|s1|s1|q s1|s1]; try contradiction.
    + pose proof (fwd [c] sC _ H1 F sI ctx HR) as FW. cbn [comp fold_left] in FW. fold (comp w [] (comp_cmd w c F)) in FW.
      destruct (FW (SC_mono ctx rest _ _ SCH)) as (new1 & E1 & fi1 & sI1 & X1 & R1 & P1).
      destruct (comp_extends w rest (comp_cmd w c F)) as [n2 E2].
      assert (NEW : new = n2 ++ new1).
      { apply (app_inv_tail (f_insts F)). rewrite <- EN, E2, E1, app_assoc. reflexivity. }
      subst new. rewrite rev_app_distr in X.
      destruct (ir_exec_app_inv w e fi _ _ sI o' X T) as [(sX & XX & XR)|(sX & XX & _)].
      * assert (EX : Done sX = Done sI1) by (eapply ir_det; [exact XX|exact I|exact X1|exact I]). injection EX as ->.
        destruct (BTr (comp_cmd w c F) sI1 s1 ctx n2 fi o' R1) as [o Ho]; try assumption.
        { eapply SC_rebase; [exact SCH|]. intros M. apply P1.
          destruct (f_moved (comp_cmd w c F)) eqn:M1; [rewrite (comp_moved w rest _ M1) in M; discriminate|reflexivity]. }
        exists o. change (c :: rest) with ([c] ++ rest). eapply bs_app; eassumption.
      * exfalso. assert (EX : Stopped sX = Done sI1) by (eapply ir_det; [exact XX|exact I|exact X1|exact I]). discriminate.
    + exists (Stopped s1). change (c :: rest) with ([c] ++ rest). apply bs_app_stop. exact H1.
Qed.
End Back.

(** ** the level-0 pipeline, converse direction *)
Theorem level0_backward : forall w e src p blk fi o', 1 <= w ->
  ast_of_source src = Some p -> parse w src = POk blk ->
  ir_run w e false 0 fi blk = o' -> iterminal o' ->
  exists f o, bf_exec w e f p bf0 = o /\ terminal o /\ same_events o o'.
Proof.
  intros w e src p blk fi o' Hw1 HA HP HX T.
  rewrite (parse_comp w src p HA) in HP. injection HP as <-.
  unfold ir_run in HX. cbn [snd] in HX.
  set (fin := comp w p (frame0 0)) in *.
  assert (XS : exists ob, iterminal ob /\ ir_exec w e false fi (rev (f_insts fin)) (ir0 0) = ob).
  { rewrite flush_nonzero_nz, rev_app_distr, rev_involutive in HX.
    destruct (ir_exec_app_inv w e fi _ _ _ _ HX T) as [(s1 & A & _)|(s1 & A & _)];
      [exists (Done s1)|exists (Stopped s1)]; (split; [exact I|exact A]). }
  destruct XS as (ob & Tob & Xob).
  assert (Hw0' : 0 <= w) by lia.
  destruct (BT_all w e Hw1 (psize p) p (le_n _) (frame0 0) (ir0 0) bf0 (fun _ => 0) (f_insts fin) fi ob
              (Rf_frame0 w _ 0 _ _ (init_rel w Hw0')) (SC_zero _ _)) as [o Hb]; try assumption.
  { fold fin. cbn [frame0 f_insts]. rewrite app_nil_r. reflexivity. }
  destruct (proj1 (bs_exec w e) p bf0 o Hb) as [f Hf].
  pose proof (proj1 (bs_terminal w e) _ _ _ Hb) as To.
  exists f, o. split; [exact Hf|]. split; [exact To|].
  destruct (level0_correct w e src p f o Hw0' HA Hf To) as (blk' & fi' & o'' & HP' & HR' & SE).
  rewrite (parse_comp w src p HA) in HP'. injection HP' as <-.
  unfold ir_run in HR'. cbn [snd] in HR'. fold fin in HR'.
  assert (T'' : iterminal o'') by (destruct o; destruct o''; try contradiction; exact I).
  assert (E : o'' = o') by (eapply ir_det; [exact HR'|exact T''|exact HX|exact T]).
  rewrite <- E. exact SE.
Qed.

(** a canonically divergent program diverges at level 0 *)
Corollary level0_divergence : forall w e src p blk, 1 <= w ->
  ast_of_source src = Some p -> parse w src = POk blk ->
  (forall f, ~ terminal (bf_exec w e f p bf0)) ->
  forall fi, ~ iterminal (ir_run w e false 0 fi blk).
Proof.
  intros w e src p blk Hw1 HA HP D fi T.
  destruct (level0_backward w e src p blk fi _ Hw1 HA HP eq_refl T) as (f & o & Hf & To & _).
  apply (D f). rewrite Hf. exact To.
Qed.
